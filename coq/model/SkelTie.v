(** Executable comparison used by the fault-enumeration correspondence of the effect
    skeletons (C13, and C07/C10/C11 for their drivers): is an OBSERVED sequence of tracked
    calls (with the injected / natural exception marked on the call that raised) a run of
    the translated skeleton, was the fault inside the function's own clean-up (outside the
    property), and what does the model say about the final state?  Definitions only; this
    is validation of the call table, not part of any theorem. *)
From Coq Require Import List Bool Arith.
Import ListNotations.
From TI Require Import lib.Eff.

(** how an observed call ended *)
Inductive evfault := FNone | FBefore (k : exn) | FAfter (k : exn).

(** one observed tracked call: its class, a class-specific observation, its end *)
Record ev := mkev { ev_cls : nat; ev_arg : bool; ev_f : evfault }.

(** event class of an operation ([None]: never observed) *)
Definition cls_of (o : op) : option nat :=
  match o with
  | Snap RTermios _ => Some 0      (* termios.tcgetattr; arg: value read = attributes at entry *)
  | Put RTermios _ => Some 1       (* termios.tcsetattr; arg: value written = attributes at entry *)
  | TtyRead => Some 2
  | TtyWrite => Some 3
  | Select => Some 4
  | Drain => Some 5
  | Clock => Some 6
  | More => Some 7
  | Write _ => Some 8              (* stream write; arg unused *)
  | Flush => Some 9
  | Render | AnimNext => Some 10
  | Sleep => Some 11
  | HandleInterrupt => Some 12
  | Finalize => Some 13
  | _ => None
  end.

(** is the class-specific observation consistent with the model state? *)
Definition arg_ok (o : op) (s : st) (a : bool) : bool :=
  match o with
  | Snap RTermios _ => if tmod s then true else a         (* unmodified => reads the entry value *)
  | Put RTermios x => if get x (snaps s) then a else true (* an untainted snapshot => writes the entry value *)
  | _ => true
  end.

Record tcfg := mktc { t_st : st; t_tr : list ev; t_oos : bool }.
Definition tres := list (outcome * tcfg).

Definition tc_eqb (a b : tcfg) : bool :=
  st_eqb (t_st a) (t_st b) && Nat.eqb (length (t_tr a)) (length (t_tr b)) && Bool.eqb (t_oos a) (t_oos b).
Definition otc_eqb (a b : outcome * tcfg) : bool := out_eqb (fst a) (fst b) && tc_eqb (snd a) (snd b).

Fixpoint dedupq {A} (eqb : A -> A -> bool) (l : list A) : list A :=
  match l with
  | [] => []
  | x :: t => let t' := dedupq eqb t in if mem eqb x t' then t' else x :: t'
  end.

Section Acc.
Variable obs : nat -> bool.   (* classes observed in this scenario *)

Definition acc_op (c : bool) (o : op) (x : tcfg) : tres :=
  let s := t_st x in
  match cls_of o with
  | Some cl =>
      if obs cl then
        match t_tr x with
        | [] => []
        | e :: tr' =>
            if Nat.eqb (ev_cls e) cl && arg_ok o s (ev_arg e) then
              match ev_f e with
              | FNone => [(ONorm, mktc (eff o s) tr' (t_oos x))]
              | FBefore k => [(ORaise k, mktc (fault o k s) tr' (t_oos x || c))]
              | FAfter k => [(ORaise k, mktc (fault o k (eff o s)) tr' (t_oos x || c))]
              end
            else []
        end
      else [(ONorm, mktc (eff o s) (t_tr x) (t_oos x))]
  | None => [(ONorm, mktc (eff o s) (t_tr x) (t_oos x))]
  end.

Definition tnorm (R : tres) : list tcfg := flat_map (fun ox => if is_norm (fst ox) then [snd ox] else []) R.
Definition tabrupt (R : tres) : tres := filter (fun ox => negb (is_norm (fst ox))) R.

Fixpoint acc_loop (body : tcfg -> tres) (fuel : nat) (heads : list tcfg) : tres :=
  match fuel with
  | 0 => []   (* gave up: nothing accepted (fail-closed) *)
  | S n =>
      let R := flat_map body heads in
      let new := filter (fun x => negb (mem tc_eqb x heads)) (dedupq tc_eqb (tnorm R)) in
      match new with
      | [] => map (fun x => (ONorm, x)) heads ++ dedupq otc_eqb (tabrupt R)
      | _ => acc_loop body n (heads ++ new)
      end
  end.

Fixpoint acc (fuel : nat) (c : bool) (p : prog) (x : tcfg) {struct p} : tres :=
  match p with
  | Skip => [(ONorm, x)]
  | Op o => acc_op c o x
  | Seq a b =>
      dedupq otc_eqb (flat_map (fun ox => if is_norm (fst ox) then acc fuel c b (snd ox) else [ox]) (acc fuel c a x))
  | Choice a b => dedupq otc_eqb (acc fuel c a x ++ acc fuel c b x)
  | Loop b => acc_loop (acc fuel c b) fuel [x]
  | TryFinally prot b f =>
      dedupq otc_eqb
        (flat_map (fun ox => map (fun oy => (after_finally (fst ox) (fst oy), snd oy)) (acc fuel (c || prot) f (snd ox)))
                  (acc fuel c b x))
  | TryExcept prot b mk hk me he =>
      dedupq otc_eqb
        (flat_map (fun ox =>
           match fst ox with
           | ORaise k =>
               let m := match k with KI => mk | Exc => me end in
               let h := match k with KI => hk | Exc => he end in
               (if may_miss m then [ox] else []) ++ (if may_catch m then acc fuel (c || prot) h (snd ox) else [])
           | _ => [ox]
           end) (acc fuel c b x))
  | Raise k => [(ORaise k, x)]
  | Return => [(ORet, x)]
  | IfVar v a b => if get v (vars (t_st x)) then acc fuel c a x else acc fuel c b x
  | SetVar v w => [(ONorm, mktc (set_vars (upd v w (vars (t_st x))) (t_st x)) (t_tr x) (t_oos x))]
  | Call q => map (fun ox => (after_call (fst ox), snd ox)) (acc fuel c q x)
  end.
End Acc.

(** one observed run *)
Record run := mkrun {
  r_vars : list bool;      (* valuation of the tracked booleans at entry *)
  r_trace : list ev;       (* observed tracked calls *)
  r_out : nat;             (* 0 returned, 1 raised KeyboardInterrupt, 2 raised an Exception *)
  r_clean : bool           (* the observed obligation holds at exit (attributes byte-identical, ...) *)
}.

Definition out_matches (o : outcome) (n : nat) : bool :=
  match o, n with
  | ONorm, 0 | ORet, 0 => true
  | ORaise KI, 1 => true
  | ORaise Exc, 2 => true
  | _, _ => false
  end.

(** [judge obs clean p r]:
    0  the trace is a run of [p], the fault (if any) was outside [p]'s clean-up, the
       observed obligation holds (as the theorem says);
    10 the trace is a run of [p] but the fault was inside [p]'s own clean-up (outside
       the property; nothing is required);
    1  the trace is not a run of [p] (call table / skeleton does not describe the code);
    2  in scope and the observed obligation does NOT hold, and the model allows it;
    3  in scope, the observed obligation does not hold although every matching run of
       the model ends clean. *)
Definition judge (obs : nat -> bool) (clean : st -> bool) (p : prog) (r : run) : nat :=
  let fuel := 4 * (length (r_trace r) + 4) in
  let R := acc obs fuel false p (mktc (init (r_vars r)) (r_trace r) false) in
  let A := filter (fun ox => out_matches (fst ox) (r_out r) && Nat.eqb (length (t_tr (snd ox))) 0) R in
  match A with
  | [] => 1
  | _ =>
      let inscope := filter (fun ox => negb (t_oos (snd ox))) A in
      match inscope with
      | [] => 10
      | _ =>
          if r_clean r then 0
          else if forallb (fun ox => clean (t_st (snd ox))) inscope then 3 else 2
      end
  end.

Definition obs_of (l : list nat) (n : nat) : bool := existsb (Nat.eqb n) l.
