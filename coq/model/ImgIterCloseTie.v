(** C11, round 9: judge of the close-order correspondence (harness part "corder").
    One case = one source kind + one history of ImageIterator(...) / next() / iterator.close() /
    image.close(); one observation row per operation, taken right after it with every object
    still referenced (nothing dropped, nothing collected). *)
From Coq Require Import List Bool Arith ZArith.
Import ListNotations.
From TI Require Import model.ImgIterClose.

Definition crow := (nat * Z * Z * bool)%type.
(* outcome code; descriptors held on behalf of the library (delta to the baseline taken after the
   image was constructed, the caller's own descriptors excluded); files in the library's temp
   dir (delta); the caller's PIL image is still usable *)

Record ccase := mkccase {
  cc_kind : skind;
  cc_ops : list cop;      (* [fails] of a next() after finalization: as observed *)
  cc_obs : list crow;
  cc_fd_end : Z;          (* descriptor balance after every object was dropped and collected *)
  cc_tmp_end : Z          (* temp-dir balance then *)
}.

Definition b2z (b : bool) : Z := if b then 1%Z else 0%Z.

(** model side: the trace of the FIXED design *)
Definition row_eq (m : obs) (r : crow) : bool :=
  let '(out, files, tmp, cclosed) := m in
  let '(out', files', tmp', alive) := r in
  (out =? out') && (Z.of_nat files =? files')%Z && (b2z tmp =? tmp')%Z && Bool.eqb (negb cclosed) alive.

Fixpoint rows_eq (ms : list obs) (rs : list crow) : bool :=
  match ms, rs with
  | [], [] => true
  | m :: mt, r :: rt => row_eq m r && rows_eq mt rt
  | _, _ => false
  end.

Definition model_ok (c : ccase) : bool := rows_eq (trace DFixed (cc_kind c) (cc_ops c)) (cc_obs c).

(** specification side, a function of the history and the observation alone:
    - the caller's image is usable after every operation;
    - the URL temp copy exists exactly while image.close() has not been called;
    - at every point where close() has been called on the image and on every iterator created so
      far (marks: ImgIterClose.mark_step, i.e. [all_closed] of the prefix) no descriptor is held;
    - at the end of the history, after drop + collection, descriptors and temp dir are balanced. *)
Fixpoint spec_rows (k : skind) (m : list bool) (ic : bool) (ops : list cop) (rs : list crow) : bool :=
  match ops, rs with
  | [], [] => true
  | o :: t, (_, files, tmp, alive) :: r =>
      let m' := mark_step m o in
      let ic' := ic || is_imgclose o in
      alive && (tmp =? b2z (is_url k && negb ic'))%Z
      && (if ic' && forallb (fun b : bool => b) m' then (files =? 0)%Z else true)
      && spec_rows k m' ic' t r
  | _, _ => false
  end.

Definition spec_ok (c : ccase) : bool :=
  spec_rows (cc_kind c) [] false (cc_ops c) (cc_obs c) && (cc_fd_end c =? 0)%Z && (cc_tmp_end c =? 0)%Z.

Definition check_corder (c : ccase) : nat :=
  (if model_ok c then 0 else 1) + (if spec_ok c then 0 else 2).
