(** Executable comparison used by the C12 correspondence.
    [check_*] : 0 = agrees with model and specification; 1 = differs from the model only;
    2 = the observed behaviour contradicts the specification (the property fails);
    3 = both. *)
From Coq Require Import Ascii String List ZArith Bool Arith.
Import ListNotations.
From TI Require Import model.Query model.QuerySpec model.QueryInit.
Open Scope Z_scope.

(** ** equality tests *)
Definition oeq {A} (e : A -> A -> bool) (a b : option A) : bool :=
  match a, b with Some x, Some y => e x y | None, None => true | _, _ => false end.
Definition rgb_eq (a b : rgb) : bool :=
  let '(r, g, b') := a in let '(r2, g2, b2) := b in (r =? r2) && (g =? g2) && (b' =? b2).
Definition pair_eq {A B} (e : A -> A -> bool) (f : B -> B -> bool) (a b : A * B) : bool :=
  e (fst a) (fst b) && f (snd a) (snd b).
Fixpoint leq {A} (e : A -> A -> bool) (a b : list A) : bool :=
  match a, b with
  | [], [] => true
  | x :: a', y :: b' => e x y && leq e a' b'
  | _, _ => false
  end.
Definition cell_eq (a b : cell_result) : bool :=
  match a, b with
  | CsNone, CsNone | CsRaise, CsRaise => true
  | CsSize w h, CsSize w2 h2 => (w =? w2) && (h =? h2)
  | _, _ => false
  end.
Definition cache_eq (a b : cache) : bool :=
  let '(a0, a1, a2, a3) := a in let '(b0, b1, b2, b3) := b in
  (a0 =? b0) && (a1 =? b1) && (a2 =? b2) && (a3 =? b3).
Definition style_eq (a b : style) : bool :=
  match a, b with Kitty, Kitty | Iterm2, Iterm2 | Block, Block => true | _, _ => false end.

(** ** observations *)
Inductive obs :=
| OFgBg (r : option (option rgb * option rgb))           (* None = the call raised *)
| ONameVer (n v : option (list byte))
| OCell (r : cell_result) (c : cache)
| OBool (b : option bool)                                (* None = raised *)
| OStyle (s : option style)
| ORaw (r : option (list byte))
| OSession (r : list sres).                              (* one result per call of the epoch *)

Definition cv_eq (a b : colour_value) : bool :=
  match a, b with
  | VRgb x, VRgb y => pair_eq (oeq rgb_eq) (oeq rgb_eq) x y
  | VHex x, VHex y => pair_eq (oeq beq) (oeq beq) x y
  | _, _ => false
  end.
Definition sres_eq (a b : sres) : bool :=
  match a, b with
  | RFg x, RFg y => oeq cv_eq x y
  | RNv n v, RNv n2 v2 => oeq beq n n2 && oeq beq v v2
  | _, _ => false
  end.

Definition obs_eq (a b : obs) : bool :=
  match a, b with
  | OFgBg x, OFgBg y => oeq (pair_eq (oeq rgb_eq) (oeq rgb_eq)) x y
  | ONameVer n v, ONameVer n2 v2 => oeq beq n n2 && oeq beq v v2
  | OCell r c, OCell r2 c2 => cell_eq r r2 && (match r with CsRaise => true | _ => cache_eq c c2 end)
  | OBool x, OBool y => oeq Bool.eqb x y
  | OStyle x, OStyle y => oeq style_eq x y
  | ORaw x, ORaw y => oeq beq x y
  | OSession x, OSession y => leq sres_eq x y
  | _, _ => false
  end.

(** [OpSession calls]: the calls of ONE cache epoch (several argument forms of the colour
    getter, repeated name/version calls), in order, from freshly invalidated caches *)
Inductive opk := OpFgBg | OpNameVer | OpCell | OpKitty | OpIterm2 | OpAuto | OpRawCsi | OpRawC
               | OpSession (calls : list scall).

(** ** pty cases: the real functions against a real pty, in real time *)

Record pcase := {
  pc_op : opk;
  pc_cfg : config;
  pc_cache : cache;
  pc_profile : profile;
  pc_raw_request : list byte;                                (* OpRaw* only *)
  pc_rounds : list (list byte * list (nat * list byte));     (* request seen, bursts played *)
  pc_obs : obs;
  pc_left : list byte;          (* bytes readable on the terminal after the call *)
  pc_attr : tattr;              (* INITIAL STATE: the attribute set the terminal is in ... *)
  pc_q0 : list byte;            (* ... and the unread input in its queue when the call is made *)
  pc_restored : bool;           (* the attribute set after the call is the one before it *)
  pc_nto_min : Z;               (* elapsed <= nto_min * timeout + slack *)
  pc_nto_max : Z                (* elapsed >= nto_max * timeout *)
}.

Definition LATE : Z := 1000000000000.
Definition TIMEOUT : Z := 1000000.

(** burst classes: 0/1 = timely (arrives j ticks after the request), 2 = late;
    3 / 4 = timely AND placed by the harness at an exact point of the exchange: 3 = right after the
    request has been fully written, before the library's next tty call (the window in which a
    discard that followed the write would lose it: model/QueryFlush.v), 4 = after the library has
    switched the tty to its reading mode.  In the model every timely burst arrives at or after the
    instant the write returns and the discard precedes the write ([flush_before] = [always_flush],
    C12_query_flush_precedes_write): the placement cannot change the model's answer. *)
Fixpoint sched_of (j : Z) (bursts : list (nat * list byte)) : list (Z * list byte) :=
  match bursts with
  | [] => []
  | (cls, b) :: r => ((match cls with 2%nat => LATE | _ => j end), b) :: sched_of (j + 1) r
  end.

Definition term_of (rounds : list (list byte * list (nat * list byte))) : terminal :=
  fun req =>
    match find (fun r => beq (fst r) req) rounds with
    | Some (_, bursts) => sched_of 0 bursts
    | None => []
    end.

Definition tty0 : tty := {| now := 0; pend := []; tick := 0; written := [] |}.
Definition unit_cost : nat -> Z := fun _ => 1.

(** the model is run from the case's initial state: attribute set [pc_attr], [pc_q0] unread
    in the queue (model/QueryInit.v; [always_flush] = the code) *)
Definition run_model (p : pcase) : obs * ttyA :=
  let cfg := pc_cfg p in
  let term := term_of (pc_rounds p) in
  let s0 := ttyA_init (pc_attr p) (pc_q0 p) in
  let g := always_flush in
  match pc_op p with
  | OpFgBg => let (r, st) := get_fg_bg_A unit_cost cfg term g s0 in (OFgBg r, st)
  | OpNameVer => let (r, st) := get_name_version_A unit_cost cfg term g s0 in (ONameVer (fst r) (snd r), st)
  | OpCell => let '(r, c, st) := get_cell_size_A unit_cost cfg term g (pc_cache p) s0 in (OCell r c, st)
  | OpKitty => let (r, w) := kitty_is_supported_A unit_cost cfg term g (s0, None) in (OBool (Some r), fst w)
  | OpIterm2 => let (r, w) := iterm2_is_supported_A unit_cost cfg term g (s0, None) in (OBool r, fst w)
  | OpAuto => let (r, w) := auto_image_class_A unit_cost cfg term g (s0, None) in (OStyle r, fst w)
  | OpRawCsi => let (r, st) := query_A unit_cost cfg term g more_not_csi (pc_raw_request p) s0 in (ORaw r, st)
  | OpRawC => let (r, st) := query_A unit_cost cfg term g more_not_c (pc_raw_request p) s0 in (ORaw r, st)
  | OpSession calls =>
      let (r, w) := session_A unit_cost cfg term g calls (s0, [], None) in (OSession r, fst (fst w))
  end.

(** specification side of "no reply bytes remain unread": when a request was written, the
    unread input was discarded before it (documented: "Any unread input is discarded before
    the query") and every reply was consumed, so NOTHING is readable afterwards; when no
    request was written there are no replies (what was unread before is not the call's) *)
Definition spec_left_ok (p : pcase) : bool := is_nil (pc_rounds p) || is_nil (pc_left p).

(** the bursts deliver whole replies: every burst is a run of whole units *)
Fixpoint take_units (us : list (list byte)) (b : list byte) : option (list (list byte)) :=
  match b with
  | [] => Some us
  | _ => match us with
         | [] => None
         | u :: r => match strip u b with Some b' => take_units r b' | None => None end
         end
  end.
Fixpoint grouped (us : list (list byte)) (bursts : list (list byte)) : bool :=
  match bursts with
  | [] => is_nil us
  | b :: r => match take_units us b with Some us' => grouped us' r | None => false end
  end.

Definition round_in_hypothesis (p : profile) (r : list byte * list (nat * list byte)) : bool :=
  forallb (fun b => negb (Nat.eqb (fst b) 2)) (snd r) &&
  forallb (fun b => negb (is_nil (snd b))) (snd r) &&
  grouped (units p (fst r)) (map snd (snd r)).

(** what the harness played is what the profile's terminal writes (any cut, any delay) *)
Definition round_consistent (p : profile) (r : list byte * list (nat * list byte)) : bool :=
  beq (concat (map snd (snd r))) (concat (units p (fst r))).

Definition konsole_without_version (cfg : config) (p : profile) : bool :=
  let (n, v) := exp_name_version cfg p in
  name_is n "konsole" && match v with None => true | Some _ => false end.

Definition exp_obs (p : pcase) : option obs :=
  let cfg := pc_cfg p in
  let pr := pc_profile p in
  match pc_op p with
  | OpFgBg => Some (OFgBg (Some (exp_fg_bg cfg pr)))
  | OpNameVer => let (n, v) := exp_name_version cfg pr in Some (ONameVer n v)
  | OpCell =>
      if cache_eq (pc_cache p) (0, 0, 0, 0) && (0 <? ws_cols cfg) && (0 <? ws_rows cfg)
      then Some (OCell (exp_cell cfg pr) (0, 0, 0, 0))    (* the cache is not part of the spec *)
      else None
  | OpKitty => Some (OBool (Some (exp_kitty cfg pr)))
  | OpIterm2 => Some (OBool (Some (exp_iterm2 cfg pr)))
  | OpAuto => Some (OStyle (Some (exp_auto cfg pr)))
  | OpSession calls => Some (OSession (map (exp_call cfg pr) calls))
  | _ => None
  end.

Definition spec_obs_eq (e o : obs) : bool :=
  match e, o with
  | OCell r _, OCell r2 _ => cell_eq r r2
  | _, _ => obs_eq e o
  end.

Definition check_pty (p : pcase) : nat :=
  let (m, sA) := run_model p in
  let st := core sA in
  let nto := now st / TIMEOUT in
  let ok_model :=
      obs_eq m (pc_obs p) &&
      beq (map snd (pend st)) (pc_left p) &&
      Bool.eqb (tattr_eqb (attr sA) (pc_attr p)) (pc_restored p) &&
      leq beq (written st) (map fst (pc_rounds p)) &&
      (pc_nto_min p <=? nto) && (nto <=? pc_nto_max p) &&
      match pc_op p with
      | OpRawCsi | OpRawC => true
      | _ => forallb (round_consistent (pc_profile p)) (pc_rounds p)
      end in
  let in_hyp :=
      wf_profile (pc_profile p) && forallb (round_in_hypothesis (pc_profile p)) (pc_rounds p) in
  let ok_spec :=
      match exp_obs p with
      | Some e =>
          if in_hyp then
            spec_obs_eq e (pc_obs p) && spec_left_ok p &&
            (pc_nto_min p <=? Z.of_nat (length (pc_rounds p)))
          else true
      | None => true
      end in
  ((if ok_model then 0 else 1) + (if ok_spec then 0 else 2))%nat.

Fixpoint index_from {A} (n : nat) (l : list A) : list (nat * A) :=
  match l with [] => [] | x :: r => (n, x) :: index_from (S n) r end.
Definition bad_of {A} (f : A -> nat) (cases : list A) : list (nat * nat) :=
  filter (fun p => negb (Nat.eqb (snd p) 0)) (index_from 0 (map f cases)).
Definition bad_pty := bad_of check_pty.

(** The same judgement with its parts kept apart, for the harness (which re-runs a case whose
    ONLY discrepancy is real-time: a wall-clock measurement can be disturbed by machine load,
    a value cannot):  1 = values differ from the model, 2 = values contradict the
    specification, 4 = the number of timeouts waited differs from the model's, 8 = more than
    one timeout per round although the terminal is inside the hypothesis (blocking),
    16 = the case is inside the property's hypothesis and has a specified answer.
    [check_pty p = 0] iff [pty_bits p] has none of the bits 1, 2, 4, 8. *)
Definition pty_bits (p : pcase) : nat :=
  let (m, sA) := run_model p in
  let st := core sA in
  let nto := now st / TIMEOUT in
  let ok_values :=
      obs_eq m (pc_obs p) &&
      beq (map snd (pend st)) (pc_left p) &&
      Bool.eqb (tattr_eqb (attr sA) (pc_attr p)) (pc_restored p) &&
      leq beq (written st) (map fst (pc_rounds p)) &&
      match pc_op p with
      | OpRawCsi | OpRawC => true
      | _ => forallb (round_consistent (pc_profile p)) (pc_rounds p)
      end in
  let ok_time := (pc_nto_min p <=? nto) && (nto <=? pc_nto_max p) in
  let in_hyp :=
      wf_profile (pc_profile p) && forallb (round_in_hypothesis (pc_profile p)) (pc_rounds p) in
  let applies := match exp_obs p with Some _ => in_hyp | None => false end in
  let ok_spec_values :=
      match exp_obs p with
      | Some e => if in_hyp then spec_obs_eq e (pc_obs p) && spec_left_ok p else true
      | None => true
      end in
  let ok_spec_time :=
      if applies then pc_nto_min p <=? Z.of_nat (length (pc_rounds p)) else true in
  ((if ok_values then 0 else 1) + (if ok_spec_values then 0 else 2) +
   (if ok_time then 0 else 4) + (if ok_spec_time then 0 else 8) +
   (if applies then 16 else 0))%nat.
Definition report_pty (cases : list pcase) : list (nat * nat) := index_from 0 (map pty_bits cases).

(** ** fast cases: parsing and decisions of the same functions, on canned responses *)

Record fcase := {
  fc_op : opk;
  fc_cfg : config;
  fc_cache : cache;
  fc_profile : profile;               (* what the responses were printed from (spec side) *)
  fc_resp1 : option (list byte);      (* response to the first query (None: not asked) *)
  fc_resp2 : option (list byte);      (* response to the kitty support query *)
  fc_obs : obs;
  fc_requests : list (list byte);     (* requests the function issued, in order *)
  fc_drains : nat                     (* read_tty() calls *)
}.

Definition none_if_disabled {A} (cfg : config) (r : option A) : option A :=
  if enabled cfg then r else None.

Definition fast_model (f : fcase) : obs * list (list byte) * nat :=
  let cfg := fc_cfg f in
  let en := enabled cfg in
  let r1 := none_if_disabled cfg (fc_resp1 f) in
  let r2 := none_if_disabled cfg (fc_resp2 f) in
  let nv := name_version_of_response cfg r1 in
  let xtv_req := if en then [XTVERSION_q ++ DA1_q] else [] in
  let kitty_req := if en && negb (name_is (fst nv) "iterm2") then [KITTY_SUPPORT_q ++ DA1_q] else [] in
  let k := kitty_supported (fst nv) (snd nv) r2 in
  let i := iterm2_supported (fst nv) (snd nv) in
  match fc_op f with
  | OpFgBg => (OFgBg (colors_of_response r1),
               if en then [TEXT_FG_q ++ TEXT_BG_q ++ DA1_q] else [], if en then 1%nat else 0%nat)
  | OpNameVer => (ONameVer (fst nv) (snd nv), xtv_req, if en then 1%nat else 0%nat)
  | OpCell =>
      let need := cell_query_needed cfg (fc_cache f) in
      let (r, c) := cell_of_response cfg (fc_cache f) (if need then r1 else None) in
      (OCell r c, if need && en then [CELL_SIZE_PX_q ++ TEXT_AREA_SIZE_PX_q ++ DA1_q] else [], 0%nat)
  | OpKitty => (OBool (Some k), xtv_req ++ kitty_req, if en then 1%nat else 0%nat)
  | OpIterm2 => (OBool i, xtv_req, if en then 1%nat else 0%nat)
  | OpSession calls =>
      (* resp1 answers the colour query, resp2 the XTVERSION query; each memo miss is one
         request and (queries enabled) one read_tty() *)
      let nv2 := name_version_of_response cfg r2 in
      let step (acc : list sres * fg_memo * bool * list (list byte)) (call : scall) :=
          let '(out, mfg, nvdone, reqs) := acc in
          match call with
          | SFg f =>
              match lookup_form f mfg with
              | Some v => (out ++ [RFg (Some v)], mfg, nvdone, reqs)
              | None =>
                  let reqs' := reqs ++ (if en then [TEXT_FG_q ++ TEXT_BG_q ++ DA1_q] else []) in
                  match colors_of_response r1 with
                  | None => (out ++ [RFg None], mfg, nvdone, reqs')
                  | Some cs => let v := represent (form_hex f) cs in
                               (out ++ [RFg (Some v)], (f, v) :: mfg, nvdone, reqs')
                  end
              end
          | SNv => (out ++ [RNv (fst nv2) (snd nv2)], mfg, true,
                    if nvdone then reqs else reqs ++ xtv_req)
          end in
      let '(out, _, _, reqs) := fold_left step calls ([], [], false, []) in
      (OSession out, reqs, if en then length reqs else 0%nat)
  | _ => (OStyle (if k then Some Kitty
                  else match i with Some true => Some Iterm2 | Some false => Some Block | None => None end),
          xtv_req ++ kitty_req, if en then 1%nat else 0%nat)
  end.

(** the response a correct reader hands over for the profile's replies *)
Definition csi_if_da1 (p : profile) : list byte := match p_da1 p with Some _ => CSI | None => [] end.
Definition exp_resp1 (op : opk) (p : profile) : list byte :=
  match op with
  | OpFgBg => concat (answer p QFg ++ answer p QBg) ++ csi_if_da1 p
  | OpCell => concat (answer p QCell ++ answer p QArea ++ answer p QDa1)
  | _ => concat (answer p QXtv) ++ csi_if_da1 p
  end.
Definition exp_resp2 (p : profile) : list byte := concat (answer p QKitty ++ answer p QDa1).

Definition fast_in_hyp (f : fcase) : bool :=
  wf_profile (fc_profile f) &&
  match fc_op f with
  | OpSession _ => oeq beq (fc_resp1 f) (Some (exp_resp1 OpFgBg (fc_profile f))) &&
                   oeq beq (fc_resp2 f) (Some (exp_resp1 OpNameVer (fc_profile f)))
  | OpKitty | OpAuto => oeq beq (fc_resp1 f) (Some (exp_resp1 (fc_op f) (fc_profile f))) &&
                        oeq beq (fc_resp2 f) (Some (exp_resp2 (fc_profile f)))
  | _ => oeq beq (fc_resp1 f) (Some (exp_resp1 (fc_op f) (fc_profile f)))
  end.

Definition check_fast (f : fcase) : nat :=
  let '(m, reqs, drains) := fast_model f in
  let ok_model := obs_eq m (fc_obs f) && leq beq reqs (fc_requests f) && Nat.eqb drains (fc_drains f) in
  let p := {| pc_op := fc_op f; pc_cfg := fc_cfg f; pc_cache := fc_cache f; pc_profile := fc_profile f;
              pc_raw_request := []; pc_rounds := []; pc_obs := fc_obs f; pc_left := [];
              pc_attr := cooked; pc_q0 := []; pc_restored := true;
              pc_nto_min := 0; pc_nto_max := 0 |} in
  let ok_spec :=
      match exp_obs p with
      | Some e => if fast_in_hyp f then spec_obs_eq e (fc_obs f) else true
      | None => true
      end in
  ((if ok_model then 0 else 1) + (if ok_spec then 0 else 2))%nat.
Definition bad_fast := bad_of check_fast.
(** [check_fast] + 16 when the case is inside the hypothesis and has a specified answer *)
Definition fast_bits (f : fcase) : nat :=
  let p := {| pc_op := fc_op f; pc_cfg := fc_cfg f; pc_cache := fc_cache f; pc_profile := fc_profile f;
              pc_raw_request := []; pc_rounds := []; pc_obs := fc_obs f; pc_left := [];
              pc_attr := cooked; pc_q0 := []; pc_restored := true;
              pc_nto_min := 0; pc_nto_max := 0 |} in
  (check_fast f +
   match exp_obs p with Some _ => if fast_in_hyp f then 16 else 0 | None => 0 end)%nat.
Definition report_fast (cases : list fcase) : list (nat * nat) := index_from 0 (map fast_bits cases).

(** ** x_parse_color on its own *)
Record xcase := { xc_spec : list byte; xc_obs : option rgb }.

(** XParseColor's grammar, recognised independently of the model: "rgb:" then three
    '/'-separated components of 1 to 4 hex digits *)
Definition grammar_rgb (spec : list byte) : option rgb_reply :=
  match strip (bs "rgb:") spec with
  | Some body =>
      match split_on 47 body with
      | [r; g; b] =>
          let x := {| c_r := r; c_g := g; c_b := b; c_bel := false |} in
          if wf_rgb x then Some x else None
      | _ => None
      end
  | None => None
  end.

Definition check_x (x : xcase) : nat :=
  let ok_model := oeq rgb_eq (x_parse_color (xc_spec x)) (xc_obs x) in
  let ok_spec :=
      match grammar_rgb (xc_spec x) with
      | Some r => oeq rgb_eq (Some (exp_rgb r)) (xc_obs x)
      | None => true
      end in
  ((if ok_model then 0 else 1) + (if ok_spec then 0 else 2))%nat.
Definition bad_x := bad_of check_x.
(** [check_x] + 16 when the spec is in XParseColor's grammar *)
Definition x_bits (x : xcase) : nat :=
  (check_x x + match grammar_rgb (xc_spec x) with Some _ => 16 | None => 0 end)%nat.
Definition report_x (cases : list xcase) : list (nat * nat) := index_from 0 (map x_bits cases).
