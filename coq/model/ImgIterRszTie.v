(** Executable comparison used by the image-iterator half of the C09 correspondence when the
    history is given as changes of the size SETTING and of the ENVIRONMENT (round 9).

    One case = a [c9img] case (model/ImgIterSrcTie.v: both runs, outcomes and render
    requests) whose history of rendered-size indices is not taken from the run but DERIVED:
    the case carries the history of [ESetSize setting] / [ESetEnv env3] operations the
    driver performed (image.size = ... / set_size(...) / terminal resize / set_cell_ratio /
    cell-size change) and the table [e9_rsz] of the rendered size the runs observed under
    (setting, environment) — [image.rendered_size] read after every operation.

    [model_ok] (code 1): the table is a function (the rendered size depends on nothing but the
    setting and the three components of the environment), a fixed setting is its own rendered
    size, the history handed to model/ImgIter.v is [lower rsize] of the environment history
    (so the stamp of every cached frame is hash(rsize setting env) evaluated at that frame),
    and [i9_model_ok].
    [spec_ok] (code 2) is [i9_spec_ok]: on the observations alone, the caching run shows
    what the non-caching run shows, operation by operation. *)
From Coq Require Import List ZArith Bool Arith.
Import ListNotations.
From TI Require Import model.ImgIter model.ImgIterEnv model.ImgIterSrc model.ImgIterTie
                       model.ImgIterSrcTie model.ImgIterRsz.

Local Open Scope nat_scope.

Record c9env := {
  e9_base : c9img;
  e9_g0 : setting;                            (* the setting when the iterator is created *)
  e9_e0 : env3;
  e9_ops : list (eop setting env3);
  e9_rsz : list (setting * env3 * nat);       (* observed: (setting, environment) -> size index *)
  e9_sizes : list (Z * Z)                     (* per size index: the rendered size *)
}.

Definition unknown_size : nat := 4000.

Fixpoint tab_rsize (t : list (setting * env3 * nat)) (g : setting) (e : env3) : nat :=
  match t with
  | [] => unknown_size
  | (g', e', z) :: r => if setting_eqb g g' && env3_eqb e e' then z else tab_rsize r g e
  end.

Definition op_eqb (a b : op nat) : bool :=
  match a, b with
  | Next, Next | Close, Close | Drop, Drop => true
  | Seek p, Seek q => Z.eqb p q
  | SetImageSize z, SetImageSize z' => Nat.eqb z z'
  | _, _ => false
  end.

Fixpoint ops_eqb (a b : list (op nat)) : bool :=
  match a, b with
  | [], [] => true
  | x :: a', y :: b' => op_eqb x y && ops_eqb a' b'
  | _, _ => false
  end.

Definition e9_table_ok (c : c9env) : bool :=
  forallb (fun x : setting * env3 * nat =>
             let '(g, e, z) := x in
             Nat.eqb (tab_rsize (e9_rsz c) g e) z
             && match g with
                | Fixed w h => zz_eqb (nth z (e9_sizes c) (0, 0)%Z) (w, h)
                | Dyn _ => true
                end)
          (e9_rsz c).

Definition e9_model_ok (c : c9env) : bool :=
  let rs := tab_rsize (e9_rsz c) in
  e9_table_ok c
  && Nat.eqb (rs (e9_g0 c) (e9_e0 c)) (i9_z0 (e9_base c))
  && ops_eqb (lower rs (e9_g0 c) (e9_e0 c) (e9_ops c)) (i9_ops (e9_base c))
  && i9_model_ok (e9_base c).

Definition check9e (c : c9env) : nat :=
  (if e9_model_ok c then 0 else 1) + (if i9_spec_ok (e9_base c) then 0 else 2).

Definition bad9e (cases : list c9env) : list (nat * nat) := bad check9e cases.
