(** * RenderData — the transparency logic of [BaseImage._get_render_data]
    ([common.py:1495-1530]) at render resolution (source size = render size: no
    resampling), for the block style ([round_alpha = True]).

    From the source's RGBA pixels and the alpha setting to the [(rgb, a)] pixel data handed
    to the renderer ([model/Block.v]).  Conversion between modes and BOX resampling are
    Pillow's and are NOT modelled; the per-channel composite is a parameter [comp]
    ([Image.alpha_composite] over an opaque background), instantiated by [comp_exact]. *)
From Coq Require Import List ZArith Bool Lia.
Import ListNotations.
From TI Require Import lib.Term model.Block.
Open Scope Z_scope.

(** the [alpha] argument: [None] | a float threshold, given as [round(alpha * 255)] |
    a background: ["#"] = [ABg None] (terminal background), ["#rrggbb"] = [ABg (Some c)] *)
Inductive asetting := ANone | AThreshold (thr : Z) | ABg (c : option rgb).

(** one source pixel (after [convert("RGBA")]) *)
Record spx := { s_rgb : rgb; s_a : Z }.

(** [Image.alpha_composite] of a channel value [s] with alpha [a] over an opaque channel
    value [d]: the exact value [(s*a + d*(255-a)) / 255] rounded to nearest (255 is odd: no
    ties).  Bit-exactness with Pillow was established by an exhaustive sweep of all 2^24
    triples and is re-validated by the correspondence on every run. *)
Definition comp_exact (s a d : Z) : Z := (2 * (s * a + d * (255 - a)) + 255) / 510.

Section RenderData.
Variable comp : Z -> Z -> Z -> Z.

Definition comp_rgb (c : rgb) (a : Z) (d : rgb) : rgb :=
  let '(r, g, b) := c in let '(r', g', b') := d in (comp r a r', comp g a g', comp b a b').

(** [get_fg_bg_colors(hex=True)[1] or "#000000"] *)
Definition under (termbg : option rgb) : rgb :=
  match termbg with Some c => c | None => (0, 0, 0) end.

(** does the renderer get an image in mode RGBA (so that [a] matters)?  Only for a
    thresholded setting on a source mode with an alpha channel
    ([img.mode not in {"1", "L", "RGB", "HSV", "CMYK"}]) *)
Definition alpha_mode (has_alpha : bool) (s : asetting) : bool :=
  match s with AThreshold _ => has_alpha | _ => false end.

(** the [(rgb, a)] of one pixel *)
Definition render_px (has_alpha : bool) (s : asetting) (termbg : option rgb) (p : spx) : rgb * Z :=
  if negb has_alpha then (s_rgb p, 255)                    (* [convert_resize_img("RGB")] *)
  else match s with
       | ANone => (s_rgb p, 255)                           (* [convert("RGB")] drops alpha *)
       | ABg c =>                                          (* composited on the colour asked for *)
         (comp_rgb (s_rgb p) (s_a p) (match c with Some c => c | None => under termbg end), 255)
       | AThreshold thr =>                                 (* blended with the terminal background,
                                                              alpha rounded to 0 / 255 *)
         (comp_rgb (s_rgb p) (s_a p) (under termbg), if s_a p <? thr then 0 else 255)
       end.

(** a cell's pixel pair *)
Definition render_pair (has_alpha : bool) (s : asetting) (termbg : option rgb) (u l : spx) : px :=
  let '(c1, x1) := render_px has_alpha s termbg u in
  let '(c2, x2) := render_px has_alpha s termbg l in
  {| p1 := c1; p2 := c2; a1 := x1; a2 := x2 |}.

(** ** Specification side: what the property says a SOURCE pixel must look like *)
Inductive shown := STermBg | SColour (c : rgb).

Definition src_expect (has_alpha : bool) (s : asetting) (termbg : option rgb) (p : spx) : shown :=
  match s with
  | ANone => SColour (s_rgb p)                                  (* transparency disabled: alpha ignored *)
  | ABg c => if has_alpha
             then SColour (comp_rgb (s_rgb p) (s_a p) (match c with Some c => c | None => under termbg end))
             else SColour (s_rgb p)
  | AThreshold thr =>
    if has_alpha then
      if s_a p <? thr then STermBg                              (* below the threshold: the terminal's own background *)
      else SColour (comp_rgb (s_rgb p) (s_a p) (under termbg))  (* above it: opaque, over the terminal background *)
    else SColour (s_rgb p)
  end.

End RenderData.
