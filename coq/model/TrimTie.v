(** * TrimTie — executable comparison used by the C17 correspondence

    A case is one rendered canvas with many observed [content(...)] calls.  Observed rows
    are given as indices into a table of distinct token rows (most rows repeat across
    trims).  [check] returns 0 = agrees; +1 = the observed rows differ from
    [Trim.content_text] / [Trim.content_gfx] run on the canvas's own lines, or the lines
    are not of the shape the theorems assume; +2 = the observed rows contradict the
    *specification* evaluated on the implementation's own output (not the crop of what the
    untrimmed canvas shows / wrong size / colours left on at the end of a row / for
    graphics: not the selected lines, not blank). *)
From Coq Require Import List ZArith Bool Lia Uint63.
Import ListNotations.
From TI Require Import lib.Term lib.TermFacts lib.RectCheck model.Padding model.Trim model.TrimSpec
     model.TrimCanvas model.TrimIter.
Open Scope Z_scope.

Record tobs := {
  o_tl : Z; o_tt : Z; o_cols : option Z; o_rows : option Z;
  o_dis : Z;                    (* disguise pairs appended to every yielded row *)
  o_idx : list Z                (* per yielded row: index into the table *)
}.
(** The case files hold thousands of observations; each is written as a short list of
    primitive 63-bit integers (parsed natively, unlike records of [Z] numerals): a header
    word whose base-1024 digits (least significant first) are
    [trim_left; trim_top; cols + 1 (0 = None); rows + 1 (0 = None); disguise; n], then the
    [n] row indices, six base-1024 digits per word. *)
Fixpoint digits (n : nat) (z : Z) : list Z :=
  match n with O => [] | S k => (z mod 1024) :: digits k (z / 1024) end.
Definition dec_opt (v : Z) : option Z := if v =? 0 then None else Some (v - 1).
Definition dec_obs (ws : list Uint63.int) : tobs :=
  match ws with
  | hd :: rest =>
    match digits 6 (Uint63.to_Z hd) with
    | [tl; tp; c; r; d; n] =>
      {| o_tl := tl; o_tt := tp; o_cols := dec_opt c; o_rows := dec_opt r; o_dis := d;
         o_idx := firstn (Z.to_nat n) (flat_map (fun w => digits 6 (Uint63.to_Z w)) rest) |}
    | _ => {| o_tl := -1; o_tt := -1; o_cols := None; o_rows := None; o_dis := 0; o_idx := [] |}
    end
  | [] => {| o_tl := -1; o_tt := -1; o_cols := None; o_rows := None; o_dis := 0; o_idx := [] |}
  end.

(** Tokens of text rows are written as 63-bit words too: the low 4 bits select the kind
    (0 space, 1 upper half, 2 lower half, 3 other glyph, 4 NUL, 5 SGR reset, 6 foreground,
    7 background, 8 = a token written out literally in the case's auxiliary list), the
    remaining bits hold the glyph code / r + 256 g + 65536 b / the index. *)
Definition dec_rgb (v : Z) : rgb := (v mod 256, (v / 256) mod 256, v / 65536).
Definition dec_tok (aux : list tok) (w : Uint63.int) : tok :=
  let z := Uint63.to_Z w in
  let k := z mod 16 in
  let v := z / 16 in
  if k =? 0 then TChar GSpace else if k =? 1 then TChar GUpper else if k =? 2 then TChar GLower
  else if k =? 3 then TChar (GOther v) else if k =? 4 then TNul else if k =? 5 then TSgr0
  else if k =? 6 then TFg (dec_rgb v) else if k =? 7 then TBg (dec_rgb v)
  else nth (Z.to_nat v) aux (TCut CutCsi).
Definition dec_rows (aux : list tok) (rows : list (list Uint63.int)) : list (list tok) :=
  map (map (dec_tok aux)) rows.

(** Several requests on the canvas in flight AT ONCE (round 4): [i_obs] = the positions in
    [c_obs] of the requests of the group, in the order their generators were created;
    [i_sched] = which of them (position in [i_obs]) each successive [next()] went to;
    [i_ev] = what that [next()] returned: the table index of the row, [-1] = StopIteration.
    (The rows each request received, in order, are ALSO its observation in [c_obs], judged by
    [model_obs] / [spec_obs] like every other request.) *)
Record tinter := { i_obs : list nat; i_sched : list nat; i_ev : list Z }.

Record tcase := {
  c_gfx : bool;                 (* graphics-based image *)
  c_d : nat;                    (* disguise pairs expected on untrimmed-width rows *)
  c_W : Z; c_H : Z; c_w : Z; c_h : Z;
  c_ha : nat; c_va : nat;
  c_lines : list (list tok);    (* the canvas's [_ti_lines] *)
  c_tbl : list (list tok);      (* distinct observed rows *)
  c_fd : Z;                     (* disguise pairs observed on the rows of [content()] *)
  c_full : list Z;              (* rows of [content()] *)
  c_obs : list tobs;
  (* flow render: [upscale (0/1); maxcol; fit w; fit h; original w; original h; rows() before
     render; rows() after render], [fit] / [original] = the image's [_valid_size] evaluated in
     the environment current at that render; [] for a box render *)
  c_flow : list Z;
  c_inter : list tinter         (* groups of simultaneous requests *)
}.

Fixpoint index_from {A} (n : nat) (l : list A) : list (nat * A) :=
  match l with [] => [] | x :: r => (n, x) :: index_from (S n) r end.

(** ** equality tests *)
Definition colour_dec (a b : colour) : {a = b} + {a <> b}.
Proof. decide equality; apply rgb_dec. Defined.
Definition vcell_dec (a b : vcell) : {a = b} + {a <> b}.
Proof. decide equality; apply colour_dec. Defined.
Definition vrow_eqb (a b : list vcell) : bool := if list_eq_dec vcell_dec a b then true else false.
Definition vgrid_eqb (a b : list (list vcell)) : bool :=
  if list_eq_dec (list_eq_dec vcell_dec) a b then true else false.
Definition rows_eqb (a b : list (list tok)) : bool :=
  if list_eq_dec (list_eq_dec tok_dec) a b then true else false.
Definition drow_dec (a b : list tok * nat) : {a = b} + {a <> b}.
Proof. decide equality; [apply Nat.eq_dec | apply (list_eq_dec tok_dec)]. Defined.
Definition drows_eqb (a b : list (list tok * nat)) : bool :=
  if list_eq_dec drow_dec a b then true else false.

(** ** the observed rows of an observation *)
Definition lookup (c : tcase) (ix : list Z) (d : Z) : list (list tok * nat) :=
  map (fun i => (nth (Z.to_nat i) (c_tbl c) [TCut CutCsi], Z.to_nat d)) ix.

(** ** hypothesis validation: the canvas's lines have the shape of the theorems *)

Fixpoint take_sgr (l : list tok) : list tok * list tok :=
  match l with
  | x :: r => if is_sgr x then let '(p, q) := take_sgr r in (x :: p, q) else ([], l)
  | [] => ([], [])
  end.

Definition parse_cell (l : list tok) : option cell :=
  let '(p, q) := take_sgr l in
  match q with
  | [TChar g] => Some {| pre := p; gl := g; post := false |}
  | [TChar g; TSgr0] => Some {| pre := p; gl := g; post := true |}
  | _ => None
  end.

Fixpoint all_some {A} (l : list (option A)) : option (list A) :=
  match l with
  | [] => Some []
  | Some x :: r => match all_some r with Some xs => Some (x :: xs) | None => None end
  | None :: _ => None
  end.

(** cut the image part out of line [i] (by the dimensions of [_format_render]) *)
Definition parse_lines (c : tcase) : option (list (list cell)) :=
  let '(l, t, r, b) := old_dims (c_W c) (c_H c) (c_ha c) (c_va c) (c_w c) (c_h c) in
  let body := firstn (Z.to_nat (c_h c)) (skipn (Z.to_nat t) (c_lines c)) in
  all_some (map (fun ln =>
    let inner := firstn (length ln - Z.to_nat l - Z.to_nat r - 2) (skipn (Z.to_nat l) ln) in
    all_some (map parse_cell (split_nul inner))) body).

Definition shape_ok (c : tcase) : bool :=
  match parse_lines c with
  | None => false
  | Some imgs =>
    rows_eqb (canvas_lines (c_W c) (c_H c) (c_w c) (c_h c) (c_ha c) (c_va c) imgs) (c_lines c)
    && (0 <? c_w c) && (c_w c <=? c_W c) && (0 <? c_h c) && (c_h c <=? c_H c)
    && (Z.of_nat (length imgs) =? c_h c)
    && forallb (fun cs => (Z.of_nat (length cs) =? c_w c) && wf_line cs) imgs
  end.

(** ** model side *)
Definition model_obs (c : tcase) (o : tobs) : bool :=
  let obs := lookup c (o_idx o) (o_dis o) in
  if c_gfx c then
    drows_eqb obs (content_gfx (c_W c) (c_H c) (c_lines c) (c_d c)
                               (o_tl o) (o_tt o) (o_cols o) (o_rows o))
  else
    drows_eqb obs (map (fun r => (r, O))
                       (content_text (c_ha c) (c_va c) (c_W c) (c_H c) (c_w c) (c_h c) (c_lines c)
                                     (o_tl o) (o_tt o) (o_cols o) (o_rows o))).

(** flow sizing: model = observation (announced rows, canvas size, image size) *)
Definition flow_model_ok (c : tcase) : bool :=
  match c_flow c with
  | [] => true
  | [up; maxcol; fw; fh; ow; oh; rb; ra] =>
    let u := negb (up =? 0) in
    (rows u (fw, fh) (ow, oh) =? rb) && (rows u (fw, fh) (ow, oh) =? ra)
    && (let '(cw, ch) := flow_canvas_size maxcol u (fw, fh) (ow, oh) in (cw =? c_W c) && (ch =? c_H c))
    && (let '(iw, ih) := flow_image_size u (fw, fh) (ow, oh) in (iw =? c_w c) && (ih =? c_h c))
  | _ => false
  end.

(** specification: the rows announced (before and after rendering) are the rows rendered *)
Definition flow_spec_ok (c : tcase) : bool :=
  match c_flow c with
  | [] => true
  | [up; maxcol; fw; fh; ow; oh; rb; ra] => (rb =? c_H c) && (ra =? c_H c) && (maxcol =? c_W c)
  | _ => false
  end.

(** ** simultaneous requests: the generator model run under the observed schedule *)
Definition case_canvas (c : tcase) : canvas :=
  {| cv_gfx := c_gfx c; cv_size := (c_W c, c_H c); cv_image_size := (c_w c, c_h c);
     cv_align := (c_ha c, c_va c); cv_lines := c_lines c |}.
Definition case_live (c : tcase) : live :=
  {| lv_image_size := (c_w c, c_h c); lv_disguise := c_d c |}.
Definition obs_req (o : tobs) : req :=
  {| r_tl := o_tl o; r_tt := o_tt o; r_cols := o_cols o; r_rows := o_rows o |}.
Definition no_obs : tobs :=
  {| o_tl := -1; o_tt := -1; o_cols := None; o_rows := None; o_dis := 0; o_idx := [] |}.
Definition group_obs (c : tcase) (g : tinter) : list tobs :=
  map (fun k => nth k (c_obs c) no_obs) (i_obs g).

Definition event_dec (a b : nat * option (list tok * nat)) : {a = b} + {a <> b}.
Proof. decide equality; [decide equality; apply drow_dec | apply Nat.eq_dec]. Defined.
Definition events_eqb (a b : list (nat * option (list tok * nat))) : bool :=
  if list_eq_dec event_dec a b then true else false.

(** the observed [next()] results as (request, row) events *)
Definition obs_events (c : tcase) (g : tinter) : list (nat * option (list tok * nat)) :=
  let os := group_obs c g in
  map (fun p => (fst p,
                 if snd p <? 0 then None
                 else Some (nth (Z.to_nat (snd p)) (c_tbl c) [TCut CutCsi],
                            Z.to_nat (o_dis (nth (fst p) os no_obs)))))
      (combine (i_sched g) (i_ev g)).

Definition inter_model_ok (c : tcase) (g : tinter) : bool :=
  Nat.eqb (length (i_sched g)) (length (i_ev g))
  && forallb (fun i => Nat.ltb i (length (i_obs g))) (i_sched g)
  && events_eqb (obs_events c g)
                (run (case_canvas c) (case_live c) (map (fun o => Fresh (obs_req o)) (group_obs c g))
                     (i_sched g)).

Definition model_ok (c : tcase) : bool :=
  (c_gfx c || shape_ok c) && flow_model_ok c
  && (Z.of_nat (length (c_lines c)) =? c_H c)
  && forallb (model_obs c) (c_obs c)
  && forallb (inter_model_ok c) (c_inter c).

(** ** specification side, on the implementation's own output *)

(** [None] stands for "the rest" (it is only requested with a zero trim on that axis) *)
Definition want (x : option Z) (rest : Z) : Z := match x with Some v => v | None => rest end.

Definition row_ok (cols : Z) (r : list tok * nat) : bool :=
  text_only (fst r) && Nat.eqb (snd r) 0
  && (Z.of_nat (length (vis_row (fst r))) =? cols)
  && attrs_eqb (end_attrs (fst r)) adefault.

Definition in_canvas (c : tcase) (o : tobs) : bool :=
  let cols := want (o_cols o) (c_W c - o_tl o) in
  let rows := want (o_rows o) (c_H c - o_tt o) in
  (0 <=? o_tl o) && (0 <=? o_tt o) && (0 <? cols) && (0 <? rows)
  && (o_tl o + cols <=? c_W c) && (o_tt o + rows <=? c_H c).

Definition spec_obs (c : tcase) (full : list (list tok * nat)) (o : tobs) : bool :=
  let cols := want (o_cols o) (c_W c - o_tl o) in
  let rows := want (o_rows o) (c_H c - o_tt o) in
  let obs := lookup c (o_idx o) (o_dis o) in
  in_canvas c o
  && (Z.of_nat (length obs) =? rows)
  && if c_gfx c then
       if (o_tl o =? 0) && (cols =? c_W c) then
         (* vertical trimming selects exactly the corresponding lines *)
         drows_eqb obs (firstn (Z.to_nat rows) (skipn (Z.to_nat (o_tt o)) full))
       else
         (* horizontal trimming yields blank cells *)
         forallb (row_ok cols) obs
         && forallb (fun r => vrow_eqb (vis_row (fst r)) (repeat blank (Z.to_nat cols))) obs
     else
       forallb (row_ok cols) obs
       && vgrid_eqb (map (fun r => vis_row (fst r)) obs)
                    (crop (Z.to_nat (o_tl o)) (Z.to_nat (o_tt o)) (Z.to_nat cols) (Z.to_nat rows)
                          (map (fun r => vis_row (fst r)) full)).

(** simultaneous requests: the rows request [i] was handed by its successive [next()]s are,
    in order, exactly the rows of ITS observation (which [spec_obs] compares with the crop of
    ITS sub-rectangle), and nothing but StopIteration comes after them *)
Definition zlist_eqb (a b : list Z) : bool := if list_eq_dec Z.eq_dec a b then true else false.
Definition inter_spec_ok (c : tcase) (g : tinter) : bool :=
  let evs := combine (i_sched g) (i_ev g) in
  forallb (fun p =>
             let recv := received (fst p) evs in
             let rows := filter (fun e => 0 <=? e) recv in
             zlist_eqb rows (o_idx (snd p))
             && zlist_eqb recv (rows ++ repeat (-1) (length recv - length rows)))
          (index_from 0 (group_obs c g)).

Definition spec_ok (c : tcase) : bool :=
  let full := lookup c (c_full c) (c_fd c) in
  (Z.of_nat (length full) =? c_H c) && flow_spec_ok c
  && (c_gfx c || forallb (row_ok (c_W c)) full)
  && forallb (spec_obs c full) (c_obs c)
  && forallb (inter_spec_ok c) (c_inter c).

Definition check (c : tcase) : nat :=
  (if model_ok c then 0 else 1) + (if spec_ok c then 0 else 2).

Definition bad (cases : list tcase) : list (nat * nat) :=
  filter (fun p => negb (Nat.eqb (snd p) 0)) (index_from 0 (map check cases)).

(** for reports: shape ok?, then per observation (index, model agrees, specification holds)
    for the observations that fail either *)
Definition explain (c : tcase) :=
  let full := lookup c (c_full c) (c_fd c) in
  (c_gfx c || shape_ok c, Z.of_nat (length (c_lines c)) =? c_H c, (flow_model_ok c, flow_spec_ok c),
   filter (fun t => negb (snd (fst t) && snd t))
          (map (fun p => (fst p, model_obs c (snd p), spec_obs c full (snd p)))
               (index_from 0 (c_obs c))),
   (* groups of simultaneous requests that fail: (group, (model agrees, specification holds)) *)
   filter (fun t => negb (fst (snd t) && snd (snd t)))
          (map (fun p => (fst p, (inter_model_ok c (snd p), inter_spec_ok c (snd p))))
               (index_from 0 (c_inter c)))).
