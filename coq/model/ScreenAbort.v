(** * ScreenAbort — redraws that urwid ABORTS or SHORT-CIRCUITS (C18)

    Definitions only (proofs: proofs/ScreenAbortProofs.v; statements: props/C18.v).

    The property's main clause quantifies over "any sequence of screen redraws".  A call of
    [UrwidImageScreen.draw_screen(size, canvas)] does not always reach the terminal:

      - while a terminal resize is pending (SIGWINCH arrived, [_resized] is set and urwid's
        screen buffer is dropped: urwid/display/_raw_display_base.py:103-115) urwid's
        draw_screen returns WITHOUT drawing (:582-585, :713-715) until [get_input()] has
        reported 'window resize' (:482-485);
      - the base class' draw_screen may RAISE before anything is written (wrong number of
        rows :573, not started :570, the canvas' [content()] raising: urwid assembles its
        whole output before it writes it, :717-722);
      - urwid returns at once when it is handed the very canvas object its screen buffer
        holds (:577), e.g. the cached canvas of a view that is shown again.

    In all three cases the library's own part of draw_screen (_urwid.py:581-589) has run: the
    synchronized-update markers are written and, unless the canvas is the one PROCESSED last
    ([_ti_screen_canv], :583-585), [_ti_clear_images()] has deleted the images of the views
    that the new canvas does not have and has replaced [_ti_image_cviews].  What the screen
    tracks and what urwid has on the terminal are then two different canvases.

    A canvas OBJECT is an identity [id : nat]; [canvas id] gives what the object shows (its
    tracked image views = the walk's result, [walk_positions]; its other content): the same
    object shows the same views whenever it is drawn (the bytes of its image lines follow the
    disguise states at the time they are read, as in model/ScreenUrwid.v).

    [skipf]: the decision "canvas unchanged: skip the bookkeeping" is a parameter, so that the
    code's decision ([skip_processed]: the canvas processed last) and the variant that keys it
    on the canvas that REACHED the terminal last ([skip_reached]: urwid's
    [_screen_buf_canvas]) can both be run. *)
From Coq Require Import List ZArith Bool Lia Arith.
Import ListNotations.
From TI Require Import lib.Term model.Screen model.ScreenUrwid.

Inductive aop :=
| ADraw (id : nat)      (* draw_screen(size, canvas id): the base class' draw returns normally *)
| AFail (id : nat)      (* draw_screen(size, canvas id): the base class' draw raises before writing *)
| AWinch                (* SIGWINCH: _resized = True; screen_buf = None *)
| AResized              (* get_input() reports 'window resize': _resized = False *)
| AClear                (* clear() *)
| AApi (ws : list (nat * wkind)) (now : bool).   (* the public clear_images(ws..., now=now) *)

(** [aw_w]: the world of model/ScreenUrwid.v (the library's state - [s_canv] is the identity of
    [_ti_screen_canv] -, urwid's screen buffer, the terminal, the output queue, the ghost
    counters); [aw_sbc]: urwid's [_screen_buf_canvas]; [aw_resized]: urwid's [_resized];
    GHOST [aw_sbv]: the views of the canvas whose rows urwid's screen buffer holds. *)
Record aworld := mk_aworld { aw_w : world; aw_sbc : option nat; aw_resized : bool; aw_sbv : list view }.
Definition aworld_init : aworld := mk_aworld world_init None false [].

Definition opt_is (i : nat) (o : option nat) : bool :=
  match o with Some j => Nat.eqb j i | None => false end.

(** the code (_urwid.py:583): [canvas is self._ti_screen_canv] *)
Definition skip_processed (aw : aworld) (id : nat) : bool := opt_is id (s_canv (w_scr (aw_w aw))).
(** NOT the code: [canvas is self._screen_buf_canvas] ("the base class already keeps track of
    the canvas last drawn").  Refuted in proofs/ScreenAbortProofs.v. *)
Definition skip_reached (aw : aworld) (id : nat) : bool := opt_is id (aw_sbc aw).

Definition set_canv (w : world) (id : nat) : world :=
  let s := w_scr w in
  mk_world (mk_scr (s_prev s) (s_cdis s) (s_wdis s) (Some id)) (w_sb w) (w_term w) (w_queue w)
           (w_bs w) (w_nall w) (w_nw w).

Section Abort.

Variable H : nat.
Variable konsole : bool.
Variable ksup : bool.
Variable lines : view -> list (Z * Z * Z).
Variable canvas : nat -> list view * (Z -> Z).
Variable skipf : aworld -> nat -> bool.

(** ghost: the widgets' disguise-change counters after the bookkeeping of a redraw that is
    not drawn (cf. [redraw_nw]) *)
Definition abort_nw (V : list view) (w : world) : list (nat * nat) :=
  if clears_all V (w_scr w) then w_nw w
  else fold_left (fun l x => cnt_inc (fst x) l)
                 (dedup_w (map (fun v => (v_wid v, v_kind v)) (vanished V (w_scr w)))) (w_nw w).

(** the library's part of a draw_screen whose canvas is NOT skipped and which urwid does not
    draw: BEGIN, [_ti_clear_images()] (deletes, disguise changes, [_ti_image_cviews] replaced),
    END, flush (:581-589); urwid's screen buffer is as it was *)
Definition step_abort (w : world) (V : list view) : world :=
  let ds := update_views ksup V (w_scr w) in
  mk_world (snd ds) (w_sb w)
           (pexec konsole (w_term w) (w_queue w ++ [KSyncB] ++ fst ds ++ [KSyncE]))
           [] (w_bs w) (redraw_nall V w) (abort_nw V w).

(** ... whose canvas IS skipped: BEGIN, END, flush *)
Definition flush_only (w : world) : world :=
  mk_world (w_scr w) (w_sb w) (pexec konsole (w_term w) (w_queue w ++ [KSyncB] ++ [KSyncE]))
           [] (w_bs w) (w_nall w) (w_nw w).

(** a skipped canvas that urwid draws: no bookkeeping, urwid compares the rows with its screen buffer *)
Definition draw_only (w : world) (V : list view) (base : Z -> Z) : world :=
  let new := render_row lines (w_scr w) V base in
  mk_world (w_scr w) (Some new)
           (pexec konsole (w_term w) (w_queue w ++ [KSyncB] ++ urwid_draw H konsole (w_sb w) new ++ [KSyncE]))
           [] (w_scr w) 0 [].

(** urwid returns at once: its screen buffer is valid and holds this very canvas object (:577) *)
Definition quick (aw : aworld) (id : nat) : bool :=
  match w_sb (aw_w aw) with Some _ => opt_is id (aw_sbc aw) | None => false end.

(** the redraw reaches the terminal *)
Definition reaches (aw : aworld) (id : nat) : bool := negb (aw_resized aw) && negb (quick aw id).

(** the library's part when urwid draws nothing *)
Definition not_drawn (aw : aworld) (id : nat) : world :=
  let w := aw_w aw in
  if skipf aw id then flush_only w else step_abort (set_canv w id) (fst (canvas id)).

Definition astep (aw : aworld) (o : aop) : aworld :=
  let w := aw_w aw in
  match o with
  | ADraw id =>
    let V := fst (canvas id) in
    let base := snd (canvas id) in
    if reaches aw id
    then mk_aworld (if skipf aw id then draw_only w V base else step H konsole ksup lines (set_canv w id) (ORedraw V base))
                   (Some id) (aw_resized aw) V
    else mk_aworld (not_drawn aw id) (aw_sbc aw) (aw_resized aw) (aw_sbv aw)
  | AFail id => mk_aworld (not_drawn aw id) (aw_sbc aw) (aw_resized aw) (aw_sbv aw)
  | AWinch =>
    mk_aworld (mk_world (w_scr w) None (w_term w) (w_queue w) (w_bs w) (w_nall w) (w_nw w))
              (aw_sbc aw) true (aw_sbv aw)
  | AResized => mk_aworld w (aw_sbc aw) false (aw_sbv aw)
  | AClear => mk_aworld (step H konsole ksup lines w OClear) (aw_sbc aw) (aw_resized aw) (aw_sbv aw)
  | AApi ws now => mk_aworld (step H konsole ksup lines w (OApi ws now)) (aw_sbc aw) (aw_resized aw) (aw_sbv aw)
  end.
Definition arun (ops : list aop) (aw : aworld) : aworld := fold_left astep ops aw.

End Abort.
