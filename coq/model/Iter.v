(** * Iter — executable model of [term_image.render.RenderIterator] (C08, C09, C10)

    Mirrors, branch for branch,

    - [RenderIterator._init] / [__init__] / [_from_render_data_]   [_iterator.py:130-143,448-541]
    - the generator [_iterate]                                     [_iterator.py:543-638]
    - [__next__] with its four exception arms                      [_iterator.py:154-168]
    - [close] / [__del__]                                          [_iterator.py:145-149,180-197]
    - [seek]                                                       [_iterator.py:326-358]
    - [set_frame_duration], [set_padding], [set_render_args],
      [set_render_size]                                            [_iterator.py:374-444]
    - [RenderData.finalize]                                        [_types.py:1369-1382]
    - [Padding.get_padded_size], [AlignedPadding.resolve],
      [_get_exact_dimensions_]                                     [padding.py:130-143,347-408,484-485]

    The generator is represented by the point at which it is suspended between two
    operations ([AtDummy]: the initial dummy yield, line 575; [AtFrame]: the frame yield,
    line 630) and by the locals that are live there ([g_loop], the cache).  A generator
    that returns or raises does so inside [__next__], which closes the iterator in the
    same operation, so no "finished" point is ever observable on an open iterator.

    The renderable's [_render_] is a [Section] variable: a state-passing function (its
    state [RS] stands for whatever the renderable keeps between calls: stream position,
    call counter, fault schedule) that may return a frame, raise [StopIteration] or
    raise another exception.

    [set_padding] is modelled as REPAIRED (pending_fixes/C08_set_padding_relative.diff):
    the padded size is computed from the resolved padding.  The unrepaired code
    (line 402 used the unresolved argument) raised [RelativePaddingDimensionError]
    after [_padding] had been replaced.

    Definitions only; proofs are in [proofs/IterProofs*.v]. *)

From Coq Require Import List ZArith Bool Lia.
Import ListNotations.
Open Scope Z_scope.

(** ** Data *)

Inductive whence := WStart | WCurrent | WEnd.          (* Seek.START / CURRENT / END *)
Inductive dur := DDynamic | DStatic (ms : Z).         (* FrameDuration.DYNAMIC | int *)
Definition size := (Z * Z)%type.                       (* (width, height) *)
Inductive padding :=
| PExact (l t r b : Z)
| PAligned (w h : Z) (ha va : Z).                      (* align: 0 LEFT/TOP, 1 CENTER/MIDDLE, 2 RIGHT/BOTTOM *)
Inductive cache_arg := CBool (b : bool) | CInt (c : Z).

(** what [_render_] returns: [Frame(number, duration, render_size, render_output)] *)
Record rframe := { rf_number : Z; rf_duration : Z; rf_size : size; rf_output : list Z }.
Inductive rres := ROk (f : rframe) | RStop | RErr (e : Z).

(** what the iterator yields: the frame, possibly re-wrapped with the padded size and
    the output padded by [(left, top, right, bottom)] *)
Record frame := { f_number : Z; f_duration : Z; f_size : size; f_output : list Z;
                  f_pad : option (Z * Z * Z * Z) }.

Inductive err :=
| EFinalized          (* FinalizedIteratorError *)
| EValue              (* ValueError *)
| EIncompat           (* IncompatibleRenderArgsError *)
| EStopDefinite       (* StopDefiniteIterationError *)
| ESizeRange          (* RenderSizeOutofRangeError (draw / _init_render_ only) *)
| ERender (e : Z).    (* whatever [_render_] raised *)

Inductive out := OFrame (f : frame) | OStop | OOk | OErr (e : err).

Inductive op :=
| Next
| Seek (off : Z) (w : whence)
| SetDuration (d : dur)
| SetPadding (p : padding)
| SetArgs (a : option Z)      (* [None]: render arguments of an incompatible class *)
| SetSize (s : size)
| Close
| Drop.                       (* [__del__] *)

Definition whence_eqb (a b : whence) : bool :=
  match a, b with WStart, WStart | WCurrent, WCurrent | WEnd, WEnd => true | _, _ => false end.
Definition dur_eqb (a b : dur) : bool :=
  match a, b with
  | DDynamic, DDynamic => true
  | DStatic x, DStatic y => x =? y
  | _, _ => false
  end.
Definition size_eqb (a b : size) : bool := (fst a =? fst b) && (snd a =? snd b).

(** ** Padding arithmetic *)

(** [AlignedPadding.relative], [padding.py:321] *)
Definition relative (p : padding) : bool :=
  match p with PExact _ _ _ _ => false | PAligned w h _ _ => negb ((0 <? w) && (0 <? h)) end.

(** [padding.resolve(terminal_size) if isinstance(padding, AlignedPadding) and
    padding.relative else padding], [padding.py:360-380] *)
Definition resolve (term : size) (p : padding) : padding :=
  match p with
  | PExact _ _ _ _ => p
  | PAligned w h ha va =>
    if relative p then
      PAligned (if w <=? 0 then Z.max (fst term + w) 1 else w)
               (if h <=? 0 then Z.max (snd term + h) 1 else h) ha va
    else p
  end.

(** [_ALIGN_RATIOS], [padding.py:32] *)
Definition align_share (a d : Z) : Z :=
  if a =? 0 then 0 else if a =? 1 then d / 2 else d.

(** [_get_exact_dimensions_] of a padding with absolute dimensions: (left, top, right, bottom) *)
Definition pad_dims (p : padding) (sz : size) : Z * Z * Z * Z :=
  match p with
  | PExact l t r b => (l, t, r, b)
  | PAligned w h ha va =>
    let '(rw, rh) := sz in
    let l := if rw <? w then align_share ha (w - rw) else 0 in
    let r := if rw <? w then (w - rw) - l else 0 in
    let t := if rh <? h then align_share va (h - rh) else 0 in
    let b := if rh <? h then (h - rh) - t else 0 in
    (l, t, r, b)
  end.

(** [get_padded_size] ([Padding], overridden by [AlignedPadding]) *)
Definition padded_size (p : padding) (sz : size) : size :=
  match p with
  | PExact l t r b => (l + fst sz + r, t + snd sz + b)
  | PAligned w h _ _ => (Z.max w (fst sz), Z.max h (snd sz))
  end.

(** lines 614-620: the frame is re-wrapped iff the padded size differs from its size *)
Definition wrap_frame (p : padding) (psz : size) (f : rframe) : frame :=
  if size_eqb psz (rf_size f) then
    {| f_number := rf_number f; f_duration := rf_duration f; f_size := rf_size f;
       f_output := rf_output f; f_pad := None |}
  else
    {| f_number := rf_number f; f_duration := rf_duration f; f_size := psz;
       f_output := rf_output f; f_pad := Some (pad_dims p (rf_size f)) |}.

(** ** State *)

Inductive gphase := AtDummy | AtFrame.

(** the [RenderableData] namespace of the render data *)
Record rdata := { fo : Z; wh : whence; d_size : size; d_dur : dur }.

(** one cache entry: [(frame, size, duration, render_args)], line 607-612 *)
Record centry := { ce_frame : rframe; ce_size : size; ce_dur : dur; ce_args : Z }.

(** one [_render_] invocation as the renderable saw it (ghost) *)
Record rcall := { rc_fo : Z; rc_wh : whence; rc_size : size; rc_dur : dur; rc_args : Z;
                  rc_finalized : bool }.

(** finalisation ghost state: [owns] = [_finalize_data]; [finalized] =
    [RenderData.finalized]; [fin_calls] = invocations of [_finalize_render_data_];
    [log] = the [_render_] invocations, latest first *)
Record ghost := { owns : bool; finalized : bool; fin_calls : nat; log : list rcall }.

Definition upd {A} (f : Z -> A) (i : Z) (x : A) : Z -> A := fun j => if j =? i then x else f j.

Section Iter.
  Variable RS : Type.
  (** [_render_(render_data, render_args)]: renderable state, frame_offset, seek_whence,
      size, duration, args *)
  Variable render : RS -> Z -> whence -> size -> dur -> Z -> rres * RS.
  (** [renderable.frame_count]: [None] = INDEFINITE, [Some n] (n >= 2 for an animated one) *)
  Variable n : option Z.
  (** [get_terminal_size()] *)
  Variable term : size.

  Record state := {
    closed : bool;            (* _closed *)
    phase : gphase;           (* where the generator is suspended *)
    g_loop : Z;               (* the generator's local [loop] *)
    pub_loop : Z;             (* self.loop *)
    rd : rdata;               (* self._renderable_data *)
    args : Z;                 (* self._render_args *)
    pad : padding;            (* self._padding *)
    padded : size;            (* self._padded_size *)
    cached : bool;            (* self._cached *)
    cache : Z -> option centry;   (* the generator's local [cache] *)
    gh : ghost;
    rs : RS;                  (* the renderable's own state *)
    r_frame : Z               (* the renderable's current frame, [Renderable.tell()] *)
  }.

  Definition set_closed s v := {| closed := v; phase := phase s; g_loop := g_loop s; pub_loop := pub_loop s; rd := rd s; args := args s; pad := pad s; padded := padded s; cached := cached s; cache := cache s; gh := gh s; rs := rs s; r_frame := r_frame s |}.
  Definition set_phase s v := {| closed := closed s; phase := v; g_loop := g_loop s; pub_loop := pub_loop s; rd := rd s; args := args s; pad := pad s; padded := padded s; cached := cached s; cache := cache s; gh := gh s; rs := rs s; r_frame := r_frame s |}.
  Definition set_g_loop s v := {| closed := closed s; phase := phase s; g_loop := v; pub_loop := pub_loop s; rd := rd s; args := args s; pad := pad s; padded := padded s; cached := cached s; cache := cache s; gh := gh s; rs := rs s; r_frame := r_frame s |}.
  Definition set_pub_loop s v := {| closed := closed s; phase := phase s; g_loop := g_loop s; pub_loop := v; rd := rd s; args := args s; pad := pad s; padded := padded s; cached := cached s; cache := cache s; gh := gh s; rs := rs s; r_frame := r_frame s |}.
  Definition set_rd s v := {| closed := closed s; phase := phase s; g_loop := g_loop s; pub_loop := pub_loop s; rd := v; args := args s; pad := pad s; padded := padded s; cached := cached s; cache := cache s; gh := gh s; rs := rs s; r_frame := r_frame s |}.
  Definition set_args s v := {| closed := closed s; phase := phase s; g_loop := g_loop s; pub_loop := pub_loop s; rd := rd s; args := v; pad := pad s; padded := padded s; cached := cached s; cache := cache s; gh := gh s; rs := rs s; r_frame := r_frame s |}.
  Definition set_pad s v := {| closed := closed s; phase := phase s; g_loop := g_loop s; pub_loop := pub_loop s; rd := rd s; args := args s; pad := v; padded := padded s; cached := cached s; cache := cache s; gh := gh s; rs := rs s; r_frame := r_frame s |}.
  Definition set_padded s v := {| closed := closed s; phase := phase s; g_loop := g_loop s; pub_loop := pub_loop s; rd := rd s; args := args s; pad := pad s; padded := v; cached := cached s; cache := cache s; gh := gh s; rs := rs s; r_frame := r_frame s |}.
  Definition set_cache s v := {| closed := closed s; phase := phase s; g_loop := g_loop s; pub_loop := pub_loop s; rd := rd s; args := args s; pad := pad s; padded := padded s; cached := cached s; cache := v; gh := gh s; rs := rs s; r_frame := r_frame s |}.
  Definition set_gh s v := {| closed := closed s; phase := phase s; g_loop := g_loop s; pub_loop := pub_loop s; rd := rd s; args := args s; pad := pad s; padded := padded s; cached := cached s; cache := cache s; gh := v; rs := rs s; r_frame := r_frame s |}.
  Definition set_rs s v := {| closed := closed s; phase := phase s; g_loop := g_loop s; pub_loop := pub_loop s; rd := rd s; args := args s; pad := pad s; padded := padded s; cached := cached s; cache := cache s; gh := gh s; rs := v; r_frame := r_frame s |}.

  Definition definite : bool := match n with Some _ => true | None => false end.
  (** lines 558-561: [frame_count], with INDEFINITE taken to be 1 *)
  Definition fc : Z := match n with Some k => k | None => 1 end.

  (** [RenderData.finalize()], [_types.py:1378-1382] *)
  Definition data_finalize (g : ghost) : ghost :=
    if finalized g then g
    else {| owns := owns g; finalized := true; fin_calls := S (fin_calls g); log := log g |}.

  (** [close()], lines 191-197 ([self._iterator.close()] throws [GeneratorExit] into a
      generator suspended at a plain [yield]: nothing runs) *)
  Definition close (s : state) : state :=
    if closed s then s
    else set_closed (set_gh s (if owns (gh s) then data_finalize (gh s) else gh s)) true.

  (** the ghost record of one [_render_] invocation *)
  Definition log_render (s : state) : state :=
    let r := rd s in let g := gh s in
    set_gh s {| owns := owns g; finalized := finalized g; fin_calls := fin_calls g;
                log := {| rc_fo := fo r; rc_wh := wh r; rc_size := d_size r; rc_dur := d_dur r;
                          rc_args := args s; rc_finalized := finalized g |} :: log g |}.

  (** lines 614-630: pad, advance [frame_offset] / clear the pending seek, yield *)
  Definition deliver (s : state) (f : rframe) : state * out :=
    let r := rd s in
    let r' :=
        if definite then {| fo := fo r + 1; wh := wh r; d_size := d_size r; d_dur := d_dur r |}
        else if negb (fo r =? 0) || negb (whence_eqb (wh r) WCurrent)   (* was seeked *)
             then {| fo := 0; wh := WCurrent; d_size := d_size r; d_dur := d_dur r |}
             else r in
    (set_phase (set_rd s r') AtFrame, OFrame (wrap_frame (pad s) (padded s) f)).

  (** lines 587-591: [frame_details != (size, duration, render_args)] *)
  Definition key_eqb (e : centry) (r : rdata) (a : Z) : bool :=
    size_eqb (ce_size e) (d_size r) && dur_eqb (ce_dur e) (d_dur r) && (ce_args e =? a).

  (** lines 595-612, 614-630: render the frame, store it in the cache, deliver it;
      [StopIteration] / exceptions propagate to [__next__], which closes the iterator *)
  Definition render_frame (s : state) (fno : Z) : state * out :=
    let r := rd s in
    let '(res, rs') := render (rs s) (fo r) (wh r) (d_size r) (d_dur r) (args s) in
    let s1 := set_rs (log_render s) rs' in
    match res with
    | ROk f =>
      let s2 := if cached s
                then set_cache s1 (upd (cache s1) fno
                       (Some {| ce_frame := f; ce_size := d_size r; ce_dur := d_dur r;
                                ce_args := args s |}))
                else s1 in
      deliver s2 f
    | RStop =>
      if definite then (close s1, OErr EStopDefinite)   (* lines 598-602, then __next__:166-168 *)
      else (close (set_pub_loop s1 0), OStop)           (* lines 603-604, then __next__:157-159 *)
    | RErr e => (close s1, OErr (ERender e))            (* __next__:160-168 *)
    end.

  (** lines 581-630: the body of the inner loop for [frame_no = fno] *)
  Definition body (s : state) (fno : Z) : state * out :=
    let r := rd s in
    let hit := if cached s then
                 match cache s fno with
                 | Some e => if key_eqb e r (args s) then Some (ce_frame e) else None
                 | None => None
                 end
               else None in
    match hit with
    | Some f => deliver s f
    | None => render_frame s fno
    end.

  (** lines 636-638, then the [while loop:] test and (since [0 < frame_count]) the body *)
  Definition pass_end (s : state) : state * out :=
    let r := rd s in
    let s1 := set_rd s {| fo := 0; wh := wh r; d_size := d_size r; d_dur := d_dur r |} in
    let s2 := if 0 <? g_loop s1
              then set_pub_loop (set_g_loop s1 (g_loop s1 - 1)) (g_loop s1 - 1) else s1 in
    if g_loop s2 =? 0 then (close s2, OStop)              (* generator returns; __next__:157-159 *)
    else body s2 0.

  (** [__next__], resuming the generator where it is suspended *)
  Definition next (s : state) : state * out :=
    if closed s then (s, OStop)                           (* __next__:160-162 *)
    else
      match phase s with
      | AtDummy =>                                        (* lines 578-580 *)
        let fno := fo (rd s) * (if definite then 1 else 0) in
        if g_loop s =? 0 then (close s, OStop)
        else if fno <? fc then body s fno else pass_end s
      | AtFrame =>                                        (* lines 632-633, 580 *)
        let fno := if definite then fo (rd s) else 0 in
        if fno <? fc then body s fno else pass_end s
      end.

  (** [seek], lines 326-358 *)
  Definition seek (s : state) (off : Z) (w : whence) : state * out :=
    if closed s then (s, OErr EFinalized)
    else
      let r := rd s in
      match n with
      | None =>
        if (whence_eqb w WStart && (off <? 0)) || (whence_eqb w WEnd && (0 <? off))
        then (s, OErr EValue)
        else (set_rd s {| fo := off; wh := w; d_size := d_size r; d_dur := d_dur r |}, OOk)
      | Some k =>
        let frame := match w with
                     | WStart => off
                     | WCurrent => fo r + off
                     | WEnd => k + off - 1
                     end in
        if (0 <=? frame) && (frame <? k)
        then (set_rd s {| fo := frame; wh := WStart; d_size := d_size r; d_dur := d_dur r |}, OOk)
        else (s, OErr EValue)
      end.

  (** [set_frame_duration], lines 374-380 *)
  Definition set_duration (s : state) (d : dur) : state * out :=
    if closed s then (s, OErr EFinalized)
    else
      match d with
      | DStatic ms => if ms <=? 0 then (s, OErr EValue)
                      else (set_rd s {| fo := fo (rd s); wh := wh (rd s); d_size := d_size (rd s); d_dur := d |}, OOk)
      | DDynamic => (set_rd s {| fo := fo (rd s); wh := wh (rd s); d_size := d_size (rd s); d_dur := d |}, OOk)
      end.

  (** [set_padding], lines 394-402 (repaired: padded size from the resolved padding) *)
  Definition set_padding (s : state) (p : padding) : state * out :=
    if closed s then (s, OErr EFinalized)
    else
      let p' := resolve term p in
      (set_padded (set_pad s p') (padded_size p' (d_size (rd s))), OOk).

  (** [set_render_args], lines 417-426 *)
  Definition set_render_args (s : state) (a : option Z) : state * out :=
    if closed s then (s, OErr EFinalized)
    else match a with
         | None => (s, OErr EIncompat)
         | Some v => (set_args s v, OOk)
         end.

  (** [set_render_size], lines 440-444 *)
  Definition set_render_size (s : state) (sz : size) : state * out :=
    if closed s then (s, OErr EFinalized)
    else
      (set_padded (set_rd s {| fo := fo (rd s); wh := wh (rd s); d_size := sz; d_dur := d_dur (rd s) |})
                  (padded_size (pad s) sz), OOk).

  Definition step (s : state) (o : op) : state * out :=
    match o with
    | Next => next s
    | Seek off w => seek s off w
    | SetDuration d => set_duration s d
    | SetPadding p => set_padding s p
    | SetArgs a => set_render_args s a
    | SetSize sz => set_render_size s sz
    | Close => (close s, OOk)
    | Drop => (close s, OOk)       (* __del__: close(), AttributeError swallowed *)
    end.

  (** ** Construction *)

  Record config := {
    c_loops : Z;
    c_cache : cache_arg;
    c_size : size;              (* renderable._get_render_size_() *)
    c_dur : dur;                (* renderable.frame_duration *)
    c_args : option Z;          (* render_args (after conversion); None = incompatible *)
    c_pad : padding;
    c_owns : bool;              (* True: RenderIterator(...); False: _from_render_data_(finalize=False) *)
    c_frame : Z                 (* renderable.tell() *)
  }.

  (** [_init], lines 531-541 *)
  Definition cache_decision (c : cache_arg) : bool :=
    match n with
    | None => false
    | Some k => match c with CBool b => b | CInt v => k <=? v end
    end.

  (** [_init] validation, lines 520-525: animated, [loops != 0],
      [False is not cache <= 0] *)
  Definition cache_valid (c : cache_arg) : bool :=
    match c with CBool _ => true | CInt v => 0 <? v end.

  Definition mk (c : config) (rs0 : RS) : state + err :=
    if match n with Some k => k <? 2 | None => false end then inr EValue
    else if c_loops c =? 0 then inr EValue
    else if negb (cache_valid (c_cache c)) then inr EValue
    else
      match c_args c with
      | None => inr EIncompat
      | Some a =>
        let p := resolve term (c_pad c) in
        let l := if definite then c_loops c else 1 in
        inl {| closed := false; phase := AtDummy; g_loop := l; pub_loop := l;
               (* _get_render_data_: seek_whence = START; _iterate:564: frame_offset = 0 *)
               rd := {| fo := 0; wh := WStart; d_size := c_size c; d_dur := c_dur c |};
               args := a; pad := p; padded := padded_size p (c_size c);
               cached := cache_decision (c_cache c); cache := fun _ => None;
               gh := {| owns := c_owns c; finalized := false; fin_calls := 0; log := [] |};
               rs := rs0; r_frame := c_frame c |}
      end.

  (** [draw] -> [_animate_]: [False if loops == 1 else cache], [_renderable.py:738] *)
  Definition animate_cache (loops : Z) (c : cache_arg) : cache_arg :=
    if loops =? 1 then CBool false else c.

  (** ** Runs and traces: per operation, what it returned and [iterator.loop] after it *)

  Definition run (s : state) (ops : list op) : state :=
    fold_left (fun s o => fst (step s o)) ops s.

  Fixpoint trace (s : state) (ops : list op) : list (out * Z) :=
    match ops with
    | [] => []
    | o :: r => let '(s', x) := step s o in (x, pub_loop s') :: trace s' r
    end.
End Iter.

Arguments closed {RS}. Arguments phase {RS}. Arguments g_loop {RS}. Arguments pub_loop {RS}.
Arguments rd {RS}. Arguments args {RS}. Arguments pad {RS}. Arguments padded {RS}.
Arguments cached {RS}. Arguments cache {RS}. Arguments gh {RS}. Arguments rs {RS}.
Arguments r_frame {RS}.
