(** Executable comparison for the C07 correspondence: the specification side and the
    stream model of [model/C07Spec.v] combined with the judgement of the observed call trace
    against the translated skeleton ([SkelTie.judge], which also says whether the fault fell
    inside the operation's own clean-up). *)
From Coq Require Import List ZArith Bool Arith.
Import ListNotations.
From TI Require Import lib.Term lib.RectCheck lib.Eff model.SkelTie gen.Skeletons model.DrawInt model.C07Spec.
Open Scope nat_scope.

Definition sk_of (s : scn) : prog :=
  match s with SOld _ _ _ => protect sk_BaseImage_draw | SNew _ _ _ _ _ _ => protect sk_Renderable_draw end.
Definition vars_of (s : scn) : list bool :=
  match s with
  | SOld _ _ _ => [false; false; false; false; false; true]   (* sys.stdout.isatty() *)
  | SNew _ _ _ _ _ _ => repeat false nv_Renderable_draw
  end.
Definition obs_cls (s : scn) : list nat :=
  match s with SOld _ _ _ => [8; 9; 10; 11; 12] | SNew _ _ _ _ _ _ => [0; 1; 8; 9; 10; 11; 12; 13] end.

Definition model_clean (s : st) : bool := all_clean s && negb (cut s).

(** (code, spec bits):
    0  a run of the skeleton, fault outside the clean-up, every obligation observed, stream as modelled
    10 a run of the skeleton, fault inside the operation's own clean-up (outside the property)
    1  the trace is not a run of the skeleton           4  the stream differs from the model's
    2  in scope and an obligation is violated           3  violated and trace / stream also disagree *)
Definition check (c : tcase) : nat * nat :=
  let bits := spec_bits c in
  let ok := Nat.eqb bits 0 in
  let jd := judge (obs_of (obs_cls (c_scn c))) model_clean (sk_of (c_scn c))
                  (mkrun (vars_of (c_scn c)) (c_trace c) (c_out c) ok) in
  let same := toks_eqb (model_stream c) (c_obs c) in
  match jd with
  | 10 => (10, bits)
  | 1 => (if ok then 1 else 3, bits)
  | 0 => (if same then 0 else 4, bits)
  | _ => (if same then 2 else 3, bits)
  end.

(** (index, 100 * code + bits) of the cases whose code is not 0 *)
Definition bad (cases : list tcase) : list (nat * nat) :=
  filter (fun ic => negb (Nat.ltb (snd ic) 100))
         (combine (seq 0 (length cases)) (map (fun c => let r := check c in 100 * fst r + snd r) cases)).

