(** * TrimPhTie — executable comparison for renders of [UrwidImage] whose image FAILS to render
    (C17 correspondence, round 4)

    A case is one [widget.render(size)] made while rendering the image raises (the file behind
    the image vanished / was overwritten with garbage, or its renderer raises) — sizing still
    works —, with or without an error placeholder installed, the widget used as a flow or as a
    box widget.  [pcheck] returns 0 = agrees; +1 = the observed outcome differs from
    [TrimPlaceholder.render_outcome] / [Trim.rows]; +2 = the observed behaviour contradicts the
    SPECIFICATION: a canvas was returned that is not [maxcol] columns wide, or whose number of
    rows is not the number [rows((maxcol,))] announced (before or after the render), or whose
    [content()] does not yield that many rows of that width; for a box size: not the requested
    size; or the render raised although a placeholder accepting a box size is installed. *)
From Coq Require Import List ZArith Bool.
Import ListNotations.
From TI Require Import model.Trim model.TrimPlaceholder.
Open Scope Z_scope.

Record pcase := {
  p_size : list Z;               (* the size urwid passed: [maxcol] or [cols; rows] *)
  p_up : bool;                   (* upscale *)
  p_fit : Z * Z; p_ori : Z * Z;  (* the image's _valid_size answers at that moment (flow; else (0,0)) *)
  p_ph : option (bool * option Z);   (* installed placeholder: accepts a box size?; its own flow rows at that width *)
  p_rows_before : Z; p_rows_after : Z;   (* rows((maxcol,)) asked before / after the render (flow) *)
  (* observed: None = raised; Some (cols, rows, rows content() yielded, every content row [cols] wide) *)
  p_out : option (Z * Z * Z * bool)
}.

Definition case_ph (c : pcase) : option phw :=
  match p_ph c with
  | None => None
  | Some (b, f) => Some {| ph_box := b; ph_flow := fun _ => f |}
  end.

Definition is_flow (c : pcase) : bool := match p_size c with [_] => true | _ => false end.

Definition pmodel_ok (c : pcase) : bool :=
  (negb (is_flow c) || ((rows (p_up c) (p_fit c) (p_ori c) =? p_rows_before c)
                        && (rows (p_up c) (p_fit c) (p_ori c) =? p_rows_after c)))
  && match render_outcome (p_size c) (p_up c) (p_fit c) (p_ori c) true (case_ph c), p_out c with
     | Raised, None => true
     | Canvas mc mr, Some (oc, or, _, _) => (mc =? oc) && (mr =? or)
     | _, _ => false
     end.

Definition pspec_ok (c : pcase) : bool :=
  match p_out c with
  | Some (oc, or, n, wide) =>
    (n =? or) && wide
    && match p_size c with
       | [maxcol] => (oc =? maxcol) && (or =? p_rows_before c) && (or =? p_rows_after c)
       | [cc; rr] => (oc =? cc) && (or =? rr)
       | _ => false
       end
  | None =>
    (* raising is only acceptable without a placeholder able to stand in (accepting a box size) *)
    match p_ph c with Some (true, _) => false | _ => true end
  end.

Definition pcheck (c : pcase) : nat :=
  (if pmodel_ok c then 0 else 1) + (if pspec_ok c then 0 else 2).

Fixpoint pindex_from {A} (n : nat) (l : list A) : list (nat * A) :=
  match l with [] => [] | x :: r => (n, x) :: pindex_from (S n) r end.
Definition pbad (cases : list pcase) : list (nat * nat) :=
  filter (fun p => negb (Nat.eqb (snd p) 0)) (pindex_from 0 (map pcheck cases)).
