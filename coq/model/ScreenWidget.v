(** * ScreenWidget — the construction parameters of an image widget (C18)

    Definitions only (proofs: proofs/ScreenWidgetProofs.v; statements: props/C18.v).

    The property quantifies over every VALID widget: [UrwidImage(image, format_spec, upscale=...)]
    accepts any render format specifier of the image's render style, and for a KittyImage that
    includes a z-index field ([+z<n>], documented for widgets as "ignored as this is used
    internally"), a render method, the mix and compression fields.  The specifier is parsed
    into a dict of style arguments ([_check_format_spec], C19's matter) which is passed to the
    renderer at every render ([**self._ti_style_args], _urwid.py:143-147).  The widget needs
    some of these arguments to have values of ITS OWN (_urwid.py:94-108):

      - a KittyImage widget: [z_index] = the z-index it got from the allocator — the screen
        deletes the widget's images with [d=Z,z=<widget._ti_z_index>] (_urwid.py:549-561), so
        every placement the widget transmits must carry exactly that z-index —, and
        [blend = False] unless the terminal is Konsole (each image line first deletes what
        intersects its first cell);
      - a TextImage widget: [split_cells = True].

    The code writes its own entries INTO the parsed dict (own values win).  A style-argument
    dict is an association list; dict update = [sset]; [{**a, **b}] = [smerge a b]. *)
From Coq Require Import List ZArith Bool.
Import ListNotations.
From TI Require Import model.Screen.

Inductive skey := KZ | KBlend | KSplit | KMethod | KMix | KCompress.
Definition skey_eqb (a b : skey) : bool :=
  match a, b with
  | KZ, KZ | KBlend, KBlend | KSplit, KSplit | KMethod, KMethod | KMix, KMix | KCompress, KCompress => true
  | _, _ => false
  end.
Definition sdict := list (skey * Z).

Fixpoint sget (k : skey) (d : sdict) : option Z :=
  match d with
  | [] => None
  | (k', v) :: t => if skey_eqb k' k then Some v else sget k t
  end.
(** [d[k] = v] *)
Definition sset (k : skey) (v : Z) (d : sdict) : sdict :=
  (k, v) :: filter (fun e => negb (skey_eqb (fst e) k)) d.
(** [{**a, **b}]: the entries of [b] written over those of [a] *)
Definition smerge (a b : sdict) : sdict := fold_left (fun d e => sset (fst e) (snd e) d) b a.

Inductive ikind := IKitty | IIterm | IText.

(** the arguments the widget itself requires (_urwid.py:97-108); booleans as 0 / 1 *)
Definition widget_args (k : ikind) (konsole : bool) (z : Z) : sdict :=
  match k with
  | IText => [(KSplit, 1%Z)]
  | IKitty => (KZ, z) :: (if konsole then [] else [(KBlend, 0%Z)])
  | IIterm => []
  end.

(** the code: [style_args["z_index"] = ...; style_args["blend"] = False] on the dict parsed
    from the format specifier *)
Definition init_args (k : ikind) (konsole : bool) (z : Z) (spec : sdict) : sdict :=
  smerge spec (widget_args k konsole z).
(** NOT the code: [{**widget_style_args, **style_args}] - the specifier's entries win *)
Definition init_args_spec_wins (k : ikind) (konsole : bool) (z : Z) (spec : sdict) : sdict :=
  smerge (widget_args k konsole z) spec.

(** the z-index of every placement rendered with these arguments ([z=] of the kitty control
    data; KittyImage's default is 0) *)
Definition placed_z (d : sdict) : Z := match sget KZ d with Some z => z | None => 0%Z end.

(** histories of constructions - each with ITS format specifier's style arguments - and
    finalisations of kitty widgets *)
Inductive wev := WNew (pick : nat) (spec : sdict) | WDel (w : nat).
Definition wev_forget (e : wev) : aev := match e with WNew p _ => ANew p | WDel w => ADel w end.
(** the specifier of the [n]-th widget constructed *)
Fixpoint spec_of (h : list wev) (n : nat) : sdict :=
  match h with
  | [] => []
  | WNew _ sp :: t => match n with O => sp | S m => spec_of t m end
  | WDel _ :: t => spec_of t n
  end.
(** the z-indexes with which the live widgets place their images, [mk]: how the widget builds
    its style arguments *)
Definition placed_zs (mk : Z -> sdict -> sdict) (h : list wev) : list Z :=
  map (fun wz => placed_z (mk (snd wz) (spec_of h (fst wz)))) (h_live (hist_run (map wev_forget h))).
