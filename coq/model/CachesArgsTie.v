(** C15 — correspondence for [terminal_size_cached] called with several argument tuples.

    A case: the initial terminal size, the wrapped probe function given by one offset per
    argument tuple ([body_of]: columns * 1000 + lines + 1000000 * offset — a function of the
    terminal size alone iff all offsets are 0), the commands, and what the driver
    (harness/impl/impl_c15.py, [run_tsargs]) observed per command: the value the caller got
    ([None]: the call raised / not a call), the argument tuples the body ran with, and what
    [probe.__wrapped__] called with the call's own arguments returned just before the call.

    [acheck]: 1 = differs from the model ([code_run], or the fresh computation is not what
    [body_of] says for the size the history has reached), 2 = contradicts the specification
    ([spec_ok]: with all offsets 0 every call returns the fresh computation for the current
    size; in any case a value computed for the CURRENT size with an argument tuple used since
    the last invalidation, no exception, the body only with the call's own arguments),
    3 = both. *)
From Coq Require Import List ZArith Bool.
Import ListNotations.
From TI Require Import model.CachesArgs.

Record acase := {
  a_t0 : tsz;
  a_offs : list Z;
  a_cmds : list acmd;
  a_rows : list arow;
  a_fresh : list (option Z)
}.

Definition body_of (offs : list Z) : abody :=
  fun k t => (Z.of_nat (fst t) * 1000 + Z.of_nat (snd t) + 1000000 * nth k offs 0)%Z.

Definition offs_size_only (offs : list Z) : bool := forallb (Z.eqb 0) offs.

Definition oz_eqb (a b : option Z) : bool :=
  match a, b with
  | Some x, Some y => Z.eqb x y
  | None, None => true
  | _, _ => false
  end.

Fixpoint anl_eqb (a b : list nat) : bool :=
  match a, b with
  | [], [] => true
  | x :: r, y :: r' => Nat.eqb x y && anl_eqb r r'
  | _, _ => false
  end.

Fixpoint arows_eqb (a b : list arow) : bool :=
  match a, b with
  | [], [] => true
  | (v, ran) :: r, (v', ran') :: r' => oz_eqb v v' && anl_eqb ran ran' && arows_eqb r r'
  | _, _ => false
  end.

(** the fresh computations, from the history and which calls ran the body *)
Fixpoint fresh_obs_ok (b : abody) (cur : tsz) (cmds : list acmd) (rows : list arow) (fr : list (option Z)) : bool :=
  match cmds, rows, fr with
  | [], [], [] => true
  | ACall k :: cs, _ :: rs, f :: fs => oz_eqb f (Some (b k cur)) && fresh_obs_ok b cur cs rs fs
  | ACallR k t :: cs, (_, ran) :: rs, f :: fs =>
      oz_eqb f (Some (b k cur)) && fresh_obs_ok b (match ran with [] => cur | _ => t end) cs rs fs
  | AResize t :: cs, _ :: rs, f :: fs => oz_eqb f None && fresh_obs_ok b t cs rs fs
  | AInval :: cs, _ :: rs, f :: fs => oz_eqb f None && fresh_obs_ok b cur cs rs fs
  | _, _, _ => false
  end.

Definition acheck (c : acase) : nat :=
  let b := body_of (a_offs c) in
  ((if arows_eqb (code_run b (cinit (a_t0 c)) (a_cmds c)) (a_rows c)
       && fresh_obs_ok b (a_t0 c) (a_cmds c) (a_rows c) (a_fresh c) then 0 else 1)
   + (if spec_ok (offs_size_only (a_offs c)) b (a_t0 c) [] (a_cmds c) (a_rows c) then 0 else 2))%nat.

Fixpoint aindex (n : nat) (l : list nat) : list (nat * nat) :=
  match l with [] => [] | x :: r => (n, x) :: aindex (S n) r end.

Definition areport (cases : list acase) : list (nat * nat) := aindex 0 (map acheck cases).
