(** * IterPadCls — the padding handed to a render iterator, by its CLASS; and the padded size
      ACROSS a [set_render_size] (C08)

    [Iter] / [IterSpec] identify a padding object with its fields ([PExact l t r b] /
    [PAligned w h ha va]).  The object a client hands to the constructor
    ([RenderIterator(...)] -> [Renderable._init_render_], [_renderable.py:1117-1121]), to
    [_from_render_data_] ([_iterator.py:498-502]) and to [set_padding]
    ([_iterator.py:400-404]) also has a CLASS: [AlignedPadding] itself, a client subclass of it
    ([AlignedPadding.resolve] returns [type(self)(...)]: subclassing is provided for),
    [ExactPadding], a subclass of it, or a client subclass of the abstract [Padding]
    implementing [_get_exact_dimensions_].  What the code does with the object,

      [padding.resolve(get_terminal_size())
       if isinstance(padding, AlignedPadding) and padding.relative else padding]

    depends on the class through [isinstance] only; documented ([set_padding]: "padding: Render
    output padding"; [AlignedPadding]: "relative dimensions are resolved against the terminal
    size"): any padding whose minimum render dimensions are relative is resolved when it is
    received, i.e. the resolution depends on [relative] ONLY.

    Second part: [set_render_size] ([_iterator.py:446-447]) recomputes the stored padded size
    from the CURRENT padding at the NEW size; whether frames happened to be unpadded before
    (an [AlignedPadding] whose minimum size is not larger than the old render size) says
    nothing about afterwards.

    Definitions only; proofs are in [proofs/IterPadClsProofs.v]. *)
From Coq Require Import List ZArith Bool.
Import ListNotations.
From TI Require Import model.Iter model.IterSpec model.IterEnv.
Open Scope Z_scope.

(** ** the class of the padding object *)

Inductive pcls :=
| KAligned        (* type(padding) is AlignedPadding *)
| KAlignedSub     (* a client subclass of AlignedPadding *)
| KExact          (* type(padding) is ExactPadding *)
| KExactSub       (* a client subclass of ExactPadding *)
| KClient.        (* a client subclass of Padding with its own exact dimensions *)

(** [isinstance(padding, AlignedPadding)] *)
Definition isinstance_aligned (k : pcls) : bool :=
  match k with KAligned | KAlignedSub => true | _ => false end.

(** [type(padding) is AlignedPadding] *)
Definition type_is_aligned (k : pcls) : bool :=
  match k with KAligned => true | _ => false end.

(** a padding object: its class and its fields (for [KClient]: the exact dimensions it
    answers with) *)
Record offeredp := { pk : pcls; pp : padding }.

(** the fields are those of the class: width/height/alignment iff an [AlignedPadding] *)
Definition wf_offered (o : offeredp) : bool :=
  Bool.eqb (isinstance_aligned (pk o))
           (match pp o with PAligned _ _ _ _ => true | PExact _ _ _ _ => false end).

(** [AlignedPadding.resolve(terminal_size)] itself, [padding.py:360-380] (only ever called on
    instances of [AlignedPadding]; the result has the receiver's class) *)
Definition resolve_method (term : size) (p : padding) : padding :=
  match p with
  | PExact _ _ _ _ => p
  | PAligned w h ha va =>
    if relative p then
      PAligned (if w <=? 0 then Z.max (fst term + w) 1 else w)
               (if h <=? 0 then Z.max (snd term + h) 1 else h) ha va
    else p
  end.

(** ** the code: the padding in force after the object was received *)
Definition install_pad (term : size) (o : offeredp) : padding :=
  if isinstance_aligned (pk o) && relative (pp o) then resolve_method term (pp o) else pp o.

(** EXCLUDED design: the exact-type test [type(padding) is AlignedPadding and padding.relative]
    ("isinstance is much costlier on failure") *)
Definition install_pad_exact_type (term : size) (o : offeredp) : padding :=
  if type_is_aligned (pk o) && relative (pp o) then resolve_method term (pp o) else pp o.

(** ** the documentation: resolution depends on [relative] only *)
Definition doc_install_pad (term : size) (o : offeredp) : padding :=
  if relative (pp o) then resolve_method term (pp o) else pp o.

(** a padding with relative dimensions left in force raises [RelativePaddingDimensionError] from
    [get_padded_size] / [pad] ([padding.py:347-353,385-390]) *)
Definition usable (p : padding) : bool := negb (relative p).

(** ** histories whose paddings are objects with a class *)

Inductive pop := PPlain (o : op) | PSetPadding (x : offeredp).

(** [Iter.set_padding] / [Iter.mk] apply [Iter.resolve] to the fields they are given: the lowering
    hands them the fields of the object, whatever its class *)
Definition lowerp (a : pop) : op :=
  match a with PPlain o => o | PSetPadding x => SetPadding (pp x) end.

Definition with_pad (c : config) (x : offeredp) : config :=
  {| c_loops := c_loops c; c_cache := c_cache c; c_size := c_size c; c_dur := c_dur c;
     c_args := c_args c; c_pad := pp x; c_owns := c_owns c; c_frame := c_frame c |}.

(** ** the padded size across [set_render_size] *)

(** EXCLUDED design: "no padding in effect now (padded size = render size) => none afterwards" *)
Definition padded_after_resize_shortcut (p : padding) (old_padded old_size new_size : size) : size :=
  if size_eqb old_padded old_size then new_size else padded_size p new_size.

(** the relation of an aligned padding's minimum size to a render size, per dimension *)
Definition below_min_w (p : padding) (sz : size) : bool :=
  match p with PAligned w _ _ _ => fst sz <? w | PExact _ _ _ _ => false end.
Definition below_min_h (p : padding) (sz : size) : bool :=
  match p with PAligned _ h _ _ => snd sz <? h | PExact _ _ _ _ => false end.

(** ** lowering through an installation function (the correspondence judges the code side through
    [install_pad], the specification side through [doc_install_pad]; [Iter.resolve] applied to an
    installed, absolute padding leaves it alone) *)
Definition lower_by (f : offeredp -> padding) (a : pop) : op :=
  match a with PPlain o => o | PSetPadding x => SetPadding (f x) end.

Definition with_pad_by (f : offeredp -> padding) (c : config) (x : offeredp) : config :=
  {| c_loops := c_loops c; c_cache := c_cache c; c_size := c_size c; c_dur := c_dur c;
     c_args := c_args c; c_pad := f x; c_owns := c_owns c; c_frame := c_frame c |}.

Definition pop_wf (a : pop) : bool :=
  match a with PPlain _ => true | PSetPadding x => wf_offered x end.
