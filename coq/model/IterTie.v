(** Executable comparisons used by the C08 / C09 / C10 correspondences: the instrumented
    renderable of [harness/impl/impl_c08.py] as a Gallina function, and [check] functions
    that compare what the implementation showed with the model ([Iter]) and with the
    specification side ([IterSpec] for C08; history-level oracles for C09 / C10). *)
From Coq Require Import List ZArith Bool Arith Lia.
Import ListNotations.
From TI Require Import model.Iter model.IterSpec.
Open Scope Z_scope.

(** ** decidable equalities *)
Fixpoint zl_eqb (a b : list Z) : bool :=
  match a, b with
  | [], [] => true
  | x :: a', y :: b' => (x =? y) && zl_eqb a' b'
  | _, _ => false
  end.
Definition dims_eqb (a b : option (Z * Z * Z * Z)) : bool :=
  match a, b with
  | None, None => true
  | Some (l, t, r, b0), Some (l', t', r', b') => (l =? l') && (t =? t') && (r =? r') && (b0 =? b')
  | _, _ => false
  end.
Definition frame_eqb (a b : frame) : bool :=
  (f_number a =? f_number b) && (f_duration a =? f_duration b) && size_eqb (f_size a) (f_size b)
  && zl_eqb (f_output a) (f_output b) && dims_eqb (f_pad a) (f_pad b).
Definition err_eqb (a b : err) : bool :=
  match a, b with
  | EFinalized, EFinalized | EValue, EValue | EIncompat, EIncompat | EStopDefinite, EStopDefinite
  | ESizeRange, ESizeRange => true
  | ERender x, ERender y => x =? y
  | _, _ => false
  end.
Definition out_eqb (a b : out) : bool :=
  match a, b with
  | OFrame f, OFrame g => frame_eqb f g
  | OStop, OStop | OOk, OOk => true
  | OErr e, OErr e' => err_eqb e e'
  | _, _ => false
  end.
Fixpoint list_eqb {A} (eqb : A -> A -> bool) (a b : list A) : bool :=
  match a, b with
  | [], [] => true
  | x :: a', y :: b' => eqb x y && list_eqb eqb a' b'
  | _, _ => false
  end.
Definition obs_eqb (a b : out * Z) : bool := out_eqb (fst a) (fst b) && (snd a =? snd b).
Definition rcall_eqb (a b : rcall) : bool :=
  (rc_fo a =? rc_fo b) && whence_eqb (rc_wh a) (rc_wh b) && size_eqb (rc_size a) (rc_size b)
  && dur_eqb (rc_dur a) (rc_dur b) && (rc_args a =? rc_args b) && Bool.eqb (rc_finalized a) (rc_finalized b).

(** ** the instrumented renderable [VR] of impl_c08.py *)

Definition whence_code (w : whence) : Z := match w with WStart => 0 | WCurrent => 1 | WEnd => 2 end.
Definition dur_code (d : dur) : Z := match d with DDynamic => -1 | DStatic ms => ms end.

Fixpoint fault_at (c : nat) (faults : list (nat * Z)) : option Z :=
  match faults with
  | [] => None
  | (k, v) :: r => if Nat.eqb k c then Some v else fault_at c r
  end.

(** renderable state: (number of the call, stream position) *)
Definition vr_state := (nat * Z)%type.

Fixpoint ffault_at (o : Z) (ffaults : list (Z * Z)) : option Z :=
  match ffaults with
  | [] => None
  | (k, v) :: r => if k =? o then Some v else ffault_at o r
  end.

(** [faults]: by number of the call (not deterministic in the sense of [render_det]);
    [ffaults]: by requested frame of a definite source (deterministic) *)
Definition vr_render (nn : option Z) (total : Z) (faults : list (nat * Z)) (ffaults : list (Z * Z))
           (stamp : bool)
           (st : vr_state) (o : Z) (w : whence) (sz : size) (d : dur) (a : Z) : rres * vr_state :=
  let '(c, pos) := st in
  match match fault_at c faults with
        | Some k => Some k
        | None => match nn with Some _ => ffault_at o ffaults | None => None end
        end with
  | Some 0 => (RStop, (S c, pos))
  | Some k => (RErr k, (S c, pos))
  | None =>
    let mkf (number p : Z) :=
        {| rf_number := number;
           rf_duration := match d with DDynamic => 100 + number | DStatic ms => ms end;
           rf_size := sz;
           rf_output := [o; whence_code w; fst sz; snd sz; dur_code d; a; p;
                         if stamp then Z.of_nat c else -1] |} in
    match nn with
    | Some _ => (ROk (mkf o (-1)), (S c, pos))
    | None =>
      let p := Z.max 0 (match w with WStart => o | WCurrent => pos + o | WEnd => total - 1 + o end) in
      if total <=? p then (RStop, (S c, p)) else (ROk (mkf p p), (S c, p + 1))
    end
  end.

(** ** one case *)
Record tcase := {
  t_n : option Z;
  t_total : Z;
  t_faults : list (nat * Z);
  t_ffaults : list (Z * Z);
  t_stamp : bool;
  t_cfg : config;
  t_ops : list op;
  t_ctor : option err;           (* observed: None = constructed *)
  t_obs : list (out * Z);        (* observed, per operation: outcome, iterator.loop *)
  t_tells : list Z;              (* observed: renderable.tell() after every operation *)
  t_log : list rcall;            (* observed _render_ invocations, in order *)
  t_fin : nat;                   (* observed _finalize_render_data_ calls after del + gc *)
  t_finalized_end : bool         (* observed RenderData.finalized after del + gc *)
}.

Definition term8030 : size := (80, 30).

Definition t_render (t : tcase) := vr_render (t_n t) (t_total t) (t_faults t) (t_ffaults t) (t_stamp t).
Definition t_rs0 : vr_state := (0%nat, 0).

(** stamps (the number of the producing call) are erased when comparing with the
    specification of a cached iterator: the specification renders every time *)
Definition erase_stamp (x : out * Z) : out * Z :=
  match fst x with
  | OFrame f => (OFrame {| f_number := f_number f; f_duration := f_duration f; f_size := f_size f;
                           f_output := firstn 7 (f_output f); f_pad := f_pad f |}, snd x)
  | _ => x
  end.

(** agreement with the code model: trace and render-call log *)
Definition model_ok (t : tcase) : bool :=
  let render := t_render t in
  let n := t_n t in
  match mk vr_state n term8030 (t_cfg t) t_rs0, t_ctor t with
  | inr e, Some e' => err_eqb e e' && match t_obs t with [] => true | _ => false end
  | inl s, None =>
    list_eqb obs_eqb (trace vr_state render n term8030 s (t_ops t)) (t_obs t)
    && list_eqb rcall_eqb (rev (log (gh (run vr_state render n term8030 s (t_ops t))))) (t_log t)
  | _, _ => false
  end.

(** *** C08: 0 agrees; +1 differs from the model; +2 contradicts the specification *)
Definition check8 (t : tcase) : nat :=
  let render := t_render t in
  let n := t_n t in
  let ok_spec :=
      match spec_mk vr_state n term8030 (t_cfg t) t_rs0, t_ctor t with
      | inr e, Some e' => err_eqb e e'
      | inl a, None =>
        (if cache_decision n (c_cache (t_cfg t)) && negb match t_faults t with [] => true | _ => false end
         then true   (* fault schedule by call number: not comparable with a cache *)
         else list_eqb obs_eqb (map erase_stamp (spec_trace vr_state render n term8030 a (t_ops t)))
                               (map erase_stamp (t_obs t)))
        (* the iterator never moves the renderable's own current frame *)
        && forallb (Z.eqb (c_frame (t_cfg t))) (t_tells t)
        && Nat.eqb (length (t_tells t)) (length (t_ops t))
      | _, _ => false
      end in
  ((if model_ok t then 0 else 1) + (if ok_spec then 0 else 2))%nat.

Fixpoint index_from {A} (k : nat) (l : list A) : list (nat * A) :=
  match l with [] => [] | x :: r => (k, x) :: index_from (S k) r end.

Definition bad8 (cases : list tcase) : list (nat * nat) :=
  filter (fun p => negb (Nat.eqb (snd p) 0)) (index_from 0 (map check8 cases)).

(** *** C09: a pair (the case with its [cache] argument, the same case with [cache=False]).
    Specification side, on the observations alone: identical frames / countdown / errors
    (call stamps erased); with caching off every delivered frame was freshly rendered
    (stamps 0,1,2,...); with caching on (documented rule: [True] or [n <= cache], never
    INDEFINITE) no frame was rendered twice in a row under the same settings; caching
    never renders more. *)
Definition stamps (obs : list (out * Z)) : list Z :=
  flat_map (fun x => match fst x with OFrame f => [nth 7 (f_output f) (-9)] | _ => [] end) obs.
Fixpoint increasing_from (k : Z) (l : list Z) : bool :=
  match l with [] => true | x :: r => (k <=? x) && increasing_from (x + 1) r end.
Definition doc_cache_enabled (t : tcase) : bool :=
  match t_n t with
  | None => false
  | Some k => match c_cache (t_cfg t) with CBool b => b | CInt v => k <=? v end
  end.
Definition opt_err_eqb (a b : option err) : bool :=
  match a, b with None, None => true | Some x, Some y => err_eqb x y | _, _ => false end.

Definition check9 (p : tcase * tcase) : nat :=
  let '(tc, tu) := p in
  let fresh t := if t_stamp t then increasing_from 0 (stamps (t_obs t)) else true in
  let ok_spec :=
      opt_err_eqb (t_ctor tc) (t_ctor tu)
      && list_eqb obs_eqb (map erase_stamp (t_obs tc)) (map erase_stamp (t_obs tu))
      && fresh tu
      (* every delivered frame was a render; at most one render (the failing, last one) delivered none *)
      && Nat.leb (length (filter (fun x => match fst x with OFrame _ => true | _ => false end) (t_obs tu)))
                 (length (t_log tu))
      && Nat.leb (length (t_log tu))
                 (S (length (filter (fun x => match fst x with OFrame _ => true | _ => false end) (t_obs tu))))
      && (if doc_cache_enabled tc then no_repeatb (rev (t_log tc))
          else fresh tc && Nat.eqb (length (t_log tc)) (length (t_log tu)))
      && Nat.leb (length (t_log tc)) (length (t_log tu)) in
  ((if model_ok tc && model_ok tu then 0 else 1) + (if ok_spec then 0 else 2))%nat.

Definition bad9 (cases : list (tcase * tcase)) : list (nat * nat) :=
  filter (fun p => negb (Nat.eqb (snd p) 0)) (index_from 0 (map check9 cases)).
