(** * LocksFound — the terminal lock, for every way the active terminal was found (C14)

    [model/LocksCfg.v] silently assumes that [Process.start()] IS [_process_start_wrapper].
    That is only so because the module initialisation of [utils.py] ([utils.py:817-852])
    installed the hooks, which it does when it found a terminal.  Here the route by which
    the terminal was found ([LockImport.found]) is a parameter of the initial configuration
    ([fcfg]) and the installation is a function of it ([LockImport.install]):

    - hooks installed: [Process.start()] runs the start wrapper, as in [LocksCfg];
    - hooks NOT installed: [Process.start()] is the original one — no lock is taken, none
      is created, the child is handed nothing and runs on the private thread lock of its
      own process (one micro-step from [SRead] to [SStart _ LT]).

    Definitions only; proofs are in [proofs/LocksFoundProofs.v]. *)
From Coq Require Import List Arith Bool.
Import ListNotations.
From TI Require Import lib.Sched model.Locks model.LockSites model.LocksCfg model.LockImport.

Record fcfg := {
  f_q : qcfg;
  f_found : found       (* how the active terminal was found when the library was imported *)
}.

Definition nextF (hooks : bool) (pol : policy) (sg : bool) (c : lref) (q : lconf)
                 (r : option (nat * nat)) (x : thread) : option (action * thread * list event) :=
  match t_pc x with
  | SRead ch =>
    if hooks then nextQ pol sg c q r x
    else Some (ANone, with_pc x (SStart ch LT), [])   (* the original [Process.start] *)
  | _ => nextQ pol sg c q r x
  end.

(** as [LocksCfg.stepI], with [nextF] *)
Definition stepF (hooks : bool) (pol : policy) (qc : qcfg) (s : qstate) (i : sitem) : option qstate :=
  let cf := q_base qc in
  match i with
  | SConf p f b =>
    if started (qs s) p then Some (set_conf s p (upd (conf s p) f b)) else None
  | SMove t =>
    if Nat.eqb t (term_tid cf) then option_map (with_qs s) (step cf (qs s) t)
    else if negb (started (qs s) (proc cf t)) then None
    else
      match nextF hooks pol (single cf) (cur (qs s) (proc cf t)) (conf s (proc cf t))
                  (hd_error (reps (qs s))) (th (qs s) t) with
      | None => None
      | Some (a, x', ev) =>
        match applyQ qc s t a with
        | None => None
        | Some s1 => Some (with_qs s1 (set_th (qs s1) t x' ev))
        end
      end
  end.

(** the system of a configuration: the hooks are there iff [inst] says so for the route *)
Definition stepFound (inst : install) (fc : fcfg) : qstate -> sitem -> option qstate :=
  stepF (inst (f_found fc)) pol_code (f_q fc).

(** no thread is executing the start wrapper *)
Definition wrapper_free (p : pc) : bool :=
  match p with
  | SAcq _ _ | SCheck _ _ | SSwap _ _ | SRel _ _ _ => false
  | SStart _ LM => false
  | _ => true
  end.
