(** Executable comparison used by the C04 correspondence.

    [check_v] / [check_h] run the sizing model on the binary64 instance (lib/FPrim.v)
    and compare with what the real code returned; independently of the model they run
    the PROPERTY ORACLE on the observed values: the clauses of C04 evaluated in exact
    rational arithmetic ([Q]) from the inputs alone ([spec_ok]), and, for histories, the
    history-level rules ([hspec]).  Codes: 0 agrees; 1 differs from the model only;
    2 the observed behaviour contradicts the specification; 3 both. *)
From Coq Require Import ZArith QArith Qround Qabs List Bool PrimFloat.
Import ListNotations.
From TI Require Import lib.FArith lib.FPrim model.Sizing.
Open Scope Z_scope.

(** ---------------------------------------------------------------- utilities *)
Definition zz_eqb (a b : Z * Z) : bool := (fst a =? fst b) && (snd a =? snd b).
Fixpoint zzl_eqb (a b : list (Z * Z)) : bool :=
  match a, b with
  | [], [] => true
  | x :: a', y :: b' => zz_eqb x y && zzl_eqb a' b'
  | _, _ => false
  end.
Definition sizeval_eqb (a b : sizeval) : bool :=
  match a, b with
  | Fixed w h, Fixed w' h' => (w =? w') && (h =? h')
  | Dyn s, Dyn t => smode_eqb s t
  | _, _ => false
  end.
Definition osizeval_eqb (a b : option sizeval) : bool :=
  match a, b with
  | None, None => true
  | Some x, Some y => sizeval_eqb x y
  | _, _ => false
  end.
Fixpoint index_from {A} (n : nat) (l : list A) : list (nat * A) :=
  match l with [] => [] | x :: r => (n, x) :: index_from (S n) r end.
Definition nonzero (l : list nat) : list (nat * nat) :=
  filter (fun p => negb (Nat.eqb (snd p) 0)) (index_from 0 l).

Definition Qltb (a b : Q) : bool := negb (Qle_bool b a).
Definition QZ (z : Z) : Q := inject_Z z.

(** ------------------------------------------------ the property oracle (exact, Q) *)

(** the exact geometry of a call: pixels per cell, the pixel ratio actually in force
    (as an exact rational), the resolved frame in cells *)
Record geom := {
  g_cwp : Z; g_chp : Z;        (* pixels per cell: text 1x2, graphics the cell size *)
  g_pr : Q;                    (* pixel ratio *)
  g_ow : Z; g_oh : Z;
  g_columns : Z; g_lines : Z   (* frame, in cells *)
}.

Definition spec_resolve (fd td : Z) : Z := if 0 <? fd then fd else Z.max 1 (td + fd).

Definition mk_geom (fam : family) (term : Z * Z) (cell : option (Z * Z))
           (ratio : option float) (ow oh : Z) (frame : Z * Z) : geom :=
  let c := match cell with Some c => c | None => (1, 2) end in
  {| g_cwp := match fam with Text => 1 | Graphics => fst c end;
     g_chp := match fam with Text => 2 | Graphics => snd c end;
     g_pr := match fam with
             | Graphics => 1%Q
             | Text => (2 * match ratio with
                            | Some r => prim_val r
                            | None => QZ (fst c) / QZ (snd c)
                            end)%Q
             end;
     g_ow := ow; g_oh := oh;
     g_columns := spec_resolve (fst frame) (fst term);
     g_lines := spec_resolve (snd frame) (snd term) |}.

(** the free dimension is within one cell of the exact value, and is 1 when the exact
    value is below 1 *)
Definition near (obs : Z) (x : Q) : bool :=
  if Qltb x 1 then obs =? 1 else Qltb (Qabs (QZ obs - x)) 1.

(** exact aspect-preserving values, in cells *)
Definition hpx_from_w (g : geom) (wcells : Z) : Q :=          (* pixels *)
  (QZ (wcells * g_cwp g) * QZ (g_oh g) / QZ (g_ow g) * g_pr g)%Q.
Definition wpx_from_h (g : geom) (hcells : Z) : Q :=
  (QZ (hcells * g_chp g) * QZ (g_ow g) / QZ (g_oh g) / g_pr g)%Q.
Definition px_bound : Q := QZ (2 ^ 40).
(** the aspect clause is claimed for exact pixel values up to 2^40 (beyond, binary64
    rounding alone exceeds a pixel) *)
Definition near_h (g : geom) (obs : Z) (px : Q) : bool :=
  Qltb px_bound px || near obs (px / QZ (g_chp g)).
Definition near_w (g : geom) (obs : Z) (px : Q) : bool :=
  Qltb px_bound px || near obs (px / QZ (g_cwp g)).

Definition positive (o : Z * Z) : bool := (0 <? fst o) && (0 <? snd o).
Definition within (g : geom) (o : Z * Z) : bool :=
  (fst o <=? g_columns g) && (snd o <=? g_lines g).

Definition fit_ok (g : geom) (o : Z * Z) : bool :=
  positive o && within g o &&
  (((fst o =? g_columns g) && near_h g (snd o) (hpx_from_w g (g_columns g)))
   || ((snd o =? g_lines g) && near_w g (fst o) (wpx_from_h g (g_lines g)))).

Definition original_ok (g : geom) (o : Z * Z) : bool :=
  positive o && near_w g (fst o) (QZ (g_ow g))
  && near_h g (snd o) (QZ (g_oh g) * g_pr g)%Q.

Definition width_ok (g : geom) (wi : Z) (o : Z * Z) : bool :=
  positive o && (fst o =? wi) && near_h g (snd o) (hpx_from_w g wi).
Definition height_ok (g : geom) (hi : Z) (o : Z * Z) : bool :=
  positive o && (snd o =? hi) && near_w g (fst o) (wpx_from_h g hi).

(** does ORIGINAL's own pixel size fit the frame's pixel area?  [Some b]: decided;
    [None]: the scaled height is within 2 ulp of a rounding boundary that matters, the
    specification accepts either answer *)
Definition fits (g : geom) : option bool :=
  let fw := g_columns g * g_cwp g in
  let fh := g_lines g * g_chp g in
  let x := (QZ (g_oh g) * g_pr g)%Q in
  let eps := (x * (2 # (2 ^ 53)))%Q in
  let a := rhe (x - eps) <=? fh in
  let b := rhe (x + eps) <=? fh in
  if fw <? g_ow g then Some false
  else if a && b then Some true
  else if negb a && negb b then Some false
  else None.

Definition auto_ok (g : geom) (o : Z * Z) : bool :=
  match fits g with
  | Some true => original_ok g o && within g o
  | Some false => fit_ok g o
  | None => (original_ok g o && within g o) || fit_ok g o
  end.

(** the clauses of C04 for one call [_valid_size(w, h, frame)] with result [o] *)
Definition spec_ok (g : geom) (w h : dim) (o : Z * Z) : bool :=
  match w, h with
  | DInt wi, DInt hi => zz_eqb o (wi, hi)
  | DInt wi, DNone => width_ok g wi o
  | DNone, DInt hi => height_ok g hi o
  | DNone, DNone => fit_ok g o
  | DSize s, DNone | DNone, DSize s =>
      match s with
      | FIT => fit_ok g o
      | AUTO => auto_ok g o
      | ORIGINAL => original_ok g o
      | FIT_TO_WIDTH => width_ok g (g_columns g) o
      end
  | _, _ => true
  end.

(** ------------------------------------------------------------- single calls *)
Record vcase := {
  v_fam : family; v_ow : Z; v_oh : Z;
  v_term : Z * Z; v_cell : option (Z * Z); v_ratio : option float;
  v_frame : Z * Z;
  v_calls : list (dim * dim);      (* the first six are FIT AUTO ORIGINAL FIT_TO_WIDTH w= h= *)
  v_obs : list (Z * Z)
}.

Definition v_env (c : vcase) : env PrimFA :=
  @Build_env PrimFA (fst (v_term c)) (snd (v_term c)) (v_cell c) (v_ratio c) None.

Definition v_model (c : vcase) : list (Z * Z) :=
  map (fun wh => valid_size (FA := PrimFA) (v_fam c) (v_env c) (v_ow c) (v_oh c)
                            (fst wh) (snd wh) (v_frame c)) (v_calls c).

Definition v_geom (c : vcase) : geom :=
  mk_geom (v_fam c) (v_term c) (v_cell c) (v_ratio c) (v_ow c) (v_oh c) (v_frame c).

(** AUTO is ORIGINAL's result when it fits, FIT's otherwise (on the observed results) *)
Definition auto_choice_ok (g : geom) (obs : list (Z * Z)) : bool :=
  match obs with
  | fit :: auto :: orig :: _ =>
      match fits g with
      | Some true => zz_eqb auto orig
      | Some false => zz_eqb auto fit
      | None => zz_eqb auto orig || zz_eqb auto fit
      end
  | _ => false
  end.

Definition v_spec (c : vcase) : bool :=
  let g := v_geom c in
  (length (v_calls c) =? length (v_obs c))%nat
  && forallb (fun p => spec_ok g (fst (fst p)) (snd (fst p)) (snd p))
             (combine (v_calls c) (v_obs c))
  && auto_choice_ok g (v_obs c).

Definition check_v (c : vcase) : nat :=
  ((if zzl_eqb (v_model c) (v_obs c) then 0 else 1)
   + (if v_spec c then 0 else 2))%nat.

Definition bad_v (cases : list vcase) : list (nat * nat) := nonzero (map check_v cases).

(** diagnostics for a failing case: per call (model result, observed, spec verdict) *)
Definition diag_v (c : vcase) : list ((Z * Z) * (Z * Z) * bool) * bool :=
  let g := v_geom c in
  (map (fun p => (fst (snd p), snd (snd p),
                  spec_ok g (fst (fst p)) (snd (fst p)) (snd (snd p))))
       (combine (v_calls c) (combine (v_model c) (v_obs c))),
   auto_choice_ok g (v_obs c)).

(** ----------------------------------------------------------------- histories *)
Record hobs := {
  ho_outcome : Z; ho_size : sizeval; ho_rs : Z * Z; ho_rw : Z; ho_rh : Z;
  ho_during : option sizeval
}.

Record hcase := {
  h_fam : family; h_ow : Z; h_oh : Z;
  h_term : Z * Z; h_cell : option (Z * Z);
  h_ops : list (op PrimFA);
  h_obs : list hobs
}.

Definition half : float := 0x1p-1%float.
Definition rfloat (x : float) : ratio_arg PrimFA := @RFloat PrimFA x.

(** a fresh image ([Size.FIT], dynamic) in a fresh process ([_cell_ratio = 0.5]) *)
Definition h_init (c : hcase) : state PrimFA :=
  @Build_state PrimFA
    (@Build_env PrimFA (fst (h_term c)) (snd (h_term c)) (h_cell c) (Some half) None)
    (Dyn FIT).

Definition obs_eqb (m : obs) (o : hobs) : bool :=
  (o_outcome m =? ho_outcome o) && sizeval_eqb (o_size m) (ho_size o)
  && zz_eqb (o_rendered m) (ho_rs o) && (fst (o_rendered m) =? ho_rw o)
  && (o_rheight m =? ho_rh o) && osizeval_eqb (o_during m) (ho_during o).

Fixpoint obsl_eqb (a : list (obs)) (b : list hobs) : bool :=
  match a, b with
  | [], [] => true
  | x :: a', y :: b' => obs_eqb x y && obsl_eqb a' b'
  | _, _ => false
  end.

(** History-level specification, judged on the OBSERVED sizes only (it never calls
    [valid_size]): which operations may change [image.size] and to what, what
    [rendered_size] must satisfy under the environment in force, what a render shows.
    The environment is tracked with the documented semantics of resize /
    set_cell_ratio. *)
Definition args_outcome (w h : dim) : Z :=
  match arg_error w with
  | Some c => c
  | None => match arg_error h with
            | Some c => c
            | None => match w, h with
                      | DSize _, DSize _ | DSize _, DInt _ | DInt _, DSize _ => type_error
                      | _, _ => ok
                      end
            end
  end.

Definition env_geom (fam : family) (e : env PrimFA) (ow oh : Z) (frame : Z * Z) : geom :=
  mk_geom fam (e_cols e, e_lines e) (e_cell e) (e_ratio e) ow oh frame.

(** expected [image.size] and outcome after [o], given the previous observed size;
    [None] for the size = "a fixed pair satisfying [spec_ok] for these arguments" *)
Inductive expect := ExactSize (s : sizeval) | AutoFixed (w h : dim) (frame : Z * Z).

Definition hspec_step (fam : family) (ow oh : Z) (e : env PrimFA) (prev : sizeval)
           (o : op PrimFA) : env PrimFA * expect * Z :=
  let set w h frame :=
      let c := args_outcome w h in
      if negb (c =? ok) then (e, ExactSize prev, c)
      else match w, h with
           | DInt wi, DInt hi => (e, ExactSize (Fixed wi hi), ok)      (* manual: as given *)
           | _, _ => (e, AutoFixed w h frame, ok)
           end in
  match o with
  | OSetSize w h frame => set w h frame
  | OAssign (ASize s) => (e, ExactSize (Dyn s), ok)
  | OAssign (ATuple w h) => set w h default_frame
  | OAssign ABadLen => (e, ExactSize prev, value_error)
  | OAssign ABadType => (e, ExactSize prev, type_error)
  | ORender raises => (e, ExactSize prev, if raises then renderer_error else ok)
  | OResize cols lines cell => (resize e cols lines cell, ExactSize prev, ok)
  | OSetRatio r => let '(e', c) := set_cell_ratio e r in (e', ExactSize prev, c)
  end.

Definition hobs_ok (fam : family) (ow oh : Z) (e' : env PrimFA) (x : expect) (c : Z)
           (o : op PrimFA) (ob : hobs) : bool :=
  (ho_outcome ob =? c)
  && match x with
     | ExactSize s => sizeval_eqb (ho_size ob) s
     | AutoFixed w h frame =>
         match ho_size ob with
         | Fixed a b => spec_ok (env_geom fam e' ow oh frame) w h (a, b)
         | Dyn _ => false
         end
     end
  && match ho_size ob with
     | Fixed a b => zz_eqb (ho_rs ob) (a, b)                       (* fixed: as stored *)
     | Dyn s => spec_ok (env_geom fam e' ow oh default_frame) (DSize s) DNone (ho_rs ob)
     end                                                           (* dynamic: follows the environment *)
  && (ho_rw ob =? fst (ho_rs ob)) && (ho_rh ob =? snd (ho_rs ob))
  && match o, ho_during ob with
     | ORender _, Some d =>                                        (* what the renderer saw *)
         sizeval_eqb d (Fixed (fst (ho_rs ob)) (snd (ho_rs ob)))
     | ORender _, None => false
     | _, None => true
     | _, Some _ => false
     end.

Fixpoint hspec (fam : family) (ow oh : Z) (e : env PrimFA) (prev : sizeval)
         (ops : list (op PrimFA)) (obs : list hobs) : bool :=
  match ops, obs with
  | [], [] => true
  | o :: ops', ob :: obs' =>
      let '(e', x, c) := hspec_step fam ow oh e prev o in
      hobs_ok fam ow oh e' x c o ob && hspec fam ow oh e' (ho_size ob) ops' obs'
  | _, _ => false
  end.

Definition check_h (c : hcase) : nat :=
  let s := h_init c in
  ((if obsl_eqb (trace (h_fam c) (h_ow c) (h_oh c) s (h_ops c)) (h_obs c) then 0 else 1)
   + (if hspec (h_fam c) (h_ow c) (h_oh c) (st_env s) (st_size s) (h_ops c) (h_obs c)
      then 0 else 2))%nat.

Definition bad_h (cases : list hcase) : list (nat * nat) := nonzero (map check_h cases).

(** diagnostics: the model's trace next to the per-step verdict of the specification *)
Fixpoint hspec_verdicts (fam : family) (ow oh : Z) (e : env PrimFA) (prev : sizeval)
         (ops : list (op PrimFA)) (obs : list hobs) : list bool :=
  match ops, obs with
  | o :: ops', ob :: obs' =>
      let '(e', x, c) := hspec_step fam ow oh e prev o in
      hobs_ok fam ow oh e' x c o ob :: hspec_verdicts fam ow oh e' (ho_size ob) ops' obs'
  | _, _ => []
  end.
Definition diag_h (c : hcase) :=
  let s := h_init c in
  (map (fun m => (o_outcome m, o_size m, o_rendered m, o_rheight m, o_during m))
       (trace (h_fam c) (h_ow c) (h_oh c) s (h_ops c)),
   hspec_verdicts (h_fam c) (h_ow c) (h_oh c) (st_env s) (st_size s) (h_ops c) (h_obs c)).
