(** * DrawQuerySrc — [DrawQuery.query_terminal]'s bracket, read off the SOURCE (C06)

    [gen/Skeletons.v] (regenerated from the library's working tree on every run by
    [harness/tx/tx_skel.py]) holds the effect skeleton of [utils.query_terminal] with
    [write_tty] and [read_tty] inlined.  [bracketed] is a dataflow check of such a skeleton over
    its fault-free paths (faults are C13's subject): the terminal attributes are "switched" when
    the last [tcsetattr] executed put a MODIFIED copy of a snapshot ([x = tcgetattr(); x[..] &= ..;
    tcsetattr(.., x)]) and "as met" when it put an unmodified snapshot back or none was executed;
    the check demands that every transmission ([os.write], [tcdrain]) and every read ([select],
    [os.read]) of the function happens while the attributes are switched, and that every path
    leaves them as met.  It is the skeleton's counterpart of [DrawQuery.disciplined] for one
    exchange: [DrawQuery.query_terminal] = [PSet false; PSend; ...; PRecv; ...; PSet e].

    The skeleton does not say WHICH flags a modification clears ([MutAttr]); that the modified
    copy has ECHO cleared is read from the source by hand ([utils.py:622,682]) and validated by
    the correspondence (the pty runs see the tty's ECHO flag at every arrival).  The check is
    syntactic -- it is not proved sound against [Eff.eval], which has no notion of "while". *)
From Coq Require Import List Bool.
Import ListNotations.
From TI Require Import lib.Eff.

(** abstract state: which snapshot variables certainly hold a modified copy; whether the
    attributes are certainly switched; whether they are certainly as met *)
Record ast := mkast { a_mod : list bool; a_sw : bool; a_met : bool }.

Fixpoint zipand (a b : list bool) : list bool :=
  match a, b with
  | x :: a', y :: b' => (x && y) :: zipand a' b'
  | _, _ => []
  end.

Definition join (s t : ast) : ast :=
  mkast (zipand (a_mod s) (a_mod t)) (a_sw s && a_sw t) (a_met s && a_met t).

Definition ojoin (s t : option ast) : option ast :=
  match s, t with
  | Some a, Some b => Some (join a b)
  | Some a, None | None, Some a => Some a
  | None, None => None
  end.

(** result of a fragment: state at its normal exit, state at a [return] out of it, all I/O
    seen so far happened while switched *)
Record ares := mkres { r_norm : option ast; r_ret : option ast; r_ok : bool }.

Definition step_op (o : op) (s : ast) : ast * bool :=
  match o with
  | Snap RTermios x => (mkast (upd x false (a_mod s)) (a_sw s) (a_met s), true)
  | Taint x => (mkast (upd x true (a_mod s)) (a_sw s) (a_met s), true)
  | Put RTermios x => let m := get x (a_mod s) in (mkast (a_mod s) m (negb m), true)
  | TtyWrite | Drain | TtyRead | Select => (s, a_sw s)
  | _ => (s, true)
  end.

Fixpoint iter (n : nat) (f : ast -> ares) (s : ast) (ret : option ast) (ok : bool) : ares :=
  match n with
  | O => mkres (Some s) ret ok
  | S n' =>
    let r := f s in
    match r_norm r with
    | Some s' => iter n' f (join s s') (ojoin ret (r_ret r)) (ok && r_ok r)
    | None => mkres (Some s) (ojoin ret (r_ret r)) (ok && r_ok r)
    end
  end.

Fixpoint flow (p : prog) (s : ast) : ares :=
  match p with
  | Skip | SetVar _ _ => mkres (Some s) None true
  | Op o => let '(s', ok) := step_op o s in mkres (Some s') None ok
  | Seq a b =>
    let ra := flow a s in
    match r_norm ra with
    | Some s' => let rb := flow b s' in mkres (r_norm rb) (ojoin (r_ret ra) (r_ret rb)) (r_ok ra && r_ok rb)
    | None => ra
    end
  | Choice a b | IfVar _ a b =>
    let ra := flow a s in let rb := flow b s in
    mkres (ojoin (r_norm ra) (r_norm rb)) (ojoin (r_ret ra) (r_ret rb)) (r_ok ra && r_ok rb)
  | Loop b => iter 4 (flow b) s None true
  | TryFinally _ b f =>
    let rb := flow b s in
    let fn := match r_norm rb with Some s' => Some (flow f s') | None => None end in
    let fr := match r_ret rb with Some s' => Some (flow f s') | None => None end in
    mkres (match fn with Some r => r_norm r | None => None end)
          (ojoin (match fn with Some r => r_ret r | None => None end)
                 (match fr with Some r => ojoin (r_norm r) (r_ret r) | None => None end))
          (r_ok rb && match fn with Some r => r_ok r | None => true end
                   && match fr with Some r => r_ok r | None => true end)
  | TryExcept _ b _ _ _ _ => flow b s       (* fault-free paths: the handlers do not run *)
  | Raise _ => mkres None None true
  | Return => mkres None (Some s) true
  | Call q => let r := flow q s in mkres (ojoin (r_norm r) (r_ret r)) None (r_ok r)
  end.

(** [nsnap]: number of snapshot variables of the skeleton *)
Definition bracketed (nsnap : nat) (p : prog) : bool :=
  let r := flow p (mkast (repeat false nsnap) false true) in
  r_ok r
  && match ojoin (r_norm r) (r_ret r) with Some s => a_met s | None => true end.

(** the I/O of a skeleton, in program order (first iteration of loops, both branches of a
    choice one after the other): what there is to bracket *)
Fixpoint io_ops (p : prog) : list op :=
  match p with
  | Op TtyWrite => [TtyWrite] | Op TtyRead => [TtyRead] | Op Drain => [Drain]
  | Seq a b | Choice a b | IfVar _ a b => io_ops a ++ io_ops b
  | Loop b | Call b => io_ops b
  | TryFinally _ b f => io_ops b ++ io_ops f
  | TryExcept _ b _ _ _ _ => io_ops b
  | _ => []
  end.
