(** * TrimSpec — specification side of C17 (definitions only)

    Independent of [model/Trim.v]: what a row of tokens *shows* ([row_vis]: the colours
    of the two halves of every cell, computed left to right under the SGR state; equal
    to what [Term.exec] leaves on the screen, [proofs/TrimProofs.v: row_vis_exec]),
    what cropping a grid means ([crop]), and the shape of a text image's canvas lines
    ([cell], [wf_line], [canvas_lines]) over which the theorems quantify. *)
From Coq Require Import List ZArith Bool Lia.
Import ListNotations.
From TI Require Import lib.Term lib.TermFacts model.Padding.
Open Scope Z_scope.

(** ** what a row shows *)

Definition vcell := (colour * colour)%type.   (* (upper half, lower half) *)

(** the two halves of a cell holding glyph [g] written with attributes [a]
    (= [Term.visual (VGlyph g a)]) *)
Definition gvis (g : glyph) (a : attrs) : vcell :=
  match g with
  | GUpper => (fgc a, bgc a)
  | GLower => (bgc a, fgc a)
  | _ => (bgc a, bgc a)
  end.

(** visuals of the glyphs of a row, left to right, and the SGR attributes at its end;
    NUL is ignored by terminals *)
Fixpoint row_vis (a : attrs) (ts : list tok) : list vcell * attrs :=
  match ts with
  | [] => ([], a)
  | TChar g :: r => let '(v, a') := row_vis a r in (gvis g a :: v, a')
  | TSgr0 :: r => row_vis adefault r
  | TFg c :: r => row_vis {| fg := Some c; bg := bg a |} r
  | TBg c :: r => row_vis {| fg := fg a; bg := Some c |} r
  | _ :: r => row_vis a r
  end.

(** a row of a text canvas consists of glyphs, NULs and SGR sequences only *)
Definition is_text_tok (x : tok) : bool :=
  match x with TChar _ | TNul | TSgr0 | TFg _ | TBg _ => true | _ => false end.
Definition text_only (ts : list tok) : bool := forallb is_text_tok ts.

(** a row drawn on a fresh line (default attributes) *)
Definition vis_row (ts : list tok) : list vcell := fst (row_vis adefault ts).
Definition end_attrs (ts : list tok) : attrs := snd (row_vis adefault ts).

Definition blank : vcell := (CBg0, CBg0).

(** ** cropping: columns [tl, tl+cols) of rows [tt, tt+rows) *)
Definition crop {A} (tl tt cols rows : nat) (grid : list (list A)) : list (list A) :=
  map (fun r => firstn cols (skipn tl r)) (firstn rows (skipn tt grid)).

(** ** the shape of a text image's lines *)

(** a cell: optional SGR prefix, one glyph, optional trailing reset *)
Record cell := { pre : list tok; gl : glyph; post : bool }.

Definition cell_toks (c : cell) : list tok :=
  pre c ++ TChar (gl c) :: (if post c then [TSgr0] else []).

(** the cells of one line separated by NUL (split-cells render; the NUL after the
    last cell is overwritten, [block.py:167-169]) *)
Fixpoint img_line (cs : list cell) : list tok :=
  match cs with
  | [] => []
  | [c] => cell_toks c
  | c :: rest => cell_toks c ++ TNul :: img_line rest
  end.

Definition is_sgr (x : tok) : bool :=
  match x with TSgr0 | TFg _ | TBg _ => true | _ => false end.

(** which of (foreground, background) are fixed by a prefix, whatever came before *)
Fixpoint sets_from (k : bool * bool) (p : list tok) : bool * bool :=
  match p with
  | [] => k
  | TSgr0 :: r => sets_from (true, true) r
  | TFg _ :: r => sets_from (true, snd k) r
  | TBg _ :: r => sets_from (fst k, true) r
  | _ :: r => sets_from k r
  end.

(** which attributes the visual of a glyph depends on *)
Definition covers (k : bool * bool) (g : glyph) : bool :=
  match g with
  | GUpper | GLower => fst k && snd k
  | _ => snd k
  end.

Definition is_nil {A} (l : list A) : bool := match l with [] => true | _ => false end.
Definition glyph_is_m (g : glyph) : bool := match g with GOther 109 => true | _ => false end.

(** Well-formed cell list.  [k]: the attributes fixed by the nearest prefix to the
    left; [ap]: the previous cell ended with a reset (or this is the first cell), so this
    cell must carry a prefix.  Every prefix consists of SGR sequences only; every cell's
    visual is determined by the nearest prefix at or left of it; no glyph is the letter
    [m]. *)
Fixpoint wf_cells (k : bool * bool) (ap : bool) (cs : list cell) : bool :=
  match cs with
  | [] => true
  | c :: rest =>
    let k' := if is_nil (pre c) then k else sets_from (false, false) (pre c) in
    forallb is_sgr (pre c)
    && (negb ap || negb (is_nil (pre c)))
    && covers k' (gl c)
    && negb (glyph_is_m (gl c))
    && wf_cells k' (post c) rest
  end.

(** a well-formed image line: non-empty, first cell prefixed, last cell reset *)
Definition wf_line (cs : list cell) : bool :=
  wf_cells (false, false) true cs
  && match rev cs with c :: _ => post c | [] => false end.

(** The lines of a canvas of size [W x H] holding an image of [w x h] cells
    ([imgs]: its lines) aligned by ([ha], [va]): what [_format_render] makes of the
    render ([Padding.pad_lines] with [Padding.old_dims], space fill), each followed by
    the two NULs of [UrwidImageCanvas.__init__]. *)
Definition canvas_lines (W H w h : Z) (ha va : nat) (imgs : list (list cell)) : list (list tok) :=
  map (fun l => l ++ [TNul; TNul])
      (pad_lines (Some GSpace) (old_dims W H ha va w h) w (map img_line imgs)).

Definition canvas_ok (W H w h : Z) (imgs : list (list cell)) : Prop :=
  0 < w <= W /\ 0 < h <= H /\ Z.of_nat (length imgs) = h
  /\ Forall (fun cs => Z.of_nat (length cs) = w /\ wf_line cs = true) imgs.
