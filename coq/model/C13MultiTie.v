(** Executable comparison for the several-terminals runs of the C13 correspondence
    (harness/impl/impl_c13.py, case key "layout").  One [acase] (model/C13AsyncTie.v: the
    attribute vectors before the call / when it exits with the exception still referenced /
    after release + gc.collect()) PER TERMINAL that exists in the child process -- the terminal
    of stdout, of stdin, the library's active terminal, and bystanders no descriptor of the
    operation refers to.  The specification side is the property itself: EVERY terminal's
    attributes are byte-identical at both observation times.  No skeleton is involved.
    Definitions only. *)
From Coq Require Import List Bool Arith ZArith.
Import ListNotations.
From TI Require Import model.C13AsyncTie.

Definition mcase := list acase.

(** 0: every terminal identical; otherwise the worst [acheck] code (2 / 6: the property fails) *)
Definition mcheck (c : mcase) : nat := fold_right Nat.max 0 (map acheck c).

Definition mbad (cases : list mcase) : list (nat * nat) :=
  filter (fun ic => negb (Nat.eqb (snd ic) 0)) (combine (seq 0 (length cases)) (map mcheck cases)).
