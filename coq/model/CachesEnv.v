(** * CachesEnv — where the cache KEY comes from: the active terminal's window size, with
    the process environment in the state (C15)

    [model/Caches.v] takes "the terminal size in cells" as given ([tm s]).  In the library
    it is the value of [utils.get_terminal_size()], [utils.py:562-584]: the KEY of
    [_cell_size_cache] ([utils.py:428-429]) and of every [terminal_size_cached] entry
    ([utils.py:278-280]), and the divisor of the cell-size computation ([utils.py:469]).
    That function has two sources to choose from:

        size = None
        if _tty_fd != -1:
            try: size = os.get_terminal_size(_tty_fd)     (TIOCGWINSZ on the active terminal)
            except OSError: pass
        return size or _get_terminal_size()               (shutil's: COLUMNS / LINES first)

    [shutil.get_terminal_size(fallback)] gives the environment variables [COLUMNS] and
    [LINES] — each one for its own dimension, when it holds a positive integer —
    precedence over any terminal; they are whatever the parent process exported and do
    not change when the window is resized.

    Here the state carries the WINDOW of the active terminal (what TIOCSWINSZ sets: cells
    and pixels) and the process environment [penv]; the library-side state machine of
    [model/Caches.v] runs against what the key function makes of them ([seen]): its
    columns / rows are the key function's, its pixel fields the window's (the ioctl and
    the XTWINOPS replies report the window whatever the environment says).

    [key_window] is the code (an active terminal exists: [_tty_fd != -1] and the ioctl
    works on it); [key_env_first] is the EXCLUDED design in which shutil decides and the
    window size is only its fallback.  With no active terminal the code itself falls
    back to shutil: then "the terminal size" is by definition what shutil reports, and
    [tm] of [model/Caches.v] stands for that pair (not modelled further here).

    Definitions only; proofs are in [proofs/EnvKeyProofs.v]. *)
From Coq Require Import List ZArith Bool Arith.
Import ListNotations.
From TI Require Import lib.Sched model.Caches.
Open Scope Z_scope.

(** [COLUMNS] / [LINES] as integers; [None]: absent or not an integer *)
Record penv := { pe_cols : option Z; pe_lines : option Z }.
Definition no_penv : penv := {| pe_cols := None; pe_lines := None |}.

(** shutil uses a variable only when it holds a positive integer *)
Definition pinned (v : option Z) : option Z :=
  match v with Some c => if 0 <? c then Some c else None | None => None end.

Definition key_fn := penv -> tsize -> Z * Z.

(** the code, with an active terminal: the window decides *)
Definition key_window : key_fn := fun _ t => (cols t, rows t).

(** excluded: [shutil.get_terminal_size(<window size>)] — each variable pins its dimension *)
Definition key_env_first : key_fn :=
  fun pe t => (match pinned (pe_cols pe) with Some c => c | None => cols t end,
               match pinned (pe_lines pe) with Some r => r | None => rows t end).

(** the terminal as the library sees it *)
Definition seen (kf : key_fn) (pe : penv) (w : tsize) : tsize :=
  {| cols := fst (kf pe w); rows := snd (kf pe w); xpx := xpx w; ypx := ypx w |}.

Inductive eop :=
| EnvSet (pe : penv)   (* [os.environ] changes (or: the history starts in another environment) *)
| Op (o : op).         (* an operation of [model/Caches.v]; [Resize t] / [GetTscResize t] resize the WINDOW to [t] *)

Record estate := {
  e_pe : penv;         (* the process environment *)
  e_win : tsize;       (* the active terminal's window *)
  e_lib : state        (* the library, running against [seen kf e_pe e_win] *)
}.

Definition einit (kf : key_fn) (pe : penv) (w : tsize) : estate :=
  {| e_pe := pe; e_win := w; e_lib := init (seen kf pe w) |}.

(** one operation: new state and, for a library operation, what the caller sees *)
Definition estep (kf : key_fn) (e : tenv) (x : estate) (o : eop) : estate * option (list Z) :=
  match o with
  | EnvSet pe => ({| e_pe := pe; e_win := e_win x; e_lib := set_tm (e_lib x) (seen kf pe (e_win x)) |}, None)
  | Op (Resize t) =>
    ({| e_pe := e_pe x; e_win := t; e_lib := set_tm (e_lib x) (seen kf (e_pe x) t) |}, Some [])
  | Op (GetTscResize t) =>
    let (l', out) := step e (e_lib x) (GetTscResize (seen kf (e_pe x) t)) in
    (* the window is resized only if the body runs *)
    ({| e_pe := e_pe x; e_win := if Nat.eqb (n_tsc l') (n_tsc (e_lib x)) then e_win x else t; e_lib := l' |},
     Some out)
  | Op o' =>
    let (l', out) := step e (e_lib x) o' in
    ({| e_pe := e_pe x; e_win := e_win x; e_lib := l' |}, Some out)
  end.

(** observable trace: one row per LIBRARY operation *)
Fixpoint etrace (kf : key_fn) (e : tenv) (x : estate) (ops : list eop) : list (list Z * list Z) :=
  match ops with
  | [] => []
  | o :: r =>
    let (x', out) := estep kf e x o in
    match out with
    | Some v => (v, counters (e_lib x')) :: etrace kf e x' r
    | None => etrace kf e x' r
    end
  end.

(** the history as [model/Caches.v] and the specification see it: the library operations *)
Fixpoint strip (ops : list eop) : list op :=
  match ops with
  | [] => []
  | EnvSet _ :: r => strip r
  | Op o :: r => o :: strip r
  end.
