(** * CachesHand — the HAND-OVER of the cell-size cache at the first [Process.start()],
    as a step of a thread concurrent with getters and invalidators (C15)

    Part 4 of [model/Caches.v] is the win-size-swap toggles against concurrent
    [get_cell_size] calls over ONE cache object and ONE lock.  The library has a third
    actor on that cache: the wrapper of [multiprocessing.Process.start],
    [utils.py:750-791].  The first start of a subprocess REPLACES the thread-only cache
    (a list guarded by a [threading.RLock]) by a cross-process one (a
    [multiprocessing.Array] holding a COPY of the current entry, guarded by the array's own
    lock) by rebinding the two module globals:

        def _process_start_wrapper(self, ...):
            with _cell_size_lock:                                   (evaluate; acquire)
                if isinstance(_cell_size_lock, _rlock_type):        (test)
                    self._cell_size_cache = _cell_size_cache = \
                        Array("i", _cell_size_cache)                (copy; rebind the cache)
                    _cell_size_lock = _cell_size_cache.get_lock()   (rebind the lock)
                else: self._cell_size_cache = _cell_size_cache
                                                                    (release the lock ACQUIRED)

    Everybody else reaches the cache and its lock through the module globals, evaluated at
    the moment of use:

        enable_win_size_swap() / disable_win_size_swap() / (likewise) enable_queries():
            if utils._swap_win_size != b:                           (test)
                utils._swap_win_size = b                            (flag write — first)
                with utils._cell_size_lock:                         (evaluate; acquire)
                    utils._cell_size_cache[:] = (0,) * 4            (clear the CURRENT cache)
                                                                    (release)
        get_cell_size():
            with _cell_size_lock, _cell_size_lock:                  (evaluate; acquire;
                                                                     evaluate AGAIN; acquire)
                hit: return the entry of the current cache
                miss: ... read _swap_win_size ...; _cell_size_cache[:] = ...   (write the CURRENT cache)
                                                                    (release; release)

    So there are TWO cache objects and TWO lock objects ([XOld]: the import-time list and
    RLock, [XNew]: the shared array and its lock) and two bindings [x_curc] / [x_curl]
    saying which object the module globals name.  A thread that has EVALUATED the lock
    global keeps the object it got: a thread blocked on the old lock while the hand-over
    holds it acquires the OLD lock afterwards (that is what the second expression in
    [get_cell_size]'s [with] statement is for).  The terminal (size in cells and pixels)
    is fixed here, as in part 4 of [model/Caches.v], so a cache entry is the flag value it
    was computed under.  [XToggle b] stands for every "write the setting first, then zero
    the cache under the lock" invalidator: the win-size-swap toggles, and
    [enable_queries()] with [_queries_enabled] as the flag.

    [xstep_gen true] is the VARIANT that makes the copy BEFORE it takes the lock (the test
    and [Array("i", _cell_size_cache)] outside the [with] block, only the two rebinding
    statements inside); it exists only to state that it admits a schedule after which a
    pre-invalidation entry is installed.  [xstep] is [xstep_gen false], the real code.

    Definitions only; proofs are in [proofs/HandProofs.v]. *)
From Coq Require Import List Bool Arith.
Import ListNotations.
From TI Require Import lib.Sched.

Inductive xobj := XOld | XNew.

Definition xobj_eqb (a b : xobj) : bool :=
  match a, b with XOld, XOld | XNew, XNew => true | _, _ => false end.

Definition oupd {A} (f : xobj -> A) (o : xobj) (v : A) : xobj -> A :=
  fun o' => if xobj_eqb o' o then v else f o'.

Inductive xcmd :=
| XToggle (b : bool)   (* [enable_win_size_swap()] ([b = true]) / [disable_win_size_swap()] *)
| XGet                 (* [get_cell_size()] *)
| XStart.              (* [Process.start()] *)

Inductive xpc :=
| XIdle
(* a toggle *)
| XTSet (b : bool)          (* the test passed; about to write the flag *)
| XTEval                    (* flag written; about to evaluate [utils._cell_size_lock] *)
| XTAcq (l : xobj)          (* about to acquire the lock object it got *)
| XTClear (l : xobj)        (* lock [l] held; about to zero [utils._cell_size_cache] (evaluated then) *)
| XTRel (l : xobj)          (* about to release [l] *)
(* [get_cell_size] *)
| XGAcq1 (l1 : xobj)        (* first expression evaluated; about to acquire it *)
| XGEval2 (l1 : xobj)       (* [l1] held; about to evaluate the second expression *)
| XGAcq2 (l1 l2 : xobj)     (* about to acquire [l2] (re-entrant when it is [l1]) *)
| XGLook (l1 l2 : xobj)     (* both held; about to compare with the current cache's key *)
| XGRead (l1 l2 : xobj)     (* miss; computing; about to read the flag *)
| XGWrite (l1 l2 : xobj) (f : bool)   (* about to write the current cache with the value computed under [f] *)
| XGRel2 (l1 l2 : xobj) (f : bool)    (* about to release [l2] *)
| XGRel1 (l1 : xobj) (f : bool)       (* about to release [l1] and return the value computed under [f] *)
(* [Process.start] *)
| XSAcq (l : xobj)          (* lock global evaluated; about to acquire *)
| XSTest (l : xobj)         (* [l] held; about to test [isinstance(_cell_size_lock, _rlock_type)] *)
| XSCopy (l : xobj)         (* about to create the shared array: a COPY of the current cache *)
| XSBindC (l : xobj)        (* about to rebind [_cell_size_cache] to the array *)
| XSBindL (l : xobj)        (* about to rebind [_cell_size_lock] to the array's lock *)
| XSRel (l : xobj)          (* about to release the lock it ACQUIRED *)
(* the variant only: test and copy before the lock *)
| XSCopyE | XSEvalE | XSAcqE (l : xobj).

Record xthread := { x_pc : xpc; x_todo : list xcmd; x_rets : list bool }.

Record xstate := {
  x_lk : xobj -> lock;             (* the two lock objects *)
  x_curl : xobj;                   (* what [utils._cell_size_lock] names *)
  x_curc : xobj;                   (* what [utils._cell_size_cache] names *)
  x_flag : bool;                   (* [utils._swap_win_size] *)
  x_cache : xobj -> option bool;   (* per cache object: live entry for the terminal size = the flag it was computed under *)
  x_ncomp : nat;                   (* computations made *)
  x_th : nat -> xthread
}.

(** thread [t] moves to [pc]; the globals as given *)
Definition xmk (s : xstate) (t : nat) (pc : xpc) (lk : xobj -> lock) (curl curc : xobj) (flag : bool)
           (cache : xobj -> option bool) (ncomp : nat) : xstate :=
  {| x_lk := lk; x_curl := curl; x_curc := curc; x_flag := flag; x_cache := cache; x_ncomp := ncomp;
     x_th := upd (x_th s) t {| x_pc := pc; x_todo := x_todo (x_th s t); x_rets := x_rets (x_th s t) |} |}.

(** only the program counter changes *)
Definition xgo (s : xstate) (t : nat) (pc : xpc) : xstate :=
  xmk s t pc (x_lk s) (x_curl s) (x_curc s) (x_flag s) (x_cache s) (x_ncomp s).

(** [with <lock object l>:] entered / left *)
Definition xacq (s : xstate) (t : nat) (l : xobj) (pc : xpc) : option xstate :=
  if can_acquire (x_lk s l) t
  then Some (xmk s t pc (oupd (x_lk s) l (acquire (x_lk s l) t)) (x_curl s) (x_curc s) (x_flag s) (x_cache s) (x_ncomp s))
  else None.
Definition xrel (s : xstate) (t : nat) (l : xobj) (pc : xpc) : xstate :=
  xmk s t pc (oupd (x_lk s) l (release (x_lk s l))) (x_curl s) (x_curc s) (x_flag s) (x_cache s) (x_ncomp s).

Definition xstep_gen (early : bool) (s : xstate) (t : nat) : option xstate :=
  let th := x_th s t in
  match x_pc th with
  | XIdle =>
    match x_todo th with
    | [] => None
    | c :: rest =>
      let pc :=
          match c with
          | XToggle b => if Bool.eqb (x_flag s) b then XIdle else XTSet b   (* [if utils._swap_win_size != b:] *)
          | XGet => XGAcq1 (x_curl s)                                       (* first [_cell_size_lock] evaluated *)
          | XStart =>
            if early
            then match x_curl s with XOld => XSCopyE | XNew => XIdle end    (* variant: the test, outside *)
            else XSAcq (x_curl s)                                           (* [with _cell_size_lock:] evaluated *)
          end in
      Some {| x_lk := x_lk s; x_curl := x_curl s; x_curc := x_curc s; x_flag := x_flag s; x_cache := x_cache s;
              x_ncomp := x_ncomp s;
              x_th := upd (x_th s) t {| x_pc := pc; x_todo := rest; x_rets := x_rets th |} |}
    end
  (* -- toggle *)
  | XTSet b => Some (xmk s t XTEval (x_lk s) (x_curl s) (x_curc s) b (x_cache s) (x_ncomp s))
  | XTEval => Some (xgo s t (XTAcq (x_curl s)))
  | XTAcq l => xacq s t l (XTClear l)
  | XTClear l =>
    Some (xmk s t (XTRel l) (x_lk s) (x_curl s) (x_curc s) (x_flag s) (oupd (x_cache s) (x_curc s) None) (x_ncomp s))
  | XTRel l => Some (xrel s t l XIdle)
  (* -- get_cell_size *)
  | XGAcq1 l1 => xacq s t l1 (XGEval2 l1)
  | XGEval2 l1 => Some (xgo s t (XGAcq2 l1 (x_curl s)))
  | XGAcq2 l1 l2 => xacq s t l2 (XGLook l1 l2)
  | XGLook l1 l2 =>
    Some (xgo s t (match x_cache s (x_curc s) with Some f => XGRel2 l1 l2 f | None => XGRead l1 l2 end))
  | XGRead l1 l2 => Some (xgo s t (XGWrite l1 l2 (x_flag s)))
  | XGWrite l1 l2 f =>
    Some (xmk s t (XGRel2 l1 l2 f) (x_lk s) (x_curl s) (x_curc s) (x_flag s)
              (oupd (x_cache s) (x_curc s) (Some f)) (S (x_ncomp s)))
  | XGRel2 l1 l2 f => Some (xrel s t l2 (XGRel1 l1 f))
  | XGRel1 l1 f =>
    Some {| x_lk := oupd (x_lk s) l1 (release (x_lk s l1)); x_curl := x_curl s; x_curc := x_curc s;
            x_flag := x_flag s; x_cache := x_cache s; x_ncomp := x_ncomp s;
            x_th := upd (x_th s) t {| x_pc := XIdle; x_todo := x_todo th; x_rets := x_rets th ++ [f] |} |}
  (* -- Process.start *)
  | XSAcq l => xacq s t l (XSTest l)
  | XSTest l => Some (xgo s t (match x_curl s with XOld => XSCopy l | XNew => XSRel l end))
  | XSCopy l =>
    Some (xmk s t (XSBindC l) (x_lk s) (x_curl s) (x_curc s) (x_flag s)
              (oupd (x_cache s) XNew (x_cache s (x_curc s))) (x_ncomp s))
  | XSBindC l => Some (xmk s t (XSBindL l) (x_lk s) (x_curl s) XNew (x_flag s) (x_cache s) (x_ncomp s))
  | XSBindL l => Some (xmk s t (XSRel l) (x_lk s) XNew (x_curc s) (x_flag s) (x_cache s) (x_ncomp s))
  | XSRel l => Some (xrel s t l XIdle)
  (* -- the variant's prefix: copy, THEN the [with] block around the two rebinding statements *)
  | XSCopyE =>
    if early
    then Some (xmk s t XSEvalE (x_lk s) (x_curl s) (x_curc s) (x_flag s)
                   (oupd (x_cache s) XNew (x_cache s (x_curc s))) (x_ncomp s))
    else None
  | XSEvalE => if early then Some (xgo s t (XSAcqE (x_curl s))) else None
  | XSAcqE l => if early then xacq s t l (XSBindC l) else None
  end.

(** the real code *)
Definition xstep := Eval cbv beta iota zeta delta [xstep_gen] in xstep_gen false.

(** all threads idle with their programs; both globals name the import-time objects; flag
    [f0]; the import-time cache empty or ([warm]) holding the value for [f0] *)
Definition xinit (f0 warm : bool) (prog : nat -> list xcmd) : xstate :=
  {| x_lk := fun _ => free_lock; x_curl := XOld; x_curc := XOld; x_flag := f0;
     x_cache := fun o => match o with XOld => if warm then Some f0 else None | XNew => None end;
     x_ncomp := 0;
     x_th := fun t => {| x_pc := XIdle; x_todo := prog t; x_rets := [] |} |}.

(** a toggle whose flag write has happened but whose clear has not *)
Definition x_pending (s : xstate) (t : nat) : Prop :=
  x_pc (x_th s t) = XTEval \/ exists l, x_pc (x_th s t) = XTAcq l \/ x_pc (x_th s t) = XTClear l.

(** the flag under which the value was computed that a [get_cell_size()] running alone
    from [s] returns: the entry's of the cache the module global names NOW, else the
    current flag's *)
Definition x_answer (s : xstate) : bool :=
  match x_cache s (x_curc s) with Some f => f | None => x_flag s end.

(** all threads below [n] have finished *)
Definition x_done (s : xstate) (n : nat) : Prop :=
  forall t, t < n -> x_pc (x_th s t) = XIdle /\ x_todo (x_th s t) = [].
