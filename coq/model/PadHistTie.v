(** Executable comparison for the C05 correspondence on HISTORIES (see [model/PadHist.v]):
    a history of terminal resizes / set_padding / set_render_size / seek / next / per-call
    paddings, the bare frames, and the outputs observed from the implementation. *)
From Coq Require Import List ZArith Bool Lia.
Import ListNotations.
From TI Require Import lib.Term lib.TermFacts lib.Rect lib.RectCheck lib.Lines model.Padding model.PadTie
     model.PadHist.
Open Scope Z_scope.

Record hcase := {
  hc_tw : Z; hc_th : Z;                 (* terminal size at the start *)
  hc_w : Z; hc_h : Z;                   (* the renderable's render size at the start *)
  hc_pad : padspec;                     (* the iterator's constructor padding *)
  hc_N : nat;                           (* frame count *)
  hc_cached : bool;                     (* frame caching on? *)
  hc_steps : list hstep;
  hc_frames : list (nat * Z * Z * list tok);   (* bare renders by (frame / image, w, h) *)
  hc_obs : list (list tok);             (* the outputs, in order *)
  hc_sizes : list (option (Z * Z));     (* Frame.render_size of each output, when there is one *)
}.

Fixpoint lookup (tbl : list (nat * Z * Z * list tok)) (k : nat) (w h : Z) : list tok :=
  match tbl with
  | [] => []
  | (k', w', h', R) :: r => if Nat.eqb k k' && (w =? w') && (h =? h') then R else lookup r k w h
  end.

Definition hc_bare (c : hcase) : nat -> Z -> Z -> list tok := lookup (hc_frames c).

Definition hc_descrs (c : hcase) : list descr :=
  spec_descrs (hc_N c) (hc_tw c) (hc_th c) (hc_w c) (hc_h c) (hc_pad c) (hc_steps c).

Definition hc_model (c : hcase) : list (list tok) :=
  run (hc_bare c) (hc_N c) (hc_tw c) (hc_th c) (hc_w c) (hc_h c) (hc_pad c) (hc_cached c) (hc_steps c).

(** the C05 oracle ([PadTie.oracle]: the box, the fill outside the inner render, the inner
    render unchanged at the offset) for ONE output, with the fill / margins / size / frame
    the specification side ([spec_descrs], a function of the history) says are in force *)
Definition descr_pcase (c : hcase) (d : descr) (obs : list tok) : pcase :=
  let '(l, t, r, b) := d_dims d in
  {| p_kind := PExact l t r b; p_fill := d_fill d; p_tw := 0; p_th := 0; p_w := d_w d; p_h := d_h d;
     p_inner := hc_bare c (d_k d) (d_w d) (d_h d); p_obs := obs; p_obs_dims := [] |}.

Definition out_ok (c : hcase) (d : descr) (obs : list tok) (sz : option (Z * Z)) : bool :=
  let pc := descr_pcase c d obs in
  oracle pc 0 0 && oracle pc 2 3
  && match sz with
     | Some s => let '(l, t, r, b) := d_dims d in size_eqb s (l + d_w d + r, t + d_h d + b)
     | None => true
     end.

Fixpoint outs_ok (c : hcase) (ds : list descr) (obs : list (list tok)) (szs : list (option (Z * Z)))
  : list bool :=
  match ds, obs with
  | d :: ds', o :: obs' =>
    out_ok c d o (hd None szs) :: outs_ok c ds' obs' (tl szs)
  | _, _ => []
  end.

Definition outs_eqb (a b : list (list tok)) : bool :=
  if list_eq_dec (list_eq_dec tok_dec) a b then true else false.

(** 0 = agrees; +1 differs from the model (or the case is not a well-formed history / the
    number of outputs differs); +2 some output fails the oracle *)
Definition hcheck (c : hcase) : nat :=
  (if hist_wf (hc_N c) (hc_w c) (hc_h c) (hc_pad c) (hc_steps c)
      && outs_eqb (hc_model c) (hc_obs c)
   then 0 else 1)
  + (if forallb (fun b => b) (outs_ok c (hc_descrs c) (hc_obs c) (hc_sizes c)) then 0 else 2).

Definition hbad (cases : list hcase) : list (nat * nat) :=
  filter (fun p => negb (Nat.eqb (snd p) 0)) (index_from 0 (map hcheck cases)).

Fixpoint first_false (l : list bool) (i : nat) : option nat :=
  match l with [] => None | b :: r => if b then first_false r (S i) else Some i end.

Fixpoint first_out_diff (a b : list (list tok)) (i : nat) : option (nat * option nat) :=
  match a, b with
  | [], [] => None
  | x :: a', y :: b' => if toks_eqb x y then first_out_diff a' b' (S i) else Some (i, first_diff x y 0)
  | _, _ => Some (i, None)
  end.

(** (well-formed, number of outputs expected, index of the first output failing the oracle
    with its in-force (margins, render size, frame), index of the first output that differs
    from the model with the token position) *)
Definition hexplain (c : hcase) :=
  let oks := outs_ok c (hc_descrs c) (hc_obs c) (hc_sizes c) in
  (hist_wf (hc_N c) (hc_w c) (hc_h c) (hc_pad c) (hc_steps c), length (hc_descrs c),
   match first_false oks 0 with
   | Some i => Some (i, map (fun d => (d_dims d, (d_w d, d_h d), d_k d)) (firstn 1 (skipn i (hc_descrs c))))
   | None => None
   end,
   first_out_diff (hc_model c) (hc_obs c) 0).
