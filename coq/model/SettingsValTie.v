(** Executable comparison used by the C20 correspondence for VALUE-LEVEL histories: the
    operations carry Python values of the whole universe of [model/SettingsVal.v]
    (valid ones, and invalid ones of every kind at every setting and level).  Runs
    [SettingsVal.vtrace] (the argument checks and the writes as the code performs them)
    and [SettingsVal.vspec_trace] (the documented meaning of each value, the documented
    resolution rule on the documented reading of the history) and compares both with what
    the implementation showed: per operation the outcome (0 accepted, 1 TypeError,
    2 ValueError, 3 AttributeError; anything else never matches) followed by the value
    every class and every instance reads afterwards. *)
From Coq Require Import List ZArith Bool Arith.
Import ListNotations.
From TI Require Import model.Settings model.SettingsTie model.SettingsVal.

Record vcase := {
  v_set : setting;
  v_par : list nat;      (* parent of each class, creation order *)
  v_icls : list nat;     (* class of each instance *)
  v_ops : list vop;
  v_obs : list (list Z)  (* per op: outcome code :: class values ++ instance values *)
}.

(** 0 = agrees with model and spec; 1 = differs from the model only;
    2 = the observed behaviour contradicts the specification (property fails); 3 = both *)
Definition vcheck (t : vcase) : nat :=
  let st := v_set t in
  let par := parf (v_par t) in
  let icls := parf (v_icls t) in
  let nc := length (v_par t) in
  let ni := length (v_icls t) in
  let ok_model := zll_eqb (vtrace st par icls nc ni (uinit st) (v_ops t)) (v_obs t) in
  let ok_spec := zll_eqb (vspec_trace st par icls nc ni (v_ops t)) (v_obs t) in
  (if ok_model then 0 else 1) + (if ok_spec then 0 else 2).

Definition vbad (cases : list vcase) : list (nat * nat) :=
  filter (fun p => negb (Nat.eqb (snd p) 0)) (SettingsTie.index_from 0 (map vcheck cases)).
