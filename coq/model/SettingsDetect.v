(** * SettingsDetect — the library's own SUPPORT DETECTION inside settings histories (C20, round 7)

    The settings' histories of [model/Settings.v] contain only the user's set / unset
    operations.  A real program also makes the library DETECT, lazily and at arbitrary
    points, whether the render style is supported by the active terminal:

    - [KittyImage.is_supported], [kitty.py:296-337]: [if cls._supported is None:] the
      detection body runs ON THE INVOKING CLASS (possibly a subclass first) -- terminal
      name / version + the reply to the kitty graphics query -- and records
      [cls._supported] (and [_TERM], [_TERM_VERSION], [_KITTY_VERSION]);
    - [ITerm2Image.is_supported], [iterm2.py:488-506]: same shape, by name / version;
    - [GraphicsImage.__new__], [common.py:1877-1890]: every instance creation calls
      [cls.is_supported()] first, then refuses unless supported or support is forced.

    Here a history interleaves the operations of [Settings.op] with [DDetect] (a support
    check on a class; [fresh]: the recorded flags of the class and its ancestors are
    dropped first so that the detection body runs again) and [DNew] (creation of an
    instance of a class), for a terminal identity that is a parameter of the history.
    As the code stands, detection writes ONLY the support flags: [d_set] is untouched.

    Definitions only; proofs are in [proofs/SettingsDetectProofs.v]. *)

From Coq Require Import List ZArith Bool Arith.
Import ListNotations.
From TI Require Import model.Settings.

(** what the terminal reports *)
Inductive ident :=
| IdKitty30     (* kitty 0.30.0, answers the graphics query OK *)
| IdKitty19     (* kitty 0.19.0 (too old), answers OK *)
| IdKonsole     (* konsole 22.04.0, answers OK *)
| IdWezterm     (* wezterm, answers the graphics query OK (the kitty style accepts kitty / konsole only) *)
| IdIterm2      (* iterm2 (never queried) *)
| IdUnknown.    (* no name, no answer to the graphics query *)

Inductive gstyle := GKitty | GIterm2.

(** the conclusion of the detection body, [kitty.py:299-335] / [iterm2.py:491-504] *)
Definition detects (g : gstyle) (t : ident) : bool :=
  match g, t with
  | GKitty, IdKitty30 => true      (* name = kitty, version >= 0.20.0, reply OK *)
  | GKitty, IdKonsole => true      (* name = konsole, reply OK *)
  | GKitty, _ => false
  | GIterm2, IdKonsole => true     (* konsole >= 22.4.0 *)
  | GIterm2, IdWezterm => true
  | GIterm2, IdIterm2 => true
  | GIterm2, _ => false
  end.

(** the settings' dictionaries + [_supported] in each class's own dictionary (1 / 0);
    above class 0, [GraphicsImage._supported] / [BaseImage._supported] is [None] *)
Record dstate := { d_set : state; d_sup : nat -> option Z }.

Inductive dop :=
| DOp (o : op)
| DDetect (fresh : bool) (c : nat)
| DNew (c : nat).

Definition is_detect (o : dop) : bool := match o with DOp _ => false | _ => true end.

(** the user's part of a history *)
Fixpoint erase (ops : list dop) : list op :=
  match ops with
  | [] => []
  | DOp o :: r => o :: erase r
  | _ :: r => erase r
  end.

(** [del c._supported] on the class and every ancestor below the library's base *)
Fixpoint forget (par : nat -> nat) (sup : nat -> option Z) (fuel c : nat) : nat -> option Z :=
  let sup' := upd sup c None in
  match fuel with
  | 0 => sup'
  | S f => if Nat.eqb c 0 then sup' else forget par sup' f (par c)
  end.

(** [cls.is_supported()]: [if cls._supported is None: cls._supported = <detection>];
    [return cls._supported] *)
Definition is_supported (g : gstyle) (t : ident) (par : nat -> nat) (sup : nat -> option Z)
           (c : nat) : (nat -> option Z) * bool :=
  match cls_lookup par sup c c with
  | Some v => (sup, Z.eqb v 1)
  | None => (upd sup c (Some (if detects g t then 1 else 0)%Z), detects g t)
  end.

Definition b2z (b : bool) : Z := if b then 1%Z else 0%Z.

(** One step; the second component is what the caller sees: the outcome of a set / unset,
    the answer of the support check, or whether the instance was created and -- if so -- the
    value the new instance reads ([isfs]: the setting of the history is forced support, which
    is the one [__new__] consults). *)
Definition dstep (k : kind) (isfs : bool) (g : gstyle) (t : ident) (par : nat -> nat)
           (s : dstate) (o : dop) : dstate * (Z * Z) :=
  match o with
  | DOp o' =>
    let '(s', x) := step k par (d_set s) o' in
    ({| d_set := s'; d_sup := d_sup s |}, (out_code x, (-1)%Z))
  | DDetect fresh c =>
    let sup := if fresh then forget par (d_sup s) c c else d_sup s in
    let '(sup', r) := is_supported g t par sup c in
    ({| d_set := d_set s; d_sup := sup' |}, (b2z r, (-1)%Z))
  | DNew c =>
    let '(sup', r) := is_supported g t par (d_sup s) c in
    let forced := isfs && Z.eqb (cls_eff k par (d_set s) c) 1 in
    let built := r || forced in
    ({| d_set := d_set s; d_sup := sup' |},
     (b2z built, if built then cls_eff k par (d_set s) c else (-1)%Z))
  end.

Definition dinit (k : kind) : dstate := {| d_set := init k; d_sup := fun _ => None |}.

Definition drun (k : kind) (isfs : bool) (g : gstyle) (t : ident) (par : nat -> nat)
           (ops : list dop) : dstate :=
  fold_left (fun s o => fst (dstep k isfs g t par s o)) ops (dinit k).

(** ** Trace of a history (model) *)
Fixpoint dtrace (k : kind) (isfs : bool) (g : gstyle) (t : ident) (par icls : nat -> nat)
         (nc ni : nat) (s : dstate) (ops : list dop) : list (list Z) :=
  match ops with
  | [] => []
  | o :: r =>
    let '(s', (a, b)) := dstep k isfs g t par s o in
    (a :: b :: observe k par icls nc ni (d_set s')) :: dtrace k isfs g t par icls nc ni s' r
  end.

(** ** The documented rule on the history alone: detection steps do not occur in it.
    Per step: the value a newly created instance must read (its class's effective value
    by the rule; [None]: nothing is demanded), then every class's and instance's value. *)
Definition dspec_new (k : kind) (par : nat -> nat) (done : list dop) (o : dop) : option Z :=
  match o with
  | DNew c => Some (spec_cls k par (erase done) c)
  | _ => None
  end.

Fixpoint dspec_trace_aux (k : kind) (par icls : nat -> nat) (nc ni : nat)
         (done todo : list dop) : list (option Z * list Z) :=
  match todo with
  | [] => []
  | o :: r =>
    let d := done ++ [o] in
    (dspec_new k par d o, spec_observe k par icls nc ni (erase d))
      :: dspec_trace_aux k par icls nc ni d r
  end.
Definition dspec_trace k par icls nc ni ops := dspec_trace_aux k par icls nc ni [] ops.

(** ** A variant the property excludes: detection on Konsole "re-homes" the default render
    method of the invoking class ([if cls._render_method == cls._default_render_method:
    cls._render_method = WHOLE]; [cls._default_render_method = WHOLE]).  [v_dd]: the
    [_default_render_method] entries of the class dictionaries. *)
Record vstate := { v_s : dstate; v_dd : nat -> option Z }.

Definition oz_eqb (a b : option Z) : bool :=
  match a, b with
  | Some x, Some y => Z.eqb x y
  | None, None => true
  | _, _ => false
  end.

Definition rehome (par : nat -> nat) (s : state) (dd : nat -> option Z) (c : nat)
  : state * (nat -> option Z) :=
  let cd' := if oz_eqb (cls_lookup par (cd s) c c) (cls_lookup par dd c c)
             then upd (cd s) c (Some 1%Z) else cd s in
  ({| cd := cd'; idt := idt s |}, upd dd c (Some 1%Z)).

Definition vstep (k : kind) (isfs : bool) (g : gstyle) (t : ident) (par : nat -> nat)
           (s : vstate) (o : dop) : vstate :=
  let ran := match o with
             | DOp _ => false
             | DDetect fresh c =>
               match cls_lookup par (if fresh then forget par (d_sup (v_s s)) c c
                                     else d_sup (v_s s)) c c with None => true | _ => false end
             | DNew c => match cls_lookup par (d_sup (v_s s)) c c with None => true | _ => false end
             end in
  let s' := fst (dstep k isfs g t par (v_s s) o) in
  match o, g, t with
  | (DDetect _ c | DNew c), GKitty, IdKonsole =>
    if ran then
      let '(st, dd) := rehome par (d_set s') (v_dd s) c in
      {| v_s := {| d_set := st; d_sup := d_sup s' |}; v_dd := dd |}
    else {| v_s := s'; v_dd := v_dd s |}
  | _, _, _ => {| v_s := s'; v_dd := v_dd s |}
  end.

Definition vrun (k : kind) (isfs : bool) (g : gstyle) (t : ident) (par : nat -> nat)
           (ops : list dop) : vstate :=
  fold_left (vstep k isfs g t par) ops
            {| v_s := dinit k; v_dd := fun c => if Nat.eqb c 0 then Some (k_default k) else None |}.
