(** C14 — terminal access is serialised across threads and processes.

    Only statements, each closed by [exact <lemma>], and [Print Assumptions].

    Vocabulary (model/Locks.v, model/LocksSpec.v, lib/Sched.v):
    - [cf : cfg]: [proc cf t] = the process of thread [t] (0 = the root process; ANY
      assignment of threads to processes), [term_tid cf] = the identifier that stands for
      the FIFO terminal in schedules, [single cf = false] = the code as it is
      ([with _tty_lock, _tty_lock:]; [single cf = true] is the hypothetical one-item variant);
    - [prog : nat -> list cmd]: the program of every thread, a list of
      [CCall depth io] (a call of a [lock_tty]-synchronized function that re-enters
      [depth] times and, innermost, optionally queries the terminal) and [CStart c]
      ([Process.start()] of process [c]); a start is a command of its own, i.e. never
      issued from inside a synchronized body (the property's exclusion);
    - [step cf s t]: thread [t] performs its next micro-step (one read of the module
      global [_tty_lock] of its process, one lock operation, ...), [None] = it has to wait;
      [reachable (step cf) (init prog) s]: [s] is reached by SOME schedule, of any length,
      over any number of threads and processes;
    - [in_body s t]: [t] is inside the body of a synchronized function (at any depth);
    - [accepts tr]: the trace judge of model/LocksSpec.v — the specification, which
      looks at enter / exit / write / reply events alone: bodies never overlap and every
      reply read answers the reader's own last request; it is the judge the harness
      applies to the traces observed on the real code. *)
From Coq Require Import List Arith Bool.
Import ListNotations.
From TI Require Import lib.Sched model.Locks model.LocksSpec model.LocksTie
  proofs.LocksProofs proofs.LocksTieProofs
  model.LockSites gen.LockRegions proofs.LockRegionsProofs model.Exchange proofs.ExchangeProofs
  model.LocksCfg model.LocksCfgTie proofs.LocksCfgProofs proofs.LocksCfgTieProofs proofs.LocksCfgGen.

(** no two threads (of whatever processes) are inside synchronized bodies at once *)
Theorem C14_mutex :
  forall cf, single cf = false ->
  forall prog s t1 t2,
    reachable (step cf) (init prog) s -> in_body s t1 -> in_body s t2 -> t1 = t2.
Proof. exact mutex_lemma. Qed.
Print Assumptions C14_mutex.

(** the lock is re-entrant: a nested call by the thread that is inside a body never
    blocks on either acquire *)
Theorem C14_reentrant :
  forall cf, single cf = false ->
  forall prog s t,
    reachable (step cf) (init prog) s -> t <> term_tid cf -> in_body s t ->
    (exists l1, t_pc (th s t) = PAcq1 l1) \/ (exists l1 l2, t_pc (th s t) = PAcq2 l1 l2) ->
    exists s', step cf s t = Some s'.
Proof. exact reentrant_lemma. Qed.
Print Assumptions C14_reentrant.

(** more generally, the only thing a thread inside a body ever waits for is the
    terminal's reply *)
Theorem C14_owner_proceeds :
  forall cf, single cf = false ->
  forall prog s t,
    reachable (step cf) (init prog) s -> t <> term_tid cf -> in_body s t ->
    ~ waits_reply s t -> exists s', step cf s t = Some s'.
Proof. exact owner_proceeds_lemma. Qed.
Print Assumptions C14_owner_proceeds.

(** the second [with] item is needed: the one-item variant allows a schedule (the lock
    is swapped while a thread waits on the old one) with two threads in a body.  This is
    also the witness that the model can exhibit the race at all. *)
Theorem C14_second_acquire_needed_refuted :
  exists cf prog sch t1 t2,
    single cf = true /\ t1 <> t2 /\
    let s := run_sched (step cf) (init prog) sch in in_body s t1 /\ in_body s t2.
Proof. exact second_acquire_needed_refuted_lemma. Qed.
Print Assumptions C14_second_acquire_needed_refuted.

(** with a FIFO terminal: while a caller waits for its reply, the one and only thing in
    flight — as a request not yet answered or as a reply not yet read — is its own; so
    the reply it will read is its own and nobody else can read it *)
Theorem C14_queries_get_own_reply :
  forall cf, single cf = false ->
  forall prog s t n,
    reachable (step cf) (init prog) s -> t_pc (th s t) = PWait n ->
    (reqs s = [(t, n)] /\ reps s = []) \/ (reqs s = [] /\ reps s = [(t, n)]).
Proof. exact queries_lemma. Qed.
Print Assumptions C14_queries_get_own_reply.

(** the same two facts on traces: whatever the schedule, the (thread, event) trace
    produced so far is accepted by the specification's judge *)
Theorem C14_trace_accepted :
  forall cf, single cf = false ->
  forall prog s,
    reachable (step cf) (init prog) s -> accepts (rev (log s)) = true.
Proof. exact trace_accepted_lemma. Qed.
Print Assumptions C14_trace_accepted.

(** the coarser grain the harness replays (each read of the global glued to the
    preceding step) only produces states the theorems above cover *)
Theorem C14_macro_grain_covered :
  forall cf s0 sch, reachable (step cf) s0 (run_sched (macro cf) s0 sch).
Proof. exact run_macro_reachable. Qed.
Print Assumptions C14_macro_grain_covered.

(** the harness's two verdicts are consistent: for every case (threads, programs,
    schedule) the model's own encoded trace passes the oracle applied to observed traces
    ([obs_ok]: decode, then [accepts]), so an observed trace equal to the model's can never
    be reported as a property failure, and [check] only returns 0, 1 or 3 *)
Theorem C14_model_traces_pass_the_oracle :
  forall c, obs_ok (model_trace c false) = true.
Proof. exact model_trace_accepted. Qed.
Print Assumptions C14_model_traces_pass_the_oracle.

(** TRANSLATED obligation (T).  [lock_regions] is generated from the library's source by
    harness/tx/tx_locks.py (fail-closed; vocabulary model/LockSites.v): one entry per place
    where the terminal is touched.  The theorem says, by computation on that table:
    every use of the OS layer on the terminal's file descriptor ([os.read], [os.write],
    [termios.tc*], the fd handed to [select]) is lexically inside
    [with _tty_lock, _tty_lock:] or inside a [@lock_tty] function; and every read that
    CONTINUES an exchange (a [read_tty] / [read_tty_all] call after a [query_terminal] /
    [write_tty] call of the same function: the reply is not read all at once) is held by
    the SAME region as the call it continues — [query_terminal], [get_fg_bg_colors],
    [get_terminal_name_version]; [get_cell_size] and [read_tty_all] make ONE synchronized
    call that reads the whole reply.  Together with C14_mutex (holds never overlap) this
    is the discipline [disc_ok] of the next theorem.
    Trusts: the translator's reading of Python scoping (lexical regions; a nested def or
    lambda is not held by what encloses it; names are not rebound — refused otherwise),
    that the four synchronized functions are only reached through these call sites inside
    the package, and that a region is left by releasing the lock ([with] semantics). *)
Theorem C14_all_terminal_io_under_lock : forallb io_locked lock_regions = true.
Proof. exact all_terminal_io_under_lock. Qed.
Print Assumptions C14_all_terminal_io_under_lock.

(** the table is not empty or truncated: all seven terminal functions of utils.py were
    seen and the three two-step exchanges were recognised as exchanges *)
Theorem C14_lock_regions_cover : covers lock_regions = true.
Proof. exact lock_regions_cover. Qed.
Print Assumptions C14_lock_regions_cover.

(** for EVERY trace of terminal I/O and lock events: if holds never overlap, the terminal
    is only touched by the holder and nothing is pending when a hold is fully released
    ([disc_ok]), then every byte read belongs to the reader's own reply and nothing is
    lost ([xchg_ok]: the specification applied to the I/O observed on the real
    [get_terminal_name_version] / [get_fg_bg_colors] / [get_cell_size] racing with a
    non-flushing reader) *)
Theorem C14_discipline_gives_own_reply :
  forall tr, disc_ok tr = true -> xchg_ok tr = true.
Proof. exact discipline_gives_own_reply. Qed.
Print Assumptions C14_discipline_gives_own_reply.

(** TRANSLATED obligation (T), the urwid screen.  [screen_regions] (same translator) lists the
    methods of the INSTALLED [urwid.raw_display.Screen] that reach the terminal's files, and
    whether [UrwidImageScreen] overrides them with [@lock_tty].  Required (model/LockSites.v):
    every public method that writes / flushes the output file directly ([write], [flush]),
    [draw_screen] (the library: "[@lock_tty] prevents queries during a synced update") and
    [get_available_raw_input], the reader urwid's event loop calls whenever the terminal
    becomes readable — unsynchronized, it can swallow the reply to a query made by another
    thread.  Not demanded: [_start] / [_stop] / [get_input] (the unchanged code does not
    wrap them).  Trusts: the translator's call graph of urwid's screen classes
    ([self.m()] / [super().m()] calls, union over the MRO), Python's method resolution
    (an override in the subclass is what the event loop calls). *)
Theorem C14_screen_io_under_lock : forallb screen_locked screen_regions = true.
Proof. exact screen_io_under_lock. Qed.
Print Assumptions C14_screen_io_under_lock.

(** the four expected methods exist in the installed urwid and do reach the terminal *)
Theorem C14_screen_regions_cover : screen_covers screen_regions = true.
Proof. exact screen_regions_cover. Qed.
Print Assumptions C14_screen_regions_cover.

(** ** The library CONFIGURATION at the moment of [Process.start()] (model/LocksCfg.v)

    Vocabulary: every process has a configuration [lconf = nat -> bool] (field 0: terminal
    queries enabled — [term_image.disable_queries()] / [enable_queries()]; field 1: the
    window-size swap; any further field: any other setting).  A schedule is a list of
    [sitem]s: [SMove t] (thread [t] makes its next micro-step) or [SConf p f b] (some thread
    of the running process [p] sets field [f] to [b]) — in ANY interleaving.  The step of
    [_process_start_wrapper] that decides whether the lock is shared is given the
    configuration of the starting process through a [policy]; [pol_code q = true] is the
    code as it is.  [initQ prog q0]: the root process begins with ANY configuration [q0];
    [q_init qc c]: child [c] begins with a fresh configuration ([Some q], spawn /
    forkserver) or with a copy of its parent's at that moment ([None], fork).
    [reachable_items (stepI pol qc) (initQ prog q0) s]: [s] is reached by SOME such schedule,
    of any length, over any number of threads and processes. *)

(** mutual exclusion is INDEPENDENT of the configuration and of its changes *)
Theorem C14_config_mutex :
  forall qc, single (q_base qc) = false ->
  forall prog q0 s t1 t2,
    reachable_items (stepI pol_code qc) (initQ prog q0) s ->
    in_body (qs s) t1 -> in_body (qs s) t2 -> t1 = t2.
Proof. exact code_mutex_lemma. Qed.
Print Assumptions C14_config_mutex.

(** more precisely: whatever the configurations and their changes, the lock / thread part of
    a reachable state is a reachable state of the system without configuration — for every
    policy that shares the lock under every configuration *)
Theorem C14_config_independent :
  forall pol qc prog q0 s,
    (forall q, pol q = true) -> single (q_base qc) = false ->
    reachable_items (stepI pol qc) (initQ prog q0) s ->
    reachable (step (q_base qc)) (init prog) (qs s).
Proof. exact cfg_reachable_base. Qed.
Print Assumptions C14_config_independent.

(** no process is ever left on a private lock: every child's module global is the shared
    lock and the thread locks of the child processes are never touched *)
Theorem C14_config_children_on_shared_lock :
  forall pol qc prog q0 s,
    (forall q, pol q = true) -> single (q_base qc) = false ->
    reachable_items (stepI pol qc) (initQ prog q0) s ->
    (forall p, lkC s p = free_lock) /\ (forall p, p <> 0 -> cur (qs s) p = LM).
Proof. exact cfg_children_on_shared_lock. Qed.
Print Assumptions C14_config_children_on_shared_lock.

Theorem C14_config_trace_accepted :
  forall qc, single (q_base qc) = false ->
  forall prog q0 s,
    reachable_items (stepI pol_code qc) (initQ prog q0) s -> accepts (rev (log (qs s))) = true.
Proof. exact code_trace_accepted_lemma. Qed.
Print Assumptions C14_config_trace_accepted.

Theorem C14_config_queries_get_own_reply :
  forall qc, single (q_base qc) = false ->
  forall prog q0 s t n,
    reachable_items (stepI pol_code qc) (initQ prog q0) s -> t_pc (th (qs s) t) = PWait n ->
    (reqs (qs s) = [(t, n)] /\ reps (qs s) = []) \/ (reqs (qs s) = [] /\ reps (qs s) = [(t, n)]).
Proof. exact code_queries_lemma. Qed.
Print Assumptions C14_config_queries_get_own_reply.

(** re-entrancy: a thread inside a body is never blocked by a lock or by the configuration *)
Theorem C14_config_owner_proceeds :
  forall qc, single (q_base qc) = false ->
  forall prog q0 s t,
    reachable_items (stepI pol_code qc) (initQ prog q0) s -> t <> term_tid (q_base qc) ->
    in_body (qs s) t -> ~ waits_reply (qs s) t ->
    exists s', stepI pol_code qc s (SMove t) = Some s'.
Proof. exact code_owner_proceeds_lemma. Qed.
Print Assumptions C14_config_owner_proceeds.

(** the variant whose start step shares the lock only while queries are enabled (and hands
    the child nothing otherwise) is refuted: disable queries; start the child; parent and
    child are both inside a synchronized body *)
Theorem C14_share_only_when_queries_enabled_refuted :
  exists qc prog q0 sch t1 t2,
    single (q_base qc) = false /\ t1 <> t2 /\
    let s := run_items (stepI pol_if_queries qc) (initQ prog q0) sch in
    in_body (qs s) t1 /\ in_body (qs s) t2.
Proof. exact cfg_share_only_when_enabled_refuted_lemma. Qed.
Print Assumptions C14_share_only_when_queries_enabled_refuted.

(** the grain the harness replays only produces states the theorems above cover *)
Theorem C14_config_macro_grain_covered :
  forall pol qc s0 sch,
    reachable_items (stepI pol qc) s0 (run_items (macroI pol qc) s0 sch).
Proof. exact run_macroI_reachable. Qed.
Print Assumptions C14_config_macro_grain_covered.

(** the verdicts of the harness's comparison over schedules with configuration changes are
    consistent: the model's own encoded trace passes the oracle applied to observed traces *)
Theorem C14_config_model_traces_pass_the_oracle :
  forall c, obs_ok (model_traceQ c) = true.
Proof. exact model_traceQ_accepted. Qed.
Print Assumptions C14_config_model_traces_pass_the_oracle.

(** TRANSLATED obligation (T).  [start_handover] is generated from the source of
    [_process_start_wrapper] / [_process_run_wrapper] by harness/tx/tx_locks.py (fail-closed):
    the [if] / [elif] / [else] chain that decides what the child is handed, with its
    CONDITIONS (boolean expressions over [isinstance(_tty_lock, _rlock_type)] and the module
    globals of utils.py, i.e. the library's settings).  By computation on that table: whatever
    the configuration, a thread lock is replaced by a new shared lock that is handed over and
    a shared lock is handed over as it is — the model's [pol_code].  Any extra conjunct on a
    setting (or a branch that hands over nothing) breaks this theorem; a condition outside
    that vocabulary is refused by the translator.
    Trusts: the translator's reading of the chain, [mp_RLock()] creates a lock (a platform
    without [multiprocessing.synchronize] — the [except ImportError] arm — is outside the
    property). *)
Theorem C14_start_handover_ignores_configuration :
  forall (is_thread_lock : bool) (q : nat -> bool),
    eval_handover start_handover is_thread_lock q = if is_thread_lock then ONew else OGlobal.
Proof. exact start_handover_ignores_configuration. Qed.
Print Assumptions C14_start_handover_ignores_configuration.

(** ... the decision is taken under the old lock and the child installs what it is handed *)
Theorem C14_start_handover_shape :
  h_under_lock start_handover = true /\ h_run_installs start_handover = true.
Proof. exact start_handover_shape. Qed.
Print Assumptions C14_start_handover_shape.

(** mutual exclusion for the system whose start step follows the TRANSLATED table *)
Theorem C14_config_mutex_translated :
  forall qc, single (q_base qc) = false ->
  forall prog q0 s t1 t2,
    reachable_items (stepI (pol_of_table start_handover) qc) (initQ prog q0) s ->
    in_body (qs s) t1 -> in_body (qs s) t2 -> t1 = t2.
Proof. exact cfg_mutex_translated_lemma. Qed.
Print Assumptions C14_config_mutex_translated.

(** ** HOW THE ACTIVE TERMINAL WAS FOUND when the library was imported
    (model/LockImport.v, model/LocksFound.v)

    Vocabulary: [found := FStream k | FDevTty | FNone] — the terminal was found through the
    k-th standard stream in the order of priority (stdout, stdin, stderr), through the
    fallback (the controlling terminal; all three standard streams redirected), or not at
    all; [find_terminal e] for an environment [e] (which standard streams are terminals, is
    there a controlling terminal).  [fc : fcfg] = a configuration of [LocksCfg] together
    with the route [f_found fc]: a parameter of the INITIAL configuration.  The system
    [stepFound inst fc]: [Process.start()] runs the library's start wrapper iff
    [inst (f_found fc)] (the hooks were installed at import time); otherwise it is the
    original [Process.start] — no lock operation, nothing handed over, the child runs on
    the private thread lock of its own process.  [inst_code = found_tty] is the code as it
    is ([if _tty_fd != -1:] AFTER the search, utils.py:843). *)
From TI Require Import model.LockImport model.LocksFound model.LocksFoundTie
  proofs.LocksFoundProofs proofs.LocksFoundGen.

(** a terminal is found iff a standard stream is one or there is a controlling terminal *)
Theorem C14_find_terminal_found :
  forall e, found_tty (find_terminal e) = existsb (fun b => b) (e_streams e) || e_ctty e.
Proof. exact find_terminal_found. Qed.
Print Assumptions C14_find_terminal_found.

(** whenever a terminal was found — by whatever route — the system IS the one of
    [C14_config_*] (the hooks are installed) ... *)
Theorem C14_found_system_is_config_system :
  forall fc s0 s, found_tty (f_found fc) = true ->
    reachable_items (stepFound inst_code fc) s0 s -> reachable_items (stepI pol_code (f_q fc)) s0 s.
Proof. exact found_reachable_cfg. Qed.
Print Assumptions C14_found_system_is_config_system.

(** ... hence mutual exclusion across threads and processes, for every route *)
Theorem C14_found_mutex :
  forall fc, found_tty (f_found fc) = true -> single (q_base (f_q fc)) = false ->
  forall prog q0 s t1 t2,
    reachable_items (stepFound inst_code fc) (initQ prog q0) s ->
    in_body (qs s) t1 -> in_body (qs s) t2 -> t1 = t2.
Proof. exact found_mutex_lemma. Qed.
Print Assumptions C14_found_mutex.

Theorem C14_found_trace_accepted :
  forall fc, found_tty (f_found fc) = true -> single (q_base (f_q fc)) = false ->
  forall prog q0 s,
    reachable_items (stepFound inst_code fc) (initQ prog q0) s -> accepts (rev (log (qs s))) = true.
Proof. exact found_trace_accepted_lemma. Qed.
Print Assumptions C14_found_trace_accepted.

Theorem C14_found_queries_get_own_reply :
  forall fc, found_tty (f_found fc) = true -> single (q_base (f_q fc)) = false ->
  forall prog q0 s t n,
    reachable_items (stepFound inst_code fc) (initQ prog q0) s -> t_pc (th (qs s) t) = PWait n ->
    (reqs (qs s) = [(t, n)] /\ reps (qs s) = []) \/ (reqs (qs s) = [] /\ reps (qs s) = [(t, n)]).
Proof. exact found_queries_lemma. Qed.
Print Assumptions C14_found_queries_get_own_reply.

Theorem C14_found_children_on_shared_lock :
  forall fc, found_tty (f_found fc) = true -> single (q_base (f_q fc)) = false ->
  forall prog q0 s,
    reachable_items (stepFound inst_code fc) (initQ prog q0) s ->
    (forall p, lkC s p = free_lock) /\ (forall p, p <> 0 -> cur (qs s) p = LM).
Proof. exact found_children_on_shared_lock. Qed.
Print Assumptions C14_found_children_on_shared_lock.

(** no terminal found: no hook; and without hooks [Process.start()] is one thread-local
    micro-step to the original start — no lock operation, no event, nothing handed over —
    and a micro-step never takes a thread into the start wrapper, swaps the lock or hands
    a shared lock over *)
Theorem C14_none_found_no_hooks : inst_code FNone = false.
Proof. exact none_found_no_hooks. Qed.
Print Assumptions C14_none_found_no_hooks.

Theorem C14_nohooks_start_is_original :
  forall pol sg c q r x ch, t_pc x = SRead ch ->
    nextF false pol sg c q r x = Some (ANone, with_pc x (SStart ch LT), []).
Proof. exact nohooks_start_is_original. Qed.
Print Assumptions C14_nohooks_start_is_original.

Theorem C14_nohooks_no_lock_handover :
  forall pol sg c q r x a x' ev,
    wrapper_free (t_pc x) = true -> nextF false pol sg c q r x = Some (a, x', ev) ->
    wrapper_free (t_pc x') = true
    /\ match a with ASwap => False | AStart _ LM => False | _ => True end.
Proof. exact nextF_nohooks_wrapper_free. Qed.
Print Assumptions C14_nohooks_no_lock_handover.

(** ... and over ALL schedules (induction on reachability): when no terminal was found, no
    thread ever executes the start wrapper and the module global of every running process
    stays the thread lock of that process — no lock is ever created or handed over *)
Theorem C14_none_found_handed_nothing :
  forall fc prog q0 s, found_tty (f_found fc) = false ->
    reachable_items (stepFound inst_code fc) (initQ prog q0) s ->
    (forall t, wrapper_free (t_pc (th (qs s) t)) = true)
    /\ (forall p, started (qs s) p = true -> cur (qs s) p = LT).
Proof. exact none_found_handed_nothing. Qed.
Print Assumptions C14_none_found_handed_nothing.

(** the variant that installs the hooks only when the terminal was found through a
    standard stream is refuted: terminal found through the fallback, the parent starts a
    child, parent and child are both inside a synchronized body *)
Theorem C14_hooks_only_for_std_stream_refuted :
  exists fc prog q0 sch t1 t2,
    found_tty (f_found fc) = true /\ single (q_base (f_q fc)) = false /\ t1 <> t2 /\
    let s := run_items (stepFound inst_stream_only fc) (initQ prog q0) sch in
    in_body (qs s) t1 /\ in_body (qs s) t2.
Proof. exact hooks_only_for_std_stream_refuted_lemma. Qed.
Print Assumptions C14_hooks_only_for_std_stream_refuted.

(** the verdicts of the harness's comparison over environments are consistent: a case is
    never judged "contradicts the property" while agreeing with the model *)
Theorem C14_found_check_codes : forall c, checkF c = 0 \/ checkF c = 1 \/ checkF c = 3.
Proof. exact checkF_codes. Qed.
Print Assumptions C14_found_check_codes.

(** TRANSLATED obligation (T).  [import_paths] is generated from the module initialisation
    of utils.py by harness/tx/tx_locks.py (fail-closed): the block is interpreted along
    every execution path (for / else, try / except OSError, break / continue, if; the
    branching is the outcome of every [os.open] attempt).  On EVERY path: both hook
    assignments were executed iff [_tty_fd] was assigned, i.e. iff the path's route finds a
    terminal — the model's [inst_code].  Trusts: the translator's reading of the block,
    [OS_IS_UNIX] (the property is about Unix), that [os.open] either returns a descriptor
    or raises [OSError]. *)
Theorem C14_source_hooks_installed_iff_terminal_found :
  forall p, In p import_paths ->
    ((ip_start p = true /\ ip_run p = true) <-> ip_tty p = true)
    /\ ip_tty p = found_tty (ip_route p)
    /\ ip_start p = inst_code (ip_route p) /\ ip_run p = inst_code (ip_route p).
Proof. exact source_hooks_installed_iff_terminal_found. Qed.
Print Assumptions C14_source_hooks_installed_iff_terminal_found.

(** ... and the table has a path for each standard stream, the fallback and no terminal *)
Theorem C14_source_import_paths_cover : paths_cover import_paths 3 = true.
Proof. exact source_import_paths_cover. Qed.
Print Assumptions C14_source_import_paths_cover.
