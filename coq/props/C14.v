(** C14 — terminal access is serialised across threads and processes.

    Only statements, each closed by [exact <lemma>], and [Print Assumptions].

    Vocabulary (model/Locks.v, model/LocksSpec.v, lib/Sched.v):
    - [cf : cfg]: [proc cf t] = the process of thread [t] (0 = the root process; ANY
      assignment of threads to processes), [term_tid cf] = the identifier that stands for
      the FIFO terminal in schedules, [single cf = false] = the code as it is
      ([with _tty_lock, _tty_lock:]; [single cf = true] is the hypothetical one-item variant);
    - [prog : nat -> list cmd]: the program of every thread, a list of
      [CCall depth io] (a call of a [lock_tty]-synchronized function that re-enters
      [depth] times and, innermost, optionally queries the terminal) and [CStart c]
      ([Process.start()] of process [c]); a start is a command of its own, i.e. never
      issued from inside a synchronized body (the property's exclusion);
    - [step cf s t]: thread [t] performs its next micro-step (one read of the module
      global [_tty_lock] of its process, one lock operation, ...), [None] = it has to wait;
      [reachable (step cf) (init prog) s]: [s] is reached by SOME schedule, of any length,
      over any number of threads and processes;
    - [in_body s t]: [t] is inside the body of a synchronized function (at any depth);
    - [accepts tr]: the trace judge of model/LocksSpec.v — the specification, which
      looks at enter / exit / write / reply events alone: bodies never overlap and every
      reply read answers the reader's own last request; it is the judge the harness
      applies to the traces observed on the real code. *)
From Coq Require Import List Arith Bool.
Import ListNotations.
From TI Require Import lib.Sched model.Locks model.LocksSpec model.LocksTie
  proofs.LocksProofs proofs.LocksTieProofs
  model.LockSites gen.LockRegions proofs.LockRegionsProofs model.Exchange proofs.ExchangeProofs.

(** no two threads (of whatever processes) are inside synchronized bodies at once *)
Theorem C14_mutex :
  forall cf, single cf = false ->
  forall prog s t1 t2,
    reachable (step cf) (init prog) s -> in_body s t1 -> in_body s t2 -> t1 = t2.
Proof. exact mutex_lemma. Qed.
Print Assumptions C14_mutex.

(** the lock is re-entrant: a nested call by the thread that is inside a body never
    blocks on either acquire *)
Theorem C14_reentrant :
  forall cf, single cf = false ->
  forall prog s t,
    reachable (step cf) (init prog) s -> t <> term_tid cf -> in_body s t ->
    (exists l1, t_pc (th s t) = PAcq1 l1) \/ (exists l1 l2, t_pc (th s t) = PAcq2 l1 l2) ->
    exists s', step cf s t = Some s'.
Proof. exact reentrant_lemma. Qed.
Print Assumptions C14_reentrant.

(** more generally, the only thing a thread inside a body ever waits for is the
    terminal's reply *)
Theorem C14_owner_proceeds :
  forall cf, single cf = false ->
  forall prog s t,
    reachable (step cf) (init prog) s -> t <> term_tid cf -> in_body s t ->
    ~ waits_reply s t -> exists s', step cf s t = Some s'.
Proof. exact owner_proceeds_lemma. Qed.
Print Assumptions C14_owner_proceeds.

(** the second [with] item is needed: the one-item variant allows a schedule (the lock
    is swapped while a thread waits on the old one) with two threads in a body.  This is
    also the witness that the model can exhibit the race at all. *)
Theorem C14_second_acquire_needed_refuted :
  exists cf prog sch t1 t2,
    single cf = true /\ t1 <> t2 /\
    let s := run_sched (step cf) (init prog) sch in in_body s t1 /\ in_body s t2.
Proof. exact second_acquire_needed_refuted_lemma. Qed.
Print Assumptions C14_second_acquire_needed_refuted.

(** with a FIFO terminal: while a caller waits for its reply, the one and only thing in
    flight — as a request not yet answered or as a reply not yet read — is its own; so
    the reply it will read is its own and nobody else can read it *)
Theorem C14_queries_get_own_reply :
  forall cf, single cf = false ->
  forall prog s t n,
    reachable (step cf) (init prog) s -> t_pc (th s t) = PWait n ->
    (reqs s = [(t, n)] /\ reps s = []) \/ (reqs s = [] /\ reps s = [(t, n)]).
Proof. exact queries_lemma. Qed.
Print Assumptions C14_queries_get_own_reply.

(** the same two facts on traces: whatever the schedule, the (thread, event) trace
    produced so far is accepted by the specification's judge *)
Theorem C14_trace_accepted :
  forall cf, single cf = false ->
  forall prog s,
    reachable (step cf) (init prog) s -> accepts (rev (log s)) = true.
Proof. exact trace_accepted_lemma. Qed.
Print Assumptions C14_trace_accepted.

(** the coarser grain the harness replays (each read of the global glued to the
    preceding step) only produces states the theorems above cover *)
Theorem C14_macro_grain_covered :
  forall cf s0 sch, reachable (step cf) s0 (run_sched (macro cf) s0 sch).
Proof. exact run_macro_reachable. Qed.
Print Assumptions C14_macro_grain_covered.

(** the harness's two verdicts are consistent: for every case (threads, programs,
    schedule) the model's own encoded trace passes the oracle applied to observed traces
    ([obs_ok]: decode, then [accepts]), so an observed trace equal to the model's can never
    be reported as a property failure, and [check] only returns 0, 1 or 3 *)
Theorem C14_model_traces_pass_the_oracle :
  forall c, obs_ok (model_trace c false) = true.
Proof. exact model_trace_accepted. Qed.
Print Assumptions C14_model_traces_pass_the_oracle.

(** TRANSLATED obligation (T).  [lock_regions] is generated from the library's source by
    harness/tx/tx_locks.py (fail-closed; vocabulary model/LockSites.v): one entry per place
    where the terminal is touched.  The theorem says, by computation on that table:
    every use of the OS layer on the terminal's file descriptor ([os.read], [os.write],
    [termios.tc*], the fd handed to [select]) is lexically inside
    [with _tty_lock, _tty_lock:] or inside a [@lock_tty] function; and every read that
    CONTINUES an exchange (a [read_tty] / [read_tty_all] call after a [query_terminal] /
    [write_tty] call of the same function: the reply is not read all at once) is held by
    the SAME region as the call it continues — [query_terminal], [get_fg_bg_colors],
    [get_terminal_name_version]; [get_cell_size] and [read_tty_all] make ONE synchronized
    call that reads the whole reply.  Together with C14_mutex (holds never overlap) this
    is the discipline [disc_ok] of the next theorem.
    Trusts: the translator's reading of Python scoping (lexical regions; a nested def or
    lambda is not held by what encloses it; names are not rebound — refused otherwise),
    that the four synchronized functions are only reached through these call sites inside
    the package, and that a region is left by releasing the lock ([with] semantics). *)
Theorem C14_all_terminal_io_under_lock : forallb io_locked lock_regions = true.
Proof. exact all_terminal_io_under_lock. Qed.
Print Assumptions C14_all_terminal_io_under_lock.

(** the table is not empty or truncated: all seven terminal functions of utils.py were
    seen and the three two-step exchanges were recognised as exchanges *)
Theorem C14_lock_regions_cover : covers lock_regions = true.
Proof. exact lock_regions_cover. Qed.
Print Assumptions C14_lock_regions_cover.

(** for EVERY trace of terminal I/O and lock events: if holds never overlap, the terminal
    is only touched by the holder and nothing is pending when a hold is fully released
    ([disc_ok]), then every byte read belongs to the reader's own reply and nothing is
    lost ([xchg_ok]: the specification applied to the I/O observed on the real
    [get_terminal_name_version] / [get_fg_bg_colors] / [get_cell_size] racing with a
    non-flushing reader) *)
Theorem C14_discipline_gives_own_reply :
  forall tr, disc_ok tr = true -> xchg_ok tr = true.
Proof. exact discipline_gives_own_reply. Qed.
Print Assumptions C14_discipline_gives_own_reply.

(** TRANSLATED obligation (T), the urwid screen.  [screen_regions] (same translator) lists the
    methods of the INSTALLED [urwid.raw_display.Screen] that reach the terminal's files, and
    whether [UrwidImageScreen] overrides them with [@lock_tty].  Required (model/LockSites.v):
    every public method that writes / flushes the output file directly ([write], [flush]),
    [draw_screen] (the library: "[@lock_tty] prevents queries during a synced update") and
    [get_available_raw_input], the reader urwid's event loop calls whenever the terminal
    becomes readable — unsynchronized, it can swallow the reply to a query made by another
    thread.  Not demanded: [_start] / [_stop] / [get_input] (the unchanged code does not
    wrap them).  Trusts: the translator's call graph of urwid's screen classes
    ([self.m()] / [super().m()] calls, union over the MRO), Python's method resolution
    (an override in the subclass is what the event loop calls). *)
Theorem C14_screen_io_under_lock : forallb screen_locked screen_regions = true.
Proof. exact screen_io_under_lock. Qed.
Print Assumptions C14_screen_io_under_lock.

(** the four expected methods exist in the installed urwid and do reach the terminal *)
Theorem C14_screen_regions_cover : screen_covers screen_regions = true.
Proof. exact screen_regions_cover. Qed.
Print Assumptions C14_screen_regions_cover.
