(** C19 — format specifiers are accepted and interpreted exactly as documented.

    Only statements, each closed by [exact <lemma>], and [Print Assumptions].

    [clang r s]: the string of code points [s] belongs to the language of the
    character-level expression [r] (lib/CRe.v: denotational semantics).
    [impl_accepts sty] / [impl_main]: built in model/FmtSpec.v from the regular
    expressions that harness/tx/tx_regex.py translates from the *current* source into
    gen/Regexes.v; [doc_grammar sty] / [doc_main]: the documented grammar, written by
    hand.  [valid_str s]: every element of [s] is a Unicode code point (<= 0x10FFFF).
    The acceptance theorems hold for ALL strings; they are re-proved from the source on
    every run and stop compiling when the source's language differs from the documented
    one. *)
From Coq Require Import List Bool Arith NArith ZArith.
Import ListNotations.
From TI Require Import lib.Re lib.ReSound lib.CRe gen.Regexes model.FmtSpec proofs.FmtSpecProofs.
From TI Require Import model.FmtEnv proofs.FmtEnvProofs.
From TI Require Import model.FmtDen proofs.FmtDenProofs.

(** a specifier is accepted for a render style iff it is a sentence of the documented
    grammar  [h_align][width][.[v_align][height]][#[threshold|bgcolor]][+style]
    (at least one of v_align/height after a dot; style part valid for the style) *)
Theorem C19_accepts_iff_grammar : forall sty s, valid_str s ->
  (clang (impl_accepts sty) s <-> clang (doc_grammar sty) s).
Proof. exact accepts_iff_grammar. Qed.
Print Assumptions C19_accepts_iff_grammar.

(** the error class: "Invalid format specifier" (ValueError) is raised exactly outside
    the documented grammar with an arbitrary one-line style part; inside it, a refusal
    comes from the style part (StyleError) *)
Theorem C19_value_error_iff_not_main_grammar : forall s, valid_str s ->
  (clang impl_main s <-> clang doc_main s).
Proof. exact main_iff_grammar. Qed.
Print Assumptions C19_value_error_iff_not_main_grammar.

Theorem C19_accepted_passes_main_check : forall sty s, valid_str s ->
  clang (impl_accepts sty) s -> clang impl_main s.
Proof. exact accepted_is_main. Qed.
Print Assumptions C19_accepted_passes_main_check.

(** the search-then-sequential-match procedure of _get_style_format_spec (+ empty
    parent, nothing left over) accepts exactly the documented style grammars *)
Theorem C19_style_procedure_is_documented_style_grammar : forall s, valid_str s ->
  (clang (style_lang KITTY_STYLE) s <-> clang doc_style_kitty s) /\
  (clang (style_lang ITERM2_STYLE) s <-> clang doc_style_iterm2 s).
Proof. exact (fun s HV => conj (style_iff_grammar_kitty s HV) (style_iff_grammar_iterm2 s HV)). Qed.
Print Assumptions C19_style_procedure_is_documented_style_grammar.

(** _ALPHA_BG_FORMAT (used to tell a colour from a threshold) is "#" or "#" + 6 hex
    digits, and the hand-written test used by the interpretation model is that language *)
Theorem C19_alpha_bg_format : forall u, valid_str u ->
  (clang ALPHA_BG_FORMAT u <-> alpha_bg_hand u = true).
Proof.
  exact (fun u HV => iff_trans (alpha_bg_format u HV) (iff_sym (alpha_bg_hand_spec u))).
Qed.
Print Assumptions C19_alpha_bg_format.

(** interpretation: on the fields of a sentence, what _check_format_spec /
    _check_formatting / _check_style_format_spec / _check_style_args compute denotes the
    documented alignment, padding size (absent = terminal width / terminal height - 2,
    zero = relative to the terminal), transparency setting and style arguments; the only
    refusal left is the documented z-index range (ValueError) *)
Theorem C19_interp_agrees : forall ts sty f sf,
  (1 <= cols ts)%Z -> (3 <= lines ts)%Z ->
  fields_wf f = true -> sf_ok sty sf = true ->
  match interp ts sty f sf with
  | Accepted r => doc_interp ts sty f sf = Some (denote r)
  | ValueErr => doc_interp ts sty f sf = None
  | StyleErr => False
  end.
Proof. exact interp_agrees. Qed.
Print Assumptions C19_interp_agrees.

(** the machinery: a certificate accepted by [closed] is a bisimulation, and the
    executable matcher used by the correspondence decides the denotational language
    (the abstraction from characters to classes is CRe.abstract_sound, used inside
    [cequiv_check_sound] on which the acceptance theorems rest) *)
Theorem C19_certificate_checker_sound : forall n R, closed n R = true ->
  forall r s, In (r, s) R ->
  forall w, Forall (fun c => c < n) w -> matches r w = matches s w.
Proof. exact closed_sound. Qed.
Print Assumptions C19_certificate_checker_sound.

Theorem C19_matches_is_language : forall w r, matches r w = true <-> lang r w.
Proof. exact matches_lang. Qed.
Print Assumptions C19_matches_is_language.

(** * The environment in which format() is called (round 4)

    [env] (model/FmtEnv.v): the terminal size the process is told, and which of its three
    standard streams are on a terminal.  [impl_format e sty rs f sf]: BaseImage.__format__
    (= _check_format_spec, then _format_render) in environment [e], for a render of size
    [rs]; [geom_ok m rs g]: the rectangle the documented meaning [m] demands. *)

(** in EVERY environment the formatted string has the documented geometry: padded width
    and height (absent / zero = terminal-relative, a padding size not above the render
    size has no effect), horizontal and vertical placement *)
Theorem C19_format_geometry_agrees : forall e sty rs f sf,
  (1 <= cols (e_ts e))%Z -> (3 <= lines (e_ts e))%Z -> (1 <= rc rs)%Z -> (1 <= rl rs)%Z ->
  fields_wf f = true -> sf_ok sty sf = true ->
  match impl_format e sty rs f sf with
  | FOk g a sa =>
      exists m, doc_interp (e_ts e) sty f sf = Some m /\ geom_ok m rs g = true
                /\ m_t m = denote_alpha a
  | FValueErr => doc_interp (e_ts e) sty f sf = None
  | FStyleErr => False
  end.
Proof. exact format_geometry_agrees. Qed.
Print Assumptions C19_format_geometry_agrees.

(** the result depends on the environment through the reported terminal size only ... *)
Theorem C19_format_env_independent : forall e1 e2 sty rs f sf,
  e_ts e1 = e_ts e2 -> impl_format e1 sty rs f sf = impl_format e2 sty rs f sf.
Proof. exact format_env_independent. Qed.
Print Assumptions C19_format_env_independent.

(** ... in particular: forall tty, fmt tty spec = fmt (negb tty) spec, for each stream *)
Theorem C19_format_tty_independent : forall ts i o r sty rs f sf,
  let fmt i o r := impl_format {| e_ts := ts; e_in_tty := i; e_out_tty := o; e_err_tty := r |} sty rs f sf in
  fmt i o r = fmt i (negb o) r /\ fmt i o r = fmt (negb i) o r /\ fmt i o r = fmt i o (negb r).
Proof. exact format_tty_independent. Qed.
Print Assumptions C19_format_tty_independent.

(** an explicit positive padding width / height is used AS GIVEN in every environment —
    any terminal size (in particular a smaller one), streams on a terminal or not *)
Theorem C19_explicit_width_as_given : forall e sty rs f sf g a sa,
  explicit (f_width f) -> impl_format e sty rs f sf = FOk g a sa ->
  g_width g = Z.max (int_of (f_width f)) (rc rs).
Proof. exact explicit_width_as_given. Qed.
Print Assumptions C19_explicit_width_as_given.

Theorem C19_explicit_height_as_given : forall e sty rs f sf g a sa,
  explicit (f_height f) -> impl_format e sty rs f sf = FOk g a sa ->
  g_lines g = Z.max (int_of (f_height f)) (rl rs).
Proof. exact explicit_height_as_given. Qed.
Print Assumptions C19_explicit_height_as_given.

(** ANY formatting function [F] that meets the documented meaning in every environment
    accepts the same specifiers and pads to the same size whatever the streams are, and
    pads an explicit width as written ([F] and its conformance are the hypotheses) *)
Theorem C19_conforming_format_ignores_tty :
  forall F : env -> style -> rsize -> fields -> option sfields -> option geom,
  (forall e sty rs f sf,
     match F e sty rs f sf with
     | Some g => exists m, doc_interp (e_ts e) sty f sf = Some m /\ geom_ok m rs g = true
     | None => doc_interp (e_ts e) sty f sf = None
     end) ->
  forall e1 e2 sty rs f sf, e_ts e1 = e_ts e2 ->
    match F e1 sty rs f sf, F e2 sty rs f sf with
    | Some g1, Some g2 => g_width g1 = g_width g2 /\ g_lines g1 = g_lines g2
    | None, None => True
    | _, _ => False
    end.
Proof. exact conforming_format_ignores_tty. Qed.
Print Assumptions C19_conforming_format_ignores_tty.

Theorem C19_conforming_explicit_width :
  forall F : env -> style -> rsize -> fields -> option sfields -> option geom,
  (forall e sty rs f sf,
     match F e sty rs f sf with
     | Some g => exists m, doc_interp (e_ts e) sty f sf = Some m /\ geom_ok m rs g = true
     | None => doc_interp (e_ts e) sty f sf = None
     end) ->
  forall e sty rs f sf g, explicit (f_width f) -> F e sty rs f sf = Some g ->
    g_width g = Z.max (int_of (f_width f)) (rc rs).
Proof. exact conforming_explicit_width. Qed.
Print Assumptions C19_conforming_explicit_width.

(** the excluded design — padding width capped at the terminal width when standard
    output is a terminal — IS the code whenever stdout is not a terminal (no run on a pipe
    can see it) and whenever the padding width fits the terminal ... *)
Theorem C19_ttycap_invisible_off_tty : forall e sty rs f sf,
  e_out_tty e = false -> impl_format_ttycap e sty rs f sf = impl_format e sty rs f sf.
Proof. exact ttycap_invisible_off_tty. Qed.
Print Assumptions C19_ttycap_invisible_off_tty.

Theorem C19_ttycap_invisible_within_terminal : forall e sty rs f sf,
  match interp (e_ts e) sty f sf with Accepted r => (r_width r <= cols (e_ts e))%Z | _ => True end ->
  impl_format_ttycap e sty rs f sf = impl_format e sty rs f sf.
Proof. exact ttycap_invisible_within_terminal. Qed.
Print Assumptions C19_ttycap_invisible_within_terminal.

(** ... and contradicts the documented geometry on a terminal: "100" in 80 columns *)
Theorem C19_ttycap_refuted :
  fields_wf f100 = true /\ explicit (f_width f100) /\
  exists g a sa, impl_format_ttycap (on_tty true) Block rs21 f100 None = FOk g a sa
    /\ g_width g = 80%Z
    /\ forall m, doc_interp (e_ts (on_tty true)) Block f100 None = Some m -> geom_ok m rs21 g = false.
Proof. exact ttycap_refuted. Qed.
Print Assumptions C19_ttycap_refuted.

(** * What an accepted specifier denotes ON THE OUTPUT (round 7)

    model/FmtDen.v: the terminal's default background colour enters as an environment input
    [termbg = option rgb] (None = undetermined); [doc_eff t bg] is the documented treatment
    of transparency there ([#] bgcolor: "the terminal emulator's default background color
    (or black, if undetermined)"), [impl_eff fallback bg a] what _get_render_data does with
    the alpha value that reached the renderer.  [doc_carried] / [impl_carried]: which
    frames an iterm2 render carries ("W: WHOLE render method (current frame only, for
    animated images)"; A: native animation). *)

(** for every accepted specifier and on BOTH kinds of terminal the code's treatment of
    transparency is the documented one *)
Theorem C19_den_alpha_agrees : forall ts sty f sf (bg : termbg),
  (1 <= cols ts)%Z -> (3 <= lines ts)%Z ->
  fields_wf f = true -> sf_ok sty sf = true ->
  match interp ts sty f sf with
  | Accepted r => exists m, doc_interp ts sty f sf = Some m
                            /\ impl_eff code_fallback bg (r_alpha r) = Some (doc_eff (m_t m) bg)
  | _ => True
  end.
Proof. exact den_alpha_agrees. Qed.
Print Assumptions C19_den_alpha_agrees.

(** [##] = [#<terminal background>] when it is known, [#000000] when it is undetermined *)
Theorem C19_den_hash_is_termbg_or_black :
  (forall c, doc_eff TBgTerminal (Some c) = doc_eff (TBgColor c) (Some c))
  /\ doc_eff TBgTerminal None = doc_eff (TBgColor 0) None
  /\ forall bg, impl_eff code_fallback bg (RStr (35%N :: nil)) = Some (EUnder (backdrop bg)).
Proof. exact hash_is_termbg_or_black. Qed.
Print Assumptions C19_den_hash_is_termbg_or_black.

(** the excluded variant (no "or black" fall-back) IS the code on every terminal whose
    background is known (no run there can see it) ... *)
Theorem C19_den_nofallback_invisible_known_bg : forall c a,
  impl_eff None (Some c) a = impl_eff code_fallback (Some c) a.
Proof. exact nofallback_invisible_known_bg. Qed.
Print Assumptions C19_den_nofallback_invisible_known_bg.

(** ... and on an undetermined one it underlays nothing: a half-transparent pixel is shown
    un-blended, which the documented "black" excludes *)
Theorem C19_den_nofallback_refuted :
  impl_eff None None (RStr (35%N :: nil)) = None
  /\ impl_under None None (RStr (35%N :: nil)) = Some UNothing
  /\ doc_eff TBgTerminal None = EUnder 0
  /\ pixel_ok (EUnder 0) px_half (Some (200, 100, 50)%Z) = false
  /\ pixel_ok (EUnder 0) px_half (Some (100, 50, 25)%Z) = true.
Proof. exact nofallback_refuted. Qed.
Print Assumptions C19_den_nofallback_refuted.

(** an iterm2 render carries the current frame only — except the native animation
    (method A, animated source, not a frame of an iteration) — for EVERY combination of
    source facts and read-from-file policy, and every method the specifier / instance gives *)
Theorem C19_den_frames_agrees : forall m cur s frame,
  impl_carried code_guard s frame (eff_method m cur)
  = doc_carried (s_animated s) frame (eff_method m cur).
Proof. exact den_frames_agrees. Qed.
Print Assumptions C19_den_frames_agrees.

(** the excluded variant (fast path guarded by "not a frame of an iteration" instead of
    "not animated") is the code on still images and inside iterations ... *)
Theorem C19_den_frame_guard_invisible : forall s method,
  (s_animated s = false -> impl_carried frame_guard s false method = impl_carried code_guard s false method)
  /\ impl_carried frame_guard s true method = impl_carried code_guard s true method.
Proof. exact frame_guard_invisible. Qed.
Print Assumptions C19_den_frame_guard_invisible.

(** ... and W on an animated readable file carries ALL frames, against the documentation *)
Theorem C19_den_frame_guard_refuted :
  impl_carried frame_guard anim_file false 2 = AllNative
  /\ doc_carried (s_animated anim_file) false 2 = Current
  /\ impl_carried code_guard anim_file false 2 = Current
  /\ impl_carried code_guard anim_file false 3 = AllNative.
Proof. exact frame_guard_refuted. Qed.
Print Assumptions C19_den_frame_guard_refuted.

(** * Round 8 — the transparency field, pixel-exact (model/FmtDenPix.v) *)
From TI Require Import model.FmtDenPix proofs.FmtDenPixProofs.

(** the 8-bit threshold the code derives from the digits of a [threshold] field
    (round-half-even of 255 * 0.d1...dk, in exact arithmetic) is a nearest integer to the
    exact product — and THE nearest one unless the product is exactly k + 1/2 *)
Theorem C19_den_threshold_exact : forall ds,
  let num := int_of ds in let den := pow10 (length ds) in
  level_ok (thr8 num den) num den = true
  /\ (forall T, (2 * ((255 * num) mod den) <> den)%Z -> level_ok T num den = true -> T = thr8 num den).
Proof. exact den_threshold_exact. Qed.
Print Assumptions C19_den_threshold_exact.

(** hence, for EVERY transparency setting, terminal background, alpha level and observation,
    the code's rule (alpha below the 8-bit threshold: the terminal shows through; else opaque
    over the backdrop) satisfies the exact documented rule (no level exempt but the lower
    neighbour of an exact tie) *)
Theorem C19_den_threshold_pixels : forall t bg p o,
  impl_pixel thr8 (doc_eff t bg) p o = true -> pixel_ok_x (doc_eff t bg) p o = true.
Proof. exact impl_pixel_refines. Qed.
Print Assumptions C19_den_threshold_pixels.

(** the excluded design (truncation) is the code whenever the fractional part of the product
    is below one half (no run with such a threshold can see it) ... *)
Theorem C19_den_trunc_invisible : forall num den,
  (2 * ((255 * num) mod den) < den)%Z -> trunc8 num den = thr8 num den.
Proof. exact trunc_invisible. Qed.
Print Assumptions C19_den_trunc_invisible.

(** ... and under '#.999' it shows a pixel of alpha 254/255 < .999 as opaque *)
Theorem C19_den_trunc_refuted :
  trunc8 999 1000 = 254%Z /\ level_ok 254 999 1000 = false /\ thr8 999 1000 = 255%Z
  /\ impl_pixel trunc8 thr_999 px_254 (Some (254, 0, 0)%Z) = true
  /\ pixel_ok_x thr_999 px_254 (Some (254, 0, 0)%Z) = false
  /\ pixel_ok_x thr_999 px_254 None = true
  /\ impl_pixel thr8 thr_999 px_254 None = true.
Proof. exact trunc_refuted. Qed.
Print Assumptions C19_den_trunc_refuted.

(** whenever the read-from-file gate of ITerm2Image transmits the source file VERBATIM (any
    style, alpha setting, source, method, policy), the documented treatment of transparency
    leaves every pixel such a file can hold exactly as it is *)
Theorem C19_den_verbatim_only_when_identity : forall sty a s method bg p,
  impl_verbatim code_gate sty a s method = true ->
  px_of_mode (g_mode s) p = true ->
  gpixel_ok (doc_eff (denote_alpha a) bg) p (as_is p) = true.
Proof. exact verbatim_only_when_identity. Qed.
Print Assumptions C19_den_verbatim_only_when_identity.

(** the excluded gate ("alpha is not None") is the code unless read_from_file is on, the
    source is a readable file WITH an alpha channel and the setting is a colour ... *)
Theorem C19_den_notnone_gate_invisible : forall sty a s method,
  g_rff s = false \/ g_readable s = false \/ g_mode s <> MAlpha \/ is_str a = false ->
  impl_verbatim notnone_gate sty a s method = impl_verbatim code_gate sty a s method.
Proof. exact notnone_gate_invisible. Qed.
Print Assumptions C19_den_notnone_gate_invisible.

(** ... and then it transmits the file's transparent pixel where '#00ff00' denotes green *)
Theorem C19_den_notnone_gate_refuted :
  impl_verbatim notnone_gate ITerm2 a_green rgba_file 2 = true
  /\ impl_verbatim code_gate ITerm2 a_green rgba_file 2 = false
  /\ doc_eff (denote_alpha a_green) None = EUnder 65280
  /\ gpixel_ok (EUnder 65280) px_clear (as_is px_clear) = false
  /\ gpixel_ok (EUnder 65280) px_clear (0, 255, 0, 255)%Z = true
  /\ impl_gpixel notnone_gate ITerm2 None a_green rgba_file 2 px_clear (as_is px_clear) = true
  /\ impl_gpixel code_gate ITerm2 None a_green rgba_file 2 px_clear (0, 255, 0, 255)%Z = true.
Proof. exact notnone_gate_refuted. Qed.
Print Assumptions C19_den_notnone_gate_refuted.

(** * Round 9 — WHICH error a rejected specifier raises (model/FmtErr.v) *)
From TI Require Import model.FmtErr proofs.FmtErrProofs.

(** the documented precedence among the documented errors, as a function of the text and
    the style ([spec_error]: not of the general form -> "Invalid format specifier"
    (ValueError); style part not a sentence of the style's grammar -> StyleError; a field
    of a sentence out of its range -> ValueError), is total: it is silent exactly on the
    accepted specifiers and names an error for every rejected one *)
Theorem C19_spec_error_total : forall sty s,
  (spec_error sty s = None <-> spec_accepts sty s = true)
  /\ (spec_accepts sty s = false -> exists k, spec_error sty s = Some k).
Proof. exact spec_error_total. Qed.
Print Assumptions C19_spec_error_total.

(** the call chain of _check_style_format_spec (invalid portion, then the parent portion
    judged by the parent classes, then the value checks of the level's own fields), for
    EVERY hierarchy of levels and every text: it raises what the documentation demands
    stated without any order of processing (sentence-hood first, then ranges); a text that
    is not a sentence is a StyleError whatever its field values are; and the result does
    not depend on the order in which the own fields' checks are listed *)
Theorem C19_error_precedence_parent_first :
  (forall lv t, chain lv t = doc_chain_error lv t)
  /\ (forall lv t, sentence lv t = false -> chain lv t = Some EStyle)
  /\ (forall l l' up t, same_up_to_check_order l l' -> chain (l :: up) t = chain (l' :: up) t).
Proof. exact error_precedence_parent_first. Qed.
Print Assumptions C19_error_precedence_parent_first.

(** the excluded design 'own fields first' is the code on every text with at most one
    kind of fault (a sentence, or all fields in range) ... *)
Theorem C19_error_own_first_invisible : forall lv t,
  (sentence lv t = true \/ ranges_ok lv t = true) -> chain_own_first lv t = chain lv t.
Proof. exact own_first_invisible. Qed.
Print Assumptions C19_error_own_first_invisible.

(** ... and raises ValueError where StyleError is documented on kitty's "+xz4294967296" *)
Theorem C19_error_own_first_refuted :
  sentence (levels Kitty) two_faults = false
  /\ chain (levels Kitty) two_faults = Some EStyle
  /\ chain_own_first (levels Kitty) two_faults = Some ERange
  /\ spec_error Kitty (43%N :: two_faults) = Some EStyle
  /\ impl_error Kitty (43%N :: two_faults) = Some EStyle
  /\ class_of ERange <> class_of EStyle.
Proof. exact own_first_refuted. Qed.
Print Assumptions C19_error_own_first_refuted.
