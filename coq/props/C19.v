(** C19 — format specifiers are accepted and interpreted exactly as documented.

    Only statements, each closed by [exact <lemma>], and [Print Assumptions].

    [clang r s]: the string of code points [s] belongs to the language of the
    character-level expression [r] (lib/CRe.v: denotational semantics).
    [impl_accepts sty] / [impl_main]: built in model/FmtSpec.v from the regular
    expressions that harness/tx/tx_regex.py translates from the *current* source into
    gen/Regexes.v; [doc_grammar sty] / [doc_main]: the documented grammar, written by
    hand.  [valid_str s]: every element of [s] is a Unicode code point (<= 0x10FFFF).
    The acceptance theorems hold for ALL strings; they are re-proved from the source on
    every run and stop compiling when the source's language differs from the documented
    one. *)
From Coq Require Import List Bool Arith NArith ZArith.
Import ListNotations.
From TI Require Import lib.Re lib.ReSound lib.CRe gen.Regexes model.FmtSpec proofs.FmtSpecProofs.

(** a specifier is accepted for a render style iff it is a sentence of the documented
    grammar  [h_align][width][.[v_align][height]][#[threshold|bgcolor]][+style]
    (at least one of v_align/height after a dot; style part valid for the style) *)
Theorem C19_accepts_iff_grammar : forall sty s, valid_str s ->
  (clang (impl_accepts sty) s <-> clang (doc_grammar sty) s).
Proof. exact accepts_iff_grammar. Qed.
Print Assumptions C19_accepts_iff_grammar.

(** the error class: "Invalid format specifier" (ValueError) is raised exactly outside
    the documented grammar with an arbitrary one-line style part; inside it, a refusal
    comes from the style part (StyleError) *)
Theorem C19_value_error_iff_not_main_grammar : forall s, valid_str s ->
  (clang impl_main s <-> clang doc_main s).
Proof. exact main_iff_grammar. Qed.
Print Assumptions C19_value_error_iff_not_main_grammar.

Theorem C19_accepted_passes_main_check : forall sty s, valid_str s ->
  clang (impl_accepts sty) s -> clang impl_main s.
Proof. exact accepted_is_main. Qed.
Print Assumptions C19_accepted_passes_main_check.

(** the search-then-sequential-match procedure of _get_style_format_spec (+ empty
    parent, nothing left over) accepts exactly the documented style grammars *)
Theorem C19_style_procedure_is_documented_style_grammar : forall s, valid_str s ->
  (clang (style_lang KITTY_STYLE) s <-> clang doc_style_kitty s) /\
  (clang (style_lang ITERM2_STYLE) s <-> clang doc_style_iterm2 s).
Proof. exact (fun s HV => conj (style_iff_grammar_kitty s HV) (style_iff_grammar_iterm2 s HV)). Qed.
Print Assumptions C19_style_procedure_is_documented_style_grammar.

(** _ALPHA_BG_FORMAT (used to tell a colour from a threshold) is "#" or "#" + 6 hex
    digits, and the hand-written test used by the interpretation model is that language *)
Theorem C19_alpha_bg_format : forall u, valid_str u ->
  (clang ALPHA_BG_FORMAT u <-> alpha_bg_hand u = true).
Proof.
  exact (fun u HV => iff_trans (alpha_bg_format u HV) (iff_sym (alpha_bg_hand_spec u))).
Qed.
Print Assumptions C19_alpha_bg_format.

(** interpretation: on the fields of a sentence, what _check_format_spec /
    _check_formatting / _check_style_format_spec / _check_style_args compute denotes the
    documented alignment, padding size (absent = terminal width / terminal height - 2,
    zero = relative to the terminal), transparency setting and style arguments; the only
    refusal left is the documented z-index range (ValueError) *)
Theorem C19_interp_agrees : forall ts sty f sf,
  (1 <= cols ts)%Z -> (3 <= lines ts)%Z ->
  fields_wf f = true -> sf_ok sty sf = true ->
  match interp ts sty f sf with
  | Accepted r => doc_interp ts sty f sf = Some (denote r)
  | ValueErr => doc_interp ts sty f sf = None
  | StyleErr => False
  end.
Proof. exact interp_agrees. Qed.
Print Assumptions C19_interp_agrees.

(** the machinery: a certificate accepted by [closed] is a bisimulation, and the
    executable matcher used by the correspondence decides the denotational language
    (the abstraction from characters to classes is CRe.abstract_sound, used inside
    [cequiv_check_sound] on which the acceptance theorems rest) *)
Theorem C19_certificate_checker_sound : forall n R, closed n R = true ->
  forall r s, In (r, s) R ->
  forall w, Forall (fun c => c < n) w -> matches r w = matches s w.
Proof. exact closed_sound. Qed.
Print Assumptions C19_certificate_checker_sound.

Theorem C19_matches_is_language : forall w r, matches r w = true <-> lang r w.
Proof. exact matches_lang. Qed.
Print Assumptions C19_matches_is_language.
