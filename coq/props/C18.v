(** C18 — the urwid screen never leaves a ghost image behind.

    Only statements, each closed by [exact <lemma>], and [Print Assumptions].
    Models: model/Screen.v (the library: z-index allocator, shard walk, bookkeeping of a
    redraw, streams; the placement-level terminal), model/ScreenUrwid.v (the environment:
    urwid's row cache, what an image canvas puts into a row), gen/ScreenSkel.v (the
    skeleton of draw_screen, translated from the current source).  The models are those
    of the code AFTER pending_fixes/C18_non_composite_canvas.diff and
    C18_kitty_widget_listed_per_view.diff; for the code before them the statement is
    refuted in proofs/ScreenExamples.v ([no_ghosts_refuted_before_fix]) on the input that
    the correspondence reports against the real code.

    STRENGTH: partial (DESIGN 4/C18).  [z_distinct_in_range], [walk_positions],
    [sync_bracket*], [cleared_*] are about the library's own code.  [no_ghosts] rests on
    explicit hypotheses about code outside the library and about terminals, which only the
    correspondence runs validate:
      (U1) urwid writes a row of a new canvas iff it differs from the row of its screen
           buffer, whole, from column 0; nothing else (model/ScreenUrwid.v [urwid_draw]);
      (U2) the bytes of a row determine and are determined by its other content and its
           image lines with their disguise counts ([row], [render_row]);
      (T1) a placement stays until deleted by d=A, d=Z (its z-index), d=C (cursor cell
           inside it); text, erasure and colours do not touch it; nothing scrolls
           (model/Screen.v [pstep]);
      (T2) on Konsole an iTerm2 inline image is such a placement with z-index 0;
      (W)  [wf_redraw]: the tracked views of the canvases before and after belong to kitty
           widgets or to iTerm2 widgets on Konsole, a widget's kind is fixed, live kitty
           widgets hold distinct non-zero z-indexes (that is [z_distinct_in_range]), the
           image lines of a canvas lie on the screen and do not overlap (they belong to
           disjoint rectangles of the canvas: [walk_positions]), every line is one row
           high (the LINES render method, which the documentation requires wherever a
           canvas may be trimmed vertically). *)
From Coq Require Import List ZArith Bool Lia Arith.
Import ListNotations.
From TI Require Import lib.Term lib.Eff model.Screen model.ScreenUrwid model.ScreenSession model.ScreenCalls
  model.ScreenAbort model.ScreenWidget
  gen.ScreenSkel
  proofs.ScreenAlloc proofs.ScreenWalk proofs.ScreenGhost proofs.ScreenSync proofs.ScreenExamples
  proofs.ScreenSessionProofs proofs.ScreenSessionSrc proofs.ScreenAbortProofs proofs.ScreenWidgetProofs
  model.ScreenBlend proofs.ScreenBlendProofs.
From TI Require gen.ZIndexSrc proofs.ZIndexSrcTie.

(** For EVERY history of widget constructions ([ANew], with any choice of the freed index
    that [set.pop()] returns) and finalisations ([ADel], effective once per widget): the
    z-indexes held by live widgets are pairwise distinct, non-zero and within
    [-(2^31-1), 2^31-1]; the next allocation returns an index no live widget holds, in
    range; and when it raises ([None]) it leaves the allocator as it was — it raises only
    once every one of the 2^32 - 2 indexes is held by a live widget, and never wraps. *)
Theorem C18_z_distinct_in_range : forall h : list aev,
  let s := hist_run h in
  NoDup (live_zs s)
  /\ (forall z, In z (live_zs s) -> z <> 0 /\ - (zlimit - 1) <= z <= zlimit - 1)%Z
  /\ (forall pick z a', alloc pick (h_a s) = (Some z, a') ->
        ~ In z (live_zs s) /\ z <> 0 /\ - (zlimit - 1) <= z <= zlimit - 1)%Z
  /\ (forall pick a', alloc pick (h_a s) = (None, a') ->
        a' = h_a s /\ a_next (h_a s) = zlimit
        /\ (forall z, z <> 0 -> - (zlimit - 1) <= z <= zlimit - 1 -> In z (live_zs s)))%Z.
Proof. exact z_distinct_in_range_lemma. Qed.
Print Assumptions C18_z_distinct_in_range.

(** The same over histories in which every construction names the CLASS of the widget
    (UrwidImage, a subclass, a subclass of a subclass, ...): the model has a SINGLE allocator
    (one counter, one free set) for the whole class tree, as the code has (it addresses
    them through [__class__]); so the z-indexes of ALL live kitty widgets, whatever their
    classes, are pairwise distinct, non-zero and in range, and the class of a widget has no
    influence on the index it gets.  (That the implementation really shares the allocator
    between classes is checked by the correspondence, which constructs widgets of
    UrwidImage and of three subclasses in one session.) *)
Theorem C18_z_distinct_across_classes : forall h : list aevc,
  (let s := hist_run_classes h in
   NoDup (live_zs s)
   /\ (forall z, In z (live_zs s) -> z <> 0 /\ - (zlimit - 1) <= z <= zlimit - 1)%Z
   /\ (forall pick z a', alloc pick (h_a s) = (Some z, a') ->
         ~ In z (live_zs s) /\ z <> 0 /\ - (zlimit - 1) <= z <= zlimit - 1)%Z
   /\ (forall pick a', alloc pick (h_a s) = (None, a') ->
         a' = h_a s /\ a_next (h_a s) = zlimit
         /\ (forall z, z <> 0 -> - (zlimit - 1) <= z <= zlimit - 1 -> In z (live_zs s)))%Z)
  /\ (forall h', map forget_class h' = map forget_class h -> hist_run_classes h' = hist_run_classes h).
Proof. exact z_distinct_across_classes_lemma. Qed.
Print Assumptions C18_z_distinct_across_classes.

(** For every well-formed layout (bands of rectangles with spans: model/Screen.v §6), on
    Konsole or not, with any sufficient fuel for the [while] loop: the walk over the
    layout's shards returns exactly the tracked image views at the positions that the
    layout gives them, in order. *)
Theorem C18_walk_positions : forall (konsole : bool) (l : layout) (fuel : nat),
  wf_layout l = true -> layout_fuel l <= fuel ->
  walk fuel konsole (shards_of l) = Some (positions konsole l).
Proof. exact walk_positions_lemma. Qed.
Print Assumptions C18_walk_positions.

(** For every screen height, terminal identity, image geometry ([lines]) and EVERY sequence
    of redraws, clear()s and calls of the public clear_images(widgets..., now=...) (all images
    or any widgets; immediately = written at once to the terminal, or queued = emitted with
    the next flush, i.e. at the next draw_screen) in which every step is well-formed in the
    state it meets ([ops_wf]: (W) for redraws; the arguments of clear_images are live widgets
    consistent with the views on screen; and the COUNT hypothesis: between two writes of an
    image line's row at most two changes of disguise hit it, this redraw's own included):
    after each redraw nothing is left in the output queue and the placements on the terminal
    are exactly the image lines of the view set just drawn - none left over from earlier
    canvases, none missing.
    The count hypothesis holds by itself when at most one clear_images() call with distinct
    arguments is made between two redraws ([C18_count_ok_*]); it cannot be dropped: the
    disguise has three states, and three changes restore a line's bytes
    (proofs/ScreenExamples.v [no_ghosts_needs_count_hypothesis], also observed on the real
    code: three clear_images() between two redraws and the images are gone). *)
Theorem C18_no_ghosts :
  forall (H : nat) (konsole : bool) (lines : view -> list (Z * Z * Z)) (kittyw : nat -> bool)
         (ops : list sop) (V : list view) (base : Z -> Z),
  ops_wf H konsole lines kittyw world_init (ops ++ [ORedraw V base]) ->
  w_queue (run H konsole true lines (ops ++ [ORedraw V base]) world_init) = []
  /\ forall p, In p (t_plcs (w_term (run H konsole true lines (ops ++ [ORedraw V base]) world_init)))
               <-> In p (plcs_of lines V).
Proof. exact no_ghosts_lemma. Qed.
Print Assumptions C18_no_ghosts.

Theorem C18_count_ok_after_redraw :
  forall (H : nat) (konsole : bool) (lines : view -> list (Z * Z * Z)) w0 V0 base0 V,
  count_ok (step H konsole true lines w0 (ORedraw V0 base0)) V.
Proof. exact count_ok_after_redraw. Qed.
Print Assumptions C18_count_ok_after_redraw.

Theorem C18_count_ok_after_one_api :
  forall (H : nat) (konsole : bool) (lines : view -> list (Z * Z * Z)) (kittyw : nat -> bool) w0 V0 base0 ws now V,
  NoDup (map fst (filter (fun x : nat * wkind => is_kitty (snd x)) ws)) ->
  count_ok (step H konsole true lines (step H konsole true lines w0 (ORedraw V0 base0)) (OApi ws now)) V.
Proof. exact count_ok_after_one_api. Qed.
Print Assumptions C18_count_ok_after_one_api.

(** The stream of a draw_screen, whatever the base class' draw wrote before it returned
    or raised (any [inner] without markers): BEGIN, the deletes, [inner], END. *)
Theorem C18_sync_bracket : forall fuel ksup ikon konsole c inner s out s',
  existsb is_sync inner = false ->
  draw_screen fuel ksup ikon konsole c inner s = Some (out, s') ->
  bracketed out = true /\ exists dels, out = [KSyncB] ++ dels ++ inner ++ [KSyncE].
Proof. exact sync_bracket_lemma. Qed.
Print Assumptions C18_sync_bracket.

(** The skeleton of the CURRENT source of draw_screen: along every path, with any call of
    the body ([_ti_clear_images], the base class' draw_screen, ...) raising
    KeyboardInterrupt or an Exception before or after taking effect, whatever the outcome
    [o], the synchronized update that was opened is closed. *)
Theorem C18_sync_bracket_source : forall o s',
  eval cfg_inner false sk_draw_screen (init []) o s' -> hidden s' = false.
Proof. exact draw_screen_closes_sync. Qed.
Print Assumptions C18_sync_bracket_source.

(** _start, _stop (whether or not the base class' _stop calls clear() again) and clear()
    delete every image whatever is on the terminal (when the kitty protocol is supported), and change the canvas disguise so that every image line
    is written again by the next draw. *)
Theorem C18_cleared_on_start_stop_clear : forall konsole inner base_clears s t,
  forallb no_place inner = true ->
  t_plcs (pexec konsole t (fst (start_stream true inner s))) = []
  /\ t_plcs (pexec konsole t (fst (stop_stream true base_clears inner s))) = []
  /\ t_plcs (pexec konsole t (fst (clear_stream true s))) = []
  /\ s_cdis (snd (start_stream true inner s)) <> s_cdis s
  /\ s_cdis (snd (stop_stream true base_clears inner s)) <> s_cdis s
  /\ s_cdis (snd (clear_stream true s)) <> s_cdis s.
Proof. exact cleared_on_start_stop_clear_lemma. Qed.
Print Assumptions C18_cleared_on_start_stop_clear.

(** In every reachable state of the world, once clear()'s queued delete-all is flushed no
    placement is left (and the redraw that follows re-establishes them: [C18_no_ghosts]
    covers sequences with clear()s). *)
Theorem C18_cleared_after_clear :
  forall (H : nat) (konsole : bool) (lines : view -> list (Z * Z * Z)) (kittyw : nat -> bool) (ops : list sop),
  ops_wf H konsole lines kittyw world_init ops ->
  t_plcs (flushed konsole (run H konsole true lines (ops ++ [OClear]) world_init)) = [].
Proof. exact cleared_after_clear_lemma. Qed.
Print Assumptions C18_cleared_after_clear.

(** ** Every way the screen is started and stopped (model/ScreenSession.v)

    The terminal has TWO screen buffers and graphics placements belong to the buffer they
    were made on ([bstep]: entering the alternate buffer shows a fresh buffer, leaving it
    shows the main buffer again with ITS placements; every other command acts on the visible
    buffer).  [start_session] / [stop_session] are _start / _stop with urwid's
    [alternate_buffer] parameter.

    For BOTH values of the flag, ANY terminal [t] (either buffer shown, any placements on
    either) and any state of the screen, when the kitty protocol is supported:
    after _start the buffer the user sees holds no placement; after _stop the buffer that was
    shown while the screen ran holds none; after clear() (flushed) the visible buffer holds
    none; _start and _stop change the canvas disguise; and neither what the library writes nor
    its state depends on the flag (they are those of [C18_cleared_on_start_stop_clear]'s
    streams). *)
Theorem C18_cleared_on_start_stop_clear_both_modes : forall konsole alt inner inner1 inner2 s t,
  forallb no_place inner = true -> forallb no_place inner1 = true -> forallb no_place inner2 = true ->
  vis_plcs (bexec konsole t (fst (start_session true alt inner s))) = []
  /\ buf_plcs (b_alt t) (bexec konsole t (fst (stop_session true alt inner1 inner2 s))) = []
  /\ vis_plcs (bexec konsole t (map BT (fst (clear_stream true s)))) = []
  /\ s_cdis (snd (start_session true alt inner s)) <> s_cdis s
  /\ s_cdis (snd (stop_session true alt inner1 inner2 s)) <> s_cdis s
  /\ bstoks (fst (start_session true alt inner s)) = fst (start_stream true inner s)
  /\ snd (start_session true alt inner s) = snd (start_stream true inner s)
  /\ bstoks (fst (stop_session true alt inner1 inner2 s)) = fst (stop_stream true true (inner1 ++ inner2) s)
  /\ snd (stop_session true alt inner1 inner2 s) = snd (stop_stream true true (inner1 ++ inner2) s).
Proof. exact cleared_modes_lemma. Qed.
Print Assumptions C18_cleared_on_start_stop_clear_both_modes.

(** The statement is about the unconditional clear: a _start that clears the images only
    when the alternate buffer is used ([start_session_guarded]) leaves an image that was on
    the terminal in view when the screen is started without it (while the code's _start
    clears it, and with the alternate buffer the fresh buffer hides it) ... *)
Theorem C18_start_clear_guarded_by_flag_refuted :
  vis_plcs (bexec false stale_term (fst (start_session_guarded true false [KOther] scr_init))) <> []
  /\ vis_plcs (bexec false stale_term (fst (start_session true false [KOther] scr_init))) = []
  /\ vis_plcs (bexec false stale_term (fst (start_session_guarded true true [KOther] scr_init))) = [].
Proof. exact guarded_start_refuted. Qed.
Print Assumptions C18_start_clear_guarded_by_flag_refuted.

(** ... and a _stop that clears only without the alternate buffer leaves the screen's images
    on the alternate buffer (the code's _stop clears them and leaves the main buffer as the
    other programs left it). *)
Theorem C18_stop_clear_guarded_by_flag_refuted :
  buf_plcs true (bexec false stale_alt_term (fst (stop_session_guarded true true [KOther] [KOther] scr_init))) <> []
  /\ buf_plcs true (bexec false stale_alt_term (fst (stop_session true true [KOther] [KOther] scr_init))) = []
  /\ main_plcs (bexec false stale_alt_term (fst (stop_session true true [KOther] [KOther] scr_init))) = [mk_plc 0 0 6 1 0].
Proof. exact guarded_stop_refuted. Qed.
Print Assumptions C18_stop_clear_guarded_by_flag_refuted.

(** [C18_no_ghosts] over SESSIONS: from ANY terminal [t0] (images left by earlier commands,
    by the application itself, by an earlier session ...), for every history of
    - output of other programs while the screen is not started ([SPre], any tokens),
    - start(alternate_buffer=b) for either b, stop(), any number of such cycles,
    - a new screen object replacing the old one between two cycles ([SNewScreen]),
    - redraws, clear()s and public clear_images() calls of the started screen,
    whose steps are well-formed in the state they meet ([sess_wf]: as [ops_wf], and urwid's own
    start/stop output places no image): after each redraw nothing is left in the output queue
    and the placements the user sees are exactly the image lines of the view set just drawn.
    (urwid addresses rows absolutely with the alternate buffer and relative to the row of the
    cursor at start() without it; the model is stated with that row as row 0.) *)
Theorem C18_sessions_no_ghosts :
  forall (H : nat) (konsole : bool) (lines : view -> list (Z * Z * Z)) (kittyw : nat -> bool)
         (t0 : bterm) (ops : list sess_op) (V : list view) (base : Z -> Z),
  sess_wf H konsole lines kittyw (sworld_init t0) (ops ++ [SOp (ORedraw V base)]) ->
  let sw := srun_code H konsole true lines (ops ++ [SOp (ORedraw V base)]) (sworld_init t0) in
  w_queue (sw_w sw) = [] /\ forall p, In p (vis_plcs (sw_term sw)) <-> In p (plcs_of lines V).
Proof. exact sessions_no_ghosts_lemma. Qed.
Print Assumptions C18_sessions_no_ghosts.

(** ... and in every reachable state of such a session: a start (either value of the flag)
    leaves nothing in view whatever the terminal showed; a stop leaves nothing on the buffer
    the screen ran on; a clear(), once flushed, leaves nothing in view. *)
Theorem C18_sessions_cleared :
  forall (H : nat) (konsole : bool) (lines : view -> list (Z * Z * Z)) (kittyw : nat -> bool)
         (t0 : bterm) (ops : list sess_op),
  sess_wf H konsole lines kittyw (sworld_init t0) ops ->
  let sw := srun_code H konsole true lines ops (sworld_init t0) in
  (forall alt inner, sw_started sw = false -> forallb no_place inner = true ->
     vis_plcs (sw_term (sstep_code H konsole true lines sw (SStart alt inner))) = [])
  /\ (forall i1 i2, sw_started sw = true -> forallb no_place i1 = true -> forallb no_place i2 = true ->
        buf_plcs (sw_alt sw) (sw_term (sstep_code H konsole true lines sw (SStop i1 i2))) = [])
  /\ (sw_started sw = true ->
        t_plcs (flushed konsole (sw_w (sstep_code H konsole true lines sw (SOp OClear)))) = []).
Proof. exact sessions_cleared_lemma. Qed.
Print Assumptions C18_sessions_cleared.

(** The CURRENT source of _start / _stop / clear (call skeletons [sk_start], [sk_stop],
    [sk_clear] translated by harness/tx/tx_screen.py on every run; model/ScreenCalls.v):
    along EVERY path (whatever the conditions tested, no call raising) _start calls
    clear_images() after the base class' _start, _stop calls it before the base class' _stop,
    clear() calls it; hence, on any terminal [term], whatever urwid's _start writes ([base]: it
    may switch buffers), with [i1] [i2] [binner] [other] (what urwid's _stop / clear and any
    other call write) placing no image: nothing in view after _start and clear(), nothing on
    the buffer the screen ran on after _stop.  (A clear_images() under a condition — on
    [self._alternate_buffer], say — fails [source_paths_ok]: proofs/ScreenSessionSrc.v
    [source_analysis_rejects].) *)
Theorem C18_cleared_on_start_stop_clear_source : forall k term other,
  forallb no_place other = true ->
  (forall base t, In t (traces sk_start) -> vis_plcs (bexec k term (trace_toks base other t)) = [])
  /\ (forall mode i1 i2 t, forallb no_place i1 = true -> forallb no_place i2 = true -> In t (traces sk_stop) ->
        buf_plcs (b_alt term) (bexec k term (trace_toks (base_stop_toks mode i1 i2) other t)) = [])
  /\ (forall binner t, forallb no_place binner = true -> In t (traces sk_clear) ->
        vis_plcs (bexec k term (trace_toks (map BT binner) other t)) = [])
  /\ traces sk_start <> [] /\ traces sk_stop <> [] /\ traces sk_clear <> [].
Proof. exact source_cleared_lemma. Qed.
Print Assumptions C18_cleared_on_start_stop_clear_source.

(** ** Every valid widget (model/ScreenWidget.v)

    A widget may be constructed with ANY valid format specifier of its image's render style; for
    a KittyImage that includes a z-index field (documented as ignored for widgets), a render
    method, the mix and compression fields.  The parsed style arguments [spec] are passed to the
    renderer at every render, after the widget has written ITS OWN entries into them
    ([init_args]).  Whatever [spec] holds: the z-index of every placement a kitty widget
    transmits is the z-index the allocator gave it ([z]) - the one the screen deletes by -;
    off Konsole [blend] is False; a text widget renders with [split_cells]; every other field
    of the specifier reaches the renderer unchanged. *)
Theorem C18_widget_places_with_own_z_index : forall konsole z spec,
  placed_z (init_args IKitty konsole z spec) = z
  /\ (konsole = false -> sget KBlend (init_args IKitty konsole z spec) = Some 0%Z)
  /\ sget KSplit (init_args IText konsole z spec) = Some 1%Z
  /\ (forall k, k <> KZ -> k <> KBlend -> sget k (init_args IKitty konsole z spec) = sget k spec).
Proof. exact widget_places_with_own_z_lemma. Qed.
Print Assumptions C18_widget_places_with_own_z_index.

(** For EVERY history of constructions - each with its own, arbitrary style arguments - and
    finalisations: the z-indexes with which the live kitty widgets place their images ON THE
    TERMINAL are the allocator's, hence pairwise distinct, non-zero and within
    [-(2^31-1), 2^31-1] ([C18_z_distinct_in_range] is about the indexes the widgets HOLD). *)
Theorem C18_placed_z_distinct_for_every_format_spec : forall konsole (h : list wev),
  NoDup (placed_zs (init_args IKitty konsole) h)
  /\ (forall z, In z (placed_zs (init_args IKitty konsole) h) -> z <> 0 /\ - (zlimit - 1) <= z <= zlimit - 1)%Z.
Proof. exact placed_z_distinct_lemma. Qed.
Print Assumptions C18_placed_z_distinct_for_every_format_spec.

(** The order of the merge matters: with the specifier's entries winning
    ([{**widget_style_args, **style_args}]), two widgets constructed with [+z5] hold the
    z-indexes 1 and -1 but both place their images with z-index 5, and the screen's delete by
    the widget's z-index removes nothing (with the code's order it removes the placement). *)
Theorem C18_format_spec_z_wins_refuted :
  let h := [WNew 0 [(KZ, 5%Z)]; WNew 0 [(KZ, 5%Z)]] in
  live_zs (hist_run (map wev_forget h)) = [(-1)%Z; 1%Z]
  /\ placed_zs (init_args_spec_wins IKitty false) h = [5%Z; 5%Z]
  /\ placed_zs (init_args IKitty false) h = [(-1)%Z; 1%Z]
  /\ apply_del (DelZ 1) 0 0 [mk_plc 0 0 4 1 (placed_z (init_args_spec_wins IKitty false 1 [(KZ, 5%Z)]))] <> []
  /\ apply_del (DelZ 1) 0 0 [mk_plc 0 0 4 1 (placed_z (init_args IKitty false 1 [(KZ, 5%Z)]))] = [].
Proof. exact spec_z_wins_refuted. Qed.
Print Assumptions C18_format_spec_z_wins_refuted.

(** ** Redraws that urwid aborts or short-circuits (model/ScreenAbort.v)

    A draw_screen call does not always reach the terminal: urwid returns WITHOUT drawing while a
    terminal resize is pending ([AWinch] ... [AResized]: SIGWINCH until get_input() has
    reported it), its draw may raise before anything is written ([AFail]), and it returns at
    once when handed the very canvas object its screen buffer holds ([quick]).  The library's
    own part has run nevertheless: unless the canvas is the one PROCESSED last, the images of
    the views it does not have were deleted and [_ti_image_cviews] replaced.  [canvas id]: what
    the canvas OBJECT [id] shows (the same object may be drawn any number of times: urwid's
    canvas cache).  Hypotheses ([aops_wf_with]): (W) for every draw_screen call in the state it
    meets - over the views the screen tracks, those urwid's screen buffer holds and those of
    the canvas handed over, all of which belong to live widgets -, the COUNT hypothesis for
    the calls that reach the terminal, live widgets as arguments of clear_images().

    For EVERY such sequence, in every reachable state: once the queue is flushed the terminal
    shows no placement that does not belong to a view the screen tracks ... *)
Theorem C18_aborted_redraws_terminal_is_tracked :
  forall (H : nat) (konsole : bool) (lines : view -> list (Z * Z * Z)) (kittyw : nat -> bool)
         (canvas : nat -> list view * (Z -> Z)) (ops : list aop),
  aops_wf_with H konsole lines kittyw canvas skip_processed aworld_init ops ->
  forall p, In p (t_plcs (flushed konsole (aw_w (arun H konsole true lines canvas skip_processed ops aworld_init))))
            -> In p (plcs_of lines (s_prev (w_scr (aw_w (arun H konsole true lines canvas skip_processed ops aworld_init))))).
Proof. exact abort_tracked_lemma. Qed.
Print Assumptions C18_aborted_redraws_terminal_is_tracked.

(** ... after EVERY draw_screen call - completed, aborted by a pending resize, aborted by an
    exception of the base class' draw, or short-circuited - the screen tracks exactly the
    views of the canvas handed over, nothing is left in the output queue and the terminal
    shows NO placement that this canvas does not have (no ghost; so whatever goes away later
    is deleted) ... *)
Theorem C18_aborted_redraws_no_ghosts :
  forall (H : nat) (konsole : bool) (lines : view -> list (Z * Z * Z)) (kittyw : nat -> bool)
         (canvas : nat -> list view * (Z -> Z)) (ops : list aop) (id : nat) (o : aop),
  o = ADraw id \/ o = AFail id ->
  aops_wf_with H konsole lines kittyw canvas skip_processed aworld_init (ops ++ [o]) ->
  let aw := arun H konsole true lines canvas skip_processed (ops ++ [o]) aworld_init in
  w_queue (aw_w aw) = []
  /\ s_prev (w_scr (aw_w aw)) = fst (canvas id)
  /\ forall p, In p (t_plcs (w_term (aw_w aw))) -> In p (plcs_of lines (fst (canvas id))).
Proof. exact abort_no_ghosts_lemma. Qed.
Print Assumptions C18_aborted_redraws_no_ghosts.

(** ... and after each redraw that is NOT aborted (no resize pending, the base draw returns),
    whatever aborted redraws preceded it, the placements on the terminal are EXACTLY those of
    the canvas drawn: when it reaches the terminal, and also when urwid short-circuits it
    provided nothing disturbed the lines of that canvas since urwid wrote them
    ([undisturbed]: a public clear_images() call or an aborted redraw that deleted an image of
    this very canvas does disturb them - urwid does not draw the canvas object it drew last
    again, so those images stay deleted until a new canvas is drawn: observed on the real
    code, outside the property's "redraw"). *)
Theorem C18_redraws_exact_among_aborted_ones :
  forall (H : nat) (konsole : bool) (lines : view -> list (Z * Z * Z)) (kittyw : nat -> bool)
         (canvas : nat -> list view * (Z -> Z)) (ops : list aop) (id : nat),
  aops_wf_with H konsole lines kittyw canvas skip_processed aworld_init (ops ++ [ADraw id]) ->
  let aw0 := arun H konsole true lines canvas skip_processed ops aworld_init in
  aw_resized aw0 = false ->
  (quick aw0 id = true -> undisturbed canvas aw0 id) ->
  let aw := arun H konsole true lines canvas skip_processed (ops ++ [ADraw id]) aworld_init in
  w_queue (aw_w aw) = []
  /\ forall p, In p (t_plcs (w_term (aw_w aw))) <-> In p (plcs_of lines (fst (canvas id))).
Proof. exact abort_exact_lemma. Qed.
Print Assumptions C18_redraws_exact_among_aborted_ones.

(** The count hypothesis holds by itself while urwid has no screen buffer (after clear(), a
    start, a SIGWINCH: any number of aborted redraws while the resize is pending), and when at
    most one redraw was aborted since urwid's screen buffer was written. *)
Theorem C18_count_ok_among_aborted_redraws :
  forall (konsole : bool) (w : world) (V1 V : list view),
  (w_sb w = None -> count_ok w V)
  /\ (w_nall w = 0 -> (forall wd, wdis_get wd (w_nw w) = 0) -> count_ok (step_abort konsole true w V1) V).
Proof. exact (fun konsole => count_ok_among_aborted_lemma 0 konsole (fun _ => true)). Qed.
Print Assumptions C18_count_ok_among_aborted_redraws.

(** The decision "canvas unchanged: skip the bookkeeping" must be keyed on the canvas
    PROCESSED last.  Keyed on the canvas that REACHED the terminal last ([skip_reached]:
    urwid's own record), the sequence  draw A (one kitty image); SIGWINCH; draw B (no image:
    urwid skips the drawing, the image is deleted); resize handled; draw the same canvas
    object A; draw B  satisfies every hypothesis above
    ([C18_aborted_redraws_hypotheses_satisfiable]), no resize is pending at the last redraw
    and it reaches the terminal - yet the terminal keeps A's two image lines although B has
    none and the screen tracks none: a ghost.  With the code's decision the terminal ends up
    with B's placements. *)
Theorem C18_skip_keyed_on_reached_canvas_refuted :
  let run := fun skipf ops => arun 4 false true ex_lines ex_canvas skipf ops aworld_init in
  aw_resized (run skip_processed (removelast ex_ops)) = false
  /\ reaches (run skip_processed (removelast ex_ops)) 2 = true
  /\ t_plcs (w_term (aw_w (run skip_processed ex_ops))) = plcs_of ex_lines (fst (ex_canvas 2))
  /\ aw_resized (run skip_reached (removelast ex_ops)) = false
  /\ reaches (run skip_reached (removelast ex_ops)) 2 = true
  /\ plcs_of ex_lines (fst (ex_canvas 2)) = []
  /\ t_plcs (w_term (aw_w (run skip_reached ex_ops))) = [mk_plc 1 0 4 1 1; mk_plc 0 0 4 1 1]
  /\ s_prev (w_scr (aw_w (run skip_reached ex_ops))) = [].
Proof. exact skip_reached_refuted. Qed.
Print Assumptions C18_skip_keyed_on_reached_canvas_refuted.

Theorem C18_aborted_redraws_hypotheses_satisfiable :
  aops_wf_with 4 false ex_lines (fun _ => true) ex_canvas skip_processed aworld_init ex_ops
  /\ aops_wf_with 4 false ex_lines (fun _ => true) ex_canvas skip_reached aworld_init ex_ops.
Proof. exact ex_ops_wf_both. Qed.
Print Assumptions C18_aborted_redraws_hypotheses_satisfiable.

(** The proviso [undisturbed] of [C18_redraws_exact_among_aborted_ones] cannot be dropped:
    draw A (one kitty image); a redraw of B (no image) in which the base class' draw raises (the
    image is deleted, the screen tracks B's views); draw the very canvas object A again - urwid's
    screen buffer still holds A, so urwid returns at once: the image is tracked again but is not
    on the terminal (nothing is left behind either).  All hypotheses hold and no resize is
    pending.  The real code behaves like this (an observation: after a failed redraw, a
    draw_screen() of the canvas object urwid drew last paints nothing). *)
Theorem C18_short_circuited_redraw_after_failed_one_not_exact :
  let run := fun ops => arun 4 false true ex_lines ex_canvas skip_processed ops aworld_init in
  aops_wf_with 4 false ex_lines (fun _ => true) ex_canvas skip_processed aworld_init ex_ops2
  /\ aw_resized (run (removelast ex_ops2)) = false
  /\ quick (run (removelast ex_ops2)) 1 = true
  /\ redraw_nw (fst (ex_canvas 1)) (aw_w (run (removelast ex_ops2))) 1 = 1
  /\ t_plcs (w_term (aw_w (run ex_ops2))) = []
  /\ plcs_of ex_lines (fst (ex_canvas 1)) = [mk_plc 0 0 4 1 1; mk_plc 1 0 4 1 1]
  /\ s_prev (w_scr (aw_w (run ex_ops2))) = fst (ex_canvas 1).
Proof. exact exact_needs_undisturbed. Qed.
Print Assumptions C18_short_circuited_redraw_after_failed_one_not_exact.

(** ** Placements COUNTED, for every terminal identity (model/ScreenBlend.v)

    "The placements present are exactly those of the canvas just drawn" is an equality of
    MULTISETS: on a terminal implementing the kitty graphics protocol a second
    transmit-and-display of the same image line at the same cell with the same z-index ADDS a
    placement ([pstep], [pstep_id]: it stays until deleted); only Konsole "doesn't blend images
    placed at the same location and z-index" (there it replaces the equal one: [place_id]).  The
    [In p ... <-> In p ...] of [C18_no_ghosts] does not count.

    For EVERY terminal identity for which the library claims support - identified as kitty with
    any version >= 0.20.0 (so 0.20.0, 0.25.0, 0.25.1, 0.26 ...), Konsole, an unidentified terminal
    with forced support -, every canvas whose image lines are [L] ([strips_wf]: non-empty, no line
    covering the first cell of another, none twice - that is (W)), every terminal showing exactly
    [L], counted, and EVERY redraw in which urwid re-sends rows holding lines of unchanged image
    views ([R]: any lines of [L], any order, any number of times - the text beside the image
    changed; no view vanished, so the screen sends no delete): with the widget's [blend] as the
    code sets it (False everywhere but on Konsole) the terminal shows exactly [L] again, counted. *)
Theorem C18_repaint_exact_for_every_identity : forall id L R t,
  claims_support id = true ->
  strips_wf L -> incl R L ->
  (forall q, pcount q (t_plcs t) = pcount q L) ->
  forall q, pcount q (t_plcs (pexec_id id t (repaint (code_blend id) R))) = pcount q L.
Proof. exact repaint_exact_supported. Qed.
Print Assumptions C18_repaint_exact_for_every_identity.

(** The identity terminal is the terminal of the other theorems: off Konsole it IS [pexec false];
    on Konsole its placements, counted, are those of [pexec true] with equal placements merged
    ([norm] - what the correspondence compares, [plcs_exact]); a kitty image line of the session
    model ([item_toks]) is [strip_toks] with the code's [blend]; [plcs_msame] decides equality
    of counts. *)
Theorem C18_identity_terminal_is_the_placement_terminal :
  (forall id t ts, is_konsole id = false -> pexec_id id t ts = pexec false t ts)
  /\ (forall ts q, pcount q (t_plcs (pexec_id IdKonsole pterm_init ts))
                   = pcount q (norm IdKonsole (t_plcs (pexec true pterm_init ts))))
  /\ (forall id it, i_kitty it = true -> p_h (i_plc it) = 1%Z ->
        item_toks (is_konsole id) it = strip_toks (code_blend id) (i_plc it))
  /\ (forall a b, plcs_msame a b = true <-> forall q, pcount q a = pcount q b).
Proof. exact (conj pexec_id_stacking (conj konsole_is_dedup (conj item_toks_is_strip plcs_msame_iff))). Qed.
Print Assumptions C18_identity_terminal_is_the_placement_terminal.

(** [blend=False] must not depend on the terminal being IDENTIFIED as a recent kitty: with
    "blend=False only if [_KITTY_VERSION] > 0.25.0" ([blend_unless_new_kitty];
    [_KITTY_VERSION] is [()] unless the terminal was identified as kitty) an unidentified terminal
    with forced support and kitty 0.20.0 - 0.25.0 - all supported - keep [blend=True]: every
    re-send of an unchanged image line's row stacks one more placement (2 after one repaint, 4
    after three; the canvas has 1), invisible to a comparison of placements as sets
    ([plcs_same] = true) and seen by the counted one ([plcs_exact] = false); kitty >= 0.25.1 and
    Konsole behave as with the code. *)
Theorem C18_blend_by_kitty_version_refuted :
  let p := mk_plc 0 8 16 1 1 in
  claims_support IdForced = true /\ claims_support (IdKitty 0 20 0) = true /\ claims_support (IdKitty 0 25 0) = true
  /\ blend_unless_new_kitty IdForced = true /\ blend_unless_new_kitty (IdKitty 0 20 0) = true
  /\ blend_unless_new_kitty (IdKitty 0 25 0) = true
  /\ blend_unless_new_kitty (IdKitty 0 25 1) = false /\ blend_unless_new_kitty (IdKitty 0 26 0) = false
  /\ blend_unless_new_kitty IdKonsole = code_blend IdKonsole
  /\ (forall id, In id [IdForced; IdKitty 0 20 0; IdKitty 0 25 0] ->
        pcount p (t_plcs (pexec_id id ex_t (repaint (blend_unless_new_kitty id) [p]))) = 2
        /\ pcount p (t_plcs (pexec_id id ex_t (repaint (blend_unless_new_kitty id) [p; p; p]))) = 4
        /\ pcount p ex_L = 1
        /\ plcs_same (t_plcs (pexec_id id ex_t (repaint (blend_unless_new_kitty id) [p; p; p]))) ex_L = true
        /\ plcs_exact id (t_plcs (pexec_id id ex_t (repaint (blend_unless_new_kitty id) [p; p; p]))) ex_L = false
        /\ plcs_exact id (t_plcs (pexec_id id ex_t (repaint (code_blend id) [p; p; p]))) ex_L = true).
Proof. exact blend_true_repaint_refuted. Qed.
Print Assumptions C18_blend_by_kitty_version_refuted.

(** *** the z-index allocator tied to the source as a theorem (T): [UrwidImage._ti_get_z_index]
    (counter branch: exhaustion test and successor 1, -1, 2, -2, ...) is translated from
    [widget/_urwid.py] on every run into [gen/ZIndexSrc.v] by [harness/tx/tx_zindex.py] (which
    also matches the free-set branch, the release in [__del__] and the class attributes
    verbatim); for EVERY allocator state the model's [alloc] is that code *)
Theorem C18_source_alloc :
  forall pick s,
    alloc pick s =
    match pop_nth pick (a_free s) with
    | Some (z, f') => (Some z, mk_alloc (a_next s) f')
    | None => match TI.gen.ZIndexSrc.src_z_counter_step (a_next s) with
              | None => (None, s)
              | Some (z, nx) => (Some z, mk_alloc nx nil)
              end
    end.
Proof. exact TI.proofs.ZIndexSrcTie.alloc_is_source. Qed.
Print Assumptions C18_source_alloc.
