(** C18 — the urwid screen never leaves a ghost image behind.

    Only statements, each closed by [exact <lemma>], and [Print Assumptions].
    Models: model/Screen.v (the library: z-index allocator, shard walk, bookkeeping of a
    redraw, streams; the placement-level terminal), model/ScreenUrwid.v (the environment:
    urwid's row cache, what an image canvas puts into a row), gen/ScreenSkel.v (the
    skeleton of draw_screen, translated from the current source).  The models are those
    of the code AFTER pending_fixes/C18_non_composite_canvas.diff and
    C18_kitty_widget_listed_per_view.diff; for the code before them the statement is
    refuted in proofs/ScreenExamples.v ([no_ghosts_refuted_before_fix]) on the input that
    the correspondence reports against the real code.

    STRENGTH: partial (DESIGN 4/C18).  [z_distinct_in_range], [walk_positions],
    [sync_bracket*], [cleared_*] are about the library's own code.  [no_ghosts] rests on
    explicit hypotheses about code outside the library and about terminals, which only the
    correspondence runs validate:
      (U1) urwid writes a row of a new canvas iff it differs from the row of its screen
           buffer, whole, from column 0; nothing else (model/ScreenUrwid.v [urwid_draw]);
      (U2) the bytes of a row determine and are determined by its other content and its
           image lines with their disguise counts ([row], [render_row]);
      (T1) a placement stays until deleted by d=A, d=Z (its z-index), d=C (cursor cell
           inside it); text, erasure and colours do not touch it; nothing scrolls
           (model/Screen.v [pstep]);
      (T2) on Konsole an iTerm2 inline image is such a placement with z-index 0;
      (W)  [wf_redraw]: the tracked views of the canvases before and after belong to kitty
           widgets or to iTerm2 widgets on Konsole, a widget's kind is fixed, live kitty
           widgets hold distinct non-zero z-indexes (that is [z_distinct_in_range]), the
           image lines of a canvas lie on the screen and do not overlap (they belong to
           disjoint rectangles of the canvas: [walk_positions]), every line is one row
           high (the LINES render method, which the documentation requires wherever a
           canvas may be trimmed vertically). *)
From Coq Require Import List ZArith Bool Lia Arith.
Import ListNotations.
From TI Require Import lib.Term lib.Eff model.Screen model.ScreenUrwid gen.ScreenSkel
  proofs.ScreenAlloc proofs.ScreenWalk proofs.ScreenGhost proofs.ScreenSync proofs.ScreenExamples.

(** For EVERY history of widget constructions ([ANew], with any choice of the freed index
    that [set.pop()] returns) and finalisations ([ADel], effective once per widget): the
    z-indexes held by live widgets are pairwise distinct, non-zero and within
    [-(2^31-1), 2^31-1]; the next allocation returns an index no live widget holds, in
    range; and when it raises ([None]) it leaves the allocator as it was — it raises only
    once every one of the 2^32 - 2 indexes is held by a live widget, and never wraps. *)
Theorem C18_z_distinct_in_range : forall h : list aev,
  let s := hist_run h in
  NoDup (live_zs s)
  /\ (forall z, In z (live_zs s) -> z <> 0 /\ - (zlimit - 1) <= z <= zlimit - 1)%Z
  /\ (forall pick z a', alloc pick (h_a s) = (Some z, a') ->
        ~ In z (live_zs s) /\ z <> 0 /\ - (zlimit - 1) <= z <= zlimit - 1)%Z
  /\ (forall pick a', alloc pick (h_a s) = (None, a') ->
        a' = h_a s /\ a_next (h_a s) = zlimit
        /\ (forall z, z <> 0 -> - (zlimit - 1) <= z <= zlimit - 1 -> In z (live_zs s)))%Z.
Proof. exact z_distinct_in_range_lemma. Qed.
Print Assumptions C18_z_distinct_in_range.

(** The same over histories in which every construction names the CLASS of the widget
    (UrwidImage, a subclass, a subclass of a subclass, ...): the model has a SINGLE allocator
    (one counter, one free set) for the whole class tree, as the code has (it addresses
    them through [__class__]); so the z-indexes of ALL live kitty widgets, whatever their
    classes, are pairwise distinct, non-zero and in range, and the class of a widget has no
    influence on the index it gets.  (That the implementation really shares the allocator
    between classes is checked by the correspondence, which constructs widgets of
    UrwidImage and of three subclasses in one session.) *)
Theorem C18_z_distinct_across_classes : forall h : list aevc,
  (let s := hist_run_classes h in
   NoDup (live_zs s)
   /\ (forall z, In z (live_zs s) -> z <> 0 /\ - (zlimit - 1) <= z <= zlimit - 1)%Z
   /\ (forall pick z a', alloc pick (h_a s) = (Some z, a') ->
         ~ In z (live_zs s) /\ z <> 0 /\ - (zlimit - 1) <= z <= zlimit - 1)%Z
   /\ (forall pick a', alloc pick (h_a s) = (None, a') ->
         a' = h_a s /\ a_next (h_a s) = zlimit
         /\ (forall z, z <> 0 -> - (zlimit - 1) <= z <= zlimit - 1 -> In z (live_zs s)))%Z)
  /\ (forall h', map forget_class h' = map forget_class h -> hist_run_classes h' = hist_run_classes h).
Proof. exact z_distinct_across_classes_lemma. Qed.
Print Assumptions C18_z_distinct_across_classes.

(** For every well-formed layout (bands of rectangles with spans: model/Screen.v §6), on
    Konsole or not, with any sufficient fuel for the [while] loop: the walk over the
    layout's shards returns exactly the tracked image views at the positions that the
    layout gives them, in order. *)
Theorem C18_walk_positions : forall (konsole : bool) (l : layout) (fuel : nat),
  wf_layout l = true -> layout_fuel l <= fuel ->
  walk fuel konsole (shards_of l) = Some (positions konsole l).
Proof. exact walk_positions_lemma. Qed.
Print Assumptions C18_walk_positions.

(** For every screen height, terminal identity, image geometry ([lines]) and EVERY sequence
    of redraws, clear()s and calls of the public clear_images(widgets..., now=...) (all images
    or any widgets; immediately = written at once to the terminal, or queued = emitted with
    the next flush, i.e. at the next draw_screen) in which every step is well-formed in the
    state it meets ([ops_wf]: (W) for redraws; the arguments of clear_images are live widgets
    consistent with the views on screen; and the COUNT hypothesis: between two writes of an
    image line's row at most two changes of disguise hit it, this redraw's own included):
    after each redraw nothing is left in the output queue and the placements on the terminal
    are exactly the image lines of the view set just drawn - none left over from earlier
    canvases, none missing.
    The count hypothesis holds by itself when at most one clear_images() call with distinct
    arguments is made between two redraws ([C18_count_ok_*]); it cannot be dropped: the
    disguise has three states, and three changes restore a line's bytes
    (proofs/ScreenExamples.v [no_ghosts_needs_count_hypothesis], also observed on the real
    code: three clear_images() between two redraws and the images are gone). *)
Theorem C18_no_ghosts :
  forall (H : nat) (konsole : bool) (lines : view -> list (Z * Z * Z)) (kittyw : nat -> bool)
         (ops : list sop) (V : list view) (base : Z -> Z),
  ops_wf H konsole lines kittyw world_init (ops ++ [ORedraw V base]) ->
  w_queue (run H konsole true lines (ops ++ [ORedraw V base]) world_init) = []
  /\ forall p, In p (t_plcs (w_term (run H konsole true lines (ops ++ [ORedraw V base]) world_init)))
               <-> In p (plcs_of lines V).
Proof. exact no_ghosts_lemma. Qed.
Print Assumptions C18_no_ghosts.

Theorem C18_count_ok_after_redraw :
  forall (H : nat) (konsole : bool) (lines : view -> list (Z * Z * Z)) w0 V0 base0 V,
  count_ok (step H konsole true lines w0 (ORedraw V0 base0)) V.
Proof. exact count_ok_after_redraw. Qed.
Print Assumptions C18_count_ok_after_redraw.

Theorem C18_count_ok_after_one_api :
  forall (H : nat) (konsole : bool) (lines : view -> list (Z * Z * Z)) (kittyw : nat -> bool) w0 V0 base0 ws now V,
  NoDup (map fst (filter (fun x : nat * wkind => is_kitty (snd x)) ws)) ->
  count_ok (step H konsole true lines (step H konsole true lines w0 (ORedraw V0 base0)) (OApi ws now)) V.
Proof. exact count_ok_after_one_api. Qed.
Print Assumptions C18_count_ok_after_one_api.

(** The stream of a draw_screen, whatever the base class' draw wrote before it returned
    or raised (any [inner] without markers): BEGIN, the deletes, [inner], END. *)
Theorem C18_sync_bracket : forall fuel ksup ikon konsole c inner s out s',
  existsb is_sync inner = false ->
  draw_screen fuel ksup ikon konsole c inner s = Some (out, s') ->
  bracketed out = true /\ exists dels, out = [KSyncB] ++ dels ++ inner ++ [KSyncE].
Proof. exact sync_bracket_lemma. Qed.
Print Assumptions C18_sync_bracket.

(** The skeleton of the CURRENT source of draw_screen: along every path, with any call of
    the body ([_ti_clear_images], the base class' draw_screen, ...) raising
    KeyboardInterrupt or an Exception before or after taking effect, whatever the outcome
    [o], the synchronized update that was opened is closed. *)
Theorem C18_sync_bracket_source : forall o s',
  eval cfg_inner false sk_draw_screen (init []) o s' -> hidden s' = false.
Proof. exact draw_screen_closes_sync. Qed.
Print Assumptions C18_sync_bracket_source.

(** _start, _stop (whether or not the base class' _stop calls clear() again) and clear()
    delete every image whatever is on the terminal (when the kitty protocol is supported), and change the canvas disguise so that every image line
    is written again by the next draw. *)
Theorem C18_cleared_on_start_stop_clear : forall konsole inner base_clears s t,
  forallb no_place inner = true ->
  t_plcs (pexec konsole t (fst (start_stream true inner s))) = []
  /\ t_plcs (pexec konsole t (fst (stop_stream true base_clears inner s))) = []
  /\ t_plcs (pexec konsole t (fst (clear_stream true s))) = []
  /\ s_cdis (snd (start_stream true inner s)) <> s_cdis s
  /\ s_cdis (snd (stop_stream true base_clears inner s)) <> s_cdis s
  /\ s_cdis (snd (clear_stream true s)) <> s_cdis s.
Proof. exact cleared_on_start_stop_clear_lemma. Qed.
Print Assumptions C18_cleared_on_start_stop_clear.

(** In every reachable state of the world, once clear()'s queued delete-all is flushed no
    placement is left (and the redraw that follows re-establishes them: [C18_no_ghosts]
    covers sequences with clear()s). *)
Theorem C18_cleared_after_clear :
  forall (H : nat) (konsole : bool) (lines : view -> list (Z * Z * Z)) (kittyw : nat -> bool) (ops : list sop),
  ops_wf H konsole lines kittyw world_init ops ->
  t_plcs (flushed konsole (run H konsole true lines (ops ++ [OClear]) world_init)) = [].
Proof. exact cleared_after_clear_lemma. Qed.
Print Assumptions C18_cleared_after_clear.
