(** C05 — padding and alignment place the render exactly, inside exactly the padded size. *)
From Coq Require Import List ZArith Bool.
Import ListNotations.
From TI Require Import lib.Term lib.TermFacts lib.Rect lib.Lines model.Block model.GfxRender model.Padding
     proofs.BlockRect proofs.GfxRect proofs.PadProofs.
From TI Require gen.OldPad proofs.OldPadTie.
From TI Require gen.Pure proofs.PureTie.
Open Scope Z_scope.

(** exact dimensions of an aligned padding: the two sides of an axis sum to
    [max minimum render - render]; left/top = 0, half (floor), all of it by alignment *)
Theorem C05_aligned_dims :
  forall W H ha va w h,
  let '(l, t, r, b) := aligned_dims W H ha va w h in
  l + r = Z.max W w - w /\ t + b = Z.max H h - h
  /\ 0 <= l /\ 0 <= t /\ 0 <= r /\ 0 <= b
  /\ (ha = 0%nat -> l = 0) /\ (ha = 1%nat -> l = (Z.max W w - w) / 2) /\ ((2 <= ha)%nat -> r = 0)
  /\ (va = 0%nat -> t = 0) /\ (va = 1%nat -> t = (Z.max H h - h) / 2) /\ ((2 <= va)%nat -> b = 0).
Proof. exact aligned_dims_spec. Qed.
Print Assumptions C05_aligned_dims.

(** [get_padded_size] (the override) agrees with the margins [pad] uses *)
Theorem C05_padded_size_agrees :
  forall W H ha va w h,
    padded_size (aligned_dims W H ha va w h) w h = aligned_padded_size W H w h.
Proof. exact padded_size_agrees. Qed.
Print Assumptions C05_padded_size_agrees.

(** padding no larger than the render on an axis has no effect on that axis *)
Theorem C05_no_effect_when_small :
  forall W H ha va w h,
  let '(l, t, r, b) := aligned_dims W H ha va w h in
  (W <= w -> l = 0 /\ r = 0) /\ (H <= h -> t = 0 /\ b = 0).
Proof. exact no_effect_when_small. Qed.
Print Assumptions C05_no_effect_when_small.

(** relative dimensions resolve to [max (terminal + d) 1]; absolute ones are untouched;
    the result is never relative *)
Theorem C05_resolve :
  forall tw th W H,
  resolve tw th W H =
  (if W <=? 0 then Z.max (tw + W) 1 else W, if H <=? 0 then Z.max (th + H) 1 else H)
  /\ relative (fst (resolve tw th W H)) (snd (resolve tw th W H)) = false.
Proof. exact resolve_spec. Qed.
Print Assumptions C05_resolve.

(** the old image API resolves and aligns exactly like the new classes *)
Theorem C05_old_api_same_arithmetic :
  forall tw th W H ha va w h, (ha <= 2)%nat -> (va <= 2)%nat ->
    old_resolve tw th W H = resolve tw th W H
    /\ old_dims W H ha va w h = aligned_dims W H ha va w h.
Proof.
  intros; split; [exact (old_resolve_is_resolve tw th W H)
                 |exact (old_dims_is_aligned W H ha va w h H0 H1)].
Qed.
Print Assumptions C05_old_api_same_arithmetic.

(** [Renderable.render] pads iff some margin is non-zero; zero margins are the identity *)
Theorem C05_pad_gate :
  forall l t r b w h fill R, 0 <= l -> 0 <= t -> 0 <= r -> 0 <= b ->
  (pad_gate (l, t, r, b) w h = false <-> (l = 0 /\ t = 0 /\ r = 0 /\ b = 0))
  /\ pad fill (0, 0, 0, 0) w R = R.
Proof. intros; split; [apply pad_gate_spec; assumption|reflexivity]. Qed.
Print Assumptions C05_pad_gate.

(** [pad] on a render given as lines: top lines, each line wrapped, bottom lines *)
Theorem C05_pad_structure :
  forall fill l t r b w ls,
  ls <> [] -> (forall ln, In ln ls -> nolf ln) -> 0 <= l -> 0 <= t -> 0 <= r -> 0 <= b ->
  pad fill (l, t, r, b) w (joinlf ls) = joinlf (pad_lines fill (l, t, r, b) w ls).
Proof. exact pad_joinlf. Qed.
Print Assumptions C05_pad_structure.

(** MAIN: padding any line-structured render that meets the render contract yields an
    output that meets the render contract on exactly the padded box
    [(l + w + r) x (t + h + b)]: only that box touched, every cell outside the inner
    render covered when there is a fill character (and not required when the fill is
    empty), cursor at the end, attributes default, line-feed discipline kept. *)
Theorem C05_pad_rect :
  forall fill need w h l t r b ls,
  LinesRect need w h ls -> 0 <= l -> 0 <= t -> 0 <= r -> 0 <= b ->
  RectG (need' fill need w h l t) (l + w + r) (t + h + b) (pad fill (l, t, r, b) w (joinlf ls)).
Proof. exact pad_rect. Qed.
Print Assumptions C05_pad_rect.

(** every render style produces such a render (text with SGR, graphics with
    cursor-movement fills) *)
Theorem C05_styles_are_line_structured :
  (forall alpha kitty bgcol split w rows,
      rows <> [] -> (0 < w)%nat -> (forall r, In r rows -> length r = w) ->
      Block.render alpha kitty bgcol split rows = joinlf (block_ls alpha kitty bgcol split rows)
      /\ LinesRect all_cells (Z.of_nat w) (Z.of_nat (length rows)) (block_ls alpha kitty bgcol split rows))
  /\ (forall w h z mix blend, 0 < w -> 0 < h -> forall pls, Z.of_nat (length pls) = h ->
        LinesRect all_cells w h (map (kitty_line w z mix blend) pls))
  /\ (forall w h z mix blend, 0 < w -> 0 < h -> forall pl,
        LinesRect all_cells w h (kitty_whole_ls w h z mix blend pl))
  /\ (forall w h konsole wezterm mix, 0 < w -> 0 < h -> forall sps, Z.of_nat (length sps) = h ->
        LinesRect all_cells w h (map (iterm2_line w konsole wezterm mix) sps))
  /\ (forall w h konsole wezterm mix sp, 0 < w -> 0 < h ->
        LinesRect all_cells w h (iterm2_whole_ls w h konsole wezterm mix sp)).
Proof.
  split; [|split; [|split; [|split]]].
  - intros. split; [apply render_as_lines; assumption|apply block_lr; assumption].
  - exact kitty_lines_lr.
  - exact kitty_whole_lr.
  - exact iterm2_lines_lr.
  - exact iterm2_whole_lr.
Qed.
Print Assumptions C05_styles_are_line_structured.

(** the old API's [_format_render] is [pad] with spaces and the same margins *)
Theorem C05_format_render_rect :
  forall need W H ha va w h ls,
  LinesRect need w h ls ->
  let '(l, t, r, b) := old_dims W H ha va w h in
  0 <= l -> 0 <= t -> 0 <= r -> 0 <= b ->
  RectG (need' (Some GSpace) need w h l t) (l + w + r) (t + h + b)
        (format_render W H ha va w h (joinlf ls)).
Proof.
  intros need W H ha va w h ls HL. unfold format_render.
  destruct (old_dims W H ha va w h) as [[[l t] r] b]. intros. apply pad_rect; assumption.
Qed.
Print Assumptions C05_format_render_rect.

(** *** the tie to the source, as theorems (T): [gen/Pure.v] is regenerated from
    [padding.py] on every run by [harness/tx/tx_pure.py]; for ALL arguments the translated
    functions are the model functions the theorems above are about *)
Theorem C05_source_exact_dimensions_is_model :
  forall rel W H (ha va : nat) w h, (ha < 3)%nat -> (va < 3)%nat ->
    TI.gen.Pure.aligned_exact_dimensions rel W H (Z.of_nat ha) (Z.of_nat va) w h
    = if rel then None else Some (aligned_dims W H ha va w h).
Proof. exact TI.proofs.PureTie.aligned_exact_dimensions_is_model. Qed.
Print Assumptions C05_source_exact_dimensions_is_model.

Theorem C05_source_resolve_is_model :
  forall tw th W H,
    Padding.resolve tw th W H
    = if Padding.relative W H then TI.gen.Pure.aligned_resolve_relative W H tw th else (W, H).
Proof. exact TI.proofs.PureTie.aligned_resolve_is_model. Qed.
Print Assumptions C05_source_resolve_is_model.

Theorem C05_source_padded_size_is_model :
  forall l t r b w h, Padding.padded_size (l, t, r, b) w h = TI.gen.Pure.padded_size l t r b w h.
Proof. exact TI.proofs.PureTie.padded_size_is_model. Qed.
Print Assumptions C05_source_padded_size_is_model.

(** *** histories (round 4): the clauses above hold for EVERY output of EVERY history of
    terminal resizes, [RenderIterator.set_padding] / [set_render_size] / [seek] / [next]
    (frame cache on or off) and per-call paddings of the old image API ([format(image, spec)],
    [draw(pad_width=, pad_height=)]) and of [Renderable.render(padding=)].

    [PadHist.run] is the code as a fold over the history (state: terminal size, the
    iterator's resolved padding and padded size, render size, next frame, the cache of BARE
    frames); [PadHist.spec_descrs] describes each output as a function of the history
    before it alone: the fill and the margins of the padding IN FORCE — for [next()] the
    argument of the last [set_padding] resolved against the terminal size at that call, for
    a per-call padding that padding resolved against the terminal size AT THE CALL
    ([relative dimensions resolve to max(terminal + d, 1)], [C05_resolve]) — around the bare
    frame at the render size in force.  The code's outputs are, one for one, [pad] of exactly
    that, and each meets the render contract on exactly the padded box (lifting
    [C05_pad_rect]). *)
From TI Require Import model.PadTie model.PadHist proofs.PadHistProofs.

Theorem C05_history_outputs :
  forall bare lines need N tw th w h p0 cached steps,
  (forall k w h, 0 < w -> 0 < h ->
     bare k w h = joinlf (lines k w h) /\ LinesRect need w h (lines k w h)) ->
  hist_wf N w h p0 steps = true ->
  run bare N tw th w h p0 cached steps = map (render_descr bare) (spec_descrs N tw th w h p0 steps)
  /\ Forall (fun d =>
       let '(l, t, r, b) := d_dims d in
       0 <= l /\ 0 <= t /\ 0 <= r /\ 0 <= b
       /\ RectG (need' (d_fill d) need (d_w d) (d_h d) l t) (l + d_w d + r) (t + d_h d + b)
                (pad (d_fill d) (d_dims d) (d_w d) (bare (d_k d) (d_w d) (d_h d))))
     (spec_descrs N tw th w h p0 steps).
Proof. exact hist_main. Qed.
Print Assumptions C05_history_outputs.

(** what [spec_descrs] puts in force, spelled out: [next()] after the history [rpre]
    (most recent step first) ... *)
Theorem C05_history_next_in_force :
  forall N t0 s0 p0 rpre,
  let p := fst (padding_of t0 p0 rpre) in
  let tt := snd (padding_of t0 p0 rpre) in
  let sz := size_of s0 rpre in
  descr_next N t0 s0 p0 rpre =
  {| d_fill := ps_fill p; d_dims := kind_dims (ps_kind p) (fst tt) (snd tt) (fst sz) (snd sz);
     d_w := fst sz; d_h := snd sz; d_k := pos_of N rpre |}.
Proof. exact descr_next_reads. Qed.
Print Assumptions C05_history_next_in_force.

(** ... and a call with its own padding: resolved against the terminal size of the most
    recent resize; in particular a relative padding right after a resize to [(tw, th)]
    has the margins of [max (tw + W) 1] x [max (th + H) 1] *)
Theorem C05_history_call_in_force :
  forall t0 rpre tw th W H ha va fill k w h,
  (forall p, descr_call t0 rpre p k w h =
     {| d_fill := ps_fill p;
        d_dims := kind_dims (ps_kind p) (fst (term_of t0 rpre)) (snd (term_of t0 rpre)) w h;
        d_w := w; d_h := h; d_k := k |})
  /\ (relative W H = true ->
      d_dims (descr_call t0 (HResize tw th :: rpre) {| ps_kind := PAligned W H ha va; ps_fill := fill |} k w h)
      = aligned_dims (if W <=? 0 then Z.max (tw + W) 1 else W) (if H <=? 0 then Z.max (th + H) 1 else H)
                     ha va w h).
Proof.
  intros; split; [intros p; exact (descr_call_reads t0 rpre p k w h)
                 |exact (call_after_resize t0 rpre tw th W H ha va fill k w h)].
Qed.
Print Assumptions C05_history_call_in_force.

(** the statement discriminates: a cache of PADDED frames validated by the padded size
    alone, and a per-call padding memoised together with its resolution, both violate the
    equation of [C05_history_outputs] on a well-formed history *)
Theorem C05_history_excludes_size_keyed_cache :
  exists steps,
    hist_wf 2 2 2 (al 6 4 0 0 (Some GSpace)) steps = true
    /\ run_sizecache ex_bare 2 (repeat None 2) (init_state 2 9 7 2 2 (al 6 4 0 0 (Some GSpace)) true) steps
       <> map (render_descr ex_bare) (spec_descrs 2 9 7 2 2 (al 6 4 0 0 (Some GSpace)) steps).
Proof. exact sizecache_refuted. Qed.
Print Assumptions C05_history_excludes_size_keyed_cache.

Theorem C05_history_excludes_resolution_memo :
  exists steps,
    hist_wf 1 2 2 (al 6 4 0 0 (Some GSpace)) steps = true
    /\ run_memo ex_bare 1 [] (init_state 1 9 7 2 2 (al 6 4 0 0 (Some GSpace)) true) steps
       <> map (render_descr ex_bare) (spec_descrs 1 9 7 2 2 (al 6 4 0 0 (Some GSpace)) steps).
Proof. exact memo_refuted. Qed.
Print Assumptions C05_history_excludes_resolution_memo.

(** *** the old-API padding arithmetic tied to the source as theorems (T): [_format_render] (strings
    of spaces translated to their lengths, the string-assembly statements matched verbatim) and
    the pad-size resolution of [_check_formatting] are translated from [image/common.py] on every
    run into [gen/OldPad.v] by [harness/tx/tx_oldpad.py]; for ALL arguments the model's [old_dims]
    / [old_resolve] are the translated arithmetic, and the vertical padding lines are as wide as
    the horizontally padded render *)
Theorem C05_source_old_dims :
  forall W H ha va w h,
    old_dims W H ha va w h = TI.gen.OldPad.src_old_dims (Z.of_nat ha) W (Z.of_nat va) H w h.
Proof. exact TI.proofs.OldPadTie.old_dims_is_source. Qed.
Print Assumptions C05_source_old_dims.

Theorem C05_source_old_resolve :
  forall tw th W H, old_resolve tw th W H = TI.gen.OldPad.src_old_resolve tw th W H.
Proof. exact TI.proofs.OldPadTie.old_resolve_is_source. Qed.
Print Assumptions C05_source_old_resolve.

Theorem C05_source_old_padded_width :
  forall W H ha va w h,
    (0 <= w)%Z ->
    let '(l, t, r, b) := old_dims W H ha va w h in
    TI.gen.OldPad.src_old_padded_width W w = (l + w + r)%Z.
Proof. exact TI.proofs.OldPadTie.old_padded_width_is_box_width. Qed.
Print Assumptions C05_source_old_padded_width.

(** *** the FILL (round 5): [Padding.fill] "may be any string that occupies exactly one column
    on a terminal screen, or an empty string" — a base character with combining marks, a glyph
    followed by a variation selector / joiner, a blank or a glyph wrapped in SGR sequences are
    one-column fills of SEVERAL code points.  [model/PadGen.v] takes the fill as the token
    list [f] of the fill string under the hypothesis [OneCell f] (executed with default
    attributes it writes exactly the cell under the cursor, advances one column, leaves the
    attributes default); [fill * n] is [n] repetitions of the whole list.  Everything proved
    above for a single glyph holds for every such fill. *)
From TI Require Import model.PadGen proofs.PadGenProofs model.PadGenTie proofs.PadGenTieProofs.

(** MAIN, for any one-column fill segment *)
Theorem C05_pad_gen_rect :
  forall fill need w h l t r b ls,
  (forall f, fill = Some f -> OneCell f) ->
  LinesRect need w h ls -> 0 <= l -> 0 <= t -> 0 <= r -> 0 <= b ->
  RectG (gneed' fill need w h l t) (l + w + r) (t + h + b)
        (pad_gen fill (l, t, r, b) w (joinlf ls)).
Proof. exact pad_gen_rect. Qed.
Print Assumptions C05_pad_gen_rect.

(** structure: top lines of [width] fills, every line wrapped by [l] and [r] WHOLE fills,
    bottom lines *)
Theorem C05_pad_gen_structure :
  forall fill l t r b w ls,
  (forall f, fill = Some f -> OneCell f) ->
  ls <> [] -> (forall ln, In ln ls -> nolf ln) -> 0 <= l -> 0 <= t -> 0 <= r -> 0 <= b ->
  pad_gen fill (l, t, r, b) w (joinlf ls) = joinlf (pad_lines_gen fill (l, t, r, b) w ls).
Proof. exact pad_gen_structure. Qed.
Print Assumptions C05_pad_gen_structure.

(** the single-glyph model of [model/Padding.v] is the instance [f = [TChar g]], and
    [C05_pad_rect] follows from [C05_pad_gen_rect] *)
Theorem C05_pad_gen_single_glyph :
  (forall g, OneCell [TChar g])
  /\ (forall fill d w R, pad_gen (glyph_fill fill) d w R = pad fill d w R)
  /\ (forall fill need w h l t r b ls,
        LinesRect need w h ls -> 0 <= l -> 0 <= t -> 0 <= r -> 0 <= b ->
        RectG (need' fill need w h l t) (l + w + r) (t + h + b) (pad fill (l, t, r, b) w (joinlf ls))).
Proof.
  split; [exact glyph_one_cell|]. split; [exact pad_gen_glyph|exact pad_rect_is_instance].
Qed.
Print Assumptions C05_pad_gen_single_glyph.

(** the hypothesis is decidable on the fills the correspondence uses: zero-width style
    tokens, one glyph, zero-width style tokens, attributes default at the end *)
Theorem C05_styled_fill_is_one_column :
  forall f, styled_fillb f = true -> OneCell f.
Proof. exact styled_fill_one_cell. Qed.
Print Assumptions C05_styled_fill_is_one_column.

(** a verdict 0 of the correspondence's judge on a case means: the case's fill satisfies the
    hypothesis above and the observed output is [pad_gen] of the inner render *)
Theorem C05_fill_tie_sound :
  forall c, gcheck c = 0%nat ->
  (forall f, g_fill c = Some f -> OneCell f)
  /\ g_obs c = pad_gen (g_fill c) (gdims_of c) (g_w c) (g_inner c).
Proof. exact gcheck_zero_sound. Qed.
Print Assumptions C05_fill_tie_sound.

(** the statement discriminates: building ONE line of fill and cutting the side margins out
    of it BY POSITION ([pad_sliced]) is the same function for every fill that is one unit
    long, and violates the box contract (and differs from [pad_gen]) for a one-column fill
    of two tokens *)
Theorem C05_sliced_margins_agree_for_single_unit_fill :
  forall x l t r b w R, 0 <= l -> 0 <= r -> 0 <= w ->
  pad_sliced (Some [x]) (l, t, r, b) w R = pad_gen (Some [x]) (l, t, r, b) w R.
Proof. exact sliced_single_is_pad. Qed.
Print Assumptions C05_sliced_margins_agree_for_single_unit_fill.

Theorem C05_sliced_margins_refuted :
  exists f d w ls,
    OneCell f /\ length f = 2%nat /\ LinesRect all_cells w 1 ls
    /\ (let '(l, t, r, b) := d in
        0 <= l /\ 0 <= t /\ 0 <= r /\ 0 <= b
        /\ RectG (gneed' (Some f) all_cells w 1 l t) (l + w + r) (t + 1 + b)
                 (pad_gen (Some f) d w (joinlf ls))
        /\ ~ RectG (gneed' (Some f) all_cells w 1 l t) (l + w + r) (t + 1 + b)
                   (pad_sliced (Some f) d w (joinlf ls)))
    /\ pad_sliced (Some f) d w (joinlf ls) <> pad_gen (Some f) d w (joinlf ls).
Proof. exact sliced_refuted. Qed.
Print Assumptions C05_sliced_margins_refuted.

(** *** the render CONTENT (round 6): [Padding.pad] is a public function on ANY render output of
    the documented form — [height] lines separated by "\n", each occupying [width] columns;
    what a line is made of (glyphs, escape sequences in the middle of the line, characters that
    occupy no column such as U+2028, U+2029, U+0085, U+001C..U+001E) is the caller's.  The lines
    of a render are what [split_lf] returns: the pieces between the [TLF] tokens and nothing
    else ([C05_lines_are_split_at_lf_only]: the inverse of [joinlf] in both directions). *)
From TI Require Import model.PadContent proofs.PadContentProofs model.PadContentTie.

Theorem C05_lines_are_split_at_lf_only :
  (forall R, joinlf (split_lf R) = R)
  /\ (forall ls, ls <> [] -> (forall ln, In ln ls -> nolf ln) -> split_lf (joinlf ls) = ls)
  /\ (forall R, length (split_lf R) = S (count_lf R)).
Proof. exact (conj joinlf_split_lf (conj split_lf_joinlf split_lf_length_count)). Qed.
Print Assumptions C05_lines_are_split_at_lf_only.

(** MAIN (content): for EVERY token list [R] — no hypothesis whatever on what the lines
    contain — the lines of the padded output are: [t] lines of fill, every line of [R]
    unchanged between its left and right margins, [b] lines of fill; hence exactly
    [t + (lines of R) + b] lines, and line [i] of [R] is found, token for token, on line [t + i] *)
Theorem C05_pad_lines_any_content :
  forall fill l t r b w R,
  fill_nolf fill ->
  split_lf (pad_gen fill (l, t, r, b) w R) = pad_lines_gen fill (l, t, r, b) w (split_lf R)
  /\ length (split_lf (pad_gen fill (l, t, r, b) w R)) = (Z.to_nat t + length (split_lf R) + Z.to_nat b)%nat
  /\ (forall i ln, nth_error (split_lf R) i = Some ln ->
        nth_error (split_lf (pad_gen fill (l, t, r, b) w R)) (Z.to_nat t + i)
        = Some (gfillseg fill l ++ ln ++ gfillseg fill r)).
Proof.
  intros fill l t r b w R Hf. split; [exact (pad_lines_any fill l t r b w R Hf)|].
  split; [exact (pad_line_count fill l t r b w R Hf)|].
  intros i ln Hi. exact (pad_line_unchanged fill l t r b w R i ln Hf Hi).
Qed.
Print Assumptions C05_pad_lines_any_content.

(** every one-column fill (the hypothesis of [C05_pad_gen_rect]) has no line feed in it *)
Theorem C05_one_column_fill_has_no_lf :
  forall fill, (forall f, fill = Some f -> OneCell f) -> fill_nolf fill.
Proof. exact one_cell_fill_nolf. Qed.
Print Assumptions C05_one_column_fill_has_no_lf.

(** PARAMETRICITY: padding commutes with ANY content of the lines that introduces no line
    feed — [pad] of the render whose lines are [map f ls] is the padded lines with [f] applied
    to the inner part of every render line, for any per-line map [f] ... *)
Theorem C05_pad_content_parametric :
  forall (f : list tok -> list tok) fill l t r b w ls,
  fill_nolf fill -> ls <> [] -> (forall ln, In ln ls -> nolf (f ln)) ->
  pad_gen fill (l, t, r, b) w (joinlf (map f ls)) = joinlf (pad_lines_map f fill (l, t, r, b) w ls)
  /\ split_lf (pad_gen fill (l, t, r, b) w (joinlf (map f ls))) = pad_lines_map f fill (l, t, r, b) w ls.
Proof. exact pad_content_parametric. Qed.
Print Assumptions C05_pad_content_parametric.

(** ... in particular for any token-by-token substitution [s] of the content (line feeds
    stay) that introduces no line feed, on ANY render [R] *)
Theorem C05_pad_commutes_with_token_substitution :
  forall (s : tok -> list tok) fill l t r b w R,
  fill_nolf fill -> (forall x, is_lf x = false -> nolf (s x)) ->
  split_lf (pad_gen fill (l, t, r, b) w (subst_content s R))
  = pad_lines_map (flat_map s) fill (l, t, r, b) w (split_lf R).
Proof. exact pad_token_subst. Qed.
Print Assumptions C05_pad_commutes_with_token_substitution.

(** the statement discriminates: building the output line by line from a split that ALSO
    breaks at (and drops) a further separator token ([str.splitlines()]) is the same function
    on every render that holds no such token — no render of the library can tell — ... *)
Theorem C05_extra_separator_agrees_without_separator :
  forall issep fill l t r b w R,
  forallb (fun x => negb (issep x)) R = true ->
  pad_splitlines issep fill (l, t, r, b) w R = pad_gen fill (l, t, r, b) w R.
Proof. exact splitlines_agrees_without_separator. Qed.
Print Assumptions C05_extra_separator_agrees_without_separator.

(** ... and refuted on a one-line render [a <zero-width> b]: the output has another number of
    lines than [pad]'s, violates the line-structure equation of [C05_pad_lines_any_content],
    and the character is gone *)
Theorem C05_extra_separator_refuted :
  exists fill d w R,
    fill_nolf fill /\ nolf R /\ d = (1, 0, 0, 0)
    /\ pad_splitlines is_nul fill d w R <> pad_gen fill d w R
    /\ length (split_lf (pad_splitlines is_nul fill d w R)) <> length (split_lf (pad_gen fill d w R))
    /\ split_lf (pad_splitlines is_nul fill d w R) <> pad_lines_gen fill d w (split_lf R)
    /\ ~ In TNul (pad_splitlines is_nul fill d w R).
Proof. exact splitlines_refuted. Qed.
Print Assumptions C05_extra_separator_refuted.

(** the code-point level oracle of the content correspondence ([PadContentTie.raw_oracle]: the
    output split at U+000A only has padded-height lines, = what [get_padded_size] says, every
    line of the render unchanged on its own line) accepts EVERY output of the documented line
    structure, whatever the margins, the padding lines and the lines of the render are made of:
    it can only fire on an output that is not of that form *)
From TI Require Import proofs.PadContentTieProofs.
Theorem C05_content_oracle_accepts_line_structure :
  forall c l t r b (lp rp line : list Z) (ils : list (list Z)),
  gdims_of (c_g c) = (l, t, r, b) -> 0 <= t -> 0 <= b ->
  ils <> [] -> Forall znolf ils -> znolf lp -> znolf rp -> znolf line ->
  Z.of_nat (length ils) = g_h (c_g c) ->
  (g_obs_dims (c_g c) = [] \/ exists a1 a2 a3 a4 a5, g_obs_dims (c_g c) = [a1; a2; a3; a4; a5; t + g_h (c_g c) + b]) ->
  c_raw_inner c = zjoin ils ->
  c_raw_obs c = zjoin (repeat line (Z.to_nat t) ++ map (fun ln => lp ++ ln ++ rp) ils ++ repeat line (Z.to_nat b)) ->
  raw_wf c = true /\ raw_oracle c = true.
Proof. exact raw_oracle_accepts_line_structure. Qed.
Print Assumptions C05_content_oracle_accepts_line_structure.

(** a verdict 0 of the content judge: well-formed case, code-point oracle, and (content in the
    terminal model's vocabulary) the token-level judgement of [C05_fill_tie_sound] *)
Theorem C05_content_tie_sound :
  forall c, ccheck c = 0%nat ->
  raw_wf c = true /\ raw_oracle c = true /\ (c_lexed c = true -> gcheck (c_g c) = 0%nat).
Proof. exact ccheck_zero_sound. Qed.
Print Assumptions C05_content_tie_sound.

(** *** ANIMATED draws (round 6): "contains the original render unchanged at the offset dictated
    by the horizontal and vertical alignment" holds, on the screen, for EVERY frame of an
    animated [Renderable.draw].  The stream is C06's [Draw.anim_stream] (here with the distance
    back to the render's top-left cell as a parameter: [PadAnim.anim_stream_by k], the code
    being [k = pad_bottom]); by C06's final-state theorem, for every first frame, every list of
    later frames (any frame count, any number of loops), every margins and fill, every screen
    the padded box fits and every start row, the padded box finally shows — cell for cell —
    what [pad] of the LAST frame drawn alone from the start position shows, nothing outside the
    box is touched, and the cursor is on the line below it. *)
From TI Require Import lib.TermScroll model.Draw model.PadAnim model.PadAnimTie
     proofs.DrawLines proofs.DrawProofs proofs.PadAnimProofs.

Theorem C05_animation_final_is_pad_of_last_frame :
  forall (W H lm : Z) (fill : option glyph) (w h pl pt pr pb : Z),
  0 <= pl -> 0 <= pt -> 0 <= pr -> 0 <= pb -> 0 <= lm ->
  lm + (pl + w + pr) <= W -> pt + h + pb <= H ->
  forall clear : list tok, ClearOK w h clear ->
  forall (ls1 : list (list tok)) (lss : list (list (list tok))),
  LinesRect all_cells w h ls1 -> (forall ln, In ln ls1 -> Downward ln) ->
  Forall (LinesRect all_cells w h) lss ->
  forall (t0 : term) (top0 : Z) (hide : bool),
  okat t0 (row t0) lm -> top0 <= row t0 < top0 + H ->
  DrawFinal W H lm top0 t0 hide (pl + w + pr) (pt + h + pb)
    (pad fill (pl, pt, pr, pb) w (joinlf (lastframe ls1 lss)))
    (anim_stream_by pb hide pl h clear (pad fill (pl, pt, pr, pb) w (joinlf ls1)) (map joinlf lss)).
Proof. exact animation_final_is_pad. Qed.
Print Assumptions C05_animation_final_is_pad_of_last_frame.

(** with the margins dictated by the alignment ([C05_aligned_dims]) on the box
    [max W w x max H h] *)
Theorem C05_animation_final_at_alignment_offset :
  forall (W H lm : Z) (fill : option glyph) (Wp Hp : Z) (ha va : nat) (w h : Z),
  let '(pl, pt, pr, pb) := aligned_dims Wp Hp ha va w h in
  0 <= lm -> lm + Z.max Wp w <= W -> Z.max Hp h <= H ->
  forall clear : list tok, ClearOK w h clear ->
  forall (ls1 : list (list tok)) (lss : list (list (list tok))),
  LinesRect all_cells w h ls1 -> (forall ln, In ln ls1 -> Downward ln) ->
  Forall (LinesRect all_cells w h) lss ->
  forall (t0 : term) (top0 : Z) (hide : bool),
  okat t0 (row t0) lm -> top0 <= row t0 < top0 + H ->
  DrawFinal W H lm top0 t0 hide (Z.max Wp w) (Z.max Hp h)
    (pad fill (pl, pt, pr, pb) w (joinlf (lastframe ls1 lss)))
    (anim_stream_by pb hide pl h clear (pad fill (pl, pt, pr, pb) w (joinlf ls1)) (map joinlf lss)).
Proof. exact animation_final_aligned. Qed.
Print Assumptions C05_animation_final_at_alignment_offset.

(** [anim_stream_by pad_bottom] is the stream of [model/Draw.v] *)
Theorem C05_animation_stream_is_draw_model :
  forall hide l b h clear P Fs,
  anim_stream_by b hide l h clear P Fs = anim_stream hide l b h clear P Fs.
Proof. exact anim_stream_by_bottom. Qed.
Print Assumptions C05_animation_stream_is_draw_model.

(** the statement discriminates: placing the frames after the first (and the final cursor
    move) by the TOP margin is refuted as soon as the vertical margins differ *)
Theorem C05_animation_by_top_margin_refuted :
  exists fill pl pt pr pb ls1 lss,
    LinesRect all_cells 1 1 ls1 /\ Forall (LinesRect all_cells 1 1) lss
    /\ 0 <= pl /\ 0 <= pt /\ 0 <= pr /\ 0 <= pb /\ pt <> pb
    /\ DrawFinal 10 8 0 0 (pos 0 0) true (pl + 1 + pr) (pt + 1 + pb)
         (pad fill (pl, pt, pr, pb) 1 (joinlf (lastframe ls1 lss)))
         (anim_stream_by pb true pl 1 [] (pad fill (pl, pt, pr, pb) 1 (joinlf ls1)) (map joinlf lss))
    /\ ~ DrawFinal 10 8 0 0 (pos 0 0) true (pl + 1 + pr) (pt + 1 + pb)
         (pad fill (pl, pt, pr, pb) 1 (joinlf (lastframe ls1 lss)))
         (anim_stream_top true pl pt 1 [] (pad fill (pl, pt, pr, pb) 1 (joinlf ls1)) (map joinlf lss)).
Proof. exact top_margin_refuted. Qed.
Print Assumptions C05_animation_by_top_margin_refuted.

(** a verdict 0 of the correspondence's judge on an animated draw means: the stream written is
    the model's and the final screen passes the padding oracle from every start row *)
Theorem C05_animation_tie_sound :
  forall c, acheck c = 0%nat ->
  amodel c = Some (a_obs c) /\ forallb (aoracle c) (a_rows c) = true /\ a_frames c <> [].
Proof. exact acheck_zero_sound. Qed.
Print Assumptions C05_animation_tie_sound.

(** ** ANIMATED draws of the image classes, per style and terminal identity (round 8)

    [BaseImage.draw(animate=True)] ([common.py:1318-1369]) with the steps the styles put before
    it (iterm2 style on WezTerm with [mix] false: a placeholder formatted like a frame, then
    the cursor back to the top of the box; kitty style: clearing by z-index on old kitty).
    Every frame is [_format_render]ed (= [pad] with blanks and the margins of the alignment)
    to the box [max W' w x max H' h] and drawn from the top-left of the box.  The stream is
    [Draw.old_anim_stream] with its two cursor returns as parameters
    ([PadAnimOld.old_anim_stream_by up], [PadAnimOld.pre_by k]); the code is
    [up = cursor_up] (empty for a distance <= 0), [k = max(pad_height, rendered_height) - 1]. *)
From TI Require Import model.DrawTie model.PadAnimOld model.PadAnimOldTie proofs.PadAnimOldProofs.

(** for every pre-animation step of the code, clearing, frames, minimum size, alignment,
    screen the box fits and start row: no frame touches anything outside the box (nor
    scrolls more than the box needs), and the box finally shows cell for cell what the
    formatted LAST frame drawn alone from the start position shows *)
Theorem C05_image_animation_final_is_pad_of_last_frame :
  forall (W H lm W' H' : Z) (ha va : nat) (w h : Z) (oldk tty : bool) (s : pre_step)
         (ls1 : list (list tok)) (lss : list (list (list tok))) (t0 : term) (top0 : Z),
  0 <= lm -> lm + Z.max W' w <= W -> Z.max H' h <= H ->
  LinesRect all_cells w h ls1 -> (forall ln, In ln ls1 -> Downward ln) ->
  Forall (LinesRect all_cells w h) lss ->
  okat t0 (row t0) lm -> top0 <= row t0 < top0 + H ->
  DrawFinal W H lm top0 t0 tty (Z.max W' w) (Z.max H' h)
    (pad (Some GSpace) (old_dims W' H' ha va w h) w (joinlf (lastframe ls1 lss)))
    (old_anim_stream_by cuu tty (Z.max H' h) (pre_of s W' H' ha va w h) (kitty_clear oldk)
       (format_render W' H' ha va w h (joinlf ls1))
       (map (fun ls => format_render W' H' ha va w h (joinlf ls)) lss)).
Proof. exact old_animation_final_is_pad. Qed.
Print Assumptions C05_image_animation_final_is_pad_of_last_frame.

(** [old_anim_stream_by cursor_up] with [pre_of] is the stream of [model/Draw.v] *)
Theorem C05_image_animation_stream_is_draw_model :
  forall tty lines pre clear P1 Ps,
  old_anim_stream_by cuu tty lines pre clear P1 Ps = old_anim_stream tty lines pre clear P1 Ps.
Proof. exact old_anim_stream_by_code. Qed.
Print Assumptions C05_image_animation_stream_is_draw_model.

Theorem C05_image_animation_pre_step_is_draw_model :
  forall (wez : bool) W H ha va w h,
  pre_of (if wez then PrePlaceholder else PreNone) W H ha va w h
  = if wez then wez_pre W H ha va w h else [].
Proof. exact pre_of_code. Qed.
Print Assumptions C05_image_animation_pre_step_is_draw_model.

(** the statement discriminates (1): taking the cursor back after the placeholder by the line
    count of the UNFORMATTED placeholder is the same function whenever the vertical padding is
    not effective, and is refuted as soon as it is *)
Theorem C05_unformatted_placeholder_return_agrees_without_vertical_padding :
  forall W H ha va w h, H <= h -> pre_unformatted W H ha va w h = pre_of PrePlaceholder W H ha va w h.
Proof. exact pre_unformatted_agrees_without_vertical_padding. Qed.
Print Assumptions C05_unformatted_placeholder_return_agrees_without_vertical_padding.

Theorem C05_unformatted_placeholder_return_refuted :
  exists W' H' ha va ls1 lss,
    LinesRect all_cells 1 1 ls1 /\ Forall (LinesRect all_cells 1 1) lss /\ 1 < H'
    /\ DrawFinal 10 8 0 0 (pos 2 0) true (Z.max W' 1) (Z.max H' 1)
         (pad (Some GSpace) (old_dims W' H' ha va 1 1) 1 (joinlf (lastframe ls1 lss)))
         (old_anim_stream_by cuu true (Z.max H' 1) (pre_of PrePlaceholder W' H' ha va 1 1) []
            (format_render W' H' ha va 1 1 (joinlf ls1))
            (map (fun ls => format_render W' H' ha va 1 1 (joinlf ls)) lss))
    /\ ~ DrawFinal 10 8 0 0 (pos 2 0) true (Z.max W' 1) (Z.max H' 1)
         (pad (Some GSpace) (old_dims W' H' ha va 1 1) 1 (joinlf (lastframe ls1 lss)))
         (old_anim_stream_by cuu true (Z.max H' 1) (pre_unformatted W' H' ha va 1 1) []
            (format_render W' H' ha va 1 1 (joinlf ls1))
            (map (fun ls => format_render W' H' ha va 1 1 (joinlf ls)) lss)).
Proof. exact unformatted_placeholder_return_refuted. Qed.
Print Assumptions C05_unformatted_placeholder_return_refuted.

(** the statement discriminates (2): the bare [CSI n A] template after every frame is the
    same function on every box of two or more lines, and is refuted on a padded box of
    exactly ONE line ([CSI 0 A] is executed as "up one line": [lib/Term.v] [pos1]) *)
Theorem C05_raw_cursor_up_agrees_above_one_line :
  forall tty lines pre clear P1 Ps, 2 <= lines ->
  old_anim_stream_by raw_cuu tty lines pre clear P1 Ps = old_anim_stream_by cuu tty lines pre clear P1 Ps.
Proof. exact raw_cuu_agrees_above_one_line. Qed.
Print Assumptions C05_raw_cursor_up_agrees_above_one_line.

Theorem C05_zero_parameter_cursor_up_refuted :
  exists W' H' ha va ls1 lss,
    LinesRect all_cells 1 1 ls1 /\ Forall (LinesRect all_cells 1 1) lss /\ Z.max H' 1 = 1
    /\ DrawFinal 10 8 0 0 (pos 2 0) true (Z.max W' 1) (Z.max H' 1)
         (pad (Some GSpace) (old_dims W' H' ha va 1 1) 1 (joinlf (lastframe ls1 lss)))
         (old_anim_stream_by cuu true (Z.max H' 1) [] []
            (format_render W' H' ha va 1 1 (joinlf ls1))
            (map (fun ls => format_render W' H' ha va 1 1 (joinlf ls)) lss))
    /\ ~ DrawFinal 10 8 0 0 (pos 2 0) true (Z.max W' 1) (Z.max H' 1)
         (pad (Some GSpace) (old_dims W' H' ha va 1 1) 1 (joinlf (lastframe ls1 lss)))
         (old_anim_stream_by raw_cuu true (Z.max H' 1) [] []
            (format_render W' H' ha va 1 1 (joinlf ls1))
            (map (fun ls => format_render W' H' ha va 1 1 (joinlf ls)) lss)).
Proof. exact zero_parameter_cursor_up_refuted. Qed.
Print Assumptions C05_zero_parameter_cursor_up_refuted.

(** a verdict 0 of the judge on an animated draw of an image means: the stream written is the
    model's and the execution passes the padding oracle from every start row *)
Theorem C05_image_animation_tie_sound :
  forall c, ocheck c = 0%nat ->
  omodel c = Some (o_obs c) /\ forallb (ooracle c) (o_rows c) = true /\ o_frames c <> [].
Proof. exact ocheck_zero_sound. Qed.
Print Assumptions C05_image_animation_tie_sound.
