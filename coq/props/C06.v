(** C06 — draw() leaves the picture in place and the cursor on the line below it.

    Streams: [model/Draw.v] ([draw_stream], [old_draw_stream]: what [Renderable.draw] /
    [BaseImage.draw] write to standard output as functions of the frames' render outputs,
    the padding margins and the flags).  Terminal: [lib/Term.v] on virtual rows; a real
    screen is followed by [TermScroll.srun], which accepts an execution only if no cursor
    movement would be clamped, nothing wraps, and the window moves only by line feeds on
    its bottom row.

    [DrawFinal W H lm top0 t0 hide pw ph Ref S] ([proofs/DrawProofs.v]) — after executing
    [S] from [t0] on a [W x H] screen whose top line is virtual row [top0]:
    the cursor is at the left margin on the row just below the [pw x ph] box anchored at
    the start position; attributes default; protocol state clean; the cursor is visible
    (shown again if it was hidden; untouched otherwise); the screen scrolled exactly
    [max 0 (row t0 + ph + 1 - H - top0)] lines (what the box and the line below it need);
    every event lies in the box (except the final move to the line below it); and every
    cell of the box shows what drawing [Ref] — the padded last frame — alone from the start
    position shows ([lastcov]: the last glyph / erasure / image placed over the cell).

    Frames are line-structured renders meeting the render contract ([LinesRect all_cells w
    h], C01/C05: proved for every render style) whose first frame also keeps the downward
    discipline ([Downward]: no line touches a row below its own — proved for every render
    style in [C06_styles_downward]); the box fits the screen ([lm + pw <= W], [ph <= H]);
    the start row is ANY row of the screen (so the first frame may have to scroll). *)
From Coq Require Import List ZArith Bool.
Import ListNotations.
From TI Require Import lib.Term lib.TermFacts lib.Rect lib.Lines lib.TermScroll
     model.Padding model.Draw model.GfxRender
     proofs.BlockRect proofs.DrawLines proofs.DrawProofs proofs.DrawProofsOld
     proofs.DrawStyles proofs.DrawFinal lib.RectCheck model.DrawTie proofs.DrawTieProofs
     lib.TermPlace proofs.DrawPlace
     model.DrawEnv proofs.DrawEnvProofs model.DrawCut model.DrawCutTie proofs.DrawCutProofs
     proofs.DrawCutTieProofs proofs.DrawIntProofs.
From TI Require model.DrawInt.
From TI Require gen.Decide proofs.DecideTie.
Open Scope Z_scope.

(** the loop invariant of [_animate_] (induction on the list of later frames): after every
    frame the cursor is back at the render's top-left with default attributes; every frame
    is drawn over exactly the render's cells; nothing else is written *)
Theorem C06_animate_inv :
  forall lm w h pl clear,
  0 <= pl -> ClearOK w h clear ->
  forall (lss : list (list (list tok))) (s : term) (ra : Z),
  Forall (LinesRect all_cells w h) lss -> okat s ra (lm + pl) ->
  exists EV : list ev,
    exec lm s (concat (map (fun ls => later_frame pl h clear (joinlf ls)) lss))
      = mk ra (lm + pl) adefault s EV
    /\ forallb (ev_inside ra lm h (pl + w)) EV = true
    /\ (forall r c, covered EV r c = true -> ra <= r < ra + h /\ lm + pl <= c < lm + pl + w)
    /\ (forall r c acc, ra <= r < ra + h -> lm + pl <= c < lm + pl + w ->
          lastcov_from acc EV r c =
          match lastopt lss with
          | Some lsn => lastcov (flat (lm + pl) ra lsn) r c
          | None => acc
          end).
Proof. exact animate_inv. Qed.
Print Assumptions C06_animate_inv.

(** new API, animation: any first frame, any list of later frames (any frame count, any
    number of loops, whatever the cache did), any padding, any clearing that keeps its
    contract, any screen the padded box fits, any start row *)
Theorem C06_animate_final :
  forall (W H lm : Z) (fill : option glyph) (w h pl pt pr pb : Z),
  0 <= pl -> 0 <= pt -> 0 <= pr -> 0 <= pb -> 0 <= lm ->
  lm + (pl + w + pr) <= W -> pt + h + pb <= H ->
  forall clear : list tok, ClearOK w h clear ->
  forall (ls1 : list (list tok)) (lss : list (list (list tok))),
  LinesRect all_cells w h ls1 -> (forall ln, In ln ls1 -> Downward ln) ->
  Forall (LinesRect all_cells w h) lss ->
  forall (t0 : term) (top0 : Z) (hide : bool),
  okat t0 (row t0) lm -> top0 <= row t0 < top0 + H ->
  DrawFinal W H lm top0 t0 hide (pl + w + pr) (pt + h + pb)
    (padded fill (pl, pt, pr, pb) w h (joinlf (lastframe ls1 lss)))
    (anim_stream hide pl pb h clear (padded fill (pl, pt, pr, pb) w h (joinlf ls1)) (map joinlf lss)).
Proof. exact animate_final. Qed.
Print Assumptions C06_animate_final.

(** new API, still frame *)
Theorem C06_draw_still_final :
  forall (W H lm : Z) (fill : option glyph) (w h pl pt pr pb : Z),
  0 <= pl -> 0 <= pt -> 0 <= pr -> 0 <= pb -> 0 <= lm ->
  lm + (pl + w + pr) <= W -> pt + h + pb <= H ->
  forall ls1 : list (list tok),
  LinesRect all_cells w h ls1 -> (forall ln, In ln ls1 -> Downward ln) ->
  forall (t0 : term) (top0 : Z) (hide : bool),
  okat t0 (row t0) lm -> top0 <= row t0 < top0 + H ->
  DrawFinal W H lm top0 t0 hide (pl + w + pr) (pt + h + pb)
    (padded fill (pl, pt, pr, pb) w h (joinlf ls1))
    (still_stream hide (padded fill (pl, pt, pr, pb) w h (joinlf ls1))).
Proof. exact draw_still_final. Qed.
Print Assumptions C06_draw_still_final.

(** old API, animation ([_display_animated] as corrected by the fix this check produced:
    see [legacy_*] in [proofs/DrawFinal.v] for the computed counterexamples on the previous
    stream), with kitty's clearing by z-index and iterm2's wezterm pre-erase *)
Theorem C06_old_animate_final :
  forall W H lm W' H' (ha va : nat) w h (oldk wez tty : bool)
         (ls1 : list (list tok)) (lss : list (list (list tok))) t0 top0,
  0 <= lm -> lm + Z.max W' w <= W -> Z.max H' h <= H ->
  LinesRect all_cells w h ls1 -> (forall ln, In ln ls1 -> Downward ln) ->
  Forall (LinesRect all_cells w h) lss ->
  okat t0 (row t0) lm -> top0 <= row t0 < top0 + H ->
  let fmt := fun ls => format_render W' H' ha va w h (joinlf ls) in
  DrawFinal W H lm top0 t0 tty (Z.max W' w) (Z.max H' h)
            (fmt (lastframe ls1 lss))
            (old_anim_stream tty (Z.max H' h)
               (if wez then wez_pre W' H' ha va w h else []) (kitty_clear oldk)
               (fmt ls1) (map fmt lss)).
Proof. exact old_animate_final. Qed.
Print Assumptions C06_old_animate_final.

(** old API, still image *)
Theorem C06_old_draw_still_final :
  forall W H lm W' H' (ha va : nat) w h (tty : bool) (ls : list (list tok)) t0 top0,
  0 <= lm -> lm + Z.max W' w <= W -> Z.max H' h <= H ->
  LinesRect all_cells w h ls -> (forall ln, In ln ls -> Downward ln) ->
  okat t0 (row t0) lm -> top0 <= row t0 < top0 + H ->
  DrawFinal W H lm top0 t0 tty (Z.max W' w) (Z.max H' h)
            (format_render W' H' ha va w h (joinlf ls))
            (old_still_stream tty (format_render W' H' ha va w h (joinlf ls))).
Proof. exact old_draw_still_final. Qed.
Print Assumptions C06_old_draw_still_final.

(** every render style's lines keep the downward discipline (with C05's
    [C05_styles_are_line_structured] this discharges the frame hypotheses above for block,
    kitty LINES / WHOLE and iterm2 LINES / WHOLE / native ANIM renders) *)
Theorem C06_styles_downward :
  (forall alpha kitty bgcol split (w : nat) rows,
      (0 < w)%nat -> (forall r, In r rows -> length r = w) ->
      forall ln, In ln (block_ls alpha kitty bgcol split rows) -> Downward ln)
  /\ (forall w z mix blend pls, 0 < w ->
        forall ln, In ln (map (kitty_line w z mix blend) pls) -> Downward ln)
  /\ (forall w h z mix blend pl, 0 < w ->
        forall ln, In ln (kitty_whole_ls w h z mix blend pl) -> Downward ln)
  /\ (forall w konsole wezterm mix sps, 0 < w ->
        forall ln, In ln (map (iterm2_line w konsole wezterm mix) sps) -> Downward ln)
  /\ (forall w h konsole wezterm mix sp, 0 < w -> 0 < h ->
        forall ln, In ln (iterm2_whole_ls w h konsole wezterm mix sp) -> Downward ln).
Proof. exact styles_downward. Qed.
Print Assumptions C06_styles_downward.

(** the wezterm pre-erase is itself a render meeting the contract *)
Theorem C06_wez_erase :
  forall w h, 0 < w -> 0 < h ->
  LinesRect all_cells w h (wez_erase_ls w h)
  /\ forall ln, In ln (wez_erase_ls w h) -> Downward ln.
Proof. intros w h Hw Hh. exact (conj (wez_erase_lr w h Hw Hh) (wez_erase_downward w h Hw)). Qed.
Print Assumptions C06_wez_erase.

(** an execution whose events all lie in the window neither scrolls nor is refused *)
Theorem C06_noscroll_sound :
  forall W H lm top ts t,
  forallb (ev_win W H top) (exec_evs lm t ts) = true -> srun W H lm top t ts = Some top.
Proof. exact srun_noscroll. Qed.
Print Assumptions C06_noscroll_sound.

(** size validation, new API: accepted exactly when the documented rule holds; rejected =
    nothing written *)
Theorem C06_size_ok_spec :
  forall cs allow anim pw ph tw th,
  size_ok cs allow anim pw ph tw th = true <-> doc_fits cs allow anim pw ph tw th.
Proof. exact size_ok_spec. Qed.
Print Assumptions C06_size_ok_spec.

Theorem C06_draw_rejects_iff :
  forall cs allow anim hide tw th fill l t r b w h clear frames,
  draw_stream cs allow anim hide tw th fill (l, t, r, b) w h clear frames = None
  <-> ~ doc_fits cs allow anim (l + w + r) (t + h + b) tw th.
Proof. exact draw_rejects_iff. Qed.
Print Assumptions C06_draw_rejects_iff.

(** size validation, old API *)
Theorem C06_old_size_ok_spec :
  forall cs scroll anim dyn w h rawW rawH tw th,
  old_size_ok cs scroll anim dyn w h rawW rawH tw th = true
  <-> old_doc_fits cs scroll anim dyn w h rawW rawH tw th.
Proof. exact old_size_ok_spec. Qed.
Print Assumptions C06_old_size_ok_spec.

Theorem C06_old_draw_rejects_iff :
  forall cs scroll anim dyn tty tw th rawW rawH ha va w h pre clear frames,
  old_draw_stream cs scroll anim dyn tty tw th rawW rawH ha va w h pre clear frames = None
  <-> ~ old_doc_fits cs scroll anim dyn w h rawW rawH tw th.
Proof. exact old_draw_rejects_iff. Qed.
Print Assumptions C06_old_draw_rejects_iff.

(** the executable predicate the correspondence evaluates on the implementation's own
    bytes implies the final-state predicate of the theorems *)
Theorem C06_final_ok_sound :
  forall kitty W H pw ph Ref St r0 hide,
  final_ok kitty W H pw ph Ref St r0 = true ->
  DrawFinal W H 0 0 (start r0 0) hide pw ph Ref St.
Proof. exact final_ok_sound. Qed.
Print Assumptions C06_final_ok_sound.

(** the decisions the correspondence uses for the documented size rules are those rules *)
Theorem C06_docb_spec :
  (forall cs allow anim pw ph tw th,
      docb cs allow anim pw ph tw th = true <-> doc_fits cs allow anim pw ph tw th)
  /\ (forall cs scroll anim dyn w h rawW rawH tw th,
        old_docb cs scroll anim dyn w h rawW rawH tw th = true
        <-> old_doc_fits cs scroll anim dyn w h rawW rawH tw th).
Proof. exact (conj docb_spec old_docb_spec). Qed.
Print Assumptions C06_docb_spec.

(** kitty <= 0.25.0 (frames are not self-clearing: [_clear_frame()] deletes by z-index
    before every later frame): for every first frame and every list of later frames (any
    frame count and number of loops) whose placements are all on the animation z-index
    [- 2^31] — which is what [KittyImage._display_animated] renders them on, whatever
    [z_index] the caller passed — the image placements left on the screen after [draw()]
    ([TermPlace.live]: placed and not removed by a matching delete command) are exactly
    those of the padded LAST frame drawn alone: no placement of an earlier frame survives *)
Theorem C06_old_animate_no_stale_placements :
  forall lm W' H' (ha va : nat) w h (tty : bool)
         (ls1 : list (list tok)) (lss : list (list (list tok))) t0,
  LinesRect all_cells w h ls1 -> Forall (LinesRect all_cells w h) lss ->
  (forall ln, In ln ls1 -> ZOnly anim_z ln) ->
  Forall (fun ls => forall ln, In ln ls -> ZOnly anim_z ln) lss ->
  okat t0 (row t0) lm ->
  let fmt := fun ls => format_render W' H' ha va w h (joinlf ls) in
  live (exec_evs lm t0 (old_anim_stream tty (Z.max H' h) [] (kitty_clear true) (fmt ls1) (map fmt lss)))
  = live (exec_evs lm t0 (fmt (lastframe ls1 lss))).
Proof. exact old_animate_no_stale. Qed.
Print Assumptions C06_old_animate_no_stale_placements.

(** the kitty render models place everything on the z-index they are given *)
Theorem C06_kitty_frames_zonly :
  forall w h z mix blend, 0 < w ->
  (forall pls ln, In ln (map (kitty_line w z mix blend) pls) -> ZOnly z ln)
  /\ (forall pl ln, In ln (kitty_whole_ls w h z mix blend pl) -> ZOnly z ln).
Proof. exact kitty_frames_zonly. Qed.
Print Assumptions C06_kitty_frames_zonly.

(** the executable predicate, with the kitty flag, also decides the placement clause *)
Theorem C06_final_ok_live :
  forall W H pw ph Ref St r0,
  final_ok true W H pw ph Ref St r0 = true ->
  live (exec_evs 0 (start r0 0) St) = live (exec_evs 0 (start r0 0) Ref).
Proof. exact final_ok_live. Qed.
Print Assumptions C06_final_ok_live.

(** *** round 4 (a): "the terminal" is the ACTIVE TERMINAL — the size every decision of
    [draw()] uses is the window size of the active terminal ([model/DrawEnv.v]:
    [get_terminal_size] of an environment record that HOLDS the COLUMNS / LINES variables and
    the terminal standard output is connected to).  Two environments whose active terminals
    have the same window size give the same case, the same stream and the same verdict of the
    correspondence, whatever their other fields *)
Theorem C06_env_window_only :
  forall e1 e2 wh c,
  e_window e1 = Some wh -> e_window e2 = Some wh ->
  env_case e1 c = env_case e2 c
  /\ draw_in_env e1 c = draw_in_env e2 c
  /\ echeck (e1, c) = echeck (e2, c).
Proof. exact env_window_only. Qed.
Print Assumptions C06_env_window_only.

Theorem C06_env_draw_window_only :
  forall e1 e2 wh cs allow anim hide fill d w h clear frames,
  e_window e1 = Some wh -> e_window e2 = Some wh ->
  new_draw_in_env e1 cs allow anim hide fill d w h clear frames
  = new_draw_in_env e2 cs allow anim hide fill d w h clear frames.
Proof. exact new_draw_window_only. Qed.
Print Assumptions C06_env_draw_window_only.

Theorem C06_env_old_draw_window_only :
  forall e1 e2 wh cs scroll anim dyn tty rawW rawH ha va w h pre clear frames,
  e_window e1 = Some wh -> e_window e2 = Some wh ->
  old_draw_in_env e1 cs scroll anim dyn tty rawW rawH ha va w h pre clear frames
  = old_draw_in_env e2 cs scroll anim dyn tty rawW rawH ha va w h pre clear frames.
Proof. exact old_draw_window_only. Qed.
Print Assumptions C06_env_old_draw_window_only.

(** rejected (nothing written) exactly when the documented rule, evaluated against the WINDOW
    size of the active terminal, says the draw does not fit *)
Theorem C06_env_rejects_iff_window :
  forall e tw th cs allow anim hide fill l t r b w h clear frames,
  e_window e = Some (tw, th) ->
  new_draw_in_env e cs allow anim hide fill (l, t, r, b) w h clear frames = None
  <-> ~ doc_fits cs allow anim (l + w + r) (t + h + b) tw th.
Proof. exact new_env_rejects_iff. Qed.
Print Assumptions C06_env_rejects_iff_window.

Theorem C06_env_old_rejects_iff_window :
  forall e tw th cs scroll anim dyn tty rawW rawH ha va w h pre clear frames,
  e_window e = Some (tw, th) ->
  old_draw_in_env e cs scroll anim dyn tty rawW rawH ha va w h pre clear frames = None
  <-> ~ old_doc_fits cs scroll anim dyn w h rawW rawH tw th.
Proof. exact old_env_rejects_iff. Qed.
Print Assumptions C06_env_old_rejects_iff_window.

(** the excluded design (environment variables / standard output first, the terminal itself
    as a fallback) accepts a 70-column draw on a 40 x 10 window under a stale COLUMNS=120
    LINES=50, which the documented rule and the model of either API reject *)
Theorem C06_env_first_design_refuted :
  let e := {| e_window := Some (40, 10); e_columns := Some 120; e_lines := Some 50; e_stdout := Some (40, 10) |} in
  draw_env_first e 70 3 <> None
  /\ ~ doc_fits true false false 70 3 40 10
  /\ new_draw_in_env e true false false false None (0, 0, 0, 0) 70 3 [] [[]] = None
  /\ old_draw_in_env e true false false false false 1 1 0 0 70 3 [] [] [[]] = None.
Proof. exact env_first_refuted. Qed.
Print Assumptions C06_env_first_design_refuted.

(** *** round 4 (b): animations ENDED BY Ctrl-C ([model/DrawCut.v]: [anim_cut] / [old_anim_cut] =
    the streams of [model/Draw.v] extended with an interruption point: which write of which
    frame — the first included —, how many of its tokens got out, a [TCut] where the cut falls
    inside an escape sequence, or "between two frames").

    [CutFinal lm t0 hide first_inc csi_ok pw ph park np S]: after [S] the cursor is at the left
    margin, visible, attributes reset, the terminal not inside a string, no chunked transmission
    pending (and in the ground state, except for the one residue of the new API described at
    [new_csi_residue]); no cell outside the padded region was touched; the interrupt found the
    cursor inside the region; and the cursor ends on the line below the region, lower by exactly
    as many lines as the interrupt found it below the row it rests on between frames ([park]) —
    so ON the line immediately below the region whenever the interrupt falls on the first line
    of a frame, on a cursor move back to it, or between frames.  (While the new API's first
    frame is incomplete there is no region yet: start of the next line.)  See
    [C06_cut_cursor_displaced] for the displacement on the current code.

    new API, EVERY interruption point of EVERY frame: frames meeting the render contract and
    made of plain text / SGR / cursor / erase tokens, any handler that ends a cut sequence and
    resets the attributes without moving ([HndOK]; [CSI 0 m] is one) *)
Theorem C06_anim_cut_final :
  forall (W H lm : Z) (fill : option glyph) (w h pl pt pr pb : Z),
  0 <= pl -> 0 <= pt -> 0 <= pr -> 0 <= pb -> 0 <= lm ->
  lm + (pl + w + pr) <= W -> pt + h + pb <= H ->
  forall clear : list tok, ClearOK w h clear ->
  forall (ls1 : list (list tok)) (lss : list (list (list tok))),
  LinesRect all_cells w h ls1 -> (forall ln, In ln ls1 -> Downward ln) ->
  Forall (LinesRect all_cells w h) lss ->
  forallb ftok (padded fill (pl, pt, pr, pb) w h (joinlf ls1)) = true ->
  Forall (fun F => forallb ftok F = true) (map joinlf lss) ->
  forallb ftok clear = true -> forallb nosgr clear = true ->
  forall (hide : bool) (hnd : list tok), HndOK lm hnd ->
  forall (t0 : term) (top0 : Z),
  okat t0 (row t0) lm -> top0 <= row t0 < top0 + H ->
  forall p : ipoint, point_ok (map joinlf lss) p ->
  CutFinal lm t0 hide (first_incomplete p) (new_csi_residue hide pb h p)
           (pl + w + pr) (pt + h + pb) (row t0 + pt)
           (length (opt hide THide ++ anim_delivered pl pb h clear
                      (padded fill (pl, pt, pr, pb) w h (joinlf ls1)) (map joinlf lss) p))
           (anim_cut hide hnd pl pb h clear (padded fill (pl, pt, pr, pb) w h (joinlf ls1))
                     (map joinlf lss) p).
Proof. exact anim_cut_final. Qed.
Print Assumptions C06_anim_cut_final.

(** new API, interrupt between two frames (during the frame's duration / the rendering of the
    next one): the FULL final-state predicate, the region showing the last complete frame *)
Theorem C06_anim_cut_between_final :
  forall (W H lm : Z) (fill : option glyph) (w h pl pt pr pb : Z),
  0 <= pl -> 0 <= pt -> 0 <= pr -> 0 <= pb -> 0 <= lm ->
  lm + (pl + w + pr) <= W -> pt + h + pb <= H ->
  forall clear : list tok, ClearOK w h clear ->
  forall (ls1 : list (list tok)) (lss : list (list (list tok))),
  LinesRect all_cells w h ls1 -> (forall ln, In ln ls1 -> Downward ln) ->
  Forall (LinesRect all_cells w h) lss ->
  forall (hide : bool) (hnd : list tok) (t0 : term) (top0 : Z),
  okat t0 (row t0) lm -> top0 <= row t0 < top0 + H ->
  forall m : nat,
  DrawFinal W H lm top0 t0 hide (pl + w + pr) (pt + h + pb)
            (padded fill (pl, pt, pr, pb) w h (joinlf (lastframe ls1 (firstn m lss))))
            (anim_cut hide hnd pl pb h clear (padded fill (pl, pt, pr, pb) w h (joinlf ls1))
                      (map joinlf lss) (IBetween m)).
Proof. exact anim_cut_between_final. Qed.
Print Assumptions C06_anim_cut_between_final.

(** old API, EVERY interruption point of EVERY frame, every style's handler (block: nothing,
    kitty: ST ST + end-of-chunks, iterm2: ST ST), with kitty's clearing and the wezterm
    pre-erase: the handler's ST comes before the trailing sequence, so a graphics string cut
    anywhere — in the FIRST frame too — is ended before cursor-down / SGR reset / show-cursor /
    newline are written *)
Theorem C06_old_anim_cut_final :
  forall W H lm W' H' (ha va : nat) w h (oldk wez tty : bool)
         (ls1 : list (list tok)) (lss : list (list (list tok))) t0 top0,
  0 <= lm -> lm + Z.max W' w <= W -> Z.max H' h <= H ->
  LinesRect all_cells w h ls1 -> (forall ln, In ln ls1 -> Downward ln) ->
  Forall (LinesRect all_cells w h) lss ->
  okat t0 (row t0) lm -> top0 <= row t0 < top0 + H ->
  let fmt := fun ls => format_render W' H' ha va w h (joinlf ls) in
  let pre := if wez then wez_pre W' H' ha va w h else [] in
  forall s : DrawInt.style,
  forallb (DrawInt.tok_ok s) pre = true -> forallb (DrawInt.tok_ok s) (kitty_clear oldk) = true ->
  forallb (DrawInt.tok_ok s) (fmt ls1) = true ->
  Forall (fun F => forallb (DrawInt.tok_ok s) F = true) (map fmt lss) ->
  forallb nohs pre = true -> forallb nohs (fmt ls1) = true ->
  Forall (fun F => forallb nohs F = true) (map fmt lss) ->
  forall p : opoint, opoint_ok (map fmt lss) p ->
  CutFinal lm t0 tty false false (Z.max W' w) (Z.max H' h) (row t0)
           (length (opt tty THide ++ pre ++ old_delivered (Z.max H' h) (kitty_clear oldk) (fmt ls1) (map fmt lss) p))
           (old_anim_cut tty (DrawInt.handler s) (Z.max H' h) pre (kitty_clear oldk) (fmt ls1) (map fmt lss) p).
Proof. exact old_anim_cut_final. Qed.
Print Assumptions C06_old_anim_cut_final.

(** old API, interrupt after [m + 1] complete frames: the FULL final-state predicate against
    the last complete frame, whatever the style's handler writes *)
Theorem C06_old_anim_cut_between_final :
  forall W H lm W' H' (ha va : nat) w h (oldk wez tty : bool)
         (ls1 : list (list tok)) (lss : list (list (list tok))) t0 top0,
  0 <= lm -> lm + Z.max W' w <= W -> Z.max H' h <= H ->
  LinesRect all_cells w h ls1 -> (forall ln, In ln ls1 -> Downward ln) ->
  Forall (LinesRect all_cells w h) lss ->
  okat t0 (row t0) lm -> top0 <= row t0 < top0 + H ->
  let fmt := fun ls => format_render W' H' ha va w h (joinlf ls) in
  forall (s : DrawInt.style) (m : nat),
  DrawFinal W H lm top0 t0 tty (Z.max W' w) (Z.max H' h) (fmt (lastframe ls1 (firstn m lss)))
            (old_anim_cut tty (DrawInt.handler s) (Z.max H' h)
               (if wez then wez_pre W' H' ha va w h else []) (kitty_clear oldk)
               (fmt ls1) (map fmt lss) (OBetween (S m))).
Proof. exact old_anim_cut_between_final. Qed.
Print Assumptions C06_old_anim_cut_between_final.

(** the clean-up alone, from WHATEVER the interrupt left (no render contract needed): left
    margin, [lines] rows further down, attributes reset, ground state, nothing pending, visible,
    only cursor movements written *)
Theorem C06_old_cut_recovers :
  forall lm (s : DrawInt.style) (tty : bool) lines pre clear P1 Ps,
  1 <= lines ->
  forallb (DrawInt.tok_ok s) pre = true -> forallb (DrawInt.tok_ok s) clear = true ->
  forallb (DrawInt.tok_ok s) P1 = true -> Forall (fun F => forallb (DrawInt.tok_ok s) F = true) Ps ->
  forallb nohs pre = true -> forallb nohs clear = true -> forallb nohs P1 = true ->
  Forall (fun F => forallb nohs F = true) Ps ->
  forall p t0, parser t0 = Ground -> pending t0 = None ->
  let D := opt tty THide ++ pre ++ old_delivered lines clear P1 Ps p in
  let S := old_anim_cut tty (DrawInt.handler s) lines pre clear P1 Ps p in
  col (exec lm t0 S) = lm /\ row (exec lm t0 S) = row (exec lm t0 D) + lines
  /\ sgr (exec lm t0 S) = adefault /\ parser (exec lm t0 S) = Ground /\ pending (exec lm t0 S) = None
  /\ visible (exec lm t0 S) = (if tty then true else visible t0)
  /\ exists M, exec_evs lm t0 S = exec_evs lm t0 D ++ M /\ forallb is_move M = true.
Proof. exact old_cut_recovers. Qed.
Print Assumptions C06_old_cut_recovers.

(** the executable predicate the correspondence evaluates on the implementation's own bytes
    implies [CutFinal] *)
Theorem C06_cut_ok_sound :
  forall W H pw ph park finc fpart csi np St r0 hide,
  cut_ok W H pw ph park finc fpart csi np St r0 = true ->
  CutFinal 0 (start r0 0) hide finc csi pw ph (r0 + park) np St.
Proof. exact cut_ok_sound. Qed.
Print Assumptions C06_cut_ok_sound.

(** FINDING (current code, both APIs): the trailing [cursor_down] is relative, so an interrupt
    that finds the cursor [i] lines below the first line of the frame leaves it [i] lines below
    the line below the region (here: 2 x 2 frames in a 3 x 5 region, interrupt in the second line
    of a later frame: row 0 + 5 + 1) — the full cursor clause holds at interrupts on a frame's
    first line (every cut inside a WHOLE-method graphics transmission), in the cursor moves and
    between frames only *)
Theorem C06_cut_cursor_displaced :
  row (exec 0 (start 0 0) ex_new) = 0 + 5 + 1
  /\ row (exec 0 (start 0 0) (firstn ex_new_np ex_new)) = (0 + 1) + 1.
Proof. exact ex_new_displaced. Qed.
Print Assumptions C06_cut_cursor_displaced.

(** the excluded design: interrupted-draw handling that does not cover the first frame's write
    leaves the terminal inside the graphics string (cursor hidden, not moved) *)
Theorem C06_first_frame_needs_handler :
  let t := exec 0 (start 0 0) (ex_old []) in
  parser t = InStr /\ visible t = false /\ row t = 0
  /\ cut_ok 10 8 4 3 0 false true false ex_old_np (ex_old []) 0 = false.
Proof. exact first_frame_needs_handler. Qed.
Print Assumptions C06_first_frame_needs_handler.

(** *** the size-validation decisions tied to the source as theorems (T): the `if check_size:`
    block of [Renderable._init_render_], the keyword arguments with which [Renderable.draw] calls
    it, the pad_width / pad_height validation of [BaseImage.draw] and the size validation of
    [BaseImage._renderer] are translated from the source on every run into [gen/Decide.v] by
    [harness/tx/tx_decide.py]; for ALL arguments the model decisions above are exactly
    "the translated slice does not raise" *)
Theorem C06_source_size_ok :
  forall check_size allow_scroll animation pw ph tw th,
  size_ok check_size allow_scroll animation pw ph tw th =
  TI.proofs.DecideTie.accepted
    (TI.gen.Decide.src_init_render_check (TI.gen.Decide.src_draw_check_size animation check_size)
       (TI.gen.Decide.src_draw_allow_scroll animation allow_scroll) pw ph tw th).
Proof. exact TI.proofs.DecideTie.size_ok_is_source. Qed.
Print Assumptions C06_source_size_ok.

Theorem C06_source_old_size_ok :
  forall check_size scroll animation dynamic w h rawW rawH tw th,
  (0 <= th)%Z ->
  old_size_ok check_size scroll animation dynamic w h rawW rawH tw th =
  TI.proofs.DecideTie.accepted (TI.gen.Decide.src_old_draw_pad_check animation rawW rawH tw th)
  && TI.proofs.DecideTie.accepted
       (TI.gen.Decide.src_old_renderer_check dynamic check_size animation scroll w h tw th).
Proof. exact TI.proofs.DecideTie.old_size_ok_is_source. Qed.
Print Assumptions C06_source_old_size_ok.

(** *** draws that TALK TO THE TERMINAL ([model/DrawQuery.v]): the first render in a process asks
    the terminal for its colours / name / cell size AFTER [draw()] has hidden the cursor and
    BEFORE it writes the picture; the terminal's reply arrives at the tty whenever the terminal
    sends it, and whatever arrives while the tty's ECHO flag is on is echoed by the line
    discipline onto the screen.  The ECHO flag and the replies are state of the model; the screen
    receives [DrawQuery.screen]: the draw's writes interleaved with the echoes. *)
From TI Require model.DrawQuery model.DrawQueryTie proofs.DrawQueryProofs.

(** with ECHO switched off for the whole exchange -- [query_terminal]: the attribute change
    brackets write + read -- NOTHING is echoed, on a tty found with ECHO on or off, for ANY
    arrival time of the reply (in any number of pieces) between the transmission of the request
    and the return of the read that waits for it: the screen receives exactly the draw's own
    writes ... *)
Theorem C06_query_nothing_echoed :
  forall (e : bool) (s0 : list tok) (segs : list (list tok)) (evs : list TI.model.DrawQuery.event),
  TI.model.DrawQuery.prog_of evs
    = TI.model.DrawQuery.draw_prog (TI.model.DrawQuery.query_terminal e) s0 segs ->
  TI.model.DrawQuery.timely false evs = true ->
  TI.model.DrawQuery.screen e evs = s0 ++ concat segs.
Proof. exact TI.proofs.DrawQueryProofs.draw_queries_nothing_echoed. Qed.
Print Assumptions C06_query_nothing_echoed.

(** ... so that every final-state theorem above ([P] := [DrawFinal W H lm top0 t0 hide pw ph Ref]
    of [anim_stream] / [still_stream] / [old_anim_stream] / [old_still_stream]) holds of what
    the screen receives when the draw queries the terminal *)
Theorem C06_query_final_state :
  forall (P : list tok -> Prop) (e : bool) (s0 : list tok) (segs : list (list tok))
         (evs : list TI.model.DrawQuery.event) (S : list tok),
  P S -> s0 ++ concat segs = S ->
  TI.model.DrawQuery.prog_of evs
    = TI.model.DrawQuery.draw_prog (TI.model.DrawQuery.query_terminal e) s0 segs ->
  TI.model.DrawQuery.timely false evs = true ->
  P (TI.model.DrawQuery.screen e evs).
Proof. exact TI.proofs.DrawQueryProofs.query_final_transfer. Qed.
Print Assumptions C06_query_final_state.

(** [Renderable.draw] with [echo_input = False] keeps ECHO off around the whole draw: queries
    inside it echo nothing whether they bracket the exchange themselves or not *)
Theorem C06_query_new_draw_masks :
  forall (e : bool) (s0 : list tok) (segs : list (list tok)) (evs : list TI.model.DrawQuery.event) (late : bool),
  TI.model.DrawQuery.prog_of evs
    = TI.model.DrawQuery.new_draw_prog e
        (if late then TI.model.DrawQuery.query_terminal_late false else TI.model.DrawQuery.query_terminal false)
        s0 segs ->
  TI.model.DrawQuery.timely false evs = true ->
  TI.model.DrawQuery.screen e evs = s0 ++ concat segs.
Proof. exact TI.proofs.DrawQueryProofs.new_draw_masks. Qed.
Print Assumptions C06_query_new_draw_masks.

(** the correspondence's judge of a querying draw ([DrawQueryTie.qcheck]: the screen's stream
    against [DrawQuery.screen] of the model's run under the reply schedule the harness played,
    and against the final-state predicate) is the judge of the draw itself, whatever the
    schedule (standard output redirected: as long as the terminal's screen received nothing) *)
Theorem C06_query_check_is_check :
  forall c : TI.model.DrawQueryTie.qcase,
  (TI.model.DrawQueryTie.q_redirected c = true -> TI.model.DrawQueryTie.q_term c = []) ->
  TI.model.DrawQueryTie.qcheck c = check (TI.model.DrawQueryTie.q_c c).
Proof. exact TI.proofs.DrawQueryProofs.qcheck_is_check. Qed.
Print Assumptions C06_query_check_is_check.

(** the excluded variant -- ECHO switched off only by the read ("read_tty() already handles the
    attributes"): a reply that arrives in the window between the transmission of the request and
    the read's [tcsetattr] is echoed (ESC as [^[]) between the hidden cursor and the picture, and
    the final state is lost; the same reply arriving during the read is not *)
Theorem C06_query_late_echo_off_refuted :
  let run := TI.proofs.DrawQueryProofs.ex_run in
  let reply := TI.proofs.DrawQueryProofs.ex_reply in
  let S := TI.proofs.DrawQueryProofs.ex_stream in
  let Ref := TI.proofs.DrawQueryProofs.ex_ref in
  TI.model.DrawQuery.prog_of (run TI.model.DrawQuery.exchange [reply] [])
    = TI.model.DrawQuery.draw_prog (TI.model.DrawQuery.query_terminal true) [THide] [skipn 1 S]
  /\ TI.model.DrawQuery.prog_of (run TI.model.DrawQuery.exchange_late [reply] [])
    = TI.model.DrawQuery.draw_prog (TI.model.DrawQuery.query_terminal_late true) [THide] [skipn 1 S]
  /\ TI.model.DrawQuery.timely false (run TI.model.DrawQuery.exchange [reply] []) = true
  /\ TI.model.DrawQuery.timely false (run TI.model.DrawQuery.exchange_late [reply] []) = true
  /\ TI.model.DrawQuery.screen true (run TI.model.DrawQuery.exchange [reply] []) = S
  /\ forallb (final_ok false 10 8 4 3 Ref (TI.model.DrawQuery.screen true (run TI.model.DrawQuery.exchange [reply] []))) [0; 4; 7] = true
  /\ TI.model.DrawQuery.screen true (run TI.model.DrawQuery.exchange_late [reply] [])
     = [THide] ++ TI.model.DrawQuery.echo_text reply ++ skipn 1 S
  /\ length (TI.model.DrawQuery.echo_text reply) = 28%nat
  /\ final_ok false 10 8 4 3 Ref (TI.model.DrawQuery.screen true (run TI.model.DrawQuery.exchange_late [reply] [])) 0 = false
  /\ TI.model.DrawQuery.screen true (run TI.model.DrawQuery.exchange_late [] [reply]) = S.
Proof. exact TI.proofs.DrawQueryProofs.late_echo_refuted. Qed.
Print Assumptions C06_query_late_echo_off_refuted.

(** the bracket, read off the SOURCE (T): [gen/Skeletons.v] is the effect skeleton of
    [utils.query_terminal] (with [write_tty] / [read_tty] inlined) translated from the working
    tree on every run; on every fault-free path through it, every transmission ([os.write],
    [tcdrain]) and every read ([select], [os.read]) happens while the terminal attributes are
    switched to a MODIFIED copy of what [tcgetattr] returned and every path puts them back as
    met ([DrawQuerySrc.bracketed], a syntactic dataflow check; which flag the modification
    clears -- ECHO, [utils.py:622] -- is not in the skeleton); there is a write, a drain and a
    read to bracket.  The variants that transmit before any attribute change, or restore before
    they read, fail the check ([proofs/DrawQuerySrcProofs.v]). *)
From TI Require lib.Eff gen.Skeletons model.DrawQuerySrc proofs.DrawQuerySrcProofs.
Theorem C06_query_source_bracketed :
  TI.model.DrawQuerySrc.bracketed 4 TI.gen.Skeletons.sk_query_terminal = true
  /\ In TI.lib.Eff.TtyWrite (TI.model.DrawQuerySrc.io_ops TI.gen.Skeletons.sk_query_terminal)
  /\ In TI.lib.Eff.Drain (TI.model.DrawQuerySrc.io_ops TI.gen.Skeletons.sk_query_terminal)
  /\ In TI.lib.Eff.TtyRead (TI.model.DrawQuerySrc.io_ops TI.gen.Skeletons.sk_query_terminal).
Proof. exact TI.proofs.DrawQuerySrcProofs.source_query_terminal_bracketed. Qed.
Print Assumptions C06_query_source_bracketed.
