(** C03 — graphics renders transmit exactly the image, in well-formed protocol framing.

    Only statements, each closed by [exact <lemma>], and [Print Assumptions].

    The model is model/KittyChunks.v ([chunks] = Transmission.get_chunks, [strips] = the
    raw_image.read(bytes_per_line) loop of the LINES method, [kitty_ctrl] = the control
    keys, [iterm2_header] = the iterm2 header).  [kitty_chunk_size], [kitty_keys], the
    key defaults and the iterm2 header templates are translated from the source on every
    run (gen/Consts.v).  base64 / zlib are universally quantified functions constrained
    only by [unb64 (b64 x) = x], [unzl (zl l x) = x], [length (b64 x) mod 4 = 0].
    [C] is the type of base64 characters, [B] of raw bytes — both arbitrary. *)
From Coq Require Import String.
From Coq Require Import List ZArith Bool Arith.
Import ListNotations.
From TI Require Import gen.Consts model.KittyChunks proofs.KittyChunksProofs.
From TI Require gen.ChunksSrc proofs.ChunksSrcTie.
From TI Require Import model.GfxPlan proofs.GfxPlanProofs.
From TI Require Import model.GfxFrames proofs.GfxFramesProofs model.B64Blocks proofs.B64Proofs.
From TI Require Import model.GfxConc proofs.GfxConcProofs.

(** what the terminal reassembles from the chunks is the payload *)
Theorem C03_chunks_concat :
  forall (C : Type) size (payload : list C), 0 < size ->
    reassemble (chunks size payload) = payload.
Proof. exact chunks_concat. Qed.
Print Assumptions C03_chunks_concat.

(** every chunk is at most [size] characters, all but the last exactly [size] *)
Theorem C03_chunks_sizes :
  forall (C : Type) size (payload : list C), 0 < size ->
    exists init last, chunks size payload = init ++ [last]
      /\ Forall (fun c => length (chunk_data c) = size) init
      /\ length (chunk_data last) <= size.
Proof. exact chunks_sizes. Qed.
Print Assumptions C03_chunks_sizes.

(** the first chunk — and only it — carries the control keys; m=1 exactly on all but the
    last chunk; a payload of at most [size] characters (the empty one and one of
    exactly [size] included) is ONE chunk with m=0; a longer one is at least two *)
Theorem C03_chunks_flags :
  forall (C : Type) size (payload : list C), 0 < size ->
    (exists m d rest, chunks size payload = (true, m, d) :: rest
                      /\ Forall (fun c => chunk_first c = false) rest)
    /\ (exists init last, chunks size payload = init ++ [last]
          /\ Forall (fun c => chunk_m c = true) init /\ chunk_m last = false)
    /\ (length payload <= size -> chunks size payload = [(true, false, payload)])
    /\ (size < length payload -> 2 <= length (chunks size payload)).
Proof. exact chunks_flags. Qed.
Print Assumptions C03_chunks_flags.

(** every chunk (the last included) is a multiple of 4 characters when the chunk size
    and the payload length are *)
Theorem C03_chunks_mult4 :
  forall (C : Type) size (payload : list C),
    size mod 4 = 0 -> length payload mod 4 = 0 ->
    Forall (fun c => length (chunk_data c) mod 4 = 0) (chunks size payload).
Proof. exact chunks_mult4. Qed.
Print Assumptions C03_chunks_mult4.

(** ... which is the case for what the code transmits, under the base64 hypothesis *)
Theorem C03_transmit_chunks_mult4 :
  forall (B C : Type) (b64 : list B -> list C) (zl : nat -> list B -> list B),
    (forall x, length (b64 x) mod 4 = 0) ->
    forall size level data, size mod 4 = 0 ->
      Forall (fun c => length (chunk_data c) mod 4 = 0)
             (chunks size (b64 (maybe_compress zl level data))).
Proof. exact transmit_chunks_mult4. Qed.
Print Assumptions C03_transmit_chunks_mult4.

(** the chunk size found in the source is positive, at most 4096, a multiple of 4 *)
Theorem C03_size_ok :
  (0 <? kitty_chunk_size) && (kitty_chunk_size <=? 4096) && (kitty_chunk_size mod 4 =? 0) = true.
Proof. exact size_ok. Qed.
Print Assumptions C03_size_ok.

(** the control-key set found in the source, its order and the constant values *)
Theorem C03_keys_ok :
  kitty_keys = ["a"; "f"; "t"; "s"; "v"; "z"; "o"; "C"; "c"; "r"]%string
  /\ k_a ctrl_default = Some (KChr 84) /\ k_t ctrl_default = Some (KChr 100)
  /\ k_C ctrl_default = Some (KInt 1)
  /\ kitty_f_rgb = 24%Z /\ kitty_f_rgba = 32%Z /\ kitty_o_zlib = 122%Z.
Proof. exact keys_ok. Qed.
Print Assumptions C03_keys_ok.

(** LINES: the strips read from the raw image stitch back to it, each is exactly
    [bpl] bytes and there are [n] of them ([n] = rendered height >= 1) *)
Theorem C03_strips_stitch :
  forall (B : Type) (raw : list B) bpl n, 0 < n -> length raw = n * bpl ->
    concat (strips raw bpl n) = raw
    /\ Forall (fun x => length x = bpl) (strips raw bpl n)
    /\ length (strips raw bpl n) = n.
Proof. exact strips_stitch. Qed.
Print Assumptions C03_strips_stitch.

(** LINES: with height = r_h * cell_h (which is what _get_render_size gives:
    [C03_lines_pixel_size]) the strips cover the image exactly *)
Theorem C03_lines_geometry :
  forall width height r_h cell_h bpp, 0 < r_h -> height = r_h * cell_h ->
    cell_height height r_h = cell_h
    /\ bytes_per_line width height r_h bpp = width * cell_h * bpp
    /\ bytes_per_line width height r_h bpp * r_h = width * height * bpp.
Proof. exact lines_geometry. Qed.
Print Assumptions C03_lines_geometry.

Theorem C03_lines_pixel_size :
  forall rw rh cw ch os, pixel_size Lines rw rh cw ch os = (rw * cw, rh * ch).
Proof. exact lines_pixel_size. Qed.
Print Assumptions C03_lines_pixel_size.

(** LINES keys: s x v x bytes-per-pixel = the strip; r = 1; c = rendered width *)
Theorem C03_lines_keys :
  forall fmt width height rw rh z level, Z.eqb fmt kitty_f_png = false ->
    let c := kitty_ctrl Lines fmt width height rw rh z level in
    k_s c = kint width /\ k_v c = kint (cell_height height rh) /\ k_r c = kint 1 /\ k_c c = kint rw
    /\ width * cell_height height rh * bpp_of_fmt fmt = bytes_per_line width height rh (bpp_of_fmt fmt).
Proof. exact lines_keys. Qed.
Print Assumptions C03_lines_keys.

Theorem C03_whole_keys :
  forall fmt width height rw rh z level, Z.eqb fmt kitty_f_png = false ->
    let c := kitty_ctrl Whole fmt width height rw rh z level in
    k_s c = kint width /\ k_v c = kint height /\ k_r c = kint rh /\ k_c c = kint rw.
Proof. exact whole_keys. Qed.
Print Assumptions C03_whole_keys.

(** WHOLE transmits the source resolution or the render resolution, whichever has
    fewer pixels *)
Theorem C03_whole_pixel_size :
  forall rw rh cw ch os,
    let p := pixel_size Whole rw rh cw ch os in
    (p = os \/ p = render_size rw rh cw ch)
    /\ fst p * snd p <= fst os * snd os
    /\ fst p * snd p <= (rw * cw) * (rh * ch).
Proof. exact whole_pixel_size. Qed.
Print Assumptions C03_whole_pixel_size.

(** decoding (and, iff the first chunk says o=z, decompressing) the reassembled chunks
    of a transmission gives back the bytes that were transmitted — any compression
    level, any render method *)
Theorem C03_transmit_roundtrip :
  forall (B C : Type) (b64 : list B -> list C) (unb64 : list C -> list B)
         (zl : nat -> list B -> list B) (unzl : list B -> list B),
    (forall x, unb64 (b64 x) = x) -> (forall l x, unzl (zl l x) = x) ->
    forall size m fmt width height rw rh z level data, 0 < size ->
      receive unb64 unzl
        (transmit b64 zl size (kitty_ctrl m fmt width height rw rh z level) level data) = data.
Proof. exact transmit_roundtrip. Qed.
Print Assumptions C03_transmit_roundtrip.

(** LINES: the strips, received one by one, stitch back to the whole raw image *)
Theorem C03_lines_roundtrip :
  forall (B C : Type) (b64 : list B -> list C) (unb64 : list C -> list B)
         (zl : nat -> list B -> list B) (unzl : list B -> list B),
    (forall x, unb64 (b64 x) = x) -> (forall l x, unzl (zl l x) = x) ->
    forall size fmt width height rw rh z level (raw : list B),
      0 < size -> 0 < rh -> length raw = rh * bytes_per_line width height rh (bpp_of_fmt fmt) ->
      let c := kitty_ctrl Lines fmt width height rw rh z level in
      concat (map (fun strip => receive unb64 unzl (transmit b64 zl size c level strip))
                  (strips raw (bytes_per_line width height rh (bpp_of_fmt fmt)) rh)) = raw.
Proof. exact lines_roundtrip. Qed.
Print Assumptions C03_lines_roundtrip.

(** iterm2: in each of the three headers found in the source the first key is [size=]
    and its value is the length of the decoded payload *)
Theorem C03_iterm2_size_key :
  forall (B C : Type) (b64 : list B -> list C) (unb64 : list C -> list B),
    (forall x, unb64 (b64 x) = x) ->
    forall b cols rows konsole (data : list B),
      let (h, p) := iterm2_emit b64 b cols rows konsole data in
      exists rest, h = VLit "size="%string :: VNum (length (unb64 p)) :: rest.
Proof. exact iterm2_size_key. Qed.
Print Assumptions C03_iterm2_size_key.

(** the three iterm2 headers found in the source, as key/value lists *)
Theorem C03_iterm2_header_shape :
  forall size cols rows (konsole : bool),
    let dn := if konsole then [VLit ";doNotMoveCursor=1"%string] else [] in
    iterm2_header BWhole size cols rows konsole =
      [VLit "size="%string; VNum size; VLit ";width="%string; VNum cols; VLit ";height="%string;
       VNum rows; VLit ";preserveAspectRatio=0;inline=1"%string] ++ dn ++ [VLit ":"%string]
    /\ iterm2_header BNative size cols rows konsole = iterm2_header BWhole size cols rows konsole
    /\ iterm2_header BLines size cols rows konsole =
      [VLit "size="%string; VNum size; VLit ";width="%string; VNum cols;
       VLit ";height=1;preserveAspectRatio=0;inline=1"%string] ++ dn ++ [VLit ":"%string].
Proof. exact iterm2_header_shape. Qed.
Print Assumptions C03_iterm2_header_shape.

(** the read-from-file gate only opens under the documented conditions *)
Theorem C03_read_from_file_gate :
  forall rff animated readable m oa ra mc alpha,
    read_from_file_gate rff animated readable m oa ra mc alpha = true ->
    rff = true /\ animated = false /\ readable = true /\ m = Whole /\ oa <= ra.
Proof. exact read_from_file_gate_spec. Qed.
Print Assumptions C03_read_from_file_gate.

(** * Round 4 — the render method as (set method, per-render override), and the
    environment changing during one render.

    [kitty_plan] / [iterm2_plan] (model/GfxPlan.v) mirror the decisions of the two
    [_render_image]: [set] is the method set on the instance or its class (None = never
    set), [over] the render's own [method] argument; [env k] is the cell size answered to
    the k-th get_cell_size() call of this render — ANY function, i.e. the terminal may be
    zoomed / resized between any two reads. *)

(** the per-render override wins, then the method set, then LINES *)
Theorem C03_method_resolution :
  forall set over,
    (forall m, over = Some m -> resolve_method set over = m)
    /\ (over = None -> forall m, set = Some m -> resolve_method set over = m)
    /\ (over = None -> set = None -> resolve_method set over = Lines).
Proof. exact resolve_method_spec. Qed.
Print Assumptions C03_method_resolution.

(** kitty: the transmitted pixel size and the LINES/WHOLE framing branch are decided by
    the SAME method — the resolved one — and the size is that method's size for the cell
    size of the render's first read.  (False of a render that chooses the size by the set
    method and the branch by the effective one: [split_method_breaks_cover] in
    proofs/GfxPlanProofs.v.) *)
Theorem C03_kitty_one_effective_method :
  forall set over rw rh env os,
    let p := kitty_plan set over rw rh env os in
    kp_size_method p = kp_branch_method p
    /\ kp_branch_method p = resolve_method set over
    /\ kp_size p = pixel_size (kp_branch_method p) rw rh (fst (env 0)) (snd (env 0)) os.
Proof. exact kitty_one_method. Qed.
Print Assumptions C03_kitty_one_effective_method.

(** kitty LINES, for every (set, override) pair that resolves to LINES, every source size
    and EVERY environment: the image prepared is [rh] cells high, each strip is one cell
    high (both for the cell size of the single read), the rows sent are exactly the rows
    prepared, and strips x bytes-per-strip = the whole raw image *)
Theorem C03_kitty_lines_cover :
  forall set over rw rh env os bpp, 0 < rh ->
    let p := kitty_plan set over rw rh env os in
    kp_branch_method p = Lines ->
    kp_size p = (rw * fst (env 0), rh * snd (env 0))
    /\ kp_strip_h p = snd (env 0)
    /\ kp_rows_sent p rh = snd (kp_size p)
    /\ bytes_per_line (fst (kp_size p)) (snd (kp_size p)) rh bpp * rh
       = fst (kp_size p) * snd (kp_size p) * bpp.
Proof. exact kitty_lines_cover. Qed.
Print Assumptions C03_kitty_lines_cover.

(** ... so the strips read from a raw image of the prepared size stitch back to it, each
    exactly s x v x bytes-per-pixel bytes, one per line *)
Theorem C03_kitty_lines_stitch :
  forall (B : Type) set over rw rh env os bpp (raw : list B), 0 < rh ->
    let p := kitty_plan set over rw rh env os in
    kp_branch_method p = Lines ->
    length raw = fst (kp_size p) * snd (kp_size p) * bpp ->
    let bpl := bytes_per_line (fst (kp_size p)) (snd (kp_size p)) rh bpp in
    concat (strips raw bpl rh) = raw
    /\ Forall (fun x => length x = fst (kp_size p) * kp_strip_h p * bpp) (strips raw bpl rh)
    /\ length (strips raw bpl rh) = rh.
Proof. exact kitty_lines_stitch. Qed.
Print Assumptions C03_kitty_lines_stitch.

(** kitty: ONE read of the environment — two environments that agree on the first answer
    give the same render plan, however they differ afterwards *)
Theorem C03_kitty_single_read :
  forall set over rw rh env env' os, env 0 = env' 0 ->
    kitty_plan set over rw rh env os = kitty_plan set over rw rh env' os
    /\ kp_cell_reads (kitty_plan set over rw rh env os) = 1.
Proof. exact kitty_single_read. Qed.
Print Assumptions C03_kitty_single_read.

(** kitty WHOLE: the rows sent are the rows prepared, at the source or the render
    resolution of the single read *)
Theorem C03_kitty_whole_size :
  forall set over rw rh env os,
    let p := kitty_plan set over rw rh env os in
    kp_branch_method p = Whole ->
    kp_rows_sent p rh = snd (kp_size p)
    /\ (kp_size p = os \/ kp_size p = (rw * fst (env 0), rh * snd (env 0))).
Proof. exact kitty_whole_size. Qed.
Print Assumptions C03_kitty_whole_size.

(** iterm2: branch and pixel size are decided by the one resolved method (after the
    ANIM -> WHOLE fall-back); the LINES branch is only taken with the LINES size *)
Theorem C03_iterm2_one_effective_method :
  forall set over animated frame rw rh env os rff readable mc alpha,
    let m := resolve_method set over in
    let p := iterm2_plan set over animated frame rw rh env os rff readable mc alpha in
    ip_branch p = iterm2_branch m animated frame
    /\ ip_size_method p = iterm2_effective_method m animated frame
    /\ (ip_branch p <> BNative ->
        ip_size p = pixel_size (ip_size_method p) rw rh (fst (env 0)) (snd (env 0)) os)
    /\ (ip_branch p = BLines -> ip_size_method p = Lines).
Proof. exact iterm2_one_method. Qed.
Print Assumptions C03_iterm2_one_effective_method.

(** iterm2 LINES, every (set, override), every environment: strips of the cell height of
    the single read covering exactly the rows prepared; never the untouched file.  (False
    of a render that takes the strip height from a later read:
    [iterm2_second_read_breaks_cover].) *)
Theorem C03_iterm2_lines_cover :
  forall set over animated frame rw rh env os rff readable mc alpha, 0 < rh ->
    let p := iterm2_plan set over animated frame rw rh env os rff readable mc alpha in
    ip_branch p = BLines ->
    ip_size p = (rw * fst (env 0), rh * snd (env 0))
    /\ ip_strip_h p = snd (env 0)
    /\ rh * ip_strip_h p = snd (ip_size p)
    /\ ip_gate p = false.
Proof. exact iterm2_lines_cover. Qed.
Print Assumptions C03_iterm2_lines_cover.

(** iterm2: branch, pixel size and strip height are functions of the FIRST read alone; at
    most one more read is made (by the read-from-file gate) and it influences nothing
    else: environments agreeing on the first two answers give the same plan *)
Theorem C03_iterm2_geometry_single_read :
  forall set over animated frame rw rh env env' os rff readable mc alpha, env 0 = env' 0 ->
    let p := iterm2_plan set over animated frame rw rh env os rff readable mc alpha in
    let p' := iterm2_plan set over animated frame rw rh env' os rff readable mc alpha in
    ip_branch p = ip_branch p' /\ ip_size p = ip_size p' /\ ip_strip_h p = ip_strip_h p'
    /\ ip_cell_reads p = ip_cell_reads p' /\ ip_cell_reads p <= 2
    /\ (env 1 = env' 1 -> p = p').
Proof. exact iterm2_geometry_single_read. Qed.
Print Assumptions C03_iterm2_geometry_single_read.

(** iterm2: the untouched source file is sent (outside a native animation) only under the
    documented conditions, whatever the second read answers *)
Theorem C03_iterm2_plan_gate :
  forall set over animated frame rw rh env os rff readable mc alpha,
    let p := iterm2_plan set over animated frame rw rh env os rff readable mc alpha in
    ip_branch p <> BNative -> ip_gate p = true ->
    rff = true /\ animated = false /\ readable = true /\ ip_size_method p = Whole
    /\ ip_branch p = BWhole /\ ip_cell_reads p = 2.
Proof. exact iterm2_plan_gate. Qed.
Print Assumptions C03_iterm2_plan_gate.

(** *** the chunker tied to the source as a theorem (T): the generator [Transmission.get_chunks]
    is translated from [image/kitty.py] on every run into [gen/ChunksSrc.v] by
    [harness/tx/tx_chunks.py] (the read-ahead loop becomes a fuelled [Fixpoint]); for ALL payloads
    and chunk sizes it yields exactly the chunk list of the model [chunks], the function every
    framing theorem above is about *)
Theorem C03_source_get_chunks :
  forall (C : Type) size (payload : list C),
    TI.gen.ChunksSrc.src_get_chunks size payload = chunks size payload.
Proof. exact TI.proofs.ChunksSrcTie.get_chunks_is_source. Qed.
Print Assumptions C03_source_get_chunks.

(** * Round 4 (b) — WHICH FRAME is transmitted, over histories that move the PIL image.

    [frame_of k] is frame k of the source (any type of images), [run] (model/GfxFrames.v)
    executes a history of  image.seek(n) | the shared PIL object left on frame k by someone
    else | an ImageIterator yielding frames 0..k and closed early | an exhausted
    ImageIterator | a render,  on an instance that wraps a PIL image (shared object) or was
    made from a file (re-opened per render); [spec_frames] lists, for every render of the
    history, [image.tell()] at that moment — a function of the seek / iterator operations
    alone. *)

(** every render of EVERY history carries the pixels of frame [image.tell()] — for both
    kinds of source and any initial position — and [tell] is what the history says *)
Theorem C03_frames_every_history :
  forall (Img : Type) (frame_of : nat -> Img) kind init h,
    snd (run frame_of always_seek kind (init_state init) h)
      = map frame_of (spec_frames init [] h)
    /\ fs_seek (fst (run frame_of always_seek kind (init_state init) h)) = spec_tell init h.
Proof. exact frames_main. Qed.
Print Assumptions C03_frames_every_history.

(** ... through the wire: what the terminal decodes (and decompresses) from the
    transmission of each render is the raw data ([raw]: Pillow's conversion and resize to
    the transmitted resolution) of frame [tell] of the source *)
Theorem C03_frames_transmit :
  forall (B C Img : Type) (b64 : list B -> list C) (unb64 : list C -> list B)
         (zl : nat -> list B -> list B) (unzl : list B -> list B),
    (forall x, unb64 (b64 x) = x) -> (forall l x, unzl (zl l x) = x) ->
    forall (frame_of : nat -> Img) (raw : Img -> list B)
           kind init h size m fmt width height rw rh z level, 0 < size ->
      map (fun im => receive unb64 unzl
                       (transmit b64 zl size (kitty_ctrl m fmt width height rw rh z level) level (raw im)))
          (snd (run frame_of always_seek kind (init_state init) h))
      = map (fun k => raw (frame_of k)) (spec_frames init [] h).
Proof. exact frames_transmit. Qed.
Print Assumptions C03_frames_transmit.

(** the statement is FALSE of a render that seeks the PIL image only when the wanted frame
    is not 0 ("a newly opened image is on its first frame"): with a shared PIL object left
    on frame k by its owner, or by an iterator closed early followed by seek(0) ... *)
Theorem C03_frames_skip_zero_refuted :
  forall (Img : Type) (frame_of : nat -> Img) k, frame_of k <> frame_of 0 ->
    (let h := [FForeign k; FRender] in
     snd (run frame_of skip_zero SrcPil (init_state 0) h) <> map frame_of (spec_frames 0 [] h))
    /\ (let h := [FIter k; FSeek 0; FRender] in
        snd (run frame_of skip_zero SrcPil (init_state 0) h) <> map frame_of (spec_frames 0 [] h)).
Proof. exact skip_zero_refuted_both. Qed.
Print Assumptions C03_frames_skip_zero_refuted.

(** ... while for file sources the two designs transmit the same frames in every history:
    only histories over a SHARED PIL object separate them *)
Theorem C03_frames_skip_zero_same_on_files :
  forall (Img : Type) (frame_of : nat -> Img) h s,
    snd (run frame_of skip_zero SrcFile s h) = snd (run frame_of always_seek SrcFile s h)
    /\ fs_seek (fst (run frame_of skip_zero SrcFile s h))
       = fs_seek (fst (run frame_of always_seek SrcFile s h))
    /\ fs_pil (fst (run frame_of skip_zero SrcFile s h))
       = fs_pil (fst (run frame_of always_seek SrcFile s h)).
Proof. exact skip_zero_file_ok. Qed.
Print Assumptions C03_frames_skip_zero_same_on_files.

(** * Round 4 (b) — the payload of one command is ONE well-formed base64 text, whatever its
    size.

    [b64_wf is_pad l] (model/B64Blocks.v): the length of [l] is a multiple of 4 and padding
    characters occur only at the very end (at most two).  It is a hypothesis on the ENCODER
    ([b64], together with [unb64 (b64 x) = x]); the older [length (b64 x) mod 4 = 0] follows
    from it. *)

(** iterm2: the payload of each File= command is well-formed, decodes to the image data,
    and size= is the decoded length *)
Theorem C03_iterm2_payload_wf :
  forall (B C : Type) (is_pad : C -> bool) (b64 : list B -> list C) (unb64 : list C -> list B),
    (forall x, unb64 (b64 x) = x) -> (forall x, b64_wf is_pad (b64 x) = true) ->
    forall b cols rows konsole (data : list B),
      let (h, p) := iterm2_emit b64 b cols rows konsole data in
      b64_wf is_pad p = true /\ unb64 p = data
      /\ exists rest, h = VLit "size="%string :: VNum (length (unb64 p)) :: rest.
Proof. exact iterm2_payload_wf. Qed.
Print Assumptions C03_iterm2_payload_wf.

(** kitty: what the terminal reassembles from the chunks of one transmission is well-formed
    and decodes (+ decompresses iff o=z) to the data *)
Theorem C03_kitty_payload_wf :
  forall (B C : Type) (is_pad : C -> bool) (b64 : list B -> list C) (unb64 : list C -> list B)
         (zl : nat -> list B -> list B) (unzl : list B -> list B),
    (forall x, unb64 (b64 x) = x) -> (forall l x, unzl (zl l x) = x) ->
    (forall x, b64_wf is_pad (b64 x) = true) ->
    forall size m fmt width height rw rh z level data, 0 < size ->
      let tx := transmit b64 zl size (kitty_ctrl m fmt width height rw rh z level) level data in
      b64_wf is_pad (concat (map (@item_data C) tx)) = true
      /\ receive unb64 unzl tx = data.
Proof. exact kitty_payload_wf. Qed.
Print Assumptions C03_kitty_payload_wf.

(** the hypotheses are satisfiable by the real thing: RFC 4648 on bytes, with a STRICT
    decoder (padding accepted in the last group of four only) *)
Theorem C03_b64_rfc4648 :
  (forall x, Forall (fun b => b < 256) x -> dec (enc x) = Some x)
  /\ (forall x, Forall (fun b => b < 256) x -> b64_wf is_pad64 (enc x) = true)
  /\ exists (is_pad : nat -> bool) (b64 : list Byte.byte -> list nat) unb64,
       (forall x, unb64 (b64 x) = x) /\ (forall x, b64_wf is_pad (b64 x) = true).
Proof. exact b64_rfc4648_all. Qed.
Print Assumptions C03_b64_rfc4648.

(** encoding a stream block by block — "".join(b64encode(block) for block in blocks of n) —
    is the same encoder when n is a multiple of 3 ... *)
Theorem C03_encode_blocks_mult3 :
  forall n l, 0 < n -> n mod 3 = 0 -> encode_blocks enc n l = enc l.
Proof. exact encode_blocks_mult3. Qed.
Print Assumptions C03_encode_blocks_mult3.

(** ... and for EVERY other block size it violates the encoder hypothesis as soon as the
    data is longer than one block — for any encoder of the RFC 4648 shape (padding at the
    end of a text whose length is not a multiple of 3, none at the start of a non-empty one) *)
Theorem C03_encode_blocks_breaks_wf :
  forall (B C : Type) (is_pad : C -> bool) (encf : list B -> list C),
    (forall x, length x mod 3 <> 0 -> exists body p, encf x = body ++ [p] /\ is_pad p = true) ->
    (forall x, x <> [] -> exists c r, encf x = c :: r /\ is_pad c = false) ->
    forall n (l : list B), n mod 3 <> 0 -> n < length l ->
      b64_wf is_pad (encode_blocks encf n l) = false.
Proof. exact encode_blocks_breaks_wf. Qed.
Print Assumptions C03_encode_blocks_breaks_wf.

(** so block-wise RFC 4648 with such a block size is NOT an encoder the C03 theorems speak
    of; with 1 MiB blocks every payload of more than 2^20 bytes is ill-formed *)
Theorem C03_blockwise_excluded :
  (forall n, n mod 3 <> 0 -> ~ (forall x, b64_wf is_pad64 (encode_blocks enc_b n x) = true))
  /\ (forall l : list Byte.byte, 2 ^ 20 < length l ->
        b64_wf is_pad64 (encode_blocks enc_b (2 ^ 20) l) = false)
  /\ (forall k l, 0 < k -> encode_blocks enc_b (3 * k) l = enc_b l).
Proof. exact blockwise_excluded_all. Qed.
Print Assumptions C03_blockwise_excluded.

(** the shape the correspondence measures on a real payload (non-padding characters followed
    by k padding characters) is well-formed iff the length is a multiple of 4 and k <= 2 *)
Theorem C03_wf_of_shape :
  forall (C : Type) (is_pad : C -> bool) body p k,
    forallb (fun c => negb (is_pad c)) body = true -> is_pad p = true ->
    b64_wf is_pad (body ++ repeat p k) = ((length body + k) mod 4 =? 0) && (k <=? 2).
Proof. exact wf_of_shape. Qed.
Print Assumptions C03_wf_of_shape.

(** ---- CONCURRENT renders of one image (round 6; model/GfxConc.v): any number of renders in
    progress at the same time, each a sequence of small steps (per line: seek(0), save,
    truncate, tell, getvalue on its encode buffer), EVERY schedule.  [bo] says which buffer a
    render encodes into; [render_local bo]: no two renders share one (the code: a new BytesIO
    per render).  [B] (bytes) and [enc] (PNG / JPEG encoding of a strip) are arbitrary. ---- *)
(** what render [i] has emitted at ANY moment of ANY schedule is the specification's output
    ([size=] = length of the encoded strip, payload = the encoded strip) for a prefix of ITS
    OWN strips, and for all of them once its loop has ended — whatever the buffers held before *)
Theorem C03_conc_lines_render_local :
  forall (B : Type) (enc : list B -> list B) (bo : nat -> nat) (inputs : nat -> list (list B))
         (bufs : nat -> buf B) (sched : list nat) (i : nat),
    render_local bo ->
    let st := crun B enc bo (cstart B inputs bufs) sched in
    (exists done, inputs i = done ++ t_todo (c_ts st i) /\ t_out (c_ts st i) = render_spec B enc done)
    /\ (t_todo (c_ts st i) = [] -> t_out (c_ts st i) = render_spec B enc (inputs i)).
Proof. exact lines_render_local. Qed.
Print Assumptions C03_conc_lines_render_local.

(** a render's state is a function of ITS input, ITS buffer and the number of steps it was
    granted: not of what the other renders render, nor of the interleaving *)
Theorem C03_conc_noninterference :
  forall (B : Type) (enc : list B -> list B) (bo : nat -> nat) (inputs inputs' : nat -> list (list B))
         (bufs bufs' : nat -> buf B) (sched sched' : list nat) (i : nat),
    render_local bo ->
    inputs i = inputs' i -> bufs (bo i) = bufs' (bo i) -> count i sched = count i sched' ->
    c_ts (crun B enc bo (cstart B inputs bufs) sched) i
    = c_ts (crun B enc bo (cstart B inputs' bufs') sched') i.
Proof. exact lines_noninterference. Qed.
Print Assumptions C03_conc_noninterference.

(** a render granted its five steps per line has ended (so the theorems above are about complete
    outputs, not only prefixes) *)
Theorem C03_conc_render_ends :
  forall (B : Type) (enc : list B -> list B) (bo : nat -> nat) (inputs : nat -> list (list B))
         (bufs : nat -> buf B) (sched : list nat) (i : nat),
    render_local bo -> 5 * length (inputs i) <= count i sched ->
    t_todo (c_ts (crun B enc bo (cstart B inputs bufs) sched) i) = [].
Proof. exact lines_enough_steps. Qed.
Print Assumptions C03_conc_render_ends.

(** with the strips of the render plan and the iterm2 header: under any schedule every line of a
    completed LINES render is the File= command of ITS strip ([size=] first, see
    [C03_iterm2_size_key]) *)
Theorem C03_conc_lines_emit :
  forall (B : Type) (enc : list B -> list B) (C : Type) (b64 : list B -> list C) (bo : nat -> nat)
         (inputs : nat -> list (list B)) (bufs : nat -> buf B) (sched : list nat) (i cols : nat)
         (konsole : bool) (raw : list B) (bpl rh : nat),
    render_local bo -> inputs i = strips raw bpl rh ->
    let st := crun B enc bo (cstart B inputs bufs) sched in
    t_todo (c_ts st i) = [] ->
    map (fun o => (iterm2_header BLines (fst o) cols 1 konsole, b64 (snd o))) (t_out (c_ts st i))
    = map (fun s => iterm2_emit b64 BLines cols 1 konsole (enc s)) (strips raw bpl rh).
Proof. exact lines_emit. Qed.
Print Assumptions C03_conc_lines_emit.

Theorem C03_conc_own_buffer_is_local : render_local own_buffer.
Proof. exact own_buffer_local. Qed.
Print Assumptions C03_conc_own_buffer_is_local.

(** EXCLUDED: one encode buffer kept on the instance.  A thread switch between one render's
    save() and its getvalue() makes it emit the other render's strip ... *)
Theorem C03_conc_instance_buffer_refuted :
  let st := crun nat idenc instance_buffer (cstart nat toy_inputs toy_bufs) switch_after_save in
  t_todo (c_ts st 0) = [] /\ t_todo (c_ts st 1) = []
  /\ t_out (c_ts st 0) <> render_spec nat idenc (toy_inputs 0)
  /\ nth 0 (t_out (c_ts st 0)) (0, []) = (2, [3; 3]).
Proof. exact instance_buffer_refuted. Qed.
Print Assumptions C03_conc_instance_buffer_refuted.

(** ... and one between tell() and getvalue() a [size=] key that is not the payload's length *)
Theorem C03_conc_instance_buffer_size_key_refuted :
  let st := crun nat idenc instance_buffer (cstart nat toy_inputs toy_bufs) switch_after_tell in
  t_todo (c_ts st 0) = [] /\ t_todo (c_ts st 1) = []
  /\ exists size payload, nth 0 (t_out (c_ts st 0)) (0, []) = (size, payload) /\ size <> length payload.
Proof. exact instance_buffer_size_key_refuted. Qed.
Print Assumptions C03_conc_instance_buffer_size_key_refuted.

(** ... while re-using one buffer SEQUENTIALLY is harmless (no single-threaded history separates
    the two) *)
Theorem C03_conc_instance_buffer_sequential_ok :
  let st := crun nat idenc instance_buffer (cstart nat toy_inputs toy_bufs) (repeat 0 10 ++ repeat 1 10) in
  t_out (c_ts st 0) = render_spec nat idenc (toy_inputs 0)
  /\ t_out (c_ts st 1) = render_spec nat idenc (toy_inputs 1).
Proof. exact instance_buffer_sequential_ok. Qed.
Print Assumptions C03_conc_instance_buffer_sequential_ok.
