(** C15 — cached terminal facts never outlive the condition they were computed under.

    Only statements, each closed by [exact <lemma>], and [Print Assumptions].

    Vocabulary (model/Caches.v):
    - [e : tenv] the terminal's fixed traits (tty or not, which size queries it answers,
      name, colours); [t0 : tsize] its initial size; [ops] a history over
      [Resize | EnableSwap | DisableSwap | EnableQueries | DisableQueries | SetRatio m |
       GetCellSize | GetCellRatio | GetColors k | GetNameVersion | IsOnKitty | GetTsc |
       GetTscResize t |
       GetCellSizeAbort | GetCellRatioAbort | GetColorsAbort k | GetNameVersionAbort];
      [GetTsc] is a call of a probe function decorated with [terminal_size_cached] whose
      body reports the terminal's pixel size; [GetTscResize t] is such a call DURING
      WHOSE BODY the terminal is resized to [t] (the body has looked at the terminal,
      then the resize lands, then the body returns; if the entry serves the call the
      body does not run and nothing is resized): EVERY theorem below that quantifies
      over [ops] quantifies over histories with resizes landing inside memoised
      computations at any position;
      the last four are the getters called with a fault armed inside [query_terminal]
      (KeyboardInterrupt / termios.error while the terminal's reply is awaited): if the
      call really queries the terminal the caller sees [raised] — an ABORTED
      computation —, otherwise the call returns normally.  EVERY theorem below that
      quantifies over [ops] therefore quantifies over histories with aborted
      computations at any position;
    - [run e t0 ops] the model state after the history, [step e s o] one more operation
      (new state, what the caller sees);
    - [fresh_* e t sw q] the same getter run from EMPTY caches for terminal [t], swap
      setting [sw], query-enabled status [q];
    - [hrun e t0 ops] the history-level bookkeeping of provenance: [cell_prov] /
      [col_prov] / [nv_prov] = the query-enabled status in force when the entry that
      serves the call was made (the current status if the call has to compute);
    - side conditions: [wf_sizes] every terminal has at least one cell; [px_ok] at a call
      needing the cell size, a live entry for the current size in cells was made at the
      current pixel size (a pixel-size change between two calls comes with a change of
      the size in cells or with an effective toggle);
    - [kitty_memo e = false]: the code after the fix of F9 ([TextImage._is_on_kitty] no
      longer memoised on its own). *)
From Coq Require Import List ZArith Bool Arith.
Import ListNotations.
From TI Require Import lib.Sched model.Caches proofs.CachesProofs proofs.MemoProofs proofs.SwapProofs.
From TI Require Import model.CachesInval proofs.InvalProofs.
From TI Require Import model.CachesEnv proofs.EnvKeyProofs model.CachesHand proofs.HandProofs.
From TI Require Import model.CachesArgs proofs.ArgsProofs.
From Coq Require Import String.
From TI Require Import model.MemoShape gen.MemoSrc proofs.MemoSrcTie.

(** the cell size returned after any history is the fresh one for the current terminal
    size and swap setting, under the query status in force when the entry was made *)
Theorem C15_cell_size_fresh :
  forall e t0 ops,
    kitty_memo e = false ->
    wf_sizes t0 (ops ++ [GetCellSize]) = true -> px_ok e t0 (ops ++ [GetCellSize]) ->
    let s := run e t0 ops in
    snd (step e s GetCellSize)
    = view_cs (fresh_cs e (tm s) (swap s) (cell_prov (hrun e t0 ops))).
Proof. exact cell_size_fresh. Qed.
Print Assumptions C15_cell_size_fresh.

(** after [EnableQueries] (and as long as queries stay enabled) every getter returns what
    a fresh computation WITH queries enabled returns: nothing obtained while they were
    disabled survives *)
Theorem C15_reenable_discards :
  forall e t0 ops1 ops2 o,
    kitty_memo e = false ->
    let ops := ops1 ++ EnableQueries :: ops2 in
    wf_sizes t0 (ops ++ [o]) = true -> px_ok e t0 (ops ++ [o]) ->
    forallb keeps_queries ops2 = true ->
    let s := run e t0 ops in
    is_getter (hrun e t0 ops) o = true ->
    snd (step e s o) = fresh_answer e (tm s) (swap s) true o.
Proof. exact reenable_discards_full. Qed.
Print Assumptions C15_reenable_discards.

(** the same fact on provenances, for the history alone: while queries are enabled, the
    status under which any served entry was made is "enabled" *)
Theorem C15_enabled_provenance :
  forall e t0 ops o, h_qen (hrun e t0 ops) = true -> prov (hrun e t0 ops) o = true.
Proof. exact enabled_prov_true. Qed.
Print Assumptions C15_enabled_provenance.

Theorem C15_dynamic_ratio_fresh :
  forall e t0 ops,
    kitty_memo e = false ->
    wf_sizes t0 (ops ++ [GetCellRatio]) = true -> px_ok e t0 (ops ++ [GetCellRatio]) ->
    let s := run e t0 ops in
    ratio s = Dynamic ->
    snd (step e s GetCellRatio)
    = view_ratio (fresh_dyn_ratio e (tm s) (swap s) (cell_prov (hrun e t0 ops))).
Proof. exact dynamic_ratio_fresh. Qed.
Print Assumptions C15_dynamic_ratio_fresh.

(** a successful [set_cell_ratio(FIXED)] / [set_cell_ratio(float)] fixes the ratio: from
    ANY state [s], whatever resizes, toggles and getter calls follow, [get_cell_ratio]
    returns the value determined at the time of the call ([snapshot]: the float given,
    or the cell size the terminal had then) until the next [set_cell_ratio] *)
Theorem C15_fixed_ratio_is_snapshot :
  forall e s m ops,
    snd (set_cell_ratio e s m) = 0%Z -> m <> RAutoDynamic ->
    forallb (fun o => negb (is_setratio o)) ops = true ->
    snd (step e (run_from e (fst (set_cell_ratio e s m)) ops) GetCellRatio)
    = view_ratio (snapshot e s m).
Proof. exact fixed_ratio_is_snapshot_lemma. Qed.
Print Assumptions C15_fixed_ratio_is_snapshot.

(** every value memoised per process ([cached]) *)
Theorem C15_colors_fresh :
  forall e t0 ops k,
    kitty_memo e = false ->
    wf_sizes t0 (ops ++ [GetColors k]) = true -> px_ok e t0 (ops ++ [GetColors k]) ->
    let s := run e t0 ops in
    snd (step e s (GetColors k))
    = view_col (fresh_col e (tm s) (swap s) (col_prov (hrun e t0 ops) k) k).
Proof. exact colors_fresh. Qed.
Print Assumptions C15_colors_fresh.

Theorem C15_name_version_fresh :
  forall e t0 ops,
    kitty_memo e = false ->
    wf_sizes t0 (ops ++ [GetNameVersion]) = true -> px_ok e t0 (ops ++ [GetNameVersion]) ->
    let s := run e t0 ops in
    snd (step e s GetNameVersion)
    = view_nv (fresh_nv e (tm s) (swap s) (nv_prov (hrun e t0 ops))).
Proof. exact name_version_fresh. Qed.
Print Assumptions C15_name_version_fresh.

(** ... and per terminal size ([terminal_size_cached]) *)
Theorem C15_size_cached_fresh :
  forall e t0 ops,
    kitty_memo e = false ->
    wf_sizes t0 (ops ++ [GetTsc]) = true -> px_ok e t0 (ops ++ [GetTsc]) ->
    let s := run e t0 ops in
    snd (step e s GetTsc) = view_ratio (fresh_tsc (tm s)).
Proof. exact size_cached_fresh. Qed.
Print Assumptions C15_size_cached_fresh.

(** a resize that lands while the memoised body runs: the call itself answers with the
    fresh value for the terminal it was made at ... *)
Theorem C15_size_cached_fresh_resize_in_body :
  forall e t0 ops t,
    kitty_memo e = false ->
    wf_sizes t0 (ops ++ [GetTscResize t]) = true -> px_ok e t0 (ops ++ [GetTscResize t]) ->
    let s := run e t0 ops in
    snd (step e s (GetTscResize t)) = view_ratio (fresh_tsc (tm s)).
Proof. exact size_cached_fresh_resize_in_body. Qed.
Print Assumptions C15_size_cached_fresh_resize_in_body.

(** ... and the call AFTER it answers with the fresh value for the terminal as it is
    then; when the body ran (one more body execution), that terminal is [t]: the value
    computed for the old size while the resize landed is never served for the new one *)
Theorem C15_call_after_resize_in_body_fresh :
  forall e t0 ops t,
    kitty_memo e = false ->
    wf_sizes t0 (ops ++ [GetTscResize t; GetTsc]) = true ->
    px_ok e t0 (ops ++ [GetTscResize t; GetTsc]) ->
    let s := run e t0 ops in
    let s1 := fst (step e s (GetTscResize t)) in
    snd (step e s1 GetTsc) = view_ratio (fresh_tsc (tm s1))
    /\ (n_tsc s1 = S (n_tsc s) ->
        tm s1 = t /\ snd (step e s1 GetTsc) = view_ratio (fresh_tsc t)).
Proof. exact call_after_resize_in_body_fresh. Qed.
Print Assumptions C15_call_after_resize_in_body_fresh.

(** what such a call leaves behind: nothing changed at all (the entry served it), or the
    body ran, the terminal is [t] and the entry holds the value under the size read
    BEFORE the body — the size the value is fresh for *)
Theorem C15_resize_in_body_entry_keyed_by_old_size :
  forall s t,
    let s1 := fst (get_tsc_resize s t) in
    s1 = s
    \/ (n_tsc s1 = S (n_tsc s) /\ tm s1 = t
        /\ tsc s1 = Some (fresh_tsc (tm s), (cols (tm s), rows (tm s)))).
Proof. exact resize_in_body_cases. Qed.
Print Assumptions C15_resize_in_body_entry_keyed_by_old_size.

(** a fact derived from a memoised getter (the kitty work-around flag) equals the fact
    derived from a fresh getter call, and from the getter's own current answer *)
Theorem C15_derived_facts_fresh :
  forall e t0 ops,
    kitty_memo e = false ->
    wf_sizes t0 (ops ++ [IsOnKitty]) = true -> px_ok e t0 (ops ++ [IsOnKitty]) ->
    let s := run e t0 ops in
    snd (step e s IsOnKitty)
    = view_b (is_kitty (fresh_nv e (tm s) (swap s) (nv_prov (hrun e t0 ops))))
    /\ snd (step e s IsOnKitty) = view_b (is_kitty (snd (get_nv e s))).
Proof. exact derived_facts_fresh. Qed.
Print Assumptions C15_derived_facts_fresh.

(** F9: with the flag memoised on its own (the code before the fix) the statement is
    false — [disable_queries(); _is_on_kitty(); enable_queries(); _is_on_kitty()] on kitty *)
Theorem C15_derived_facts_refuted_before_fix :
  exists e t0 ops,
    kitty_memo e = true /\ wf_sizes t0 (ops ++ [IsOnKitty]) = true /\ px_ok e t0 (ops ++ [IsOnKitty])
    /\ qen (run e t0 ops) = true
    /\ snd (step e (run e t0 ops) IsOnKitty)
       <> fresh_answer e (tm (run e t0 ops)) (swap (run e t0 ops)) true IsOnKitty.
Proof. exact derived_facts_refuted_before_fix. Qed.
Print Assumptions C15_derived_facts_refuted_before_fix.

(** ** aborted computations

    an operation whose caller sees the exception leaves the WHOLE state (every cache
    entry, every setting, every counter) exactly as it was *)
Theorem C15_aborted_computation_changes_nothing :
  forall e s o, snd (step e s o) = raised -> fst (step e s o) = s.
Proof. exact aborted_changes_nothing_lemma. Qed.
Print Assumptions C15_aborted_computation_changes_nothing.

(** an armed call either raises and changes nothing, or it IS the plain call (same new
    state, same answer — to which the freshness theorems above apply) *)
Theorem C15_abort_raises_or_plain :
  forall e s o,
    (snd (step e s o) = raised /\ fst (step e s o) = s) \/ step e s o = step e s (plain o).
Proof. exact abort_raises_or_plain. Qed.
Print Assumptions C15_abort_raises_or_plain.

(** an aborted computation is invisible to the rest of the history: the state after a
    history with it is the state after the history without it *)
Theorem C15_aborted_computation_is_invisible :
  forall e t0 ops1 a ops2,
    snd (step e (run e t0 ops1) a) = raised ->
    run e t0 (ops1 ++ a :: ops2) = run e t0 (ops1 ++ ops2).
Proof. exact aborted_is_invisible. Qed.
Print Assumptions C15_aborted_computation_is_invisible.

(** the same on the history-level specification: it creates no entry and kills none *)
Theorem C15_aborted_computation_spec_changes_nothing :
  forall e h o, snd (hstep e h o) = raised -> fst (hstep e h o) = h.
Proof. exact aborted_spec_changes_nothing. Qed.
Print Assumptions C15_aborted_computation_spec_changes_nothing.

(** after an aborted cell-size computation the next call answers with the fresh value
    for the current terminal (queries enabled: an aborted query implies they are) —
    whatever an earlier computation at another terminal size left in the cache *)
Theorem C15_retry_after_abort_fresh :
  forall e t0 ops,
    kitty_memo e = false ->
    wf_sizes t0 (ops ++ [GetCellSizeAbort; GetCellSize]) = true ->
    px_ok e t0 (ops ++ [GetCellSizeAbort; GetCellSize]) ->
    let s := run e t0 ops in
    snd (step e s GetCellSizeAbort) = raised ->
    snd (step e (fst (step e s GetCellSizeAbort)) GetCellSize)
    = view_cs (fresh_cs e (tm s) (swap s) true).
Proof. exact retry_after_abort_fresh. Qed.
Print Assumptions C15_retry_after_abort_fresh.

(** the whole observable behaviour (answers and body-execution counters of every
    operation) of the cache state machine is that of the cache-free specification *)
Theorem C15_trace_is_specification :
  forall e t0 ops,
    kitty_memo e = false -> wf_sizes t0 ops = true -> px_ok e t0 ops ->
    trace e (init t0) ops = spec_trace e (hinit t0) ops.
Proof. exact trace_eq_spec. Qed.
Print Assumptions C15_trace_is_specification.

(** the [cached] decorator under concurrency: for every body behaviour [bv] (each
    execution returns a result — which may be Python's [None]: results are [mres =
    option Z], a cache entry holding [None] is [Some None], an absent one [None] — or
    RAISES), every
    assignment of programs (calls with any argument tuples, invalidations) to any number
    of threads, every reachable state — hence every schedule — the body has run TO
    COMPLETION at most once per argument tuple since the last [cache.clear()] *)
Theorem C15_memo_body_once :
  forall bv prog s k,
    reachable (mstep bv) (minit prog) s -> (m_calls s k <= 1)%nat.
Proof. exact memo_body_once_lemma. Qed.
Print Assumptions C15_memo_body_once.

Theorem C15_memo_body_once_schedules :
  forall bv prog sch k,
    (m_calls (run_sched (mstep bv) (minit prog) sch) k <= 1)%nat.
Proof.
  exact (fun bv prog sch k =>
           memo_body_once_lemma bv prog _ k (run_sched_reachable mstate (mstep bv) (minit prog) sch)).
Qed.
Print Assumptions C15_memo_body_once_schedules.

(** concurrent callers with one argument tuple that return between the same two
    invalidations all get the same value *)
Theorem C15_memo_same_value :
  forall bv prog s t1 t2 ep k v1 v2,
    reachable (mstep bv) (minit prog) s ->
    In (ep, k, v1) (m_rets (m_th s t1)) -> In (ep, k, v2) (m_rets (m_th s t2)) -> v1 = v2.
Proof. exact memo_same_value_lemma. Qed.
Print Assumptions C15_memo_same_value.

(** a body execution that raises stores nothing: cache and counters of completed
    executions unchanged, the thread only releases the lock *)
Theorem C15_memo_raise_stores_nothing :
  forall bv s t k s',
    m_pc (m_th s t) = PBody k -> bv (m_total s) k = None -> mstep bv s t = Some s' ->
    m_cache s' = m_cache s /\ m_calls s' = m_calls s /\ m_pc (m_th s' t) = PRelease None.
Proof. exact memo_raise_stores_nothing_lemma. Qed.
Print Assumptions C15_memo_raise_stores_nothing.

(** ** results that are Python's [None]

    a lookup that finds an entry — WHATEVER it holds, [None] included — does not run the
    body and returns the entry's content *)
Theorem C15_memo_hit_runs_no_body :
  forall bv s t k r s',
    m_pc (m_th s t) = PLookup k -> m_cache s k = Some r -> mstep bv s t = Some s' ->
    m_total s' = m_total s /\ m_calls s' = m_calls s /\ m_cache s' = m_cache s
    /\ m_pc (m_th s' t) = PRelease (Some (k, r)).
Proof. exact memo_hit_runs_no_body_lemma. Qed.
Print Assumptions C15_memo_hit_runs_no_body.

(** once a call with an argument tuple has returned in the current epoch — whatever it
    returned — the entry is there, in every reachable state of any thread system *)
Theorem C15_memo_returned_is_cached :
  forall bv prog s t k r,
    reachable (mstep bv) (minit prog) s ->
    In (m_invals s, k, r) (m_rets (m_th s t)) -> m_cache s k = Some r.
Proof. exact memo_returned_is_cached_lemma. Qed.
Print Assumptions C15_memo_returned_is_cached.

(** sequential use: for EVERY history of calls and invalidations executed by one thread
    and EVERY body (bodies returning [None] for some or all argument tuples included),
    the body has run to completion at most once per argument tuple since the last
    invalidation *)
Theorem C15_memo_seq_body_once :
  forall bv cmds k, (m_calls (mseq bv cmds) k <= 1)%nat.
Proof. exact memo_seq_body_once_lemma. Qed.
Print Assumptions C15_memo_seq_body_once.

(** ... and an argument tuple for which [None] was returned in the current epoch has its
    entry (holding [None]) *)
Theorem C15_memo_none_result_cached :
  forall bv cmds k,
    In (m_invals (mseq bv cmds), k, None) (m_rets (m_th (mseq bv cmds) 0)) ->
    m_cache (mseq bv cmds) k = Some None /\ (m_calls (mseq bv cmds) k <= 1)%nat.
Proof. exact memo_seq_none_result_cached_lemma. Qed.
Print Assumptions C15_memo_none_result_cached.

(** the variant of the wrapper with [None] as its "not cached yet" sentinel refutes it,
    sequentially: two runs of the body for one argument tuple within one epoch, the
    returned values being those of the real wrapper *)
Theorem C15_memo_body_once_refuted_by_none_sentinel :
  exists bv cmds k,
    m_calls (mseq_gen true bv cmds) k = 2%nat /\ m_invals (mseq_gen true bv cmds) = 0%nat
    /\ m_rets (m_th (mseq_gen true bv cmds) 0) = m_rets (m_th (mseq bv cmds) 0)
    /\ m_calls (mseq bv cmds) k = 1%nat.
Proof. exact memo_body_once_refuted_by_none_sentinel. Qed.
Print Assumptions C15_memo_body_once_refuted_by_none_sentinel.

(** ** the win-size-swap toggles against concurrent [get_cell_size] calls
    (model/Caches.v part 4: any number of threads running programs of toggles and
    [get_cell_size] calls; micro-steps test / flag write / acquire / clear / release and
    acquire / lookup / flag read / cache write / release)

    at most one thread is inside the region protected by [_cell_size_lock] *)
Theorem C15_swap_mutex :
  forall f0 warm prog s t1 t2,
    reachable wstep (w_start f0 warm prog) s -> w_inside s t1 -> w_inside s t2 -> t1 = t2.
Proof. exact swap_mutex_lemma. Qed.
Print Assumptions C15_swap_mutex.

(** in every reachable state — hence under every schedule — in which no toggle is between
    its flag write and its clear (in particular once all toggles have returned):
    [get_cell_size()] answers with the value computed under the CURRENT flag, the cache
    is empty or holds that value, and every [get_cell_size] in flight is about to store /
    return that value *)
Theorem C15_swap_toggle_fresh :
  forall f0 warm prog s,
    reachable wstep (w_start f0 warm prog) s ->
    (forall u, ~ w_pending s u) ->
    w_answer s = w_flag s
    /\ (w_cache s = None \/ w_cache s = Some (w_flag s))
    /\ (forall t f, w_holds s t f -> f = w_flag s).
Proof. exact swap_toggle_fresh_lemma. Qed.
Print Assumptions C15_swap_toggle_fresh.

Theorem C15_swap_toggle_fresh_schedules :
  forall f0 warm prog sch,
    let s := run_sched wstep (w_start f0 warm prog) sch in
    (forall u, ~ w_pending s u) -> w_answer s = w_flag s.
Proof. exact swap_toggle_fresh_schedules. Qed.
Print Assumptions C15_swap_toggle_fresh_schedules.

(** the variant that writes the flag AFTER the lock region (clear first, then switch)
    admits a schedule after which both threads have finished, the flag is the new one
    and the cache holds the value computed under the old one *)
Theorem C15_swap_toggle_refuted_late_flag :
  exists f0 warm prog sch,
    let s := run_sched (wstep_gen true) (w_start f0 warm prog) sch in
    (forall t, (t < 2)%nat -> w_pc (w_th s t) = WIdle /\ w_todo (w_th s t) = [])
    /\ w_flag s = true /\ w_cache s = Some false /\ w_answer s <> w_flag s.
Proof. exact swap_toggle_refuted_late_flag. Qed.
Print Assumptions C15_swap_toggle_refuted_late_flag.

(** ** a memoised CALL against a concurrent INVALIDATION
    (model/CachesInval.v: any number of threads running programs of calls of a memoised
    function (any argument tuples), bare [_invalidate_cache()] calls, [enable_queries()]
    and [disable_queries()]; micro-steps of a call: acquire / lookup / body start (the
    body reads the condition it computes under: [_queries_enabled]) / body end (the
    terminal's reply arrives) / setdefault / release / return to the caller; of an
    invalidation: acquire / [cache.clear()] / release / return (or the rest of
    [enable_queries]); of [enable_queries]: test / flag write / then the invalidation;
    [disable_queries]: one flag write.  Every entry carries, as ghost data,
    the condition its body read ([e_cond]) and the number of [cache.clear()]s executed
    when its body started ([e_born]); a finished call records [(fl, k, en)], [fl] = the
    number of clears executed when the call acquired the lock.)

    at most one thread is inside the region protected by the decorator's lock: an
    invalidation never overlaps a body *)
Theorem C15_inval_mutex :
  forall f0 warm prog s t1 t2,
    reachable qstep (qinit f0 warm prog) s -> q_inside s t1 -> q_inside s t2 -> t1 = t2.
Proof. exact inval_mutex_lemma. Qed.
Print Assumptions C15_inval_mutex.

(** in every reachable state — hence under every schedule, wherever the invalidating
    thread runs relative to the lock / lookup / body / store steps of a call — every
    cache entry, and every entry a thread is about to store or return, was made by a body
    that started after the last [cache.clear()]; and a call that began when [fl] clears
    had been executed returned an entry whose body started when at least [fl] had: after
    an invalidation completes, no later call returns a value whose body started before
    the invalidation completed *)
Theorem C15_inval_no_stale :
  forall f0 warm prog s,
    reachable qstep (qinit f0 warm prog) s ->
    (forall k en, q_cache s k = Some en -> e_born en = q_invals s)
    /\ (forall t en, q_holds s t en -> e_born en = q_invals s)
    /\ (forall t fl k en, In (fl, k, en) (q_rets (q_th s t)) -> (fl <= e_born en)%nat).
Proof. exact inval_no_stale_lemma. Qed.
Print Assumptions C15_inval_no_stale.

Theorem C15_inval_no_stale_schedules :
  forall f0 warm prog sch t fl k en,
    In (fl, k, en) (q_rets (q_th (run_sched qstep (qinit f0 warm prog) sch) t)) ->
    (fl <= e_born en)%nat.
Proof. exact inval_no_stale_schedules. Qed.
Print Assumptions C15_inval_no_stale_schedules.

(** the variant whose [invalidate] does NOT take the lock admits a schedule (the clear
    lands while a first call is inside the body) after which all three threads have
    finished, the body has run ONCE, and the call that began after the invalidation had
    completed returned the value whose body started before it *)
Theorem C15_inval_no_stale_refuted_unlocked :
  exists f0 warm prog sch t fl k en,
    let s := run_sched (qstep_gen false) (qinit f0 warm prog) sch in
    q_done s 3 /\ In (fl, k, en) (q_rets (q_th s t)) /\ (e_born en < fl)%nat /\ q_runs s = 1%nat.
Proof. exact inval_refuted_unlocked. Qed.
Print Assumptions C15_inval_no_stale_refuted_unlocked.

(** the library-level reading, for [enable_queries] / [disable_queries]: in every reachable
    state in which queries are enabled and no [enable_queries] is between its flag write
    and its clear — in particular once [enable_queries()] has returned, as long as queries
    stay enabled — a call answers with a value computed with queries enabled ([q_answer]:
    the condition read by the body whose value a call running alone returns), and no entry
    made by a body that read "disabled" is in the cache, about to be stored, or about to
    be returned: a result computed while queries were disabled is never returned after
    [enable_queries()] has returned *)
Theorem C15_enable_queries_discards_in_flight :
  forall f0 warm prog s,
    reachable qstep (qinit f0 warm prog) s ->
    (forall u, ~ q_pending s u) -> q_flag s = true ->
    (forall k, q_answer s k = true)
    /\ (forall k en, q_cache s k = Some en -> e_cond en = true)
    /\ (forall t en, q_holds s t en -> e_cond en = true).
Proof. exact enable_discards_lemma. Qed.
Print Assumptions C15_enable_queries_discards_in_flight.

Theorem C15_enable_queries_discards_in_flight_schedules :
  forall f0 warm prog sch,
    let s := run_sched qstep (qinit f0 warm prog) sch in
    (forall u, ~ q_pending s u) -> q_flag s = true -> forall k, q_answer s k = true.
Proof. exact enable_discards_schedules. Qed.
Print Assumptions C15_enable_queries_discards_in_flight_schedules.

(** the variant whose [invalidate] does not take the lock: queries disabled, thread 0
    inside the body of a first call, thread 1 runs [enable_queries()] to completion, thread
    0 finishes: both threads have finished, queries are enabled, nothing is pending, and
    the entry made under "disabled" — by a body that started before the clear — is in the
    cache and answers the next call *)
Theorem C15_enable_queries_refuted_unlocked :
  exists f0 warm prog sch,
    let s := run_sched (qstep_gen false) (qinit f0 warm prog) sch in
    q_done s 2 /\ (forall u, ~ q_pending s u)
    /\ q_flag s = true /\ q_answer s 0 = false
    /\ exists en, q_cache s 0 = Some en /\ e_cond en = false /\ (e_born en < q_invals s)%nat.
Proof. exact enable_refuted_unlocked. Qed.
Print Assumptions C15_enable_queries_refuted_unlocked.

(** ** where the cache key comes from: the active terminal's WINDOW size

    [model/CachesEnv.v]: the state carries the window of the active terminal (what a resize
    changes: cells and pixels) and the process environment ([COLUMNS] / [LINES]); the library
    runs against what its key function — [utils.get_terminal_size()] — makes of them.  With
    the code's key function ([key_window]: [os.get_terminal_size(_tty_fd)] decides) the whole
    observable behaviour — every answer and every body counter, after any history of
    resizes, toggles, getters AND environment changes, from any start-up environment — is
    that of the cache-free specification for the library operations of the history: every
    answer is the fresh computation for the CURRENT WINDOW and settings *)
Theorem C15_env_trace_is_specification :
  forall e pe t0 ops,
    kitty_memo e = false -> wf_sizes t0 (strip ops) = true -> px_ok e t0 (strip ops) ->
    etrace key_window e (einit key_window pe t0) ops = spec_trace e (hinit t0) (strip ops).
Proof. exact env_trace_is_specification. Qed.
Print Assumptions C15_env_trace_is_specification.

(** no answer depends on [COLUMNS] / [LINES]: two runs of the same library operations from
    different environments, changed at different moments, are indistinguishable *)
Theorem C15_env_independent :
  forall e pe pe' t0 ops ops',
    strip ops = strip ops' ->
    etrace key_window e (einit key_window pe t0) ops = etrace key_window e (einit key_window pe' t0) ops'.
Proof. exact env_independent. Qed.
Print Assumptions C15_env_independent.

(** the EXCLUDED key function — [shutil.get_terminal_size(<window size>)]: the environment
    first, the window as fallback —: with [COLUMNS] / [LINES] equal to the window at
    start-up, [get_cell_size; resize in cells and pixels; get_cell_size] (a history that
    satisfies every side condition) answers the second call from the entry made for the
    first ([(10, 20)], the body did not run) where the specification demands the fresh value
    [(8, 20)] *)
Theorem C15_env_first_key_refuted :
  exists e pe t0 ops,
    kitty_memo e = false /\ wf_sizes t0 (strip ops) = true /\ px_ok e t0 (strip ops)
    /\ pe_cols pe = Some (cols t0) /\ pe_lines pe = Some (rows t0)
    /\ etrace key_env_first e (einit key_env_first pe t0) ops <> spec_trace e (hinit t0) (strip ops)
    /\ nth 3 (etrace key_env_first e (einit key_env_first pe t0) ops) ([], []) = ([1; 10; 20], [1; 0; 0; 1])%Z
    /\ nth 3 (spec_trace e (hinit t0) (strip ops)) ([], []) = ([1; 8; 20], [2; 0; 0; 1])%Z.
Proof. exact env_first_key_refuted. Qed.
Print Assumptions C15_env_first_key_refuted.

(** ** the cache hand-over at the first [Process.start()]

    [model/CachesHand.v]: two cache objects and two lock objects (the import-time list and
    RLock; the shared array and its lock), the module globals as bindings evaluated at the
    moment of use, and the hand-over — acquire the lock, copy, rebind the cache global,
    rebind the lock global, release the lock ACQUIRED — as steps of a thread, concurrent
    with toggles ("setting first, then zero the cache under the lock") and [get_cell_size]
    calls (two lock expressions).  At most one thread is inside the region of one lock
    object *)
Theorem C15_handover_mutex :
  forall f0 warm prog s o t1 t2,
    reachable xstep (xinit f0 warm prog) s -> x_inside s t1 o -> x_inside s t2 o -> t1 = t2.
Proof. exact hand_mutex_lemma. Qed.
Print Assumptions C15_handover_mutex.

(** for any number of threads, any programs of toggles, [get_cell_size()] calls and
    [Process.start()]s, and any schedule: in every reachable state in which no toggle is
    between its flag write and its clear, the cache the module global names NOW — list or
    array — is empty or holds the value for the current flag ([x_answer]: what a
    [get_cell_size()] running alone returns is the fresh value), and every [get_cell_size]
    about to write the cache holds such a value *)
Theorem C15_handover_fresh :
  forall f0 warm prog s,
    reachable xstep (xinit f0 warm prog) s ->
    (forall u, ~ x_pending s u) ->
    x_answer s = x_flag s
    /\ (x_cache s (x_curc s) = None \/ x_cache s (x_curc s) = Some (x_flag s))
    /\ (forall t l1 l2 f, x_pc (x_th s t) = XGWrite l1 l2 f -> f = x_flag s).
Proof. exact hand_fresh_lemma. Qed.
Print Assumptions C15_handover_fresh.

Theorem C15_handover_fresh_schedules :
  forall f0 warm prog sch,
    let s := run_sched xstep (xinit f0 warm prog) sch in
    (forall u, ~ x_pending s u) -> x_answer s = x_flag s.
Proof. exact hand_fresh_schedules. Qed.
Print Assumptions C15_handover_fresh_schedules.

(** the variant that makes the copy BEFORE it takes the lock admits a schedule (the toggle
    runs between the copy and the acquisition: nothing makes it wait, it zeroes the OLD
    list) after which both threads have finished, no toggle is pending, and the array the
    cache global names holds the value computed under the flag before the toggle *)
Theorem C15_handover_refuted_copy_before_lock :
  exists f0 warm prog sch,
    let s := run_sched (xstep_gen true) (xinit f0 warm prog) sch in
    x_done s 2 /\ (forall u, ~ x_pending s u)
    /\ x_flag s = true /\ x_curc s = XNew /\ x_cache s (x_curc s) = Some false /\ x_answer s <> x_flag s.
Proof. exact hand_refuted_copy_before_lock. Qed.
Print Assumptions C15_handover_refuted_copy_before_lock.

(** ** [terminal_size_cached] called with SEVERAL DISTINCT ARGUMENT TUPLES (model/CachesArgs.v)

    The decorator keeps ONE slot (value, terminal size) per decorated function, whatever the
    arguments ([utils.py:271-283]; documented: "If the terminal size is the same as for the
    last call, the last return value is returned"); the library decorates nothing with it.
    [abody]: argument tuple, terminal size |-> result of the wrapped function; [size_only b]:
    the wrapped function is a function of the terminal size (what the decorator is for — a
    decorated method is handed the instance, its result depends on the terminal).  Histories
    over [ACall k | ACallR k t (a resize lands while the body runs) | AResize t | AInval];
    [code_run] the decorator; [spec_ok so b t0 [] cmds rows] judges the rows of a run from the
    history: every call returns a value (never raises), the body runs at most once per call
    and only with the call's own arguments, and the value is — [so = true] — what a fresh
    computation WITH ITS OWN ARGUMENTS gives for the size the call is made at, — [so = false]
    — a value computed for THAT size with an argument tuple used since the last invalidation. *)

(** freshness per argument tuple, for every history (any number of argument tuples, resizes
    — also inside bodies —, invalidations) *)
Theorem C15_args_fresh :
  forall (b : abody) (t0 : tsz) (cmds : list acmd),
    size_only b ->
    spec_ok true b t0 nil cmds (code_run b (cinit t0) cmds) = true.
Proof. exact args_fresh_lemma. Qed.
Print Assumptions C15_args_fresh.

(** spelt out for histories without a resize inside a body: the callers get exactly the
    fresh computations, each with its own arguments, for the size current at the call *)
Theorem C15_args_fresh_values :
  forall (b : abody) (t0 : tsz) (cmds : list acmd),
    size_only b -> aplain cmds = true ->
    map fst (code_run b (cinit t0) cmds) = fresh_vals b t0 cmds.
Proof. exact args_fresh_plain_lemma. Qed.
Print Assumptions C15_args_fresh_values.

(** ANY wrapped function: never a value computed for an earlier terminal size *)
Theorem C15_args_current_size :
  forall (b : abody) (t0 : tsz) (cmds : list acmd),
    spec_ok false b t0 nil cmds (code_run b (cinit t0) cmds) = true.
Proof. exact args_current_size_lemma. Qed.
Print Assumptions C15_args_current_size.

(** the excluded design — a dict keyed by the arguments with a single remembered terminal
    size for the whole dict, not cleared when the size changes: after
    [f(a); f(b); resize; f(a)] the call [f(b)] returns the value computed under the old size *)
Theorem C15_args_dict_single_stamp_refuted :
  exists (b : abody) (t0 : tsz) (cmds : list acmd),
    size_only b /\ aplain cmds = true
    /\ spec_ok true b t0 nil cmds (dict1_run b (dinit t0) cmds) = false
    /\ spec_ok false b t0 nil cmds (dict1_run b (dinit t0) cmds) = false
    /\ map fst (dict1_run b (dinit t0) cmds) <> fresh_vals b t0 cmds
    /\ nth 4%nat (map fst (dict1_run b (dinit t0) cmds)) None = Some (b 1%nat t0).
Proof. exact dict1_single_stamp_refuted_lemma. Qed.
Print Assumptions C15_args_dict_single_stamp_refuted.

(** why [C15_args_fresh] carries [size_only]: the code is blind to the arguments (documented) *)
Theorem C15_args_code_argument_blind :
  exists (b : abody) (t0 : tsz) (cmds : list acmd),
    aplain cmds = true
    /\ spec_ok false b t0 nil cmds (code_run b (cinit t0) cmds) = true
    /\ spec_ok true b t0 nil cmds (code_run b (cinit t0) cmds) = false.
Proof. exact code_argument_blind_lemma. Qed.
Print Assumptions C15_args_code_argument_blind.

(** ** Source tie of the micro-step machines (gen/MemoSrc.v is regenerated from utils.py and
    term_image/__init__.py on every run by harness/tx/tx_memo.py; model/MemoShape.v labels
    every transition of [qstep_gen] / [wstep_gen] with the source step it stands for and
    computes the label trace of one command run alone FROM THE STEP FUNCTIONS) *)

(** a memoised call (miss path) and the invalidator perform the source's steps in the
    source's order *)
Theorem C15_source_memo_call_order :
  (forall f0 k, qsolo true f0 (QCall k) = src_cached_call)
  /\ (forall f0, qsolo true f0 QInval = src_cached_inval).
Proof. exact (conj memo_call_is_source_lemma memo_inval_is_source_lemma). Qed.
Print Assumptions C15_source_memo_call_order.

(** the machine all C15_inval_* theorems are about (the invalidator takes the decorator's
    lock) is the source's; the refuted lock-free variant is not *)
Theorem C15_source_invalidate_under_lock :
  forall locked f0, qsolo locked f0 QInval = src_cached_inval <-> locked = true.
Proof. exact memo_inval_locked_iff_lemma. Qed.
Print Assumptions C15_source_invalidate_under_lock.

(** lookup, body and store of one call lie inside one lock region *)
Theorem C15_source_memo_call_region :
  once_before LAcquire LLookup src_cached_call = true
  /\ once_before LLookup LBody src_cached_call = true
  /\ once_before LBody LStore src_cached_call = true
  /\ once_before LStore LRelease src_cached_call = true.
Proof. exact memo_call_region_lemma. Qed.
Print Assumptions C15_source_memo_call_region.

(** [enable_queries()] seen from every [@cached] function of the package and from the
    cell-size cache is the machine's [QEnable] (flag write first, then acquire / clear /
    release); [disable_queries()] is [QDisable] *)
Theorem C15_source_enable_queries_order :
  (forall m, In m src_cached_functions ->
     flat_map (proj_memo src_cached_inval m) src_enable_queries = qsolo true false QEnable)
  /\ flat_map proj_cell src_enable_queries = qsolo true false QEnable
  /\ toggle_head "_queries_enabled" true src_enable_queries = true
  /\ qsolo true true QEnable = [LTest].
Proof. exact enable_queries_is_source_lemma. Qed.
Print Assumptions C15_source_enable_queries_order.

Theorem C15_source_disable_queries_order :
  forall m f0, flat_map (proj_memo src_cached_inval m) src_disable_queries = qsolo true f0 QDisable
               /\ flat_map proj_cell src_disable_queries = qsolo true f0 QDisable.
Proof. exact disable_queries_is_source_lemma. Qed.
Print Assumptions C15_source_disable_queries_order.

(** every function memoised with [@cached] anywhere in the package is invalidated by
    [enable_queries()] after the flag write (the defect repaired by aab4c9c was a memo
    outside this list) *)
Theorem C15_source_every_memo_invalidated :
  forall m, In m src_cached_functions ->
    exists pre post, src_enable_queries = (pre ++ TInval m :: post)%list
                     /\ In (TWrite "_queries_enabled" true) pre.
Proof. exact every_memo_invalidated_lemma. Qed.
Print Assumptions C15_source_every_memo_invalidated.

(** the win-size-swap toggles are the machine's [WToggle] ([wstep_gen false]); the refuted
    variant that writes the flag after the lock region is not *)
Theorem C15_source_swap_toggle_order :
  (flat_map proj_cell src_enable_win_size_swap = wsolo false false (WToggle true)
   /\ flat_map proj_cell src_disable_win_size_swap = wsolo false true (WToggle false)
   /\ toggle_head "_swap_win_size" true src_enable_win_size_swap = true
   /\ toggle_head "_swap_win_size" false src_disable_win_size_swap = true
   /\ wsolo false true (WToggle true) = [LTest]
   /\ wsolo false false (WToggle false) = [LTest])
  /\ (forall late, wsolo late false (WToggle true) = flat_map proj_cell src_enable_win_size_swap
                   <-> late = false).
Proof. exact (conj swap_toggles_are_source_lemma swap_toggle_late_iff_lemma). Qed.
Print Assumptions C15_source_swap_toggle_order.

(** [terminal_size_cached]: the key is read once, under the lock, before the test and the
    body, and the slot is written after the body inside the same region — the order
    [get_tsc_resize] and [CachesArgs.code_run] assume *)
Theorem C15_source_tsc_key_before_body :
  tsc_shape_ok src_tsc_call = true
  /\ src_tsc_inval = [LAcquire; LClearSlot; LRelease].
Proof. exact tsc_shape_is_source_lemma. Qed.
Print Assumptions C15_source_tsc_key_before_body.
