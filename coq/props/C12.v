(** C12 — terminal queries report what the terminal said, whatever the timing.

    Only statements, each closed by [exact <lemma>], and [Print Assumptions].
    Model: model/Query.v (read loop over an abstract clock, drain, query, getters, parsers,
    decision rules); specification side: model/QuerySpec.v (terminal profiles, the replies
    they print, what must be reported).  [cost i] is the duration of the i-th step (loop
    iteration / system call); every theorem holds for EVERY cost oracle bounded by [c].

    Partial by nature: the clock, [select] and the kernel's tty queue are the model's
    (arrival times are data; a burst is in the queue atomically at its arrival time);
    real scheduling jitter is outside.  The model is the code after the two repairs this
    property led to (/repo 54d19bd: per-component colour scale, F7; /repo ea400a1: the kitty
    support query stops at the "c" that ends the DA1 reply, F10).

    Structure: the read loop (any schedule); nothing left unread (conditional lemmas); END TO
    END for the terminal of any well-formed profile — the five [*_reports_profile] theorems,
    which compose the former with the parser and decision-rule theorems below. *)
From Coq Require Import Ascii String List ZArith Bool Arith.
Import ListNotations.
From TI Require Import model.Query model.QuerySpec proofs.QueryReadProofs proofs.QueryParseProofs
  proofs.QueryGetProofs proofs.QueryEndProofs.
From TI Require Import model.QueryInit proofs.QueryInitProofs.
From TI Require Import model.QueryFlush proofs.QueryFlushProofs.
From TI Require gen.QuerySrc proofs.QuerySrcTie.
Open Scope Z_scope.

(** *** the read loop *)

(** Two schedules that carry the same byte stream, whose last arrival [<= B] leaves room for
    one step per byte before the deadline: same bytes read, same bytes left — however the
    stream was cut into bursts, whatever the delays, whatever each step cost. *)
Theorem C12_read_split_independent :
  forall c more timeout cost1 cost2,
    (forall i, 0 <= cost1 i <= c) -> (forall i, 0 <= cost2 i <= c) ->
    forall s1 s2 i1 i2 start B,
      stream s1 = stream s2 ->
      Forall (fun u => fst u <= B) s1 -> Forall (fun u => fst u <= B) s2 -> start <= B ->
      B + c * Z.of_nat (length (stream s1)) < start + timeout ->
      result_bytes (read_loop cost1 more timeout (flatten s1) i1 start start [])
      = result_bytes (read_loop cost2 more timeout (flatten s2) i2 start start []).
Proof. exact read_split_independent_lemma. Qed.
Print Assumptions C12_read_split_independent.

(** The result is the shortest prefix of the stream on which [more] is false (the whole
    stream if there is none — then, and only then, the call lasts until the deadline);
    the rest stays in the queue. *)
Theorem C12_read_stops_at_first_done :
  forall c more timeout cost, (forall i, 0 <= cost i <= c) ->
    forall s i start B,
      Forall (fun u => fst u <= B) s -> start <= B ->
      B + c * Z.of_nat (length (stream s)) < start + timeout ->
      let '(inp, rest, t, _) := read_loop cost more timeout (flatten s) i start start [] in
      stream s = inp ++ map snd rest /\
      (forall q, strict_prefix q inp -> more q = true) /\
      (more inp = false \/ rest = []) /\
      (more inp = false -> t <= B + c * Z.of_nat (length inp)) /\
      (more inp = true -> start + timeout <= t <= start + timeout + c).
Proof. exact read_stops_at_first_done_lemma. Qed.
Print Assumptions C12_read_stops_at_first_done.

(** Nothing arrives before the deadline: empty result, queue untouched, back at the
    deadline and at most one step ([select]) later. *)
Theorem C12_read_times_out :
  forall cost c, (forall i, 0 <= cost i <= c) ->
    forall more timeout pend i start,
      Forall (fun a => start + timeout <= fst a) pend -> 0 < timeout -> more [] = true ->
      exists t, read_loop cost more timeout pend i start start [] = ([], pend, t, S i) /\
                start + timeout <= t <= start + timeout + c.
Proof. exact read_times_out_lemma. Qed.
Print Assumptions C12_read_times_out.

(** Whatever arrives and whenever: never later than the deadline plus one step. *)
Theorem C12_read_never_overruns :
  forall cost c, (forall i, 0 <= cost i <= c) ->
    forall more timeout pend i start now0 input,
      now0 <= start + timeout + c ->
      let '(_, _, t, _) := read_loop cost more timeout pend i start now0 input in
      now0 <= t <= start + timeout + c.
Proof. exact read_loop_bounded. Qed.
Print Assumptions C12_read_never_overruns.

(** *** nothing is left unread *)

(** Two-phase getters (fg/bg colours, name/version: read until the buffer ends with CSI,
    then a non-blocking read).  If the replies arrive in order within the margin and the
    reader cannot stop before the LAST reply unit has begun to arrive, the queue is empty
    afterwards: what the first phase leaves of that unit is already there for the drain. *)
Theorem C12_getters_drain_two_phase :
  forall cost c, (forall i, 0 <= cost i <= c) ->
    forall cfg term, enabled cfg = true ->
    forall request st D pre_s t_last last,
      pend st = [] -> timely c cfg term request D ->
      term request = pre_s ++ [(t_last, last)] ->
      (forall q, prefix q (stream pre_s) -> more_not_csi q = true) ->
      exists st',
        two_phase cost cfg term request st
        = (Some (fst (first_done more_not_csi [] (stream (term request)))), st') /\
        pend st' = [] /\ written st' = written st ++ [request] /\
        now st <= now st' <= now st + qtimeout cfg + c * (Z.of_nat (length (stream (term request))) + 4).
Proof. exact two_phase_drains. Qed.
Print Assumptions C12_getters_drain_two_phase.

(** Single-phase queries (cell size, kitty support): if [more] holds on every strict
    prefix of the reply stream, the whole stream is the response and the queue is empty. *)
Theorem C12_getters_drain_single_phase :
  forall cost c, (forall i, 0 <= cost i <= c) ->
    forall cfg term, enabled cfg = true ->
    forall more request st D,
      pend st = [] -> timely c cfg term request D ->
      (forall q, strict_prefix q (stream (term request)) -> more q = true) ->
      exists st',
        query cost cfg term more request st = (Some (stream (term request)), st') /\
        pend st' = [] /\ written st' = written st ++ [request] /\
        now st <= now st' <= now st + qtimeout cfg + 2 * c.
Proof. exact query_reads_all. Qed.
Print Assumptions C12_getters_drain_single_phase.

(** *** end to end: what the terminal said is what is reported

    [profile_terminal p delays] answers every query of a request from the profile [p], each
    reply written as a unit, the j-th one [delays request]_j ticks after the request.
    [timely]: the delays do not decrease (replies in order) and the last one, plus one step
    per byte, is inside the timeout.  [exp_fg_bg] / [exp_name_version] are functions of the
    PROFILE (QuerySpec.v), not of reply bytes. *)

(** get_fg_bg_colors(): for EVERY well-formed profile (each of the three replies present or
    not; 1-4 hex digits per component independently; ST or BEL), every cost oracle and every
    timely delay assignment: the replied colours, each component scaled by its own width;
    nothing left unread; within one timeout. *)
Theorem C12_fg_bg_reports_profile :
  forall cost c, (forall i, 0 <= cost i <= c) ->
    forall cfg, enabled cfg = true -> 0 < qtimeout cfg ->
    forall p, wf_profile p = true ->
    forall delays st D,
      pend st = [] -> timely c cfg (profile_terminal p delays) FGBG_request D ->
      exists st',
        get_fg_bg cost cfg (profile_terminal p delays) st = (Some (exp_fg_bg cfg p), st') /\
        pend st' = [] /\ written st' = written st ++ [FGBG_request] /\
        now st <= now st' <= now st + qtimeout cfg
          + c * (Z.of_nat (length (stream (profile_terminal p delays FGBG_request))) + 4).
Proof. exact fg_bg_reports_profile. Qed.
Print Assumptions C12_fg_bg_reports_profile.

(** get_terminal_name_version(): the replied name (lower-cased) and version — whatever the
    identity string, "(" or " " form, ")" or not, ST or BEL — or the environment's
    TERM_PROGRAM / TERM_PROGRAM_VERSION when XTVERSION is not answered; nothing left unread. *)
Theorem C12_name_version_reports_profile :
  forall cost c, (forall i, 0 <= cost i <= c) ->
    forall cfg, enabled cfg = true -> 0 < qtimeout cfg ->
    forall p, wf_profile p = true ->
    forall delays st D,
      pend st = [] -> timely c cfg (profile_terminal p delays) XTV_request D ->
      exists st',
        get_name_version cost cfg (profile_terminal p delays) st = (exp_name_version cfg p, st') /\
        pend st' = [] /\ written st' = written st ++ [XTV_request] /\
        now st <= now st' <= now st + qtimeout cfg
          + c * (Z.of_nat (length (stream (profile_terminal p delays XTV_request))) + 4).
Proof. exact name_version_reports_profile. Qed.
Print Assumptions C12_name_version_reports_profile.

(** get_cell_size() on a cache miss in a window of at least 1x1 cells: the ioctl's pixel size
    when it has no zero (then no query at all), else the replied cell size (XTWINOPS reports
    height;width), else the replied text-area size divided by the window size in cells
    (swapped first under the workaround; height doubled on Termux); [CsNone] when a dimension
    comes out as 0 or nothing was replied; nothing left unread; at most one timeout. *)
Theorem C12_cell_size_reports_profile :
  forall cost c, (forall i, 0 <= cost i <= c) ->
    forall cfg, enabled cfg = true -> 0 < qtimeout cfg ->
    forall p, wf_profile p = true ->
    forall delays c0 st D,
      cache_hit cfg c0 = false -> 0 < ws_cols cfg -> 0 < ws_rows cfg ->
      pend st = [] -> timely c cfg (profile_terminal p delays) CELL_request D ->
      exists c1 st',
        get_cell_size cost cfg (profile_terminal p delays) c0 st = (exp_cell cfg p, c1, st') /\
        pend st' = [] /\ now st <= now st' <= now st + qtimeout cfg + 2 * c.
Proof. exact cell_size_reports_profile. Qed.
Print Assumptions C12_cell_size_reports_profile.

(** KittyImage.is_supported() from a fresh state: the documented rule on what the terminal
    said — whatever the error message of a refusing terminal contains (F10) —; nothing left
    unread; at most one timeout per query. *)
Theorem C12_kitty_reports_profile :
  forall cost c, (forall i, 0 <= cost i <= c) ->
    forall cfg, enabled cfg = true -> 0 < qtimeout cfg ->
    forall p, wf_profile p = true ->
    forall delays st D1 D2,
      pend st = [] ->
      timely c cfg (profile_terminal p delays) XTV_request D1 ->
      timely c cfg (profile_terminal p delays) KITTY_request D2 ->
      exists st',
        kitty_is_supported cost cfg (profile_terminal p delays) (st, None)
        = (exp_kitty cfg p, (st', Some (exp_name_version cfg p))) /\
        pend st' = [] /\
        now st <= now st' <= now st + 2 * qtimeout cfg
          + c * (Z.of_nat (length (stream (profile_terminal p delays XTV_request))) + 6).
Proof. exact kitty_reports_profile. Qed.
Print Assumptions C12_kitty_reports_profile.

(** auto_image_class() from a fresh state: kitty, then iterm2, then block, by the documented
    rules on what the terminal said (an unknown version of konsole counts as < 22.04.0). *)
Theorem C12_auto_reports_profile :
  forall cost c, (forall i, 0 <= cost i <= c) ->
    forall cfg, enabled cfg = true -> 0 < qtimeout cfg ->
    forall p, wf_profile p = true ->
    forall delays st D1 D2,
      pend st = [] ->
      timely c cfg (profile_terminal p delays) XTV_request D1 ->
      timely c cfg (profile_terminal p delays) KITTY_request D2 ->
      exists st',
        auto_image_class cost cfg (profile_terminal p delays) (st, None)
        = (Some (exp_auto cfg p), (st', Some (exp_name_version cfg p))) /\
        pend st' = [] /\
        now st <= now st' <= now st + 2 * qtimeout cfg
          + c * (Z.of_nat (length (stream (profile_terminal p delays XTV_request))) + 6).
Proof. exact auto_reports_profile. Qed.
Print Assumptions C12_auto_reports_profile.

(** One cache epoch (utils.cached around both getters; the memo key is the full argument
    tuple INCLUDING keyword values): ANY sequence of calls get_fg_bg_colors(),
    get_fg_bg_colors(hex=False), get_fg_bg_colors(hex=True), get_terminal_name_version(), in
    any order, any number of times, from freshly invalidated caches — every call reports the
    profile's colours in the representation THAT call asked for ("#rrggbb" or an RGB triple;
    [exp_call] is a function of the profile and of this call alone), resp. the profile's
    identity; nothing is left unread at the end. *)
Theorem C12_epoch_reports_profile :
  forall cost c, (forall i, 0 <= cost i <= c) ->
    forall cfg, enabled cfg = true -> 0 < qtimeout cfg ->
    forall p, wf_profile p = true ->
    forall delays D1 D2,
      timely c cfg (profile_terminal p delays) FGBG_request D1 ->
      timely c cfg (profile_terminal p delays) XTV_request D2 ->
      forall st calls, pend st = [] ->
        fst (session cost cfg (profile_terminal p delays) calls (st, [], None))
        = map (exp_call cfg p) calls /\
        pend (fst (fst (snd (session cost cfg (profile_terminal p delays) calls (st, [], None))))) = [].
Proof. exact epoch_from_fresh. Qed.
Print Assumptions C12_epoch_reports_profile.

(** *** colours *)

(** every component of 1 or more hex digits — each with its OWN width — is scaled into
    0..255 (value * 255 // (16^width - 1)) *)
Theorem C12_x_parse_color_range :
  forall r g b, r <> [] -> g <> [] -> b <> [] ->
    forallb is_hex r = true -> forallb is_hex g = true -> forallb is_hex b = true ->
    exists x y z,
      x_parse_color (rgb_spec r g b) = Some (x, y, z) /\
      (x, y, z) = (exp_comp r, exp_comp g, exp_comp b) /\
      0 <= x <= 255 /\ 0 <= y <= 255 /\ 0 <= z <= 255.
Proof. exact x_parse_color_range_lemma. Qed.
Print Assumptions C12_x_parse_color_range.

(** all-zero -> 0 and all-f -> 255, for each component independently of the others *)
Theorem C12_x_parse_color_exact_ends :
  forall r g b x y z, r <> [] -> g <> [] -> b <> [] ->
    forallb is_hex r = true -> forallb is_hex g = true -> forallb is_hex b = true ->
    x_parse_color (rgb_spec r g b) = Some (x, y, z) ->
    (all_zero r -> x = 0) /\ (all_f r -> x = 255) /\
    (all_zero g -> y = 0) /\ (all_f g -> y = 255) /\
    (all_zero b -> z = 0) /\ (all_f b -> z = 255).
Proof. exact x_parse_color_exact_ends_lemma. Qed.
Print Assumptions C12_x_parse_color_exact_ends.

(** *** the parsers are total on the reply grammars, and return what was replied *)
Theorem C12_parsers_total :
  (forall n r rest, wf_digits n = true -> wf_rgb r = true ->
     findall_rgb (print_rgb n r ++ rest) 0 = (n, bs "rgb:" ++ rgb_body r) :: findall_rgb rest 0) /\
  (forall r, wf_rgb r = true -> x_parse_color (bs "rgb:" ++ rgb_body r) = Some (exp_rgb r)) /\
  (forall x follow, wf_xtv x = true -> follow_ok follow ->
     parse_xtversion (print_xtv x ++ follow) = Some (x_name x, x_ver x)) /\
  (forall n hw rest, wf_winops hw = true ->
     parse_xtwinops n (print_winops n hw ++ rest) = Some (dec_int (fst hw), dec_int (snd hw))) /\
  (forall k rest, wf_kitty k = true ->
     parse_kitty_reply (print_kitty k ++ rest) = Some (k_id k, k_msg k)).
Proof. exact parsers_total_lemma. Qed.
Print Assumptions C12_parsers_total.

(** *** decision rules *)

(** kitty style: the graphics query answered "OK" for id 31, and the terminal is kitty with a
    dotted-decimal version >= 0.20.0 (lexicographically, as integers) or konsole *)
Theorem C12_kitty_rule :
  forall name version resp,
    kitty_supported name version resp = true <-> kitty_rule_prop name version (kitty_reply_ok resp).
Proof. exact kitty_rule_lemma. Qed.
Print Assumptions C12_kitty_rule.

Theorem C12_kitty_graphics_ok :
  forall resp, kitty_reply_ok resp = true <->
    exists r, resp = Some r /\ parse_kitty_reply r = Some (bs "31", bs "OK").
Proof. exact kitty_reply_ok_iff. Qed.
Print Assumptions C12_kitty_graphics_ok.

(** iterm2 style: iterm2, wezterm, or konsole with a dotted-decimal version >= 22.04.0 *)
Theorem C12_iterm2_rule :
  forall name version, iterm2_supported name version = Some true <-> iterm2_rule_prop name version.
Proof. exact iterm2_rule_lemma. Qed.
Print Assumptions C12_iterm2_rule.

(** the most capable supported style: kitty, then iterm2, then block *)
Theorem C12_auto_prefers_kitty_iterm2_block :
  forall k i b,
    (auto_style k i b = Kitty <-> k = true) /\
    (auto_style k i b = Iterm2 <-> k = false /\ i = true) /\
    (auto_style k i b = Block <-> k = false /\ i = false).
Proof. exact auto_table. Qed.
Print Assumptions C12_auto_prefers_kitty_iterm2_block.

(** *** defaults *)

(** queries disabled: nothing written, nothing read, no time passes; colours unknown,
    name/version from the environment, kitty style unsupported *)
Theorem C12_disabled_gives_defaults :
  forall cost cfg term, enabled cfg = false ->
    forall st memo c0,
      get_fg_bg cost cfg term st = (Some (None, None), st) /\
      get_name_version cost cfg term st = ((option_map lower (env_name cfg), env_version cfg), st) /\
      snd (get_cell_size cost cfg term c0 st) = st /\
      fst (kitty_is_supported cost cfg term (st, memo)) = false /\
      fst (snd (kitty_is_supported cost cfg term (st, memo))) = st /\
      fst (snd (auto_image_class cost cfg term (st, memo))) = st /\
      (forall s, fst (auto_image_class cost cfg term (st, memo)) = Some s -> s <> Kitty).
Proof. exact disabled_defaults. Qed.
Print Assumptions C12_disabled_gives_defaults.

(** the terminal never answers: the same defaults, after one timeout (plus at most three
    steps) per query — never blocking *)
Theorem C12_silent_gives_defaults :
  forall cost c, (forall i, 0 <= cost i <= c) ->
    forall cfg, enabled cfg = true -> 0 < qtimeout cfg ->
    forall st c0, pend st = [] ->
      (exists st', get_fg_bg cost cfg silent st = (Some (None, None), st') /\ pend st' = [] /\
                   now st' <= now st + qtimeout cfg + 3 * c) /\
      (exists st', get_name_version cost cfg silent st
                   = ((option_map lower (env_name cfg), env_version cfg), st') /\ pend st' = [] /\
                   now st' <= now st + qtimeout cfg + 3 * c) /\
      (exists k st', kitty_is_supported cost cfg silent (st, None)
                     = (k, (st', Some (option_map lower (env_name cfg), env_version cfg)))
                   /\ k = false /\ pend st' = [] /\ now st' <= now st + 2 * qtimeout cfg + 5 * c) /\
      (let '(_, _, st') := get_cell_size cost cfg silent c0 st in
       pend st' = [] /\ now st' <= now st + qtimeout cfg + 2 * c).
Proof. exact silent_defaults. Qed.
Print Assumptions C12_silent_gives_defaults.

(** *** the state the terminal is in WHEN the query is made

    model/QueryInit.v: the terminal device = queue / clock / requests ([core], the [tty] of
    Query.v) + its ATTRIBUTE SET ([attr]: echo, canonical, ISIG, OPOST, VMIN, VTIME — cooked,
    cbreak, raw, anything); [arrived_all]: whatever is in the queue is unread INPUT that has
    arrived (type-ahead, escape sequences of keys, a stale reply, half a sequence) — any
    bytes.  [query_A guard] mirrors query_terminal / read_tty attribute call by attribute
    call; [guard] = when the tcsetattr(TCSAFLUSH, no-echo) / restore pair is performed;
    the code: [always_flush].  The theorems above start from [pend st = []]; these hold from
    EVERY queue content and EVERY attribute set. *)

(** Documented step 1 of a query ("clear all unread input"): the result and the state after a
    query do not depend on the input that was unread when it was made. *)
Theorem C12_query_discards_unread_input :
  forall cost cfg term, enabled cfg = true ->
    forall more request st, arrived_all st ->
      query cost cfg term more request st = query cost cfg term more request (clear_input st).
Proof. exact query_clear. Qed.
Print Assumptions C12_query_discards_unread_input.

(** ... whatever the attribute set met — which is also the attribute set left *)
Theorem C12_query_any_initial_state :
  forall cost cfg term, enabled cfg = true ->
    forall more request s, arrived_all (core s) ->
      query_A cost cfg term always_flush more request s
      = (fst (query cost cfg term more request (clear_input (core s))),
         lift (attr s) (snd (query cost cfg term more request (clear_input (core s))))).
Proof. exact query_A_any_initial_state. Qed.
Print Assumptions C12_query_any_initial_state.

Theorem C12_fg_bg_reports_profile_any_initial_state :
  forall cost c, (forall i, 0 <= cost i <= c) ->
    forall cfg, enabled cfg = true -> 0 < qtimeout cfg ->
    forall p, wf_profile p = true ->
    forall delays s D,
      arrived_all (core s) -> timely c cfg (profile_terminal p delays) FGBG_request D ->
      exists s',
        get_fg_bg_A cost cfg (profile_terminal p delays) always_flush s = (Some (exp_fg_bg cfg p), s') /\
        pend (core s') = [] /\ attr s' = attr s /\
        written (core s') = written (core s) ++ [FGBG_request] /\
        now (core s) <= now (core s') <= now (core s) + qtimeout cfg
          + c * (Z.of_nat (length (stream (profile_terminal p delays FGBG_request))) + 4).
Proof. exact fg_bg_reports_profile_init. Qed.
Print Assumptions C12_fg_bg_reports_profile_any_initial_state.

Theorem C12_name_version_reports_profile_any_initial_state :
  forall cost c, (forall i, 0 <= cost i <= c) ->
    forall cfg, enabled cfg = true -> 0 < qtimeout cfg ->
    forall p, wf_profile p = true ->
    forall delays s D,
      arrived_all (core s) -> timely c cfg (profile_terminal p delays) XTV_request D ->
      exists s',
        get_name_version_A cost cfg (profile_terminal p delays) always_flush s = (exp_name_version cfg p, s') /\
        pend (core s') = [] /\ attr s' = attr s /\
        written (core s') = written (core s) ++ [XTV_request] /\
        now (core s) <= now (core s') <= now (core s) + qtimeout cfg
          + c * (Z.of_nat (length (stream (profile_terminal p delays XTV_request))) + 4).
Proof. exact name_version_reports_profile_init. Qed.
Print Assumptions C12_name_version_reports_profile_any_initial_state.

(** when the ioctl gives the pixel size no query is made and the terminal is not touched: the
    unread input stays; otherwise it is discarded and no reply byte remains *)
Theorem C12_cell_size_reports_profile_any_initial_state :
  forall cost c, (forall i, 0 <= cost i <= c) ->
    forall cfg, enabled cfg = true -> 0 < qtimeout cfg ->
    forall p, wf_profile p = true ->
    forall delays c0 s D,
      cache_hit cfg c0 = false -> 0 < ws_cols cfg -> 0 < ws_rows cfg ->
      arrived_all (core s) -> timely c cfg (profile_terminal p delays) CELL_request D ->
      exists c1 s',
        get_cell_size_A cost cfg (profile_terminal p delays) always_flush c0 s = (exp_cell cfg p, c1, s') /\
        pend (core s') = (if cell_query_needed cfg c0 then [] else pend (core s)) /\
        attr s' = attr s /\
        now (core s) <= now (core s') <= now (core s) + qtimeout cfg + 2 * c.
Proof. exact cell_size_reports_profile_init. Qed.
Print Assumptions C12_cell_size_reports_profile_any_initial_state.

Theorem C12_kitty_reports_profile_any_initial_state :
  forall cost c, (forall i, 0 <= cost i <= c) ->
    forall cfg, enabled cfg = true -> 0 < qtimeout cfg ->
    forall p, wf_profile p = true ->
    forall delays s D1 D2,
      arrived_all (core s) ->
      timely c cfg (profile_terminal p delays) XTV_request D1 ->
      timely c cfg (profile_terminal p delays) KITTY_request D2 ->
      exists s',
        kitty_is_supported_A cost cfg (profile_terminal p delays) always_flush (s, None)
        = (exp_kitty cfg p, (s', Some (exp_name_version cfg p))) /\
        pend (core s') = [] /\ attr s' = attr s /\
        now (core s) <= now (core s') <= now (core s) + 2 * qtimeout cfg
          + c * (Z.of_nat (length (stream (profile_terminal p delays XTV_request))) + 6).
Proof. exact kitty_reports_profile_init. Qed.
Print Assumptions C12_kitty_reports_profile_any_initial_state.

Theorem C12_auto_reports_profile_any_initial_state :
  forall cost c, (forall i, 0 <= cost i <= c) ->
    forall cfg, enabled cfg = true -> 0 < qtimeout cfg ->
    forall p, wf_profile p = true ->
    forall delays s D1 D2,
      arrived_all (core s) ->
      timely c cfg (profile_terminal p delays) XTV_request D1 ->
      timely c cfg (profile_terminal p delays) KITTY_request D2 ->
      exists s',
        auto_image_class_A cost cfg (profile_terminal p delays) always_flush (s, None)
        = (Some (exp_auto cfg p), (s', Some (exp_name_version cfg p))) /\
        pend (core s') = [] /\ attr s' = attr s /\
        now (core s) <= now (core s') <= now (core s) + 2 * qtimeout cfg
          + c * (Z.of_nat (length (stream (profile_terminal p delays XTV_request))) + 6).
Proof. exact auto_reports_profile_init. Qed.
Print Assumptions C12_auto_reports_profile_any_initial_state.

(** one cache epoch with at least one call (the first call's query does the discarding) *)
Theorem C12_epoch_reports_profile_any_initial_state :
  forall cost c, (forall i, 0 <= cost i <= c) ->
    forall cfg, enabled cfg = true -> 0 < qtimeout cfg ->
    forall p, wf_profile p = true ->
    forall delays D1 D2,
      timely c cfg (profile_terminal p delays) FGBG_request D1 ->
      timely c cfg (profile_terminal p delays) XTV_request D2 ->
      forall s call calls, arrived_all (core s) ->
        fst (session_A cost cfg (profile_terminal p delays) always_flush (call :: calls) (s, [], None))
        = map (exp_call cfg p) (call :: calls) /\
        pend (core (fst (fst (snd (session_A cost cfg (profile_terminal p delays) always_flush
                                     (call :: calls) (s, [], None)))))) = [] /\
        attr (fst (fst (snd (session_A cost cfg (profile_terminal p delays) always_flush
                               (call :: calls) (s, [], None))))) = attr s.
Proof. exact epoch_reports_profile_init. Qed.
Print Assumptions C12_epoch_reports_profile_any_initial_state.

(** EXCLUDED design — perform the tcsetattr pair only when input echo is on ("nothing to
    change or restore otherwise"): on echoing modes it IS the code ... *)
Theorem C12_flush_only_when_echo_agrees_on_echoing_modes :
  forall cost cfg term more request s, a_echo (attr s) = true ->
    query_A cost cfg term flush_if_echo more request s
    = query_A cost cfg term always_flush more request s.
Proof. exact flush_if_echo_agrees. Qed.
Print Assumptions C12_flush_only_when_echo_agrees_on_echoing_modes.

(** ... and with echo off (cbreak / raw, as inside a full-screen program) and unread input it
    does not report what the terminal said although every reply is well-formed and timely
    (witness: kitty 0.26.5, cbreak, "jk" typed ahead -> (None, None)); the code does *)
Theorem C12_flush_only_when_echo_refuted :
  exists cfg p delays a q0 D,
    enabled cfg = true /\ 0 < qtimeout cfg /\ wf_profile p = true /\
    timely 1 cfg (profile_terminal p delays) XTV_request D /\
    a_echo a = false /\ arrived_all (core (ttyA_init a q0)) /\
    fst (get_name_version_A (fun _ => 1) cfg (profile_terminal p delays) flush_if_echo (ttyA_init a q0))
      <> exp_name_version cfg p /\
    fst (get_name_version_A (fun _ => 1) cfg (profile_terminal p delays) always_flush (ttyA_init a q0))
      = exp_name_version cfg p.
Proof. exact flush_if_echo_refuted_exists. Qed.
Print Assumptions C12_flush_only_when_echo_refuted.

(** *** WHEN a reply arrives relative to the library's own steps, and WHERE the discard of unread
    input sits relative to the write of the request

    model/QueryFlush.v: [query_F pos] mirrors query_terminal step by step with the POSITION of the
    discard explicit — [flush_before] = the code (tcsetattr(TCSAFLUSH) ; write_tty ; read_tty),
    [flush_after_write] = the excluded order (tcsetattr(TCSADRAIN) ; write_tty ;
    tcflush(TCIFLUSH) ; read_tty).  A reply arrives [d] ticks after write_tty() has returned,
    [d >= 0] ARBITRARY ([timely]: in order, inside the margin), while every later step of the
    library costs an arbitrary [0 <= cost i <= c]: [d = 0] is the instant the write returns —
    before the library's next tty call —, [d] below the cost of the next step is "during that
    step", larger [d] is "during the read".  Because the discard PRECEDES the write, no reply can
    be discarded, wherever it lands: *)

(** the code is the [flush_before] order *)
Theorem C12_query_flush_precedes_write :
  forall cost cfg term more request s,
    query_F cost cfg term flush_before more request s
    = query_A cost cfg term always_flush more request s.
Proof. exact query_F_before. Qed.
Print Assumptions C12_query_flush_precedes_write.

(** the five end-to-end statements (one theorem: colours, name/version, cell size, kitty support,
    automatic style), each for replies arriving at ANY point after the request is written *)
Theorem C12_getters_report_profile_any_arrival_point :
  forall cost c, (forall i, 0 <= cost i <= c) ->
    forall cfg, enabled cfg = true -> 0 < qtimeout cfg ->
    forall p, wf_profile p = true ->
    (forall delays s D,
      arrived_all (core s) -> timely c cfg (profile_terminal p delays) FGBG_request D ->
      exists s',
        get_fg_bg_F cost cfg (profile_terminal p delays) flush_before s = (Some (exp_fg_bg cfg p), s') /\
        pend (core s') = [] /\ attr s' = attr s /\
        written (core s') = written (core s) ++ [FGBG_request] /\
        now (core s) <= now (core s') <= now (core s) + qtimeout cfg
          + c * (Z.of_nat (length (stream (profile_terminal p delays FGBG_request))) + 4)) /\
    (forall delays s D,
      arrived_all (core s) -> timely c cfg (profile_terminal p delays) XTV_request D ->
      exists s',
        get_name_version_F cost cfg (profile_terminal p delays) flush_before s = (exp_name_version cfg p, s') /\
        pend (core s') = [] /\ attr s' = attr s /\
        written (core s') = written (core s) ++ [XTV_request] /\
        now (core s) <= now (core s') <= now (core s) + qtimeout cfg
          + c * (Z.of_nat (length (stream (profile_terminal p delays XTV_request))) + 4)) /\
    (forall delays c0 s D,
      cache_hit cfg c0 = false -> 0 < ws_cols cfg -> 0 < ws_rows cfg ->
      arrived_all (core s) -> timely c cfg (profile_terminal p delays) CELL_request D ->
      exists c1 s',
        get_cell_size_F cost cfg (profile_terminal p delays) flush_before c0 s = (exp_cell cfg p, c1, s') /\
        pend (core s') = (if cell_query_needed cfg c0 then [] else pend (core s)) /\
        attr s' = attr s /\
        now (core s) <= now (core s') <= now (core s) + qtimeout cfg + 2 * c) /\
    (forall delays s D1 D2,
      arrived_all (core s) ->
      timely c cfg (profile_terminal p delays) XTV_request D1 ->
      timely c cfg (profile_terminal p delays) KITTY_request D2 ->
      exists s',
        kitty_is_supported_F cost cfg (profile_terminal p delays) flush_before (s, None)
        = (exp_kitty cfg p, (s', Some (exp_name_version cfg p))) /\
        pend (core s') = [] /\ attr s' = attr s /\
        now (core s) <= now (core s') <= now (core s) + 2 * qtimeout cfg
          + c * (Z.of_nat (length (stream (profile_terminal p delays XTV_request))) + 6)) /\
    (forall delays s D1 D2,
      arrived_all (core s) ->
      timely c cfg (profile_terminal p delays) XTV_request D1 ->
      timely c cfg (profile_terminal p delays) KITTY_request D2 ->
      exists s',
        auto_image_class_F cost cfg (profile_terminal p delays) flush_before (s, None)
        = (Some (exp_auto cfg p), (s', Some (exp_name_version cfg p))) /\
        pend (core s') = [] /\ attr s' = attr s /\
        now (core s) <= now (core s') <= now (core s) + 2 * qtimeout cfg
          + c * (Z.of_nat (length (stream (profile_terminal p delays XTV_request))) + 6)).
Proof. exact getters_report_profile_any_point. Qed.
Print Assumptions C12_getters_report_profile_any_arrival_point.

(** EXCLUDED order — discard the unread input AFTER the request has been written: every reply
    that arrives in the window between write_tty() returning and the end of the flush step is
    discarded with it; the query comes back EMPTY after the whole timeout (and the getters
    report their fall-backs) although the terminal answered correctly and at once *)
Theorem C12_flush_after_write_loses_replies_in_window :
  forall cost cfg term more request s,
    (forall i, 0 <= cost i) -> enabled cfg = true -> 0 < qtimeout cfg -> more [] = true ->
    arrived_all (core s) ->
    Forall (fun u => fst u <= cost (S (tick (core s)))) (term request) ->
    exists s',
      query_F cost cfg term flush_after_write more request s = (Some [], s') /\
      pend (core s') = [] /\ attr s' = attr s /\
      written (core s') = written (core s) ++ [request] /\
      now (core s') = now (core s) + cost (tick (core s)) + cost (S (tick (core s))) + qtimeout cfg
                      + cost (S (S (tick (core s)))).
Proof. exact flush_after_write_loses_window. Qed.
Print Assumptions C12_flush_after_write_loses_replies_in_window.

(** ... so it does not report what the terminal said (witness: kitty 0.26.5 answering at once,
    XTVERSION at the instant the write returns, DA1 one tick later, the flush step costing one
    tick -> (None, None)); the code does *)
Theorem C12_flush_after_write_refuted :
  exists cfg p delays D,
    enabled cfg = true /\ 0 < qtimeout cfg /\ wf_profile p = true /\
    timely 1 cfg (profile_terminal p delays) XTV_request D /\
    Forall (fun u => 0 <= fst u <= 1) (profile_terminal p delays XTV_request) /\
    fst (get_name_version_F (fun _ => 1) cfg (profile_terminal p delays) flush_after_write (ttyA_init cooked []))
      <> exp_name_version cfg p /\
    fst (get_name_version_F (fun _ => 1) cfg (profile_terminal p delays) flush_before (ttyA_init cooked []))
      = exp_name_version cfg p.
Proof. exact flush_after_write_refuted_exists. Qed.
Print Assumptions C12_flush_after_write_refuted.

(** *** the colour-component scaling tied to the source as a theorem (T): the element expression
    of [x_parse_color]'s comprehension is translated from [_ctlseqs.py] on every run into
    [gen/QuerySrc.v] by [harness/tx/tx_query.py]; the model's [scale_component] (what every
    colour theorem above is about) is that expression for EVERY component of hex digits *)
Theorem C12_source_scale_component :
  forall c, c <> nil -> forallb is_hex c = true ->
  scale_component c =
  Some (TI.gen.QuerySrc.src_scale_component (hex_int c) (Z.of_nat (length c))).
Proof. exact TI.proofs.QuerySrcTie.scale_component_defined. Qed.
Print Assumptions C12_source_scale_component.

(** *** [query_terminal] itself tied to the source as a theorem (T): its statements are translated
    from utils.py on every run into the step program [gen/QueryProgSrc.v] by
    [harness/tx/tx_queryprog.py]; run over the tty model ([model/QueryProg.v]) the program IS
    [query_F ... flush_before] — the function every getter theorem above is about — for every
    clock, configuration, terminal, predicate, request and tty state: the discard of unread
    input (TCSAFLUSH) precedes the write, the write precedes the read, the saved attributes
    are re-applied with TCSANOW in the [finally] *)
From TI Require Import model.QueryProg gen.QueryProgSrc proofs.QueryProgTie.
Theorem C12_source_query_terminal :
  forall (cost : nat -> Z) (cfg : config) (term : terminal) (more : list Z -> bool)
         (request : list Z) (s : ttyA),
    qcall cost cfg term more request src_query_terminal s
    = query_F cost cfg term flush_before more request s.
Proof. exact query_prog_is_query_F_lemma. Qed.
Print Assumptions C12_source_query_terminal.

(** the interpretation distinguishes programs: without the discard before the write,
    type-ahead is returned as if it were the reply *)
Theorem C12_source_query_without_discard_differs :
  exists (cost : nat -> Z) (cfg : config) (term : terminal) (more : list Z -> bool) (request : list Z) (s : ttyA),
    fst (qcall cost cfg term more request
               [QGuardEnabled; QSaveOld; QSaveNew; QNoEcho;
                QTryFinally [QSet TCSANOW ANew; QWrite; QReturnRead] [QSet TCSANOW AOld]] s)
    = Some [65%Z]
    /\ fst (query_F cost cfg term flush_before more request s) = Some [].
Proof. exact query_prog_without_discard_differs_lemma. Qed.
Print Assumptions C12_source_query_without_discard_differs.
