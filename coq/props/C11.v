(** C11 — stub while the proofs are being written *)
From Coq Require Import List ZArith Bool Arith.
From TI Require Import model.KittyChunks proofs.KittyChunksProofs.

Theorem C11_anim_branch :
  forall animated frame, frame = true \/ animated = false -> iterm2_branch Anim animated frame = BWhole.
Proof. intros a f H. exact (proj2 (anim_falls_back_to_whole a f) H). Qed.
Print Assumptions C11_anim_branch.
