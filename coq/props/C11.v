(** C11 — image iteration matches frame-by-frame rendering and leaks nothing.

    Only statements, each closed by [exact <lemma>], and [Print Assumptions].

    PART 1 (generator logic, proofs/ImgIterProofs.v).  [ImgIter] (model/ImgIter.v) is the
    code model of [ImageIterator]: the two-phase generator [_animate] as a state machine
    over its suspension points, with the frame cache, [loop_no], the writes to the image's
    seek position and the ghost "the iterator's PIL image has not yet been handed to
    [_close_image]".  [ImgIterSpec] (model/ImgIterSpec.v) is the documented behaviour as a
    function of the history alone.  Rendering + formatting of frame [k] at rendered size [z]
    is the parameter [fmt_frame k z : Ok frame | Eof | Err]; [renderer_ok]: the image has
    N >= 1 frames and EOFError is raised exactly for frame number N.  [hash] is Python's hash
    of the rendered size, [hash_separates hash (sizes_of z0 ops)]: it tells apart the sizes
    the image takes during the history (needed only when frames are cached).
    [trace s ops] lists, per operation, (outcome incl. the frame, image.tell(), loop_no,
    image still open).  [after .. ops] is the state reached by history [ops].

    PART 2 (control flow of the resource handling, proofs/SkelC11.v): effect skeletons,
    translated from the source on every run (draw, _display_animated, _renderer) and
    hand-written (model/ImgSkel.v: _get_render_data and the three _render_image), analysed
    for every path, every iteration count and every fault position ([cfg_c11]: every call
    may raise KeyboardInterrupt or an Exception, before or after taking effect).

    The code modelled is /repo with pending_fixes/C11_close_unrendered_images.diff applied.
    File-descriptor balance, temp-file lifetime and equality of [fmt_frame] with direct
    formatting are NOT theorems: they depend on Pillow, the OS and CPython and are observed
    at run time by the correspondence (harness/props/c11.py). *)
From Coq Require Import List ZArith Bool Arith.
Import ListNotations.
From TI Require Import lib.Eff gen.Skeletons.
From TI Require Import model.KittyChunks proofs.KittyChunksProofs.
From TI Require Import model.ImgIter model.ImgIterSpec proofs.ImgIterProofs.
From TI Require Import model.ImgIterEnv proofs.ImgIterEnvProofs.
From TI Require Import model.ImgSkel proofs.SkelC11.
Local Open Scope Z_scope.

(* ------------------------------------------------------------------ PART 1 *)

(** for EVERY history of next / seek / close / deletion / image-size changes: outcomes
    (frames included), image.tell(), loop_no and the life of the iterator's image are those
    of the specification *)
Theorem C11_imgiter_refines_spec :
  forall (Str Size : Type) (fmt_frame : nat -> Size -> res Str) (hash : Size -> Z) (N : nat)
         (cached : bool) (repeat pos0 : Z) (z0 : Size) (ops : list (op Size)),
    renderer_ok fmt_frame N -> repeat <> 0 ->
    (cached = true -> hash_separates hash (sizes_of z0 ops)) ->
    trace fmt_frame hash N cached (init Str repeat pos0 z0) ops =
    strace fmt_frame N (sinit repeat pos0 z0) ops.
Proof. exact imgiter_refines_spec. Qed.
Print Assumptions C11_imgiter_refines_spec.

(** plain iteration, [repeat] = L+1 > 0: exactly the frames F 0 .. F (N-1), in order, once
    per pass, the seek position following, the countdown showing L+1, L, .., 1; then
    StopIteration for ever with position 0, countdown 0 and the image closed *)
Theorem C11_imgiter_frames :
  forall (Str Size : Type) (fmt_frame : nat -> Size -> res Str) (hash : Size -> Z) (N : nat)
         (cached : bool) (F : nat -> Str) (z0 : Size) (L m : nat) (pos0 : Z),
    renderer_ok fmt_frame N ->
    (forall k, (k < N)%nat -> fmt_frame k z0 = Ok (F k)) ->
    trace fmt_frame hash N cached (init Str (Z.of_nat (S L)) pos0 z0) (repeat Next (S L * N + m)) =
    passes N F (S L) ++ repeat (stopped Str) m.
Proof. exact imgiter_frames. Qed.
Print Assumptions C11_imgiter_frames.

(** a negative [repeat]: the same pass for ever, the countdown unchanged *)
Theorem C11_imgiter_frames_infinite :
  forall (Str Size : Type) (fmt_frame : nat -> Size -> res Str) (hash : Size -> Z) (N : nat)
         (cached : bool) (F : nat -> Str) (z0 : Size) (r : Z) (p : nat) (pos0 : Z),
    renderer_ok fmt_frame N ->
    (forall k, (k < N)%nat -> fmt_frame k z0 = Ok (F k)) -> r < 0 ->
    trace fmt_frame hash N cached (init Str r pos0 z0) (repeat Next (p * N)) =
    concat (repeat (pass_frames N F r) p).
Proof. exact imgiter_frames_infinite. Qed.
Print Assumptions C11_imgiter_frames_infinite.

(** after any history that leaves the iterator started and open, seek(p) replaces the index
    of the next frame and does not consume a pass: the seek moves neither the position nor
    the countdown, the next frame is frame p formatted at the current size (or its failure),
    and the countdown is still the same *)
Theorem C11_seek_replaces_next_index :
  forall (Str Size : Type) (fmt_frame : nat -> Size -> res Str) (hash : Size -> Z) (N : nat)
         (cached : bool) (repeat pos0 : Z) (z0 : Size) (ops : list (op Size)) (p : Z),
    renderer_ok fmt_frame N -> repeat <> 0 ->
    (cached = true -> hash_separates hash (sizes_of z0 ops)) ->
    let s := after fmt_frame hash N cached repeat pos0 z0 ops in
    (ph s = P1 \/ ph s = P2) -> 0 <= p < Z.of_nat N ->
    let s1 := fst (step fmt_frame hash N cached s (Seek p)) in
    let r2 := step fmt_frame hash N cached s1 Next in
    snd (step fmt_frame hash N cached s (Seek p)) = OSeekOk /\ pos s1 = pos s /\ loop_no s1 = loop_no s /\
    loop_no (fst r2) = loop_no s /\ pos (fst r2) = p /\
    snd r2 = match fmt_frame (Z.to_nat p) (size s) with
             | Ok f => OYield (Z.to_nat p) f
             | _ => ORaise
             end.
Proof. exact seek_replaces_next_index. Qed.
Print Assumptions C11_seek_replaces_next_index.

(** after any history: a yielded frame has a valid number k, IS the direct formatting of
    frame k at the image's current size, image.tell() = k, the iterator's image stays open;
    every operation other than next() leaves image.tell() alone *)
Theorem C11_seek_position_tracks_last_yield :
  forall (Str Size : Type) (fmt_frame : nat -> Size -> res Str) (hash : Size -> Z) (N : nat)
         (cached : bool) (repeat pos0 : Z) (z0 : Size) (ops : list (op Size)) (o : op Size),
    renderer_ok fmt_frame N -> repeat <> 0 ->
    (cached = true -> hash_separates hash (sizes_of z0 (ops ++ [o]))) ->
    let s := after fmt_frame hash N cached repeat pos0 z0 ops in
    (forall s' k f, step fmt_frame hash N cached s o = (s', OYield k f) ->
       o = Next /\ (k < N)%nat /\ pos s' = Z.of_nat k /\ fmt_frame k (size s) = Ok f /\ img_open s' = true)
    /\ (o <> Next -> pos (fst (step fmt_frame hash N cached s o)) = pos s).
Proof. exact seek_position_tracks_last_yield. Qed.
Print Assumptions C11_seek_position_tracks_last_yield.

(** when next() first reports the end: image.tell() = 0, loop_no = 0, the source PIL image
    has been sought to frame 0, the iterator is closed and its image handed to _close_image *)
Theorem C11_exhaustion_resets_to_zero :
  forall (Str Size : Type) (fmt_frame : nat -> Size -> res Str) (hash : Size -> Z) (N : nat)
         (cached : bool) (repeat pos0 : Z) (z0 : Size) (ops : list (op Size)) (s' : st Str Size),
    renderer_ok fmt_frame N -> repeat <> 0 ->
    (cached = true -> hash_separates hash (sizes_of z0 ops)) ->
    let s := after fmt_frame hash N cached repeat pos0 z0 ops in
    ph s <> PEnd -> step fmt_frame hash N cached s Next = (s', OStop) ->
    pos s' = 0 /\ loop_no s' = Some 0 /\ src_reset s' = true /\ ph s' = PEnd /\ img_open s' = false.
Proof. exact exhaustion_resets_to_zero. Qed.
Print Assumptions C11_exhaustion_resets_to_zero.

(** a failing frame closes the iterator and its image *)
Theorem C11_failure_closes :
  forall (Str Size : Type) (fmt_frame : nat -> Size -> res Str) (hash : Size -> Z) (N : nat)
         (cached : bool) (repeat pos0 : Z) (z0 : Size) (ops : list (op Size)) (o : op Size) (s' : st Str Size),
    let s := after fmt_frame hash N cached repeat pos0 z0 ops in
    ph s <> PEnd -> step fmt_frame hash N cached s o = (s', ORaise) -> ph s' = PEnd /\ img_open s' = false.
Proof. exact failure_closes. Qed.
Print Assumptions C11_failure_closes.

(** the generator never spins without yielding (the fuel of the model is never exhausted) *)
Theorem C11_never_hangs :
  forall (Str Size : Type) (fmt_frame : nat -> Size -> res Str) (hash : Size -> Z) (N : nat)
         (cached : bool) (repeat pos0 : Z) (z0 : Size) (ops : list (op Size)) (o : op Size),
    renderer_ok fmt_frame N -> repeat <> 0 ->
    (cached = true -> hash_separates hash (sizes_of z0 (ops ++ [o]))) ->
    snd (step fmt_frame hash N cached (after fmt_frame hash N cached repeat pos0 z0 ops) o) <> OHang.
Proof. exact never_hangs. Qed.
Print Assumptions C11_never_hangs.

(** C09 for image iterators: with and without the frame cache the caller sees the same *)
Theorem C11_imgiter_cache_transparent :
  forall (Str Size : Type) (fmt_frame : nat -> Size -> res Str) (hash : Size -> Z) (N : nat)
         (repeat pos0 : Z) (z0 : Size) (ops : list (op Size)),
    renderer_ok fmt_frame N -> repeat <> 0 -> hash_separates hash (sizes_of z0 ops) ->
    trace fmt_frame hash N true (init Str repeat pos0 z0) ops =
    trace fmt_frame hash N false (init Str repeat pos0 z0) ops.
Proof. exact imgiter_cache_transparent. Qed.
Print Assumptions C11_imgiter_cache_transparent.

(** the caching decision of __init__: never for a single pass; otherwise the flag, or
    n_frames <= the bound *)
Theorem C11_single_pass_not_cached : forall c n, cache_enabled 1 c n = false.
Proof. exact single_pass_not_cached. Qed.
Print Assumptions C11_single_pass_not_cached.

(** close() / deletion, in ANY state: the image is handed to _close_image, and from then on
    next() stops, seek() raises, nothing is rendered, image.tell() and loop_no never move *)
Theorem C11_close_is_final :
  forall (Str Size : Type) (fmt_frame : nat -> Size -> res Str) (hash : Size -> Z) (N : nat)
         (cached : bool) (s : st Str Size) (o : op Size) (ops : list (op Size)),
    o = Close \/ o = Drop ->
    trace fmt_frame hash N cached s (o :: ops) =
    (OClosed, pos s, loop_no s, false) :: map (ended_view Str N (pos s) (loop_no s)) ops.
Proof. exact close_is_final. Qed.
Print Assumptions C11_close_is_final.

(** the same after exhaustion or a failure *)
Theorem C11_ended_is_final :
  forall (Str Size : Type) (fmt_frame : nat -> Size -> res Str) (hash : Size -> Z) (N : nat)
         (cached : bool) (s : st Str Size) (ops : list (op Size)),
    ph s = PEnd -> img_open s = false ->
    trace fmt_frame hash N cached s ops = map (ended_view Str N (pos s) (loop_no s)) ops.
Proof. exact ended_is_final. Qed.
Print Assumptions C11_ended_is_final.

(* ---- round 4: runs of consecutive seeks (model/ImgIterEnv.v (b), proofs/ImgIterEnvProofs.v) ---- *)

(** THE LAST SEEK WINS: after any history that leaves the iterator started and open (first
    loop or cached loop), for EVERY run of seeks p1 .. pk, p (k >= 0, positions in range)
    followed by next(): every seek of the run is acknowledged and moves neither
    image.tell() nor loop_no; the frame then yielded is frame p formatted at the current
    size (or its failure, which closes the iterator), image.tell() = p, and no pass is
    consumed.  [seek_run ps] = seek(p) for each p of ps, then next(). *)
Theorem C11_seek_run_last_wins :
  forall (Str Size : Type) (fmt_frame : nat -> Size -> res Str) (hash : Size -> Z) (N : nat)
         (cached : bool) (repeat pos0 : Z) (z0 : Size) (ops : list (op Size)) (ps : list Z) (p : Z),
    renderer_ok fmt_frame N -> repeat <> 0 ->
    (cached = true -> hash_separates hash (sizes_of z0 ops)) ->
    let s := after fmt_frame hash N cached repeat pos0 z0 ops in
    (ph s = P1 \/ ph s = P2) ->
    Forall (fun q => 0 <= q < Z.of_nat N) ps -> 0 <= p < Z.of_nat N ->
    trace fmt_frame hash N cached s (seek_run Size (ps ++ [p])) =
    map (fun _ => (OSeekOk, pos s, loop_no s, true)) (ps ++ [p]) ++
    [match fmt_frame (Z.to_nat p) (size s) with
     | Ok f => (OYield (Z.to_nat p) f, p, loop_no s, true)
     | _ => (ORaise, p, loop_no s, false)
     end].
Proof. exact seek_run_last_wins. Qed.
Print Assumptions C11_seek_run_last_wins.

(** a run of seeks before the first frame: each one is refused (ValueError when out of
    range, TermImageError otherwise), nothing moves, the first next() yields frame 0 *)
Theorem C11_seek_run_before_start :
  forall (Str Size : Type) (fmt_frame : nat -> Size -> res Str) (hash : Size -> Z) (N : nat)
         (cached : bool) (repeat pos0 : Z) (z0 : Size) (qs : list Z) (f : Str),
    repeat <> 0 -> fmt_frame 0%nat z0 = Ok f ->
    trace fmt_frame hash N cached (init Str repeat pos0 z0) (seek_run Size qs) =
    map (fun q => (if in_range N q then OSeekNotStarted else OSeekBad, pos0, None, true)) qs ++
    [(OYield 0 f, 0, Some repeat, true)].
Proof. exact seek_run_before_start. Qed.
Print Assumptions C11_seek_run_before_start.

(** the design in which the seek hand-shake has a second suspension point answering send()
    ([vstep]: a seek received there is acknowledged and its position dropped, so that an
    even number of consecutive seeks is lost) is EXCLUDED: it contradicts the specification
    (seek(6); seek(2); next() yields frame 7) *)
Theorem C11_seek_run_parity_refuted :
  exists ops, vtrace run_fmt Z.of_nat 8 false (vinit nat 3 0 1%nat) ops <> strace run_fmt 8 (sinit 3 0 1%nat) ops.
Proof. exact seek_run_parity_refuted. Qed.
Print Assumptions C11_seek_run_parity_refuted.

(* ---- round 4: the environment changes between two yields (model/ImgIterEnv.v (a)) ---- *)

(** for EVERY history of next / seek / close / deletion / changes of the size SETTING
    (fixed or dynamic) / changes of the ENVIRONMENT (terminal resize, cell ratio), [rsize g e]
    being the rendered size of setting g under environment e: the generator, run on what it
    can see of that history (the rendered sizes, [lower]), shows its caller exactly the
    trace of the specification whose frames are the direct formatting of frame k under the
    (setting, environment) pair IN FORCE AT THE TIME OF EACH YIELD ([fmt_env], [lower2]) *)
Theorem C11_imgiter_env_refines_spec :
  forall (Str Size Setting Env : Type) (rsize : Setting -> Env -> Size)
         (fmt_frame : nat -> Size -> res Str) (hash : Size -> Z) (N : nat)
         (cached : bool) (repeat pos0 : Z) (g0 : Setting) (e0 : Env) (ops : list (eop Setting Env)),
    renderer_ok fmt_frame N -> repeat <> 0 ->
    (cached = true -> hash_separates hash (sizes_of (rsize g0 e0) (lower rsize g0 e0 ops))) ->
    trace fmt_frame hash N cached (init Str repeat pos0 (rsize g0 e0)) (lower rsize g0 e0 ops) =
    strace (fmt_env rsize fmt_frame) N (sinit repeat pos0 (g0, e0)) (lower2 g0 e0 ops).
Proof. exact imgiter_env_refines_spec. Qed.
Print Assumptions C11_imgiter_env_refines_spec.

(** a frame yielded after any such history is the direct formatting of that frame under the
    setting and the environment in force THEN, whatever they were when the cache was filled *)
Theorem C11_env_yield_is_direct_format :
  forall (Str Size Setting Env : Type) (rsize : Setting -> Env -> Size)
         (fmt_frame : nat -> Size -> res Str) (hash : Size -> Z) (N : nat)
         (cached : bool) (repeat pos0 : Z) (g0 : Setting) (e0 : Env) (ops : list (eop Setting Env))
         (s' : st Str Size) (k : nat) (f : Str),
    renderer_ok fmt_frame N -> repeat <> 0 ->
    (cached = true -> hash_separates hash (sizes_of (rsize g0 e0) (lower rsize g0 e0 ops))) ->
    step fmt_frame hash N cached
         (after fmt_frame hash N cached repeat pos0 (rsize g0 e0) (lower rsize g0 e0 ops)) Next = (s', OYield k f) ->
    (k < N)%nat /\ pos s' = Z.of_nat k /\
    fmt_frame k (rsize (fst (cur g0 e0 ops)) (snd (cur g0 e0 ops))) = Ok f.
Proof. exact env_yield_is_direct_format. Qed.
Print Assumptions C11_env_yield_is_direct_format.

(** the design in which cached frames are validated against the size SETTING (a cache key
    that ignores the environment) is EXCLUDED: after a pass that fills the cache and a
    terminal resize it yields stale frames *)
Theorem C11_setting_keyed_cache_refuted :
  exists ops : list (eop nat nat),
    trace (fmt_env ex_rsize env_fmt) (hash_setting_keyed (Env := nat) Z.of_nat) 2 true (init nat 2 0 (0%nat, 0%nat))
          (lower2 0%nat 0%nat ops) <>
    strace (fmt_env ex_rsize env_fmt) 2 (sinit 2 0 (0%nat, 0%nat)) (lower2 0%nat 0%nat ops).
Proof. exact setting_keyed_cache_refuted. Qed.
Print Assumptions C11_setting_keyed_cache_refuted.

(** native-animation requests fall back to whole-image frames (decision rule of
    ITerm2Image._render_image; the frames of an iterator are rendered with frame = True) *)
Theorem C11_anim_branch :
  forall animated frame, frame = true \/ animated = false -> iterm2_branch Anim animated frame = BWhole.
Proof. intros a f H. exact (proj2 (anim_falls_back_to_whole a f) H). Qed.
Print Assumptions C11_anim_branch.

(* ------------------------------------------------------------------ PART 2 *)

(** draw(): on EVERY path and whatever raises wherever, the image it opened has been handed
    to _close_image, the size setting and the seek position are those at entry *)
Theorem C11_draw_leaves_nothing :
  forall vs, length vs = nv_BaseImage_draw ->
  forall o s', Eff.eval cfg_c11 false (protect sk_BaseImage_draw) (Eff.init vs) o s' ->
    imgs_closed s' = true /\ szmod s' = false /\ skmod s' = false.
Proof. exact draw_leaves_nothing. Qed.
Print Assumptions C11_draw_leaves_nothing.

Theorem C11_images_balanced :
  forall vs, length vs = nv_BaseImage_draw ->
  forall o s', Eff.eval cfg_c11 false (protect sk_BaseImage_draw) (Eff.init vs) o s' -> imgs_closed s' = true.
Proof. exact images_balanced. Qed.
Print Assumptions C11_images_balanced.

(** an animated draw() puts the seek position back and closes its frame iterator (fault
    positions: frame renders incl. the generator's next(), frame writes, flushes, sleeps) *)
Theorem C11_draw_restores_seek :
  forall vs, length vs = nv_BaseImage_draw ->
  forall o s', Eff.eval cfg_draw false (protect sk_BaseImage_draw) (Eff.init vs) o s' ->
    skmod s' = false /\ iter_open s' = false.
Proof. exact draw_restores_seek. Qed.
Print Assumptions C11_draw_restores_seek.

Theorem C11_display_animated_restores :
  forall vs, length vs = nv_BaseImage__display_animated ->
  forall o s', Eff.eval cfg_c11 false sk_BaseImage__display_animated (Eff.init vs) o s' ->
    skmod s' = false /\ imgs_closed s' = true.
Proof. exact display_animated_restores. Qed.
Print Assumptions C11_display_animated_restores.

Theorem C11_display_animated_closes_iterator :
  forall vs, length vs = nv_BaseImage__display_animated ->
  forall o s', Eff.eval cfg_draw false sk_BaseImage__display_animated (Eff.init vs) o s' -> iter_open s' = false.
Proof. exact display_animated_closes_iterator. Qed.
Print Assumptions C11_display_animated_closes_iterator.

(** rendering never alters the image's size setting (fixed or dynamic) *)
Theorem C11_renderer_restores_size :
  forall vs, length vs = nv_BaseImage__renderer ->
  forall o s', Eff.eval cfg_all false (sk_BaseImage__renderer (Op Render)) (Eff.init vs) o s' -> szmod s' = false.
Proof. exact renderer_restores_size. Qed.
Print Assumptions C11_renderer_restores_size.

Theorem C11_old_draw_restores_size :
  forall vs, length vs = nv_BaseImage_draw ->
  forall o s', Eff.eval cfg_all false (protect sk_BaseImage_draw) (Eff.init vs) o s' -> szmod s' = false.
Proof. exact old_draw_restores_size. Qed.
Print Assumptions C11_old_draw_restores_size.

(** _renderer: if the renderer raises, the image has been handed to _close_image *)
Theorem C11_renderer_closes_on_failure :
  forall vs, length vs = nv_BaseImage__renderer ->
  forall k s', Eff.eval cfg_c11 false (sk_BaseImage__renderer (sq [Op Other; Op Render; Op Other])) (Eff.init vs) (Eff.ORaise k) s' ->
    imgs_closed s' = true.
Proof. exact renderer_closes_on_failure. Qed.
Print Assumptions C11_renderer_closes_on_failure.

(** format() / str() / a still draw() in each style: _renderer around _render_image with
    frame = False closes the image on EVERY exit and restores the size setting *)
Theorem C11_format_images_balanced :
  forall r, In r render_images ->
  forall vs, length vs = nv_imgskel ->
  forall o s', Eff.eval cfg_c11 false (sk_BaseImage__renderer (as_renderer r)) (Eff.init vs) o s' ->
    imgs_closed s' = true /\ szmod s' = false.
Proof. exact format_images_balanced. Qed.
Print Assumptions C11_format_images_balanced.

(** a _render_image(img, frame=False) that returns has handed img to _close_image *)
Theorem C11_render_image_closes_its_image :
  forall r, In r render_images ->
  forall vs, length vs = nv_imgskel ->
  forall o s', Eff.eval cfg_c11 false (sq [Op (OpenImg 0); as_renderer r]) (Eff.init vs) o s' ->
    (forall k, o <> Eff.ORaise k) -> imgs_closed s' = true.
Proof. exact render_image_closes_its_image. Qed.
Print Assumptions C11_render_image_closes_its_image.

(** a frame of an iterator (frame = True) never closes the image it is given, on no path *)
Theorem C11_frame_image_never_closed :
  forall r, In r render_images ->
  forall vs, length vs = nv_imgskel ->
  forall o s', Eff.eval cfg_c11 false (as_frame r) (Eff.init vs) o s' -> Eff.get 0 (Eff.imgs s') = true.
Proof. exact frame_image_never_closed. Qed.
Print Assumptions C11_frame_image_never_closed.

(** BEFORE the repair (no handler in _renderer) the balance is refuted for every style *)
Theorem C11_unguarded_renderer_leaks :
  forallb (fun r => negb (analyze cfg_c11 nv_imgskel (sq [Op (OpenImg 0); as_renderer r])
                            (fun _ s => imgs_closed s))) render_images = true.
Proof. exact unguarded_renderer_leaks. Qed.
Print Assumptions C11_unguarded_renderer_leaks.

(* ---------------------------------------------------------------------------------------- *)
(** PART 1c (round 7, proofs/ImgIterReentProofs.v): life-cycle operations that arrive WHILE a
    [next()] of the same iterator is executing (another thread, a signal handler, a re-entrant
    call from the renderer).  model/ImgIterReent.v: the state carries [att] (the attributes
    _animator / _img are still set), [close()] is a parameter [closef executing state]; the code's
    is [close_code] ((1) generator.close() raises ValueError while the generator executes, before
    anything is done).  [RNextCD m]: a next() during which m close() calls arrive.  [rtrace] lists
    per operation what [trace] lists plus the number of concurrent calls refused; [srtrace] is the
    specification (model/ImgIterSpec.v on the sequential erasure, every concurrent call on a live
    iterator refused). *)
From TI Require Import model.ImgIterReent proofs.ImgIterReentProofs.

(** a close() that arrives while the generator of a live iterator executes is refused and changes
    nothing *)
Theorem C11_close_during_next_is_refused :
  forall (Str Size : Type) (r : rst Str Size), att r = true -> close_code true r = (r, true).
Proof. exact close_during_refused. Qed.
Print Assumptions C11_close_during_next_is_refused.

(** for EVERY history of next / seek / close / drop / size changes and next() calls with any number
    of concurrent close() calls: the caller sees the specification's trace of the sequential
    erasure (outcomes, frames, image.tell(), loop_no, image still open), and every concurrent
    call on a live iterator is refused *)
Theorem C11_reent_refines_spec :
  forall (Str Size : Type) (fmt_frame : nat -> Size -> res Str) (hash : Size -> Z) (N : nat)
         cached repeat pos0 z0 (ops : list (rop Size)),
    renderer_ok fmt_frame N -> repeat <> 0 ->
    (cached = true -> hash_separates hash (sizes_of z0 (map (@erase Size) ops))) ->
    rtrace fmt_frame hash N cached (@close_code Str Size) (rinit Str repeat pos0 z0) ops
    = srtrace fmt_frame N (sinit repeat pos0 z0) ops.
Proof. exact reent_refines_spec. Qed.
Print Assumptions C11_reent_refines_spec.

(** open/close balance under concurrency: after ANY such history — whatever was refused before —
    the next close() / deletion hands the iterator's image to _close_image *)
Theorem C11_reent_release :
  forall (Str Size : Type) (fmt_frame : nat -> Size -> res Str) (hash : Size -> Z) (N : nat)
         cached repeat pos0 z0 (ops : list (rop Size)) o,
    renderer_ok fmt_frame N -> repeat <> 0 ->
    (cached = true -> hash_separates hash (sizes_of z0 (map (@erase Size) ops))) ->
    o = Close \/ o = Drop ->
    let r := rrun fmt_frame hash N cached (@close_code Str Size) (rinit Str repeat pos0 z0)
                  (ops ++ [RPlain o]) in
    img_open (base r) = false /\ att r = false.
Proof. exact reent_release. Qed.
Print Assumptions C11_reent_release.

(** the excluded design — close() detaches _animator / _img BEFORE releasing them — is
    expressible in the same model and refuted: one refused close() and the image is never closed,
    whatever clean-up follows *)
Theorem C11_detach_before_release_refuted :
  exists ops : list (rop nat),
    let r := rrun ex_fmt Z.of_nat 3 false (@close_detach_first nat nat) (rinit nat 1 0 5%nat)
                  (ops ++ [RPlain Close; RPlain Drop]) in
    img_open (base r) = true.
Proof. exact detach_first_refuted. Qed.
Print Assumptions C11_detach_before_release_refuted.

(** ** Round 8: faults of the OUTPUT STREAM inside the clean-up of an animated draw()
    (model/ImgIterFin.v, proofs/ImgIterFinProofs.v).  The [finally] block of
    [_display_animated] is a sequence of steps; the stream it writes to may have stopped
    accepting data (closed pipe, vanished pty), and then stays broken: the clean-up's own
    write fails.  [anim_draw cleanup body pos0 f]: the body (any renders, each moving the
    current frame, and any stream calls) against a stream accepting [f] further calls
    ([None]: for ever), cut at the first refused call, then the clean-up steps, cut likewise. *)
From TI Require Import model.ImgIterFin proofs.ImgIterFinProofs.

(** for EVERY order of clean-up steps in which the close of the iterator, the close of the
    image and the restore of the position all stand before the first stream call, EVERY body
    and EVERY position at which the stream starts failing (body or clean-up): the current
    frame is the one before the call, iterator and image are closed *)
Theorem C11_ordered_cleanup_restores :
  forall steps, restores_first steps = true ->
  forall body pos0 f, fin_ok pos0 (fst (anim_draw steps body pos0 f)) = true.
Proof. exact anim_draw_restores. Qed.
Print Assumptions C11_ordered_cleanup_restores.

(** the code's order (common.py:1360-1366) *)
Theorem C11_anim_cleanup_restores_under_stream_faults :
  forall body pos0 f,
    let s := fst (anim_draw code_cleanup body pos0 f) in
    a_pos s = pos0 /\ a_iter_open s = false /\ a_img_open s = false.
Proof. exact anim_cleanup_restores_under_stream_faults. Qed.
Print Assumptions C11_anim_cleanup_restores_under_stream_faults.

(** draw() raises exactly when the stream refused one of the calls made (k-th call, k below
    the number of calls of the fault-free run) *)
Theorem C11_anim_draw_raises_iff :
  forall body pos0 k,
    snd (anim_draw code_cleanup body pos0 (Some k)) = Nat.ltb k (stream_calls_body body + 1)%nat.
Proof. exact anim_draw_raises_iff. Qed.
Print Assumptions C11_anim_draw_raises_iff.

(** the order is that of the SOURCE: the [finally] block of the generated skeleton of
    _display_animated is exactly [code_cleanup]; every stream call in it comes after the close
    of the iterator, the close of the image and the restore of the seek position *)
Theorem C11_source_anim_cleanup_order :
  exists steps, source_cleanup sk_BaseImage__display_animated = Some steps /\ restores_first steps = true.
Proof. exact source_anim_cleanup_order. Qed.
Print Assumptions C11_source_anim_cleanup_order.

Theorem C11_source_anim_cleanup_is_model :
  source_cleanup sk_BaseImage__display_animated = Some code_cleanup.
Proof. exact source_anim_cleanup_is_model. Qed.
Print Assumptions C11_source_anim_cleanup_is_model.

(** the same over the effect semantics (lib/Eff.v) of the generated skeletons with NO block
    exempt from faults ([unprotect]): stream calls, the interrupted-draw handler, renders and
    sleep may raise KeyboardInterrupt or an Exception before or after taking effect, inside
    the [finally] blocks and [except] handlers too; at exit of _display_animated / of the whole
    old-API draw() the seek position is the one at entry, the iterator is closed, every image
    opened is closed (and the size setting is the one at entry) *)
Theorem C11_source_display_animated_restores_under_stream_faults :
  forall vs, length vs = nv_BaseImage__display_animated ->
  forall o s', Eff.eval cfg_stream false (Eff.unprotect sk_BaseImage__display_animated) (Eff.init vs) o s' ->
    Eff.skmod s' = false /\ Eff.iter_open s' = false /\ Eff.imgs_closed s' = true.
Proof. exact source_display_animated_restores. Qed.
Print Assumptions C11_source_display_animated_restores_under_stream_faults.

Theorem C11_source_draw_restores_under_stream_faults :
  forall vs, length vs = nv_BaseImage_draw ->
  forall o s', Eff.eval cfg_stream false (Eff.unprotect sk_BaseImage_draw) (Eff.init vs) o s' ->
    Eff.skmod s' = false /\ Eff.szmod s' = false /\ Eff.iter_open s' = false /\ Eff.imgs_closed s' = true.
Proof. exact source_draw_restores. Qed.
Print Assumptions C11_source_draw_restores_under_stream_faults.

(** the excluded order -- the final cursor move written and flushed FIRST -- is expressible and
    refuted: a stream that broke during the animation leaves the image at the last rendered
    frame with iterator and image open; the order criterion rejects it; so does the effect
    analysis of a skeleton with that order *)
Theorem C11_anim_cleanup_write_first_refuted :
  exists body pos0 f, let s := fst (anim_draw write_first_cleanup body pos0 f) in
    a_pos s <> pos0 /\ a_iter_open s = true /\ a_img_open s = true.
Proof. exact anim_cleanup_write_first_refuted. Qed.
Print Assumptions C11_anim_cleanup_write_first_refuted.

Theorem C11_source_level_write_first_refuted :
  Eff.analyze cfg_stream 0 (Eff.unprotect sk_write_first) anim_fin_post = false
  /\ Eff.analyze cfg_stream 0 (Eff.unprotect sk_code_order) anim_fin_post = true
  /\ source_cleanup sk_write_first = Some write_first_cleanup.
Proof. exact source_level_write_first_refuted. Qed.
Print Assumptions C11_source_level_write_first_refuted.

(** ---- Round 9: the IMAGE's close() at any position of a history (model/ImgIterClose.v,
    proofs/ImgIterCloseProofs.v).  Operations: ImageIterator(image) (any number of iterators over
    one image), next() (on a finalized image: yields or fails, as the environment decides),
    iterator.close(), image.close(); source kinds file / URL / caller's PIL image.  The model is the
    code AFTER pending_fixes/C11_iterator_close_after_image_close.diff. ---- *)
From TI Require Import model.ImgIterClose proofs.ImgIterCloseProofs.

(** after an explicit close() of every object the history created -- the image and every iterator,
    in any order, at any positions, whatever else happens in between -- and BEFORE anything is
    dropped or collected: no file opened by the library is open, the URL temp copy is gone, the
    caller's PIL image has not been closed *)
Theorem C11_close_order_irrelevant : forall k h,
  all_closed h = true ->
  let s := run DFixed k h in
  files_open s = 0%nat /\ tmp_exists k s = false /\ caller_closed s = false.
Proof. exact close_order_irrelevant. Qed.
Print Assumptions C11_close_order_irrelevant.

(** for EVERY history (closed or not): the caller's PIL image is never closed *)
Theorem C11_caller_image_never_closed : forall k h, caller_closed (run DFixed k h) = false.
Proof. exact caller_image_untouched. Qed.
Print Assumptions C11_caller_image_never_closed.

(** for EVERY history and design: the temp copy of a URL source exists exactly while image.close()
    has not been called, whatever the iterators do *)
Theorem C11_temp_copy_iff_image_open : forall d k h,
  tmp_exists k (run d k h) = is_url k && negb (img_closed h).
Proof. exact temp_copy_iff_image_open. Qed.
Print Assumptions C11_temp_copy_iff_image_open.

(** the three designs differ only once the image is finalized before one of its iterators *)
Theorem C11_designs_agree_without_finalization : forall d k h s,
  fin s = false -> img_closed h = false -> run_from d k s h = run_from DFixed k s h.
Proof. exact designs_agree_without_finalization. Qed.
Print Assumptions C11_designs_agree_without_finalization.

(** excluded designs.  Release through the finalized image's [_source] test (the code before the
    fix): image.close(); iterator.close() leaves the iterator's file open for file and URL sources *)
Theorem C11_close_through_source_test_refuted :
  exists h, all_closed h = true
    /\ files_open (run DSourceTest KFile h) = 1%nat /\ files_open (run DSourceTest KUrl h) = 1%nat
    /\ files_open (run DFixed KFile h) = 0%nat.
Proof. exact source_test_close_leaks. Qed.
Print Assumptions C11_close_through_source_test_refuted.

(** [img is not getattr(image, "_source", None)]: no leak, but the caller's PIL image is closed *)
Theorem C11_close_through_getattr_refuted :
  exists h, all_closed h = true
    /\ caller_closed (run DGetattr KPil h) = true /\ files_open (run DGetattr KFile h) = 0%nat.
Proof. exact getattr_close_closes_caller_image. Qed.
Print Assumptions C11_close_through_getattr_refuted.
