(** C20 — style settings resolve instance -> nearest class -> default, and unset restores.

    Only statements, each closed by [exact <lemma>], and [Print Assumptions].
    [k] ranges over the four inheritable settings ([k_render_method n],
    [k_forced_support], [k_jpeg_quality], [k_read_from_file]); the theorems hold for
    every [kind], every class forest ([wf_par]), every history. *)
From Coq Require Import List ZArith Bool Arith.
Import ListNotations.
From TI Require Import model.Settings proofs.SettingsProofs.
From TI Require Import model.SettingsRender proofs.SettingsRenderProofs.

(** effective value of a class = own value if set, else nearest ancestor's, else default —
    after every history of set / unset / invalid-set operations on any class or instance *)
Theorem C20_class_lookup_spec :
  forall k par, wf_par par -> forall ops c,
    cls_eff k par (run k par ops) c = spec_cls k par ops c.
Proof. exact cls_lookup_spec. Qed.
Print Assumptions C20_class_lookup_spec.

Theorem C20_instance_lookup_spec :
  forall k par, wf_par par -> forall icls ops i,
    inst_eff k par icls (run k par ops) i = spec_inst k par icls ops i.
Proof. exact inst_lookup_spec. Qed.
Print Assumptions C20_instance_lookup_spec.

(** unsetting at a level makes it follow the next one *)
Theorem C20_class_unset_follows_parent :
  forall k par, wf_par par -> forall ops c,
    k_cls_unset k = true -> 0 < c ->
    let s' := fst (step k par (run k par ops) (ClsUnset c)) in
    cls_eff k par s' c = cls_eff k par s' (par c).
Proof. exact cls_unset_follows_parent. Qed.
Print Assumptions C20_class_unset_follows_parent.

Theorem C20_root_unset_gives_default :
  forall k par, wf_par par -> forall ops,
    k_cls_unset k = true ->
    cls_eff k par (fst (step k par (run k par ops) (ClsUnset 0))) 0 = k_default k.
Proof. exact root_unset_gives_default. Qed.
Print Assumptions C20_root_unset_gives_default.

Theorem C20_instance_unset_follows_class :
  forall k par icls ops i,
    k_inst_set k = true ->
    let s' := fst (step k par (run k par ops) (InstUnset i)) in
    inst_eff k par icls s' i = cls_eff k par s' (icls i).
Proof. exact inst_unset_follows_class. Qed.
Print Assumptions C20_instance_unset_follows_class.

(** setting never changes what ancestors or siblings see (from any state) *)
Theorem C20_class_op_is_local :
  forall k par s o d,
    (match o with ClsSet c _ | ClsUnset c => anc par d c d = false | _ => True end) ->
    cls_eff k par (fst (step k par s o)) d = cls_eff k par s d.
Proof. exact class_op_is_local. Qed.
Print Assumptions C20_class_op_is_local.

Theorem C20_instance_op_is_local :
  forall k par icls s o j,
    (match o with InstSet i _ | InstUnset i => j <> i | _ => False end) ->
    inst_eff k par icls (fst (step k par s o)) j = inst_eff k par icls s j.
Proof. exact inst_op_is_local. Qed.
Print Assumptions C20_instance_op_is_local.

(** invalid values / instance-level writes to class-only settings: rejected, no change *)
Theorem C20_rejected_no_change :
  forall k par s o, snd (step k par s o) = Rejected -> fst (step k par s o) = s.
Proof. exact rejected_no_change. Qed.
Print Assumptions C20_rejected_no_change.

Theorem C20_class_set_rejected_iff_invalid :
  forall k par s c v, snd (step k par s (ClsSet c v)) = Rejected <-> k_valid k v = false.
Proof. exact cls_set_rejected_iff. Qed.
Print Assumptions C20_class_set_rejected_iff_invalid.

Theorem C20_class_only_instance_write_rejected :
  forall k par s i v, k_inst_set k = false ->
    step k par s (InstSet i v) = (s, Rejected) /\ step k par s (InstUnset i) = (s, Rejected).
Proof. exact class_only_instance_write_rejected. Qed.
Print Assumptions C20_class_only_instance_write_rejected.

(** the render method actually used is the effective one unless overridden for the call *)
Theorem C20_render_uses_effective_unless_overridden :
  forall k par icls s i,
    render_method k par icls s i None = inst_eff k par icls s i /\
    forall m, render_method k par icls s i (Some m) = m.
Proof. intros; split; [exact (render_uses_effective k par icls s i) | exact (render_override_wins k par icls s i)]. Qed.
Print Assumptions C20_render_uses_effective_unless_overridden.

(** the native-animation size limit is one global value shared by all classes *)
Theorem C20_native_anim_global :
  forall ops c1 c2, gread (grun ops) c1 = gspec ops /\ gread (grun ops) c2 = gspec ops.
Proof. exact native_anim_global. Qed.
Print Assumptions C20_native_anim_global.

(** ** Round 4: the method a render ACTUALLY uses, over histories that interleave set / unset
    of the render method at every level, operations on the global native-animation limit
    and renders of sources of every kind and data size ([model/SettingsRender.v]).

    [render_used] is the decision as the code takes it (it reads the data size and the
    limit, for the warning); [spec_render] / [spec_rtrace] state the documented rule on
    the history alone, without size or limit in the method. *)

(** every render of every history reports what the documented rule says *)
Theorem C20_render_trace_spec :
  forall k par, wf_par par -> forall icls src h,
    rtrace k par icls src (rinit k) h = spec_rtrace k par icls src [] h.
Proof. exact rtrace_spec. Qed.
Print Assumptions C20_render_trace_spec.

(** after every history, whatever the limit then is and whatever the data size: a render
    without a per-call method uses the instance's effective method (own, else nearest
    class's, else default) on every source that method applies to ... *)
Theorem C20_render_uses_effective_after_history :
  forall k par, wf_par par -> forall icls src h i fr,
    applies (spec_inst k par icls (meth_ops h) i) (s_animated src i) fr = true ->
    forall x, snd (rstep k par icls src (rrun k par h) (RRender i None fr)) = Some x ->
    used x = spec_inst k par icls (meth_ops h) i.
Proof. exact render_uses_effective_after_history. Qed.
Print Assumptions C20_render_uses_effective_after_history.

(** ... and a per-call method wins *)
Theorem C20_render_override_after_history :
  forall k par, wf_par par -> forall icls src h i m fr,
    applies m (s_animated src i) fr = true ->
    forall x, snd (rstep k par icls src (rrun k par h) (RRender i (Some m) fr)) = Some x ->
    used x = m.
Proof. exact render_override_after_history. Qed.
Print Assumptions C20_render_override_after_history.

(** the data size and the limit never enter the choice of the method (for EVERY value of
    both) ... *)
Theorem C20_render_method_ignores_limit :
  forall eff ov animated frame size limit size' limit',
    used (render_used eff ov animated frame size limit)
    = used (render_used eff ov animated frame size' limit').
Proof. exact render_used_ignores_limit. Qed.
Print Assumptions C20_render_method_ignores_limit.

Theorem C20_limit_ops_do_not_change_method :
  forall k par, wf_par par -> forall icls src h g i ov fr x y,
    snd (rstep k par icls src (rrun k par h) (RRender i ov fr)) = Some x ->
    snd (rstep k par icls src (rrun k par (h ++ [RLim g])) (RRender i ov fr)) = Some y ->
    used x = used y.
Proof. exact limit_ops_do_not_change_method. Qed.
Print Assumptions C20_limit_ops_do_not_change_method.

(** ... the limit decides the warning only: issued exactly for a native animation whose
    data size is above it *)
Theorem C20_render_warned_iff :
  forall eff ov animated frame size limit,
    warned (render_used eff ov animated frame size limit) = true
    <-> used (render_used eff ov animated frame size limit) = ANIM /\ (limit < size)%Z.
Proof. exact render_warned_iff. Qed.
Print Assumptions C20_render_warned_iff.

(** the only documented substitution: ANIM -> WHOLE for a non-animated source or a frame
    of an iterator / animation *)
Theorem C20_render_anim_fallback :
  forall eff ov animated frame size limit,
    let m := match ov with Some m => m | None => eff end in
    applies m animated frame = false ->
    used (render_used eff ov animated frame size limit) = WHOLE.
Proof. exact render_used_fallback. Qed.
Print Assumptions C20_render_anim_fallback.
