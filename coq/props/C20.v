(** C20 — style settings resolve instance -> nearest class -> default, and unset restores.

    Only statements, each closed by [exact <lemma>], and [Print Assumptions].
    [k] ranges over the four inheritable settings ([k_render_method n],
    [k_forced_support], [k_jpeg_quality], [k_read_from_file]); the theorems hold for
    every [kind], every class forest ([wf_par]), every history. *)
From Coq Require Import List ZArith Bool Arith.
Import ListNotations.
From TI Require Import model.Settings proofs.SettingsProofs.

(** effective value of a class = own value if set, else nearest ancestor's, else default —
    after every history of set / unset / invalid-set operations on any class or instance *)
Theorem C20_class_lookup_spec :
  forall k par, wf_par par -> forall ops c,
    cls_eff k par (run k par ops) c = spec_cls k par ops c.
Proof. exact cls_lookup_spec. Qed.
Print Assumptions C20_class_lookup_spec.

Theorem C20_instance_lookup_spec :
  forall k par, wf_par par -> forall icls ops i,
    inst_eff k par icls (run k par ops) i = spec_inst k par icls ops i.
Proof. exact inst_lookup_spec. Qed.
Print Assumptions C20_instance_lookup_spec.

(** unsetting at a level makes it follow the next one *)
Theorem C20_class_unset_follows_parent :
  forall k par, wf_par par -> forall ops c,
    k_cls_unset k = true -> 0 < c ->
    let s' := fst (step k par (run k par ops) (ClsUnset c)) in
    cls_eff k par s' c = cls_eff k par s' (par c).
Proof. exact cls_unset_follows_parent. Qed.
Print Assumptions C20_class_unset_follows_parent.

Theorem C20_root_unset_gives_default :
  forall k par, wf_par par -> forall ops,
    k_cls_unset k = true ->
    cls_eff k par (fst (step k par (run k par ops) (ClsUnset 0))) 0 = k_default k.
Proof. exact root_unset_gives_default. Qed.
Print Assumptions C20_root_unset_gives_default.

Theorem C20_instance_unset_follows_class :
  forall k par icls ops i,
    k_inst_set k = true ->
    let s' := fst (step k par (run k par ops) (InstUnset i)) in
    inst_eff k par icls s' i = cls_eff k par s' (icls i).
Proof. exact inst_unset_follows_class. Qed.
Print Assumptions C20_instance_unset_follows_class.

(** setting never changes what ancestors or siblings see (from any state) *)
Theorem C20_class_op_is_local :
  forall k par s o d,
    (match o with ClsSet c _ | ClsUnset c => anc par d c d = false | _ => True end) ->
    cls_eff k par (fst (step k par s o)) d = cls_eff k par s d.
Proof. exact class_op_is_local. Qed.
Print Assumptions C20_class_op_is_local.

Theorem C20_instance_op_is_local :
  forall k par icls s o j,
    (match o with InstSet i _ | InstUnset i => j <> i | _ => False end) ->
    inst_eff k par icls (fst (step k par s o)) j = inst_eff k par icls s j.
Proof. exact inst_op_is_local. Qed.
Print Assumptions C20_instance_op_is_local.

(** invalid values / instance-level writes to class-only settings: rejected, no change *)
Theorem C20_rejected_no_change :
  forall k par s o, snd (step k par s o) = Rejected -> fst (step k par s o) = s.
Proof. exact rejected_no_change. Qed.
Print Assumptions C20_rejected_no_change.

Theorem C20_class_set_rejected_iff_invalid :
  forall k par s c v, snd (step k par s (ClsSet c v)) = Rejected <-> k_valid k v = false.
Proof. exact cls_set_rejected_iff. Qed.
Print Assumptions C20_class_set_rejected_iff_invalid.

Theorem C20_class_only_instance_write_rejected :
  forall k par s i v, k_inst_set k = false ->
    step k par s (InstSet i v) = (s, Rejected) /\ step k par s (InstUnset i) = (s, Rejected).
Proof. exact class_only_instance_write_rejected. Qed.
Print Assumptions C20_class_only_instance_write_rejected.

(** the render method actually used is the effective one unless overridden for the call *)
Theorem C20_render_uses_effective_unless_overridden :
  forall k par icls s i,
    render_method k par icls s i None = inst_eff k par icls s i /\
    forall m, render_method k par icls s i (Some m) = m.
Proof. intros; split; [exact (render_uses_effective k par icls s i) | exact (render_override_wins k par icls s i)]. Qed.
Print Assumptions C20_render_uses_effective_unless_overridden.

(** the native-animation size limit is one global value shared by all classes *)
Theorem C20_native_anim_global :
  forall ops c1 c2, gread (grun ops) c1 = gspec ops /\ gread (grun ops) c2 = gspec ops.
Proof. exact native_anim_global. Qed.
Print Assumptions C20_native_anim_global.
