(** C20 — style settings resolve instance -> nearest class -> default, and unset restores.

    Only statements, each closed by [exact <lemma>], and [Print Assumptions].
    [k] ranges over the four inheritable settings ([k_render_method n],
    [k_forced_support], [k_jpeg_quality], [k_read_from_file]); the theorems hold for
    every [kind], every class forest ([wf_par]), every history. *)
From Coq Require Import List ZArith Bool Arith.
Import ListNotations.
From TI Require Import model.Settings proofs.SettingsProofs.
From TI Require Import model.SettingsRender proofs.SettingsRenderProofs.
From TI Require Import model.SettingsVal proofs.SettingsValProofs.
From TI Require Import model.SettingsMro proofs.SettingsMroProofs proofs.C3Proofs.

(** effective value of a class = own value if set, else nearest ancestor's, else default —
    after every history of set / unset / invalid-set operations on any class or instance *)
Theorem C20_class_lookup_spec :
  forall k par, wf_par par -> forall ops c,
    cls_eff k par (run k par ops) c = spec_cls k par ops c.
Proof. exact cls_lookup_spec. Qed.
Print Assumptions C20_class_lookup_spec.

Theorem C20_instance_lookup_spec :
  forall k par, wf_par par -> forall icls ops i,
    inst_eff k par icls (run k par ops) i = spec_inst k par icls ops i.
Proof. exact inst_lookup_spec. Qed.
Print Assumptions C20_instance_lookup_spec.

(** unsetting at a level makes it follow the next one *)
Theorem C20_class_unset_follows_parent :
  forall k par, wf_par par -> forall ops c,
    k_cls_unset k = true -> 0 < c ->
    let s' := fst (step k par (run k par ops) (ClsUnset c)) in
    cls_eff k par s' c = cls_eff k par s' (par c).
Proof. exact cls_unset_follows_parent. Qed.
Print Assumptions C20_class_unset_follows_parent.

Theorem C20_root_unset_gives_default :
  forall k par, wf_par par -> forall ops,
    k_cls_unset k = true ->
    cls_eff k par (fst (step k par (run k par ops) (ClsUnset 0))) 0 = k_default k.
Proof. exact root_unset_gives_default. Qed.
Print Assumptions C20_root_unset_gives_default.

Theorem C20_instance_unset_follows_class :
  forall k par icls ops i,
    k_inst_set k = true ->
    let s' := fst (step k par (run k par ops) (InstUnset i)) in
    inst_eff k par icls s' i = cls_eff k par s' (icls i).
Proof. exact inst_unset_follows_class. Qed.
Print Assumptions C20_instance_unset_follows_class.

(** setting never changes what ancestors or siblings see (from any state) *)
Theorem C20_class_op_is_local :
  forall k par s o d,
    (match o with ClsSet c _ | ClsUnset c => anc par d c d = false | _ => True end) ->
    cls_eff k par (fst (step k par s o)) d = cls_eff k par s d.
Proof. exact class_op_is_local. Qed.
Print Assumptions C20_class_op_is_local.

Theorem C20_instance_op_is_local :
  forall k par icls s o j,
    (match o with InstSet i _ | InstUnset i => j <> i | _ => False end) ->
    inst_eff k par icls (fst (step k par s o)) j = inst_eff k par icls s j.
Proof. exact inst_op_is_local. Qed.
Print Assumptions C20_instance_op_is_local.

(** invalid values / instance-level writes to class-only settings: rejected, no change *)
Theorem C20_rejected_no_change :
  forall k par s o, snd (step k par s o) = Rejected -> fst (step k par s o) = s.
Proof. exact rejected_no_change. Qed.
Print Assumptions C20_rejected_no_change.

Theorem C20_class_set_rejected_iff_invalid :
  forall k par s c v, snd (step k par s (ClsSet c v)) = Rejected <-> k_valid k v = false.
Proof. exact cls_set_rejected_iff. Qed.
Print Assumptions C20_class_set_rejected_iff_invalid.

Theorem C20_class_only_instance_write_rejected :
  forall k par s i v, k_inst_set k = false ->
    step k par s (InstSet i v) = (s, Rejected) /\ step k par s (InstUnset i) = (s, Rejected).
Proof. exact class_only_instance_write_rejected. Qed.
Print Assumptions C20_class_only_instance_write_rejected.

(** the render method actually used is the effective one unless overridden for the call *)
Theorem C20_render_uses_effective_unless_overridden :
  forall k par icls s i,
    render_method k par icls s i None = inst_eff k par icls s i /\
    forall m, render_method k par icls s i (Some m) = m.
Proof. intros; split; [exact (render_uses_effective k par icls s i) | exact (render_override_wins k par icls s i)]. Qed.
Print Assumptions C20_render_uses_effective_unless_overridden.

(** the native-animation size limit is one global value shared by all classes *)
Theorem C20_native_anim_global :
  forall ops c1 c2, gread (grun ops) c1 = gspec ops /\ gread (grun ops) c2 = gspec ops.
Proof. exact native_anim_global. Qed.
Print Assumptions C20_native_anim_global.

(** ** Round 4: the method a render ACTUALLY uses, over histories that interleave set / unset
    of the render method at every level, operations on the global native-animation limit
    and renders of sources of every kind and data size ([model/SettingsRender.v]).

    [render_used] is the decision as the code takes it (it reads the data size and the
    limit, for the warning); [spec_render] / [spec_rtrace] state the documented rule on
    the history alone, without size or limit in the method. *)

(** every render of every history reports what the documented rule says *)
Theorem C20_render_trace_spec :
  forall k par, wf_par par -> forall icls src h,
    rtrace k par icls src (rinit k) h = spec_rtrace k par icls src [] h.
Proof. exact rtrace_spec. Qed.
Print Assumptions C20_render_trace_spec.

(** after every history, whatever the limit then is and whatever the data size: a render
    without a per-call method uses the instance's effective method (own, else nearest
    class's, else default) on every source that method applies to ... *)
Theorem C20_render_uses_effective_after_history :
  forall k par, wf_par par -> forall icls src h i fr,
    applies (spec_inst k par icls (meth_ops h) i) (s_animated src i) fr = true ->
    forall x, snd (rstep k par icls src (rrun k par h) (RRender i None fr)) = Some x ->
    used x = spec_inst k par icls (meth_ops h) i.
Proof. exact render_uses_effective_after_history. Qed.
Print Assumptions C20_render_uses_effective_after_history.

(** ... and a per-call method wins *)
Theorem C20_render_override_after_history :
  forall k par, wf_par par -> forall icls src h i m fr,
    applies m (s_animated src i) fr = true ->
    forall x, snd (rstep k par icls src (rrun k par h) (RRender i (Some m) fr)) = Some x ->
    used x = m.
Proof. exact render_override_after_history. Qed.
Print Assumptions C20_render_override_after_history.

(** the data size and the limit never enter the choice of the method (for EVERY value of
    both) ... *)
Theorem C20_render_method_ignores_limit :
  forall eff ov animated frame size limit size' limit',
    used (render_used eff ov animated frame size limit)
    = used (render_used eff ov animated frame size' limit').
Proof. exact render_used_ignores_limit. Qed.
Print Assumptions C20_render_method_ignores_limit.

Theorem C20_limit_ops_do_not_change_method :
  forall k par, wf_par par -> forall icls src h g i ov fr x y,
    snd (rstep k par icls src (rrun k par h) (RRender i ov fr)) = Some x ->
    snd (rstep k par icls src (rrun k par (h ++ [RLim g])) (RRender i ov fr)) = Some y ->
    used x = used y.
Proof. exact limit_ops_do_not_change_method. Qed.
Print Assumptions C20_limit_ops_do_not_change_method.

(** ... the limit decides the warning only: issued exactly for a native animation whose
    data size is above it *)
Theorem C20_render_warned_iff :
  forall eff ov animated frame size limit,
    warned (render_used eff ov animated frame size limit) = true
    <-> used (render_used eff ov animated frame size limit) = ANIM /\ (limit < size)%Z.
Proof. exact render_warned_iff. Qed.
Print Assumptions C20_render_warned_iff.

(** the only documented substitution: ANIM -> WHOLE for a non-animated source or a frame
    of an iterator / animation *)
Theorem C20_render_anim_fallback :
  forall eff ov animated frame size limit,
    let m := match ov with Some m => m | None => eff end in
    applies m animated frame = false ->
    used (render_used eff ov animated frame size limit) = WHOLE.
Proof. exact render_used_fallback. Qed.
Print Assumptions C20_render_anim_fallback.

(** ** Round 5: the VALUES handed to the setters ([model/SettingsVal.v]).

    "invalid values or instance-level writes to class-only settings are rejected without
    changing anything" — for every value [v] of a universe of Python values ([None], any
    string, any integer, booleans, floats incl. nan / inf, bytes, tuples, lists, other
    sized containers, other objects of either truth value), every setting [st] (render
    method of a style with any number of methods, forced support, JPEG quality,
    read-from-file, the global native-animation limit), every level [lv] (class,
    instance), every target and every prior history.  [doc_meaning] / [valid_for] are
    written from the documentation; [front] / [vstep] are the checks and writes as the
    code performs them ([isinstance], [.lower()] + membership, truthiness, ranges). *)

(** the code's checks compute the documented meaning of EVERY value: set this / unset /
    invalid with this error *)
Theorem C20_value_checks_are_documented :
  forall st lv v, front st lv v = to_fres (doc_meaning st lv v).
Proof. exact front_is_doc. Qed.
Print Assumptions C20_value_checks_are_documented.

(** an invalid value is rejected with the documented error and the state is untouched —
    from ANY state ... *)
Theorem C20_invalid_rejected_from_any_state :
  forall st par u lv t v,
    valid_for st lv v = false ->
    exists e, doc_meaning st lv v = MInvalid e /\ vstep st par u (VSet lv t v) = (u, VRej e).
Proof. exact invalid_rejected. Qed.
Print Assumptions C20_invalid_rejected_from_any_state.

(** ... in particular after every prior history, and no class or instance reads anything
    different afterwards *)
Theorem C20_invalid_rejected_no_change :
  forall st par icls nc ni hist lv t v,
    valid_for st lv v = false ->
    let u := vrun st par hist in
    let r := vstep st par u (VSet lv t v) in
    (exists e, doc_meaning st lv v = MInvalid e /\ snd r = VRej e) /\
    fst r = u /\
    vobserve st par icls nc ni (fst r) = vobserve st par icls nc ni u.
Proof. exact invalid_rejected_no_change. Qed.
Print Assumptions C20_invalid_rejected_no_change.

Theorem C20_accepted_iff_valid :
  forall st par u lv t v,
    snd (vstep st par u (VSet lv t v)) = VOk <-> valid_for st lv v = true.
Proof. exact accepted_iff_valid. Qed.
Print Assumptions C20_accepted_iff_valid.

(** instance-level writes (and deletions) of class-only settings: AttributeError for every
    value, valid for the class or not *)
Theorem C20_class_only_setting_instance_write :
  forall st par u t v,
    st = SFs \/ st = SNam ->
    vstep st par u (VSet LInst t v) = (u, VRej AttrErr)
    /\ vstep st par u (VDel LInst t) = (u, VRej AttrErr).
Proof. exact class_only_setting_instance_write. Qed.
Print Assumptions C20_class_only_setting_instance_write.

(** [None] — and nothing else, of whatever type or truth value — unsets, and only the
    render method *)
Theorem C20_unset_only_by_none :
  forall st lv v, front st lv v = FUnset <-> (exists n, st = SRm n) /\ v = VNone.
Proof. exact unset_only_by_none. Qed.
Print Assumptions C20_unset_only_by_none.

Theorem C20_non_string_render_method_type_error :
  forall n par u lv t v,
    is_str v = false -> v <> VNone ->
    vstep (SRm n) par u (VSet lv t v) = (u, VRej TypeErr).
Proof. exact non_string_render_method_type_error. Qed.
Print Assumptions C20_non_string_render_method_type_error.

Theorem C20_unknown_string_render_method_value_error :
  forall n par u lv t s,
    ci_find 0 s (names n) = None ->
    vstep (SRm n) par u (VSet lv t (VStr s)) = (u, VRej ValueErr).
Proof. exact unknown_string_render_method_value_error. Qed.
Print Assumptions C20_unknown_string_render_method_value_error.

(** value-level histories: the dictionaries / the global cell are those of the documented
    reading of the history, in which invalid operations do not occur at all ... *)
Theorem C20_value_history_reading :
  forall st k par ops,
    kind_of st = Some k -> u_s (vrun st par ops) = run k par (doc_ops st ops).
Proof. exact vrun_doc. Qed.
Print Assumptions C20_value_history_reading.

Theorem C20_value_history_reading_limit :
  forall par ops, u_g (vrun SNam par ops) = grun (doc_gops ops).
Proof. exact vrun_gdoc. Qed.
Print Assumptions C20_value_history_reading_limit.

(** ... so every class and instance reads what the documented rule says (own, else nearest
    class, else default; one global limit), after every history over the whole universe *)
Theorem C20_value_history_spec :
  forall st par icls nc ni ops,
    wf_par par ->
    vobserve st par icls nc ni (vrun st par ops) = vspec_observe st par icls nc ni ops.
Proof. exact vobserve_spec. Qed.
Print Assumptions C20_value_history_spec.

(** outcomes (accepted / which error) and readings after every operation: model = spec *)
Theorem C20_value_trace_spec :
  forall st par icls nc ni ops,
    wf_par par ->
    vtrace st par icls nc ni (uinit st) ops = vspec_trace st par icls nc ni ops.
Proof. exact vtrace_spec. Qed.
Print Assumptions C20_value_trace_spec.

(** a design the property excludes: dispatching the argument check on the value's truth
    value takes EVERY falsy value of the wrong type ([0], [0.0], [False], [()], [[]],
    [{}], [b""], ...) for [None] *)
Theorem C20_excludes_truthiness_dispatch :
  forall n lv v,
    truthy v = false -> is_str v = false -> v <> VNone ->
    valid_for (SRm n) lv v = false /\ front_rm_truthy n v = FUnset.
Proof. exact truthy_dispatch_refuted. Qed.
Print Assumptions C20_excludes_truthiness_dispatch.

(** ** Round 6: class hierarchies with MULTIPLE INHERITANCE, rooted at the library's own base
    classes ([model/SettingsMro.v]).

    "the nearest class in its ancestry that has one": the ancestry of a Python class is its
    method resolution order (the C3 linearisation of the inheritance graph).  A hierarchy
    [H] gives every class its MRO ([h_mro]), says on which classes the setting exists
    ([h_has]: forced support on every image class, [BaseImage] included; the class-wide
    render method below the style class; the iterm2 settings below [ITerm2Image]) and which
    class is the style class ([h_root]).  [wf_mro] / [wf_hier] are discharged for every
    hierarchy the C3 linearisation accepts by [C20_c3_hierarchies_well_formed]. *)

(** effective value of a class = own value if set, else that of the FIRST CLASS OF ITS MRO
    that has one, else the default — after every history *)
Theorem C20_mro_class_lookup_spec :
  forall k H, wf_mro H -> wf_hier k H -> forall ops c,
    m_cls_eff k H (m_run k H ops) c = m_spec_cls k H ops c.
Proof. exact m_cls_lookup_spec. Qed.
Print Assumptions C20_mro_class_lookup_spec.

Theorem C20_mro_instance_lookup_spec :
  forall k H, wf_mro H -> wf_hier k H -> forall icls ops i,
    m_inst_eff k H icls (m_run k H ops) i = m_spec_inst k H icls ops i.
Proof. exact m_inst_lookup_spec. Qed.
Print Assumptions C20_mro_instance_lookup_spec.

(** unsetting a class makes it follow the next one again: the REST of its MRO (not its
    first listed base) *)
Theorem C20_mro_class_unset_follows_next :
  forall k H, wf_mro H -> wf_hier k H -> forall ops c r,
    k_cls_unset k = true -> h_has H c = true -> h_mro H c = c :: r ->
    (c <> h_root H \/ k_pinned k = false) ->
    let s' := fst (m_step k H (m_run k H ops) (ClsUnset c)) in
    m_cls_eff k H s' c = m_eff_over k s' r.
Proof. exact m_cls_unset_follows_next. Qed.
Print Assumptions C20_mro_class_unset_follows_next.

Theorem C20_mro_root_unset_gives_default :
  forall k H, wf_mro H -> wf_hier k H -> forall ops,
    k_cls_unset k = true -> k_pinned k = true -> h_has H (h_root H) = true ->
    m_cls_eff k H (fst (m_step k H (m_run k H ops) (ClsUnset (h_root H)))) (h_root H) = k_default k.
Proof. exact m_root_unset_gives_default. Qed.
Print Assumptions C20_mro_root_unset_gives_default.

(** setting never changes what a class sees that does not have the target in its MRO
    (ancestors, siblings, mix-ins, the library's base classes), from any state *)
Theorem C20_mro_class_op_is_local :
  forall k H s o d,
    (match o with ClsSet c _ | ClsUnset c => ~ In c (h_mro H d) | _ => True end) ->
    m_cls_eff k H (fst (m_step k H s o)) d = m_cls_eff k H s d.
Proof. exact m_class_op_is_local. Qed.
Print Assumptions C20_mro_class_op_is_local.

Theorem C20_mro_instance_op_is_local :
  forall k H icls s o j,
    (match o with InstSet i _ | InstUnset i => j <> i | _ => False end) ->
    m_inst_eff k H icls (fst (m_step k H s o)) j = m_inst_eff k H icls s j.
Proof. exact m_inst_op_is_local. Qed.
Print Assumptions C20_mro_instance_op_is_local.

Theorem C20_mro_rejected_no_change :
  forall k H s o, snd (m_step k H s o) = Rejected -> fst (m_step k H s o) = s.
Proof. exact m_rejected_no_change. Qed.
Print Assumptions C20_mro_rejected_no_change.

(** the C3 linearisation: the MRO of a class starts with the class, lists no class twice,
    and extends the MRO of every class in it (so every class precedes all its ancestors,
    in the order its bases were listed) *)
Theorem C20_c3_sound :
  forall hs c l, nth c (c3_all hs) None = Some l ->
    (exists r, l = c :: r) /\ NoDup l /\
    (forall x, In x l -> exists lx, nth x (c3_all hs) None = Some lx /\ subseq lx l).
Proof. exact c3_sound. Qed.
Print Assumptions C20_c3_sound.

(** every hierarchy the linearisation accepts — whatever the bases lists: mix-ins first or
    last, diamonds, any depth — satisfies the hypotheses above, for every setting *)
Theorem C20_c3_hierarchies_well_formed :
  forall hs img root st, wf_hier_st st (hier_c3 (c3_all hs) img root st).
Proof. exact hier_c3_wf. Qed.
Print Assumptions C20_c3_hierarchies_well_formed.

(** value-level histories over such hierarchies (operations on the library's base classes
    included): outcomes and readings after every operation, model = specification *)
Theorem C20_mro_value_trace_spec :
  forall hs img root st icls nc ni ops,
    let H := hier_c3 (c3_all hs) img root st in
    m_vtrace st H icls nc ni (m_uinit st H) ops = m_vspec_trace st H icls nc ni ops.
Proof. exact c3_vtrace_spec. Qed.
Print Assumptions C20_mro_value_trace_spec.

Theorem C20_mro_invalid_rejected :
  forall st H u lv t v e,
    m_doc_meaning st H lv t v = MInvalid e -> m_vstep st H u (VSet lv t v) = (u, VRej e).
Proof. exact m_invalid_rejected. Qed.
Print Assumptions C20_mro_invalid_rejected.

(** the single-inheritance forest of [model/Settings.v] is the special case: its C3
    linearisation is the chain of parents, and over it the two models coincide *)
Theorem C20_forest_mro_is_parent_chain :
  forall par, wf_par par -> forall n,
    c3_all (forest_bases par n) = map (fun c => Some (chain par c c)) (seq 0 n).
Proof. exact c3_forest. Qed.
Print Assumptions C20_forest_mro_is_parent_chain.

Theorem C20_forest_is_special_case :
  forall k par,
    (forall s o, m_step k (hier_of_par par) s o = step k par s o) /\
    (forall ops, m_run k (hier_of_par par) ops = run k par ops) /\
    (forall s c, m_cls_eff k (hier_of_par par) s c = cls_eff k par s c).
Proof. intros k par. exact (conj (forest_step k par) (conj (forest_run k par) (forest_cls_eff k par))). Qed.
Print Assumptions C20_forest_is_special_case.

(** a design the property excludes: deciding "is there a parent style class?" from the
    first listed base — on a mix-in-first class the unset writes the default *)
Theorem C20_excludes_first_base_unset :
  exists k H fb ops c,
    m_cls_eff k H (m_unset_firstbase k H fb (m_run k H ops) c) c
    <> m_spec_cls k H (ops ++ [ClsUnset c]) c.
Proof. exact first_base_unset_refuted. Qed.
Print Assumptions C20_excludes_first_base_unset.

(** ** Round 7: the library's own SUPPORT DETECTION inside the histories
    ([model/SettingsDetect.v]).  A history interleaves set / unset operations with support checks on
    any class ([DDetect], possibly a subclass first, possibly with the recorded flags dropped so that
    detection runs again) and instance creations ([DNew], which check support first), for ANY terminal
    identity [t] and either graphics style [g].  Detection changes only the support flags: after every
    such history every class and instance reads what the documented rule gives on the history WITH THE
    DETECTION STEPS ERASED -- the documented default, the nearest class's value, locality are the ones
    of the user's operations alone, whatever the terminal and whenever detection runs. *)
From TI Require Import model.SettingsDetect model.SettingsDetectTie proofs.SettingsDetectProofs.

Theorem C20_detect_changes_no_setting :
  forall k isfs g t par, wf_par par -> forall icls ops,
    d_set (drun k isfs g t par ops) = run k par (erase ops)
    /\ (forall c, cls_eff k par (d_set (drun k isfs g t par ops)) c = spec_cls k par (erase ops) c)
    /\ (forall i, inst_eff k par icls (d_set (drun k isfs g t par ops)) i
                  = spec_inst k par icls (erase ops) i).
Proof. exact detect_changes_no_setting. Qed.
Print Assumptions C20_detect_changes_no_setting.

(** one detection step (support check or instance creation), from ANY state, leaves every
    setting's dictionaries as they are *)
Theorem C20_detect_step_keeps_settings :
  forall k isfs g t par s o,
    is_detect o = true -> d_set (fst (dstep k isfs g t par s o)) = d_set s.
Proof. exact dstep_detect_keeps_settings. Qed.
Print Assumptions C20_detect_step_keeps_settings.

(** detection steps placed before, between or after the user's operations are not seen *)
Theorem C20_detect_steps_inserted_anywhere :
  forall k isfs g t par icls a d b,
    forallb is_detect d = true ->
    (forall c, cls_eff k par (d_set (drun k isfs g t par (a ++ d ++ b))) c
               = cls_eff k par (d_set (drun k isfs g t par (a ++ b))) c)
    /\ (forall i, inst_eff k par icls (d_set (drun k isfs g t par (a ++ d ++ b))) i
                  = inst_eff k par icls (d_set (drun k isfs g t par (a ++ b))) i).
Proof. exact detect_steps_inserted_anywhere. Qed.
Print Assumptions C20_detect_steps_inserted_anywhere.

(** an instance created at any point of a history reads its class's effective value *)
Theorem C20_new_instance_reads_class :
  forall k isfs g t par, wf_par par -> forall ops c,
    let s := drun k isfs g t par ops in
    let r := snd (dstep k isfs g t par s (DNew c)) in
    fst r = 1%Z -> snd r = spec_cls k par (erase ops) c.
Proof. exact new_instance_reads_class. Qed.
Print Assumptions C20_new_instance_reads_class.

(** the model's trace satisfies the history-level judgement the correspondence applies to the
    implementation's trace ([SettingsDetectTie.rows_ok_spec]) *)
Theorem C20_detect_trace_spec :
  forall k isfs g t par, wf_par par -> forall icls nc ni ops,
    rows_ok_spec k ops (dspec_trace k par icls nc ni ops)
      (dtrace k isfs g t par icls nc ni (dinit k) ops) = true.
Proof. exact dtrace_satisfies_spec. Qed.
Print Assumptions C20_detect_trace_spec.

(** a design the property excludes: detection on Konsole re-homing the default render method of
    the invoking class (an explicit class-wide LINES is lost when the first instance -- of a
    subclass -- is created; a never-configured class no longer reads the documented default) *)
Theorem C20_detect_rehoming_refuted :
  exists ops c,
    cls_eff (k_render_method 2) ex_dpar
            (d_set (v_s (vrun (k_render_method 2) false GKitty IdKonsole ex_dpar ops))) c
    <> spec_cls (k_render_method 2) ex_dpar (erase ops) c.
Proof. exact detect_rehoming_refuted. Qed.
Print Assumptions C20_detect_rehoming_refuted.

(** ** Source tie of the render-method setters (gen/SettingsSrc.v is regenerated from
    image/common.py on every run by harness/tx/tx_settings.py; model/SettingsProg.v gives the
    translated attribute programs their meaning over the model's dictionaries) *)
From TI Require Import model.SettingsProg gen.SettingsSrc proofs.SettingsSrcTie.

(** class level, for every state, class, parent function and argument (None / a non-string /
    any string, the empty one included): running the translated body IS the model's step *)
Theorem C20_source_set_render_method_class :
  forall (n : Z) (par : nat -> nat) (s : state) (c : nat) (m : marg),
    (0 < n)%Z ->
    cls_run n par s c m src_set_render_method_cls = step (k_render_method n) par s (op_of_cls c m).
Proof. exact cls_prog_is_step_lemma. Qed.
Print Assumptions C20_source_set_render_method_class.

(** a style without render methods: a reset is accepted and changes nothing, anything else
    is rejected and changes nothing *)
Theorem C20_source_set_render_method_class_no_methods :
  forall (n : Z) (par : nat -> nat) (s : state) (c : nat) (m : marg),
    (n <= 0)%Z ->
    cls_run n par s c m src_set_render_method_cls
    = match m with MNone => ({| cd := cd s; idt := idt s |}, Ok) | _ => (s, Rejected) end.
Proof. exact cls_prog_no_methods_lemma. Qed.
Print Assumptions C20_source_set_render_method_class_no_methods.

(** instance level *)
Theorem C20_source_set_render_method_instance :
  forall (n : Z) (par icls : nat -> nat) (s : state) (i : nat) (m : marg),
    inst_run n par icls s i m src_set_render_method_inst = step (k_render_method n) par s (op_of_inst i m).
Proof. exact inst_prog_is_step_lemma. Qed.
Print Assumptions C20_source_set_render_method_instance.

(** the body repaired by 621a044 (the default written unconditionally on a class-level
    reset) is distinguished: it is not the model's step, which follows the parent *)
Theorem C20_source_unconditional_default_refuted :
  exists (par : nat -> nat) (s : state),
    cls_run 2 par s 1 MNone
            [SRaiseIf CBadType; SRaiseIf CUnknown;
             SIf CFalsy [SIf CHasMethods [SDelOwn; SSetDefault] []] [SSetMethod]]
    <> step (k_render_method 2) par s (op_of_cls 1 MNone)
    /\ cls_eff (k_render_method 2) par (fst (step (k_render_method 2) par s (op_of_cls 1 MNone))) 1 = 1%Z.
Proof. exact cls_unconditional_default_refuted_lemma. Qed.
Print Assumptions C20_source_unconditional_default_refuted.

(** the iterm2 properties [jpeg_quality] and [read_from_file]: one setter / deleter serves the
    class and the instance level; running the translated bodies IS the model's step, for
    every state, object and argument (a non-int, an int, a bool — [isinstance(True, int)]),
    and the getter's default is the model's *)
Theorem C20_source_jpeg_quality :
  forall (par : nat -> nat) (s : state) (x : nat) (a : parg),
    pcls_run jcode s x a src_jpeg_quality_set = step k_jpeg_quality par s (ClsSet x (jcode a))
    /\ pinst_run jcode s x a src_jpeg_quality_set = step k_jpeg_quality par s (InstSet x (jcode a))
    /\ pcls_run jcode s x a src_jpeg_quality_del = step k_jpeg_quality par s (ClsUnset x)
    /\ pinst_run jcode s x a src_jpeg_quality_del = step k_jpeg_quality par s (InstUnset x)
    /\ k_default k_jpeg_quality = src_jpeg_quality_default.
Proof. exact jpeg_quality_is_step_lemma. Qed.
Print Assumptions C20_source_jpeg_quality.

Theorem C20_source_read_from_file :
  forall (par : nat -> nat) (s : state) (x : nat) (a : parg),
    pcls_run rcode s x a src_read_from_file_set = step k_read_from_file par s (ClsSet x (rcode a))
    /\ pinst_run rcode s x a src_read_from_file_set = step k_read_from_file par s (InstSet x (rcode a))
    /\ pcls_run rcode s x a src_read_from_file_del = step k_read_from_file par s (ClsUnset x)
    /\ pinst_run rcode s x a src_read_from_file_del = step k_read_from_file par s (InstUnset x)
    /\ k_default k_read_from_file = (if src_read_from_file_default then 1 else 0)%Z.
Proof. exact read_from_file_is_step_lemma. Qed.
Print Assumptions C20_source_read_from_file.

(** ** the ROUTE by which a render is requested (model/SettingsRoute.v): format() / str(),
       draw() of one frame, EVERY frame of draw(animate=True), every frame of an
       ImageIterator; both graphics styles; any other style arguments; every history *)
From TI Require Import model.SettingsRoute proofs.SettingsRouteProofs.

(** "the render method actually used for a render is the effective one unless overridden
    for that call": the method every frame of every route is rendered with is the documented
    function of the per-call method if given, else of the effective one *)
Theorem C20_route_method_used :
  forall (k : kind) (par : nat -> nat), wf_par par ->
  forall (icls : nat -> nat) (src : sources) (s : rstyle) (newer : bool) (h : list rop) (i : nat)
         (ov : option Z) (others : sargs) (r : route) (x : rout),
    snd (rstep k par icls src (rrun k par h) (route_render s newer i ov others r)) = Some x ->
    used x = doc_used (match ov with Some m => m | None => spec_inst k par icls (meth_ops h) i end)
                      (s_animated src i) (route_frame r).
Proof. exact route_method_used. Qed.
Print Assumptions C20_route_method_used.

Theorem C20_route_override_wins :
  forall (k : kind) (par : nat -> nat), wf_par par ->
  forall (icls : nat -> nat) (src : sources) (s : rstyle) (newer : bool) (h : list rop) (i : nat)
         (m : Z) (others : sargs) (r : route) (x : rout),
    applies m (s_animated src i) (route_frame r) = true ->
    snd (rstep k par icls src (rrun k par h) (route_render s newer i (Some m) others r)) = Some x ->
    used x = m.
Proof. exact route_override_wins. Qed.
Print Assumptions C20_route_override_wins.

Theorem C20_route_effective :
  forall (k : kind) (par : nat -> nat), wf_par par ->
  forall (icls : nat -> nat) (src : sources) (s : rstyle) (newer : bool) (h : list rop) (i : nat)
         (others : sargs) (r : route) (x : rout),
    applies (spec_inst k par icls (meth_ops h) i) (s_animated src i) (route_frame r) = true ->
    snd (rstep k par icls src (rrun k par h) (route_render s newer i None others r)) = Some x ->
    used x = spec_inst k par icls (meth_ops h) i.
Proof. exact route_effective. Qed.
Print Assumptions C20_route_effective.

(** the hops forward the per-call method untouched, whatever else the call carries *)
Theorem C20_route_method_forwarded :
  forall (s : rstyle) (newer : bool) (r : route) (ov : option Z) (others : sargs),
    sget KMethod (route_args s newer r (req_args ov others)) = ov.
Proof. exact route_method_forwarded. Qed.
Print Assumptions C20_route_method_forwarded.

(** whole histories of settings operations and requests *)
Theorem C20_route_trace_spec :
  forall (k : kind) (par : nat -> nat), wf_par par ->
  forall (icls : nat -> nat) (src : sources) (s : rstyle) (newer : bool) (frames : nat -> nat)
         (h : list qop),
    qtrace s newer k par icls src frames h = spec_qtrace k par icls src frames h.
Proof. exact qtrace_spec. Qed.
Print Assumptions C20_route_trace_spec.

(** excluded design: 'animated frames ignore the override' (the animation hop rebuilds the
    style arguments instead of forwarding them) *)
Theorem C20_route_rebuild_refuted :
  exists newer i m others r x,
    let k := k_render_method 2 in
    applies m true (route_frame r) = true
    /\ snd (rstep k (parf [0]) (parf [0]) {| s_animated := fun _ => true; s_size := fun _ => 100%Z |}
                  (rrun k (parf [0]) []) (route_render_rebuild newer i (Some m) others r)) = Some x
    /\ used x <> m.
Proof. exact route_rebuild_refuted. Qed.
Print Assumptions C20_route_rebuild_refuted.

(** ** Round 9: the GEOMETRY of a render request (exactly one line, one column, many) and
       the PAYLOAD it transmits ([model/SettingsGeom.v]) *)
From TI Require Import model.SettingsGeom proofs.SettingsGeomProofs.

(** the method used is the documented function of the requested method alone: the rendered
    height in lines, the width in columns, the cell size and the original pixel size never
    enter it *)
Theorem C20_method_used_independent_of_geometry :
  forall (s : rstyle) (eff : Z) (ov : option Z) (animated frame : bool) (size limit : Z)
         (f : pfacts) (g : geom) (f' : pfacts) (g' : geom),
    used (fst (render_geom s eff ov animated frame size limit f g))
    = used (fst (render_geom s eff ov animated frame size limit f' g'))
    /\ used (fst (render_geom s eff ov animated frame size limit f g))
       = doc_used (match ov with Some m => m | None => eff end) animated frame.
Proof. exact method_used_independent_of_geometry. Qed.
Print Assumptions C20_method_used_independent_of_geometry.

(** every render transmits the documented payload of the documented method, for every
    geometry: LINES = one image of (columns x cell width) x (cell height) pixels per line,
    WHOLE = one image of the original size when that is not larger than the render's (the
    file verbatim where [read_from_file] applies), else of the render's pixel size *)
Theorem C20_geom_payload_documented :
  forall (s : rstyle) (eff : Z) (ov : option Z) (animated frame : bool) (size limit : Z)
         (f : pfacts) (g : geom),
    valid_method (used (render_used eff ov animated frame size limit)) ->
    snd (render_geom s eff ov animated frame size limit f g)
    = doc_payload s (doc_used (match ov with Some m => m | None => eff end) animated frame) f g.
Proof. exact render_geom_documented. Qed.
Print Assumptions C20_geom_payload_documented.

(** whole histories whose render requests carry their geometry *)
Theorem C20_geom_trace_spec :
  forall (k : kind) (par : nat -> nat), wf_par par ->
  forall (icls : nat -> nat) (src : sources) (s : rstyle) (facts : nat -> pfacts) (h : list geop),
    (forall r, In r (rtrace k par icls src (rinit k) (map to_rop h)) -> valid_method (used r)) ->
    gtrace s k par icls src facts h = spec_gtrace s k par icls src facts h.
Proof. exact gtrace_spec. Qed.
Print Assumptions C20_geom_trace_spec.

(** when LINES and WHOLE are observationally distinguishable: their documented payloads
    coincide exactly on a one-line render that is not sent verbatim and whose WHOLE size is
    the render's pixel size ... *)
Theorem C20_lines_whole_same_iff :
  forall (s : rstyle) (f : pfacts) (g : geom),
    doc_payload s LINES f g = doc_payload s WHOLE f g
    <-> height_lines g = 1%nat /\ doc_whole_verbatim s f g = false
        /\ doc_whole_size g = render_size g.
Proof. exact lines_whole_same_iff. Qed.
Print Assumptions C20_lines_whole_same_iff.

(** ... so a one-line render of an original not larger than the render tells the methods
    apart iff the original pixel size differs from the render's pixel size (or the file goes
    out verbatim): the oracle is not vacuous on the generated one-line cases *)
Theorem C20_one_line_distinguishable :
  forall (s : rstyle) (f : pfacts) (g : geom),
    height_lines g = 1%nat ->
    (area (ori_size g) <= area (render_size g))%Z ->
    (doc_payload s LINES f g <> doc_payload s WHOLE f g
     <-> ori_size g <> render_size g \/ doc_whole_verbatim s f g = true).
Proof. exact one_line_distinguishable. Qed.
Print Assumptions C20_one_line_distinguishable.

(** excluded design: 'one-line renders take WHOLE' *)
Theorem C20_oneline_whole_refuted :
  exists s eff ov f g,
    height_lines g = 1%nat
    /\ used (fst (render_geom_oneline s eff ov false false 0 0 f g))
       <> doc_used (match ov with Some m => m | None => eff end) false false
    /\ snd (render_geom_oneline s eff ov false false 0 0 f g)
       <> doc_payload s (doc_used (match ov with Some m => m | None => eff end) false false) f g.
Proof. exact oneline_whole_refuted. Qed.
Print Assumptions C20_oneline_whole_refuted.
