(** C17 — trimming an image canvas equals cropping what the full canvas shows. *)
From Coq Require Import List ZArith Bool.
Import ListNotations.
From TI Require Import lib.Term lib.TermFacts model.Block model.Padding model.Trim model.TrimSpec
     proofs.TrimCalc proofs.TrimProofs proofs.TrimTerm proofs.TrimBlock proofs.TrimExamples
     model.TrimCanvas proofs.TrimSnapshot.
Open Scope Z_scope.

(** [_ti_calc_trim]: on an axis [size = pad1 + img + pad2] with the visible window
    [[t1, size - t2)] (non-empty), every output is the length of an interval intersection —
    visible side-1 padding, image cells cut at side 1, image cells cut at side 2, visible
    side-2 padding, visible image cells — and the three visible parts partition the window. *)
Theorem C17_calc_trim_spec :
  forall size img t1 p1 t2 p2,
  size = p1 + img + p2 -> 0 <= p1 -> 0 <= p2 -> 0 <= img -> 0 <= t1 -> 0 <= t2 -> t1 + t2 < size ->
  let '(np1, ti1, ti2, np2) := calc_trim size img t1 p1 t2 p2 in
  np1 = Z.max 0 (Z.min p1 (size - t2) - t1)
  /\ ti1 = Z.min img (Z.max 0 (t1 - p1))
  /\ ti2 = Z.min img (Z.max 0 (t2 - p2))
  /\ np2 = Z.max 0 (size - t2 - Z.max t1 (p1 + img))
  /\ img - ti1 - ti2 = Z.max 0 (Z.min (size - t2) (p1 + img) - Z.max t1 p1)
  /\ np1 + (img - ti1 - ti2) + np2 = size - t1 - t2
  /\ 0 <= np1 /\ 0 <= ti1 <= img /\ 0 <= ti2 <= img /\ 0 <= np2.
Proof. exact calc_trim_spec. Qed.
Print Assumptions C17_calc_trim_spec.

(** The paddings that [content] recomputes from the alignment are those [_format_render]
    used when it built the canvas. *)
Theorem C17_pads_agree_with_format_render :
  forall W H ha va w h, w <= W -> h <= H ->
  let '(l, t, r, b) := old_dims W H ha va w h in
  align_pads ha (W - w) = (l, r) /\ align_pads va (H - h) = (t, b).
Proof. exact align_pads_old_dims. Qed.
Print Assumptions C17_pads_agree_with_format_render.

(** Text images.  For ALL canvases [W x H] holding an image of [w x h] well-formed cell
    lines (any width, any colours, any prefix structure allowed by [wf_line]) at any of the
    nine alignments, and ALL sub-rectangles inside the canvas: [content] yields exactly
    [rows] rows; what they show, cell for cell (upper and lower half colours), is the crop
    of what the untrimmed canvas's lines show; every row is exactly [cols] cells wide,
    consists of glyphs / NULs / SGR sequences only, and leaves the SGR attributes default at
    its end (no colour bleeds past the right edge). *)
Theorem C17_content_is_crop :
  forall (W H w h : Z) (ha va : nat) (imgs : list (list cell)),
  canvas_ok W H w h imgs ->
  forall tl tt cols rows,
  0 <= tl -> 0 <= tt -> 0 < cols -> 0 < rows -> tl + cols <= W -> tt + rows <= H ->
  let lines := canvas_lines W H w h ha va imgs in
  let out := content_text ha va W H w h lines tl tt (Some cols) (Some rows) in
  Z.of_nat (length out) = rows
  /\ map vis_row out
     = crop (Z.to_nat tl) (Z.to_nat tt) (Z.to_nat cols) (Z.to_nat rows) (map vis_row lines)
  /\ Forall (fun r => Z.of_nat (length (vis_row r)) = cols /\ end_attrs r = adefault
                      /\ text_only r = true) out.
Proof. exact content_is_crop. Qed.
Print Assumptions C17_content_is_crop.

(** The same for the canvas built from a real block render: for EVERY pixel content
    (colours, alpha values, run structure), transparency mode, kitty work-around and
    terminal background, the lines [UrwidImage.render] stores
    ([ti_lines (format_render … (Block.render … split_cells=True …))]) satisfy the
    hypotheses above, hence trimming them is cropping. *)
Theorem C17_block_content_is_crop :
  forall alpha kitty bgcol W H ha va (pixels : list (list px)) w h tl tt cols rows,
  0 < w <= W -> 0 < h <= H -> Z.of_nat (length pixels) = h ->
  (forall r, In r pixels -> Z.of_nat (length r) = w) ->
  0 <= tl -> 0 <= tt -> 0 < cols -> 0 < rows -> tl + cols <= W -> tt + rows <= H ->
  let lines := ti_lines (format_render W H ha va w h (Block.render alpha kitty bgcol true pixels)) in
  let out := content_text ha va W H w h lines tl tt (Some cols) (Some rows) in
  Z.of_nat (length out) = rows
  /\ map vis_row out
     = crop (Z.to_nat tl) (Z.to_nat tt) (Z.to_nat cols) (Z.to_nat rows) (map vis_row lines)
  /\ Forall (fun r => Z.of_nat (length (vis_row r)) = cols /\ end_attrs r = adefault
                      /\ text_only r = true) out.
Proof. exact block_content_is_crop. Qed.
Print Assumptions C17_block_content_is_crop.

Theorem C17_block_canvas_wellformed :
  forall alpha kitty bgcol W H ha va (pixels : list (list px)) w h,
  0 < w <= W -> 0 < h <= H -> Z.of_nat (length pixels) = h ->
  (forall r, In r pixels -> Z.of_nat (length r) = w) ->
  exists imgs,
    canvas_ok W H w h imgs
    /\ ti_lines (format_render W H ha va w h (Block.render alpha kitty bgcol true pixels))
       = canvas_lines W H w h ha va imgs.
Proof. exact block_canvas_wellformed. Qed.
Print Assumptions C17_block_canvas_wellformed.

(** [vis_row] / [row_vis] is what the terminal of [lib/Term.v] shows: executing a text row
    at the cursor, column [j] of the row shows [nth j (row_vis …)] whatever was on the
    screen before, the cursor advances by the row's width on the same line, and the SGR
    attributes afterwards are the ones [row_vis] returns. *)
Theorem C17_row_vis_is_terminal :
  forall lm ts t j,
  text_only ts = true -> parser t = Ground ->
  (j < length (fst (row_vis (sgr t) ts)))%nat ->
  visual (view (log (exec lm t ts)) (row t) (col t + Z.of_nat j))
  = nth_error (fst (row_vis (sgr t) ts)) j
  /\ sgr (exec lm t ts) = snd (row_vis (sgr t) ts)
  /\ row (exec lm t ts) = row t
  /\ col (exec lm t ts) = col t + Z.of_nat (length (fst (row_vis (sgr t) ts))).
Proof. exact row_vis_exec. Qed.
Print Assumptions C17_row_vis_is_terminal.

(** Graphics images, no horizontal trimming: exactly the lines [trim_top ..
    trim_top + rows) of the canvas, each with the disguise suffix. *)
Theorem C17_graphics_vertical_select :
  forall W H lines d tt rows,
  Z.of_nat (length lines) = H -> 0 < W -> 0 <= tt -> 0 < rows -> tt + rows <= H ->
  let out := content_gfx W H lines d 0 tt (Some W) (Some rows) in
  out = map (fun l => (l, d)) (firstn (Z.to_nat rows) (skipn (Z.to_nat tt) lines))
  /\ Z.of_nat (length out) = rows
  /\ forall i, (i < Z.to_nat rows)%nat ->
       nth_error out i = option_map (fun l => (l, d)) (nth_error lines (Z.to_nat tt + i)).
Proof. exact graphics_vertical_select. Qed.
Print Assumptions C17_graphics_vertical_select.

(** Graphics images trimmed horizontally: [rows] rows of [cols] blank cells (no disguise),
    default attributes throughout. *)
Theorem C17_graphics_horizontal_blank :
  forall W H lines d tl tt cols rows,
  0 <= tl -> 0 < cols -> tl + cols <= W -> (tl <> 0 \/ tl + cols <> W) -> 0 < rows ->
  content_gfx W H lines d tl tt (Some cols) (Some rows) = repeat (spaces cols, O) (Z.to_nat rows)
  /\ row_vis adefault (spaces cols) = (repeat blank (Z.to_nat cols), adefault)
  /\ text_only (spaces cols) = true.
Proof. exact graphics_horizontal_blank. Qed.
Print Assumptions C17_graphics_horizontal_blank.

(** Flow widgets: the number of rows [rows((maxcol,))] announces is the number of rows of
    the canvas [render((maxcol,))] builds, and the image fits into that canvas. *)
Theorem C17_rows_agree :
  forall maxcol upscale fit ori,
  rows upscale fit ori = snd (flow_canvas_size maxcol upscale fit ori).
Proof. exact rows_agree. Qed.
Print Assumptions C17_rows_agree.

Theorem C17_flow_image_fits :
  forall maxcol upscale fit ori, fst fit = maxcol ->
  fst (flow_image_size upscale fit ori) <= fst (flow_canvas_size maxcol upscale fit ori)
  /\ snd (flow_image_size upscale fit ori) = snd (flow_canvas_size maxcol upscale fit ori).
Proof. exact flow_image_fits. Qed.
Print Assumptions C17_flow_image_fits.

(** *** the tie to the source, as a theorem (T): [gen/Pure.v] is regenerated from
    [widget/_urwid.py] on every run by [harness/tx/tx_pure.py]; for ALL arguments the
    translated [_ti_calc_trim] is the model's [calc_trim] *)
From TI Require gen.Pure proofs.PureTieTrim.
Theorem C17_source_calc_trim_is_model :
  forall size image_size trim1 pad1 trim2 pad2,
    TI.gen.Pure.ti_calc_trim size image_size trim1 pad1 trim2 pad2
    = TI.model.Trim.calc_trim size image_size trim1 pad1 trim2 pad2.
Proof. exact TI.proofs.PureTieTrim.ti_calc_trim_is_model. Qed.
Print Assumptions C17_source_calc_trim_is_model.

(** The canvas is a snapshot: [content] is a function of what the canvas stored when it was
    built (size, image size, lines) and of the widget's fixed alignment.  Whatever size the
    shared image has been given by later renders (the [live] state), an earlier canvas
    yields the same rows; only the disguise suffix of graphics rows follows live state.
    (True by construction of the model; that the real code behaves like this model is what
    the correspondence's render/request histories test.) *)
Theorem C17_canvas_is_snapshot :
  forall cv lv1 lv2 tl tt cols rows,
  (cv_gfx cv = true -> lv_disguise lv1 = lv_disguise lv2) ->
  TrimCanvas.content cv lv1 tl tt cols rows = TrimCanvas.content cv lv2 tl tt cols rows.
Proof. exact canvas_is_snapshot. Qed.
Print Assumptions C17_canvas_is_snapshot.

Theorem C17_content_of_text_canvas :
  forall render W H w h ha va lv tl tt cols rows,
  TrimCanvas.content (build false render (W, H) (w, h) (ha, va)) lv tl tt cols rows
  = map (fun r => (r, O)) (content_text ha va W H w h (ti_lines render) tl tt cols rows).
Proof. exact content_of_text_canvas. Qed.
Print Assumptions C17_content_of_text_canvas.

(** Flow widgets in EVERY environment.  [_valid_size] is a function of the environment
    current at each call (global cell ratio, cell size, terminal size) — a parameter here.
    Called in the same environment [e], [rows((maxcol,))] announces exactly the number of
    rows of the canvas [render((maxcol,))] builds, the image is as high as that canvas and
    not wider.  (An ORIGINAL size remembered from another environment breaks this:
    [TrimSnapshot.stale_original_size_refuted].) *)
Theorem C17_rows_agree_in_every_environment :
  forall (env : Type) (valid_size : env -> option Z -> Z * Z) e upscale maxcol,
  rows_in env valid_size e upscale maxcol = snd (flow_canvas_in env valid_size e upscale maxcol)
  /\ snd (flow_image_in env valid_size e upscale maxcol) = snd (flow_canvas_in env valid_size e upscale maxcol)
  /\ (fst (valid_size e (Some maxcol)) = maxcol ->
      fst (flow_image_in env valid_size e upscale maxcol) <= fst (flow_canvas_in env valid_size e upscale maxcol)).
Proof. exact rows_agree_in. Qed.
Print Assumptions C17_rows_agree_in_every_environment.

(** *** Round 4 (a): SEVERAL REQUESTS IN FLIGHT AT ONCE on one canvas.

    [content(...)] is a generator; urwid keeps several generators of one canvas alive and
    advances them alternately (the parts of an image left and right of a widget laid over it).
    [model/TrimIter.v]: a generator = not started / suspended with ITS OWN locals (layout, rows
    still to be emitted) / finished; [run] advances several of them over one immutable canvas by
    an arbitrary schedule of [next()] calls. *)
From TI Require Import model.TrimIter proofs.TrimIterProofs.

(** A generator run alone and to the end yields exactly the rows of the list-valued [content]
    of the earlier theorems. *)
Theorem C17_generator_alone_is_content :
  forall cv lv rq,
  map (emit (fst (plan_of cv lv rq))) (snd (plan_of cv lv rq))
  = TrimCanvas.content cv lv (r_tl rq) (r_tt rq) (r_cols rq) (r_rows rq).
Proof. exact plan_is_content. Qed.
Print Assumptions C17_generator_alone_is_content.

(** NON-INTERFERENCE: for EVERY list of requests on one canvas and EVERY schedule, what request
    [i] is handed by its [k]-th [next()] (a row, or StopIteration) is what it would be handed
    were it the only request: a function of (canvas, its own sub-rectangle, k).  (The design
    that keeps the layout on the canvas object, overwritten by the request started last, is
    refuted: [TrimIterProofs.shared_layout_refuted].) *)
Theorem C17_simultaneous_requests_do_not_interfere :
  forall cv lv rqs sched i rq,
  nth_error rqs i = Some rq ->
  received i (run cv lv (map Fresh rqs) sched)
  = map (alone cv lv rq) (seq 0 (count_occ Nat.eq_dec sched i)).
Proof. exact noninterference. Qed.
Print Assumptions C17_simultaneous_requests_do_not_interfere.

Theorem C17_simultaneous_requests_rows :
  forall cv lv rqs sched i rq,
  nth_error rqs i = Some rq ->
  somes (received i (run cv lv (map Fresh rqs) sched))
  = firstn (count_occ Nat.eq_dec sched i)
           (TrimCanvas.content cv lv (r_tl rq) (r_tt rq) (r_cols rq) (r_rows rq)).
Proof. exact received_rows. Qed.
Print Assumptions C17_simultaneous_requests_rows.

(** With [C17_content_is_crop]: on every well-formed text canvas, under every schedule, a
    request inside the canvas that is advanced at least [rows] times is handed exactly [rows]
    rows, each [cols] wide, default attributes at the end, showing cell for cell the crop of
    ITS sub-rectangle — whatever other requests are in flight. *)
Theorem C17_interleaved_requests_are_crops :
  forall W H w h ha va imgs lv rqs sched i tl tt cols rows,
  canvas_ok W H w h imgs ->
  nth_error rqs i = Some {| r_tl := tl; r_tt := tt; r_cols := Some cols; r_rows := Some rows |} ->
  0 <= tl -> 0 <= tt -> 0 < cols -> 0 < rows -> tl + cols <= W -> tt + rows <= H ->
  (Z.to_nat rows <= count_occ Nat.eq_dec sched i)%nat ->
  let got := map fst (somes (received i (run (text_canvas W H w h ha va imgs) lv (map Fresh rqs) sched))) in
  Z.of_nat (length got) = rows
  /\ map vis_row got
     = crop (Z.to_nat tl) (Z.to_nat tt) (Z.to_nat cols) (Z.to_nat rows)
            (map vis_row (canvas_lines W H w h ha va imgs))
  /\ Forall (fun r => Z.of_nat (length (vis_row r)) = cols /\ end_attrs r = adefault
                      /\ text_only r = true) got.
Proof. exact interleaved_requests_are_crops. Qed.
Print Assumptions C17_interleaved_requests_are_crops.

(** *** Round 4 (b): renders that FAIL, with an error placeholder ([model/TrimPlaceholder.v]).

    Flow use: whenever [render((maxcol,))] returns a canvas — the image's or ANY placeholder's,
    whether or not rendering failed — it is [maxcol] wide and has exactly the rows
    [rows((maxcol,))] announces.  (Handing the placeholder the flow size urwid passed in is
    refuted: [TrimPlaceholderProofs.flowsize_placeholder_refuted].) *)
From TI Require Import model.TrimPlaceholder proofs.TrimPlaceholderProofs.

Theorem C17_rows_agree_with_placeholder :
  forall maxcol upscale fit ori fails ph c r,
  render_outcome [maxcol] upscale fit ori fails ph = Canvas c r ->
  c = maxcol /\ r = Trim.rows upscale fit ori.
Proof. exact rows_agree_placeholder. Qed.
Print Assumptions C17_rows_agree_with_placeholder.

(** … and a canvas IS returned when rendering succeeds, or fails with a placeholder installed
    that accepts a box size. *)
Theorem C17_flow_render_with_box_placeholder :
  forall maxcol upscale fit ori fails ph,
  (fails = true -> exists p, ph = Some p /\ ph_box p = true) ->
  render_outcome [maxcol] upscale fit ori fails ph = Canvas maxcol (Trim.rows upscale fit ori).
Proof. exact flow_render_with_box_placeholder. Qed.
Print Assumptions C17_flow_render_with_box_placeholder.

Theorem C17_box_render_size :
  forall c0 r0 upscale fit ori fails ph c r,
  render_outcome [c0; r0] upscale fit ori fails ph = Canvas c r -> c = c0 /\ r = r0.
Proof. exact box_render_size. Qed.
Print Assumptions C17_box_render_size.

Theorem C17_render_raises_only_without_box_placeholder :
  forall size upscale fit ori fails ph,
  (length size = 1 \/ length size = 2)%nat ->
  render_outcome size upscale fit ori fails ph = Raised ->
  fails = true /\ (ph = None \/ exists p, ph = Some p /\ ph_box p = false).
Proof. exact render_raises_only_without_box_placeholder. Qed.
Print Assumptions C17_render_raises_only_without_box_placeholder.

Theorem C17_rows_agree_with_placeholder_in_every_environment :
  forall (env : Type) (valid_size : env -> option Z -> Z * Z) e upscale maxcol fails ph c r,
  render_outcome [maxcol] upscale (valid_size e (Some maxcol)) (valid_size e None) fails ph = Canvas c r ->
  c = maxcol /\ r = rows_in env valid_size e upscale maxcol.
Proof. exact rows_agree_placeholder_in. Qed.
Print Assumptions C17_rows_agree_with_placeholder_in_every_environment.

(** *** Round 6: the "original size fits" DECISION of a flow widget ([model/TrimFlow.v]).

    [rows((maxcol,))] and the flow branch of [render((maxcol,))] each decide, for a widget that
    does not upscale, between the image's ORIGINAL size and the size FITTED to [maxcol] columns;
    the two sizes are [image._valid_size(maxcol)] and [image._valid_size(Size.ORIGINAL)], computed
    ([model/Sizing.v]) from the style family, the image's pixel size, the cell size / cell ratio
    and [maxcol].  [rows_by d] / [canvas_size_by d] are the two methods over ANY decision [d];
    [fits_rows] / [fits_render] are the decisions the two methods of the code take.

    Whatever the decisions: if they agree on (maxcol, fit, ori), the rows announced are the rows
    of the canvas rendered, which is [maxcol] wide ... *)
From TI Require Import lib.FArith lib.FPrim model.TrimFlow proofs.TrimFlowProofs.

Theorem C17_rows_agree_from_equal_decisions :
  forall (dr dd : decision) maxcol upscale fit ori,
  dr maxcol fit ori = dd maxcol fit ori ->
  rows_by dr maxcol upscale fit ori = snd (canvas_size_by dd maxcol upscale fit ori)
  /\ fst (canvas_size_by dd maxcol upscale fit ori) = maxcol.
Proof. exact rows_agree_by. Qed.
Print Assumptions C17_rows_agree_from_equal_decisions.

(** ... and if they do not, while the two sizes differ in height, a number of rows is announced
    that is not rendered *)
Theorem C17_rows_disagree_from_different_decisions :
  forall (dr dd : decision) maxcol fit ori,
  dr maxcol fit ori <> dd maxcol fit ori -> snd ori <> snd fit ->
  rows_by dr maxcol false fit ori <> snd (canvas_size_by dd maxcol false fit ori).
Proof. exact rows_disagree_by. Qed.
Print Assumptions C17_rows_disagree_from_different_decisions.

(** the code's two decisions are equal, and with them the methods are those of [model/Trim.v] *)
Theorem C17_code_decisions_equal :
  forall maxcol fit ori, fits_rows maxcol fit ori = fits_render maxcol fit ori.
Proof. exact fits_rows_is_fits_render. Qed.
Print Assumptions C17_code_decisions_equal.

Theorem C17_decision_model_is_trim_model :
  forall maxcol upscale fit ori,
  rows_by fits_rows maxcol upscale fit ori = Trim.rows upscale fit ori
  /\ image_size_by fits_render maxcol upscale fit ori = flow_image_size upscale fit ori
  /\ canvas_size_by fits_render maxcol upscale fit ori = flow_canvas_size maxcol upscale fit ori.
Proof. exact (fun m u f o => conj (rows_by_code m u f o) (canvas_size_by_code m u f o)). Qed.
Print Assumptions C17_decision_model_is_trim_model.

(** hence, for EVERY float arithmetic, style family, environment (cell size, cell ratio, terminal
    size), image PIXEL size, flow width and upscale setting: the rows [rows((maxcol,))] announces
    are the rows of the canvas [render((maxcol,))] builds *)
Theorem C17_widget_rows_agree :
  forall (FA : FloatArith) fam (e : Sizing.env FA) pw ph upscale maxcol,
  announced_rows fits_rows fam e pw ph upscale maxcol
  = snd (rendered_canvas fits_render fam e pw ph upscale maxcol)
  /\ fst (rendered_canvas fits_render fam e pw ph upscale maxcol) = maxcol.
Proof. exact widget_rows_agree. Qed.
Print Assumptions C17_widget_rows_agree.

(** EXCLUDED design: deciding in [render()] from the WIDTH alone ([ori_size[0] <= maxcol]).  A
    graphics-based image of 19x100 pixels, 10x20-pixel cells, flow width 1 (= its original width
    in columns; pixels -> cells floors): fitted size (1, 2), original size (1, 5); [rows((1,))]
    announces 2, [render((1,))] builds 5 rows.  Stated over EXACT rational arithmetic [QFA] (the
    disagreement comes from the floor, not from rounding); the same values on Coq's primitive
    binary64 floats: [TrimFlowProofs.width_only_refuted], [width_only_refuted_405]. *)
Theorem C17_width_only_decision_refuted :
  (fit_of (FA := QFA) Sizing.Graphics (cell_env 10 20) 19 100 1 = (1, 2)
   /\ ori_of (FA := QFA) Sizing.Graphics (cell_env 10 20) 19 100 = (1, 5))
  /\ (fits_rows 1 (1, 2) (1, 5) = false /\ fits_width_only 1 (1, 2) (1, 5) = true)
  /\ (announced_rows (FA := QFA) fits_rows Sizing.Graphics (cell_env 10 20) 19 100 false 1 = 2
      /\ rendered_canvas (FA := QFA) fits_width_only Sizing.Graphics (cell_env 10 20) 19 100 false 1 = (1, 5)).
Proof. exact (conj witness_sizes_exact (conj width_only_differs width_only_refuted_exact)). Qed.
Print Assumptions C17_width_only_decision_refuted.
