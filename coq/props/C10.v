(** C10 — render data is finalized exactly once and never used afterwards.

    Only statements, each closed by [exact <lemma>], and [Print Assumptions].

    Part 1: the render iterator.  [Iter] (model/Iter.v, shared with C08/C09) is the code
    model of [RenderIterator]; its ghost [gh s] records [owns] (the [_finalize_data] flag:
    [RenderIterator(...)] and [_from_render_data_(finalize=True)] own the data,
    [_from_render_data_(finalize=False)] leaves it to the caller), [finalized]
    ([RenderData.finalized]), [fin_calls] (invocations of [_finalize_render_data_] on the
    data) and [log] (every [_render_] invocation with the [finalized] flag it saw).
    The renderable's [_render_] is the parameter [render]: ANY state-passing function that
    returns a frame, raises StopIteration or raises another exception — so a fault at the
    k-th render, for every k and in any combination, is covered by "for all [render]".
    Histories [ops] are arbitrary lists over
    [Next | Seek | SetDuration | SetPadding | SetArgs | SetSize | Close | Drop]
    ([Drop] = [__del__], which calls [close()]); all proofs are by induction on the list.

    Part 2: [render()], [__str__], [draw()], [_init_render_] — every path of their
    control-flow skeletons (gen/Skeletons.v, regenerated from the source on every run),
    with an exception or KeyboardInterrupt possible at every tracked call, through the
    abstract interpreter of lib/Eff.v proved sound in lib/EffSound.v.  [unfin s]: a render
    data object has been created and not finalized. *)
From Coq Require Import List ZArith Bool Lia Arith.
Import ListNotations.
From TI Require Import model.Iter model.IterFin model.IterReent model.IterSession
     proofs.IterFinalProofs proofs.IterFinRaiseProofs proofs.IterReentProofs proofs.IterSessionProofs
     proofs.IterFinalExamples lib.Eff lib.EffSound lib.EffRun gen.Skeletons proofs.SkelC10 proofs.SkelC10Extra.
Open Scope Z_scope.

(** [_finalize_render_data_] runs at most once on the iterator's data, whatever the history
    and whatever the renderable does *)
Theorem C10_finalize_at_most_once :
  forall RS render n term c rs0 s ops,
    mk RS n term c rs0 = inl s ->
    (fin_calls (gh (run RS render n term s ops)) <= 1)%nat.
Proof. exact finalize_at_most_once. Qed.
Print Assumptions C10_finalize_at_most_once.

(** after a history whose last operation is a [next] that raised StopIteration or an
    exception ([is_end]), a [close()] or a drop: the iterator is closed; if it owns the
    data, the data is finalized and [_finalize_render_data_] ran exactly once; if the
    caller kept ownership, it ran zero times and the data is not finalized *)
Theorem C10_finalized_iff_ended :
  forall RS render n term c rs0 s ops o,
    mk RS n term c rs0 = inl s ->
    let s0 := run RS render n term s ops in
    let s' := run RS render n term s (ops ++ [o]) in
    match o with
    | Close | Drop => True
    | Next => is_end (snd (step RS render n term s0 Next)) = true
    | _ => False
    end ->
    closed s' = true /\
    (if c_owns c then finalized (gh s') = true /\ fin_calls (gh s') = 1%nat
     else finalized (gh s') = false /\ fin_calls (gh s') = 0%nat).
Proof. exact finalized_iff_ended. Qed.
Print Assumptions C10_finalized_iff_ended.

(** the state-level form, after ANY history: closed + owner: finalized, one call;
    closed + caller-owned: untouched; open: not finalized, zero calls *)
Theorem C10_finalized_iff_closed :
  forall RS render n term c rs0 s ops,
    mk RS n term c rs0 = inl s ->
    let s' := run RS render n term s ops in
    owns (gh s') = c_owns c /\
    (closed s' = true -> c_owns c = true -> finalized (gh s') = true /\ fin_calls (gh s') = 1%nat) /\
    (closed s' = true -> c_owns c = false -> finalized (gh s') = false /\ fin_calls (gh s') = 0%nat) /\
    (closed s' = false -> finalized (gh s') = false /\ fin_calls (gh s') = 0%nat).
Proof. exact finalized_iff_closed. Qed.
Print Assumptions C10_finalized_iff_closed.

(** an open iterator is closed by exactly these: [next] raising StopIteration or an
    exception, [close()], [__del__] — and by nothing else *)
Theorem C10_ended_iff_closed :
  forall RS render n term (s : state RS) o, closed s = false ->
    (closed (fst (step RS render n term s o)) = true <->
     match o with
     | Close | Drop => True
     | Next => is_end (snd (step RS render n term s Next)) = true
     | _ => False
     end).
Proof. exact ended_iff_closed. Qed.
Print Assumptions C10_ended_iff_closed.

(** no frame is ever rendered with finalized data: every [_render_] invocation of every
    history saw [RenderData.finalized = False] *)
Theorem C10_no_render_on_finalized :
  forall RS render n term c rs0 s ops,
    mk RS n term c rs0 = inl s ->
    Forall (fun rc => rc_finalized rc = false) (log (gh (run RS render n term s ops))).
Proof. exact no_render_on_finalized. Qed.
Print Assumptions C10_no_render_on_finalized.

(** as a step invariant: a render event happens only for [next] on an open iterator whose
    data is not finalized *)
Theorem C10_render_event_implies_open :
  forall RS render n term (s : state RS) o,
    fin_inv RS s -> log (gh (fst (step RS render n term s o))) <> log (gh s) ->
    closed s = false /\ finalized (gh s) = false /\ o = Next.
Proof. exact render_event_implies_open. Qed.
Print Assumptions C10_render_event_implies_open.

(** once closed — by exhaustion, an error, [close()] or a drop — every continuation of the
    history leaves the WHOLE state unchanged (no further finalization, no render): [next]
    stops, [close()] / drop do nothing, every control operation raises
    FinalizedIteratorError *)
Theorem C10_after_end_next_stops_ops_raise :
  forall RS render n term (s : state RS) ops,
    closed s = true ->
    run RS render n term s ops = s /\
    trace RS render n term s ops =
    map (fun o => (match o with Next => OStop | Close | Drop => OOk | _ => OErr EFinalized end, pub_loop s)) ops.
Proof. exact after_end_next_stops_ops_raise. Qed.
Print Assumptions C10_after_end_next_stops_ops_raise.

Theorem C10_after_end_history :
  forall RS render n term c rs0 s ops o ops',
    mk RS n term c rs0 = inl s ->
    match o with
    | Close | Drop => True
    | Next => is_end (snd (step RS render n term (run RS render n term s ops) Next)) = true
    | _ => False
    end ->
    let s' := run RS render n term s (ops ++ [o]) in
    run RS render n term s (ops ++ [o] ++ ops') = s' /\
    trace RS render n term s' ops' = map (fun o => (closed_out o, pub_loop s')) ops'.
Proof. exact after_end_history. Qed.
Print Assumptions C10_after_end_history.

(** [close()] is idempotent on the whole state; any mixture of [close()] and [__del__] *)
Theorem C10_close_idempotent :
  forall RS (s : state RS), close RS (close RS s) = close RS s.
Proof. exact close_idempotent. Qed.
Print Assumptions C10_close_idempotent.

Theorem C10_close_twice_one_finalize :
  forall RS render n term (s : state RS) o1 o2,
    (o1 = Close \/ o1 = Drop) -> (o2 = Close \/ o2 = Drop) ->
    fst (step RS render n term (fst (step RS render n term s o1)) o2) = fst (step RS render n term s o1).
Proof. exact close_twice_one_finalize. Qed.
Print Assumptions C10_close_twice_one_finalize.

(** [RenderData.finalize()] is idempotent and calls [_finalize_render_data_] at most once *)
Theorem C10_finalize_idempotent :
  forall g,
    data_finalize (data_finalize g) = data_finalize g /\
    finalized (data_finalize g) = true /\
    (fin_calls (data_finalize g) <= S (fin_calls g))%nat /\
    (finalized g = true -> data_finalize g = g).
Proof. exact finalize_idempotent. Qed.
Print Assumptions C10_finalize_idempotent.

(** ** Part 1b: the finalizer itself may raise

    [IterFin] (model/IterFin.v) runs [Iter] with an oracle [fr : nat -> bool]: the k-th
    invocation of [_finalize_render_data_] on the data raises iff [fr k].  As in the code
    ([RenderData.finalize()]: flag set in a [finally]; [close()] as repaired by
    pending_fixes/C10_close_finalizer_raises.diff: [_closed] set in a [finally]) the
    exception propagates out of [close()], [__del__], and [next()] (in place of
    StopIteration / the render error): outcome [FRaised x].  For ALL oracles. *)

(** the wrapper's states are [Iter]'s, its trace is [Iter]'s once "the finalizer's
    exception propagated instead" is erased: so every theorem of Part 1 holds verbatim
    of [frun] *)
Theorem C10_frun_run :
  forall RS render n term fr ops (s : state RS),
    frun RS render n term fr s ops = run RS render n term s ops.
Proof. exact frun_run. Qed.
Print Assumptions C10_frun_run.

Theorem C10_ftrace_unraise :
  forall RS render n term fr ops (s : state RS),
    map (fun p => (unraise (fst p), snd p)) (ftrace RS render n term fr s ops) = trace RS render n term s ops.
Proof. exact ftrace_unraise. Qed.
Print Assumptions C10_ftrace_unraise.

(** at most one invocation of the finalizer even when it raises *)
Theorem C10_fin_at_most_once_raising :
  forall RS render n term fr c rs0 s ops,
    mk RS n term c rs0 = inl s ->
    (fin_calls (gh (frun RS render n term fr s ops)) <= 1)%nat.
Proof. exact fin_at_most_once_raising. Qed.
Print Assumptions C10_fin_at_most_once_raising.

Theorem C10_finalized_iff_closed_raising :
  forall RS render n term fr c rs0 s ops,
    mk RS n term c rs0 = inl s ->
    let s' := frun RS render n term fr s ops in
    owns (gh s') = c_owns c /\
    (closed s' = true -> c_owns c = true -> finalized (gh s') = true /\ fin_calls (gh s') = 1%nat) /\
    (closed s' = true -> c_owns c = false -> finalized (gh s') = false /\ fin_calls (gh s') = 0%nat) /\
    (closed s' = false -> finalized (gh s') = false /\ fin_calls (gh s') = 0%nat).
Proof. exact finalized_iff_closed_raising. Qed.
Print Assumptions C10_finalized_iff_closed_raising.

Theorem C10_no_render_on_finalized_raising :
  forall RS render n term fr c rs0 s ops,
    mk RS n term c rs0 = inl s ->
    Forall (fun rc => rc_finalized rc = false) (log (gh (frun RS render n term fr s ops))).
Proof. exact no_render_on_finalized_raising. Qed.
Print Assumptions C10_no_render_on_finalized_raising.

(** [finalize()] after a first call — whether or not the finalizer raised in it: the flag
    is set, a repeated call invokes nothing and raises nothing *)
Theorem C10_finalize_idempotent_raising :
  forall fr g,
    let g1 := fst (fdata_finalize fr g) in
    finalized g1 = true /\
    fdata_finalize fr g1 = (g1, false) /\
    (fin_calls g1 <= S (fin_calls g))%nat /\
    (snd (fdata_finalize fr g) = true ->
     finalized g = false /\ fin_calls g1 = S (fin_calls g) /\ fr (fin_calls g) = true).
Proof. exact finalize_idempotent_raising. Qed.
Print Assumptions C10_finalize_idempotent_raising.

(** the operation in which the finalizer raises ([next], [close()] or [__del__], on an
    open owning iterator, first invocation) leaves the iterator closed, the data finalized
    by exactly one call *)
Theorem C10_raised_closes :
  forall RS render n term fr (s : state RS) o x,
    fin_inv RS s -> snd (fstep RS render n term fr s o) = FRaised x ->
    let s' := fst (fstep RS render n term fr s o) in
    closed s = false /\ closed s' = true /\ owns (gh s') = true /\
    finalized (gh s') = true /\ fin_calls (gh s') = 1%nat /\ fr 0%nat = true /\
    (o = Next \/ o = Close \/ o = Drop).
Proof. exact raised_closes. Qed.
Print Assumptions C10_raised_closes.

(** ... and every continuation of the history behaves as on any closed iterator: [next]
    stops, control operations raise FinalizedIteratorError, [close()] / drop return
    normally; nothing raises the finalizer's exception again, nothing changes *)
Theorem C10_closed_after_raising_finalizer :
  forall RS render n term fr c rs0 s ops o x ops',
    mk RS n term c rs0 = inl s ->
    snd (fstep RS render n term fr (frun RS render n term fr s ops) o) = FRaised x ->
    let s' := frun RS render n term fr s (ops ++ [o]) in
    closed s' = true /\ finalized (gh s') = true /\ fin_calls (gh s') = 1%nat /\
    frun RS render n term fr s' ops' = s' /\
    ftrace RS render n term fr s' ops' = map (fun o => (FO (closed_out o), pub_loop s')) ops'.
Proof. exact closed_after_raising_finalizer. Qed.
Print Assumptions C10_closed_after_raising_finalizer.

(** in any history the finalizer's exception is seen at most once *)
Theorem C10_raise_at_most_once :
  forall RS render n term fr ops (s : state RS),
    fin_inv RS s -> (raises (ftrace RS render n term fr s ops) <= 1)%nat.
Proof. exact raise_at_most_once. Qed.
Print Assumptions C10_raise_at_most_once.

(** one-shot operations, [try: body finally: render_data.finalize()] on fresh data
    followed by the data's garbage collection: one invocation in all, flag set,
    [RenderData.__del__] invokes nothing more; the finalizer's exception wins *)
Theorem C10_oneshot_exactly_once :
  forall fr body_raises,
    let g1 := fst (try_finally_finalize fr body_raises fresh_data) in
    let o := snd (try_finally_finalize fr body_raises fresh_data) in
    fin_calls g1 = 1%nat /\ finalized g1 = true /\ del_data fr g1 = (g1, false) /\
    (o = FinalizerRaised <-> fr 0%nat = true) /\
    (fr 0%nat = false -> o = if body_raises then BodyRaised else Returned).
Proof. exact oneshot_exactly_once. Qed.
Print Assumptions C10_oneshot_exactly_once.

(** data left to [RenderData.__del__] (draw()'s validation failure, a half-built object) *)
Theorem C10_del_exactly_once :
  forall fr,
    let g1 := fst (del_data fr fresh_data) in
    fin_calls g1 = 1%nat /\ finalized g1 = true /\ del_data fr g1 = (g1, false).
Proof. exact del_exactly_once. Qed.
Print Assumptions C10_del_exactly_once.

(** ** Part 1c: close() called from inside [_render_] (re-entrant)

    [IterReent] (model/IterReent.v): the renderable [render2] reports, per invocation,
    whether it called [iterator.close()] while rendering.  The generator is executing at
    that moment, so [self._iterator.close()] raises ValueError before anything changed:
    [nested_close] leaves the state alone; whether the ValueError propagates (the render
    fails) or is swallowed (a frame is returned) is part of [render2]'s result.  For every
    [render2] — nested calls at any set of renders, any reaction — and every history. *)

(** the machine with the hook at the point of the nested call is [Iter] run on what the
    renderable returns: every theorem of Part 1 applies with [render := render1 render2] *)
Theorem C10_rrun_run :
  forall RS render2 n term ops (s : state RS),
    rrun RS render2 n term (nested_close RS) s ops = run RS (render1 RS render2) n term s ops.
Proof. exact rrun_run. Qed.
Print Assumptions C10_rrun_run.

Theorem C10_rtrace_trace :
  forall RS render2 n term ops (s : state RS),
    rtrace RS render2 n term (nested_close RS) s ops = trace RS (render1 RS render2) n term s ops.
Proof. exact rtrace_trace. Qed.
Print Assumptions C10_rtrace_trace.

Theorem C10_reent_finalize_at_most_once :
  forall RS render2 n term c rs0 s ops,
    mk RS n term c rs0 = inl s ->
    (fin_calls (gh (rrun RS render2 n term (nested_close RS) s ops)) <= 1)%nat.
Proof. exact reent_finalize_at_most_once. Qed.
Print Assumptions C10_reent_finalize_at_most_once.

Theorem C10_reent_finalized_iff_closed :
  forall RS render2 n term c rs0 s ops,
    mk RS n term c rs0 = inl s ->
    let s' := rrun RS render2 n term (nested_close RS) s ops in
    owns (gh s') = c_owns c /\
    (closed s' = true -> c_owns c = true -> finalized (gh s') = true /\ fin_calls (gh s') = 1%nat) /\
    (closed s' = true -> c_owns c = false -> finalized (gh s') = false /\ fin_calls (gh s') = 0%nat) /\
    (closed s' = false -> finalized (gh s') = false /\ fin_calls (gh s') = 0%nat).
Proof. exact reent_finalized_iff_closed. Qed.
Print Assumptions C10_reent_finalized_iff_closed.

Theorem C10_reent_no_render_on_finalized :
  forall RS render2 n term c rs0 s ops,
    mk RS n term c rs0 = inl s ->
    Forall (fun rc => rc_finalized rc = false) (log (gh (rrun RS render2 n term (nested_close RS) s ops))).
Proof. exact reent_no_render_on_finalized. Qed.
Print Assumptions C10_reent_no_render_on_finalized.

(** a [next] on an open iterator during which the renderable did or did not call
    [close()], after any history: either the render failed — [next] raises, the iterator is
    properly closed, owned data finalized by exactly one call, a caller's data untouched —
    or a frame comes out and the iterator is still open, nothing finalized *)
Theorem C10_reent_next_outcome :
  forall RS render2 n term c rs0 s ops,
    mk RS n term c rs0 = inl s ->
    let s0 := rrun RS render2 n term (nested_close RS) s ops in
    let s' := fst (rstep RS render2 n term (nested_close RS) s0 Next) in
    let x := snd (rstep RS render2 n term (nested_close RS) s0 Next) in
    closed s0 = false ->
    (is_frame x = true /\ closed s' = false /\ finalized (gh s') = false /\ fin_calls (gh s') = 0%nat) \/
    (is_end x = true /\ closed s' = true /\
     (if c_owns c then finalized (gh s') = true /\ fin_calls (gh s') = 1%nat
      else finalized (gh s') = false /\ fin_calls (gh s') = 0%nat)).
Proof. exact reent_next_outcome. Qed.
Print Assumptions C10_reent_next_outcome.

(** ** Part 1d: sessions — several iterators, one after the other, over ONE render data object

    [IterSession] (model/IterSession.v): [SMake c] = [_from_render_data_(..., D, ...,
    finalize = c_owns c)] (the session's previous iterator is dropped first), [SOp o] an
    operation on the current iterator, [SOwnerFinalize] = [D.finalize()] by the owner.
    The constructor refuses finalized data (ValueError) whatever [finalize] is
    ([guard_code]).  [well_formed]: the owner finalizes only while no iterator is working
    on the data.  [_animate_] / [draw()] are instances (non-owning iterator, then the
    owner's finalize).  For every renderable and every session. *)

Theorem C10_session_finalize_at_most_once :
  forall RS render n term l r rs0,
    (fin_calls (data_of RS (srun RS render n term guard_code (fresh_sess RS r rs0) l)) <= 1)%nat.
Proof. exact session_finalize_at_most_once. Qed.
Print Assumptions C10_session_finalize_at_most_once.

(** no frame is ever rendered with finalized data, however many iterators — owning or not —
    are made from the data, before or after its finalization *)
Theorem C10_session_no_render_on_finalized :
  forall RS render n term l r rs0,
    well_formed RS render n term guard_code (fresh_sess RS r rs0) l = true ->
    Forall (fun rc => rc_finalized rc = false)
           (log (data_of RS (srun RS render n term guard_code (fresh_sess RS r rs0) l))).
Proof. exact session_no_render_on_finalized. Qed.
Print Assumptions C10_session_no_render_on_finalized.

(** creating an iterator from finalized data raises, in both ownership modes *)
Theorem C10_guard_refuses_finalized :
  forall RS n term g r c rs0,
    finalized g = true -> exists e, mk_on RS n term guard_code g r c rs0 = inr e.
Proof. exact guard_refuses_finalized. Qed.
Print Assumptions C10_guard_refuses_finalized.

(** once the data is finalized, the rest of the session makes no iterator, yields no frame,
    renders nothing *)
Theorem C10_session_after_finalization :
  forall RS render n term l l' r rs0,
    well_formed RS render n term guard_code (fresh_sess RS r rs0) (l ++ l') = true ->
    finalized (data_of RS (srun RS render n term guard_code (fresh_sess RS r rs0) l)) = true ->
    log (data_of RS (srun RS render n term guard_code (fresh_sess RS r rs0) (l ++ l'))) =
    log (data_of RS (srun RS render n term guard_code (fresh_sess RS r rs0) l)) /\
    finalized (data_of RS (srun RS render n term guard_code (fresh_sess RS r rs0) (l ++ l'))) = true /\
    Forall (fun y => y <> SMade /\ forall f, y <> SOut (OFrame f))
           (strace RS render n term guard_code (srun RS render n term guard_code (fresh_sess RS r rs0) l) l').
Proof. exact session_after_finalization. Qed.
Print Assumptions C10_session_after_finalization.

(** any number of non-owning iterators leave the caller's data un-finalized *)
Theorem C10_session_caller_owned_untouched :
  forall RS render n term l r rs0,
    Forall (fun o => match o with SMake c => c_owns c = false | SOp _ => True | SOwnerFinalize => False end) l ->
    finalized (data_of RS (srun RS render n term guard_code (fresh_sess RS r rs0) l)) = false /\
    fin_calls (data_of RS (srun RS render n term guard_code (fresh_sess RS r rs0) l)) = 0%nat.
Proof. exact session_caller_owned_untouched. Qed.
Print Assumptions C10_session_caller_owned_untouched.

(** ** Part 2: control-flow skeletons *)

(** every exit of [_init_render_] called with [finalize=True] — normal return, size
    validation error, an exception or KeyboardInterrupt from the renderer or from any call
    inside its [try] — has finalized the data it created *)
Theorem C10_init_render_finalizes :
  forall vs, length vs = nv_Renderable__init_render_ ->
  forall o s', eval cfg_render false (sk_Renderable__init_render_ (Op Render)) (init vs) o s' ->
    get fv_Renderable__init_render___finalize (vars s') = true -> unfin s' = false.
Proof. exact init_render_finalizes. Qed.
Print Assumptions C10_init_render_finalizes.

(** every exit of [render()] and of [__str__] has finalized the data *)
Theorem C10_render_finalizes :
  forall vs, length vs = nv_Renderable_render ->
  forall o s', eval cfg_render false sk_Renderable_render (init vs) o s' -> unfin s' = false.
Proof. exact render_finalizes. Qed.
Print Assumptions C10_render_finalizes.

Theorem C10_str_finalizes :
  forall vs, length vs = nv_Renderable___str__ ->
  forall o s', eval cfg_render false sk_Renderable___str__ (init vs) o s' -> unfin s' = false.
Proof. exact str_finalizes. Qed.
Print Assumptions C10_str_finalizes.

(** [draw()] (frame renders, writes, flushes, sleeps as fault positions): every exit has
    finalized the data, except the exit by an exception raised before the [try] was
    entered with no fault injected — [_init_render_]'s size-validation error — which
    leaves the data to [RenderData.__del__] (garbage collection) *)
Theorem C10_draw_finalizes :
  forall vs, length vs = nv_Renderable_draw ->
  forall o s', eval cfg_draw false sk_Renderable_draw (init vs) o s' ->
    unfin s' = false \/ (o = ORaise Exc /\ kiseen s' = false /\ excseen s' = false).
Proof. exact draw_finalizes. Qed.
Print Assumptions C10_draw_finalizes.

(** with EVERY call of [draw()] a fault position: every exit that is not an exception has
    finalized the data *)
Theorem C10_draw_returns_finalized :
  forall vs, length vs = nv_Renderable_draw ->
  forall o s', eval cfg_all false sk_Renderable_draw (init vs) o s' ->
    (forall k, o <> ORaise k) -> unfin s' = false.
Proof. exact draw_returns_finalized. Qed.
Print Assumptions C10_draw_returns_finalized.

(** every exit of [draw()] has closed the render iterator [_animate_] opened on the data *)
Theorem C10_draw_closes_iterator :
  forall vs, length vs = nv_Renderable_draw ->
  forall o s', eval cfg_draw false sk_Renderable_draw (init vs) o s' -> iter_open s' = false.
Proof. exact draw_closes_iterator. Qed.
Print Assumptions C10_draw_closes_iterator.

(** * Part 3: "never used afterwards" for EVERY use, not only [_render_]

    A use of the render data is every call that hands it to renderable-defined code:
    [_render_] / [next(render_iter)] ([Render]) and the interrupted-draw hook
    [_handle_interrupted_draw_] ([HandleInterrupt]).  [UseMon.evalU] is [Eff.eval] with one
    ghost: "some use was made while the data-unfinalized obligation was not open" (marked
    by every rule of [Op o], completed or faulted).  The theorems below are about the
    skeletons translated from the source at every run, and say that the ghost stays false on
    EVERY path, iteration count and fault position. *)
From TI Require Import model.UseMon proofs.UseMonSound proofs.SkelC10Use.

(** the in-language monitor used to run the shared abstract interpreter is sound for the
    ghost semantics, for every skeleton that does not mention the two ghost variables *)
Theorem C10_use_monitor_sound : forall C nv p,
  fresh nv (S nv) p = true ->
  analyze C nv (monitored nv (S nv) p) (no_bad_use (S nv)) = true ->
  forall vs, length vs = nv ->
  forall o s' b', evalU C false p (init vs, false) o (s', b') -> b' = false.
Proof. exact monitored_sound. Qed.
Print Assumptions C10_use_monitor_sound.

(** [draw()], still and animated, EVERY call a fault position (write, flush, sleep, frame
    render, the hook itself, any helper; KeyboardInterrupt or Exception; before or after
    the call took effect): neither [_render_] nor the interrupted-draw hook is ever
    handed finalized render data *)
Theorem C10_draw_no_use_after_finalize :
  forall vs, length vs = nv_Renderable_draw ->
  forall o s' b', evalU cfg_all false sk_Renderable_draw (init vs, false) o (s', b') -> b' = false.
Proof. exact draw_no_use_after_finalize. Qed.
Print Assumptions C10_draw_no_use_after_finalize.

(** the same with exactly the fault positions named by the property (frame render, write,
    flush, sleep) *)
Theorem C10_draw_no_use_after_finalize_io :
  forall vs, length vs = nv_Renderable_draw ->
  forall o s' b', evalU cfg_draw false sk_Renderable_draw (init vs, false) o (s', b') -> b' = false.
Proof. exact draw_no_use_after_finalize_io. Qed.
Print Assumptions C10_draw_no_use_after_finalize_io.

(** [_animate_] called on its own with live data (every call but the caller's creation of
    the data a fault position): no use of finalized data, and the data is still
    unfinalized at every exit (the caller owns it) *)
Theorem C10_animate_no_use_after_finalize :
  forall vs, length vs = nv_Renderable__animate_ ->
  forall o s' b', evalU cfg_callee false animate_prog (init vs, false) o (s', b') -> b' = false.
Proof. exact animate_no_use_after_finalize. Qed.
Print Assumptions C10_animate_no_use_after_finalize.

Theorem C10_animate_leaves_data_unfinalized :
  forall vs, length vs = nv_Renderable__animate_ ->
  forall o s', eval cfg_callee false animate_prog (init vs) o s' -> unfin s' = true.
Proof. exact animate_leaves_data_unfinalized. Qed.
Print Assumptions C10_animate_leaves_data_unfinalized.

Theorem C10_render_no_use_after_finalize :
  forall vs, length vs = nv_Renderable_render ->
  forall o s' b', evalU cfg_all false sk_Renderable_render (init vs, false) o (s', b') -> b' = false.
Proof. exact render_no_use_after_finalize. Qed.
Print Assumptions C10_render_no_use_after_finalize.

Theorem C10_str_no_use_after_finalize :
  forall vs, length vs = nv_Renderable___str__ ->
  forall o s' b', evalU cfg_all false sk_Renderable___str__ (init vs, false) o (s', b') -> b' = false.
Proof. exact str_no_use_after_finalize. Qed.
Print Assumptions C10_str_no_use_after_finalize.

Theorem C10_init_render_no_use_after_finalize :
  forall vs, length vs = nv_Renderable__init_render_ ->
  forall o s' b', evalU cfg_all false init_render_prog (init vs, false) o (s', b') -> b' = false.
Proof. exact init_render_no_use_after_finalize. Qed.
Print Assumptions C10_init_render_no_use_after_finalize.

(** the statement has teeth: "release the data of a one-off render before writing it" is
    accepted by the exactly-once analysis and has a run in which the hook gets finalized data *)
Theorem C10_early_finalize_has_bad_use :
  analyze cfg_draw 0 early_still (fun _ s => negb (unfin s)) = true /\
  exists s', evalU cfg_draw false early_still (init [], false) (ORaise KI) (s', true).
Proof. exact (conj early_still_finalizes early_still_bad_use). Qed.
Print Assumptions C10_early_finalize_has_bad_use.

(** * Part 4: the same on an executable model of [draw] / [_animate_] / [render] / [__str__]
    that also covers [_clear_frame_] and the finalizer's own entry (model/DrawUse.v): for
    EVERY behaviour of the frame source, EVERY position k and kind of a failing stream call
    (incl. the calls of the clean-up blocks) and EVERY interrupted sleep, no entry into
    renderable-defined code sees finalized render data and the finalizer is entered exactly
    once over the life of the data (garbage collection included) *)
From TI Require Import model.DrawUse model.DrawUseTie proofs.DrawUseProofs proofs.DrawUseTieProofs.

Theorem C10_drawio_entries_ok : forall F nested anim l,
  entries_ok (evs (snd (run_draw F false nested anim l))) = true.
Proof. exact drawio_entries_ok. Qed.
Print Assumptions C10_drawio_entries_ok.

(** every exit of [draw] that is not an exception has finalized the data itself *)
Theorem C10_drawio_returns_finalized : forall F nested anim l,
  match fst (run_draw F false nested anim l) with
  | RExc _ _ => True
  | RNorm s | RRet s => fz s = true
  end.
Proof. exact drawio_returns_finalized. Qed.
Print Assumptions C10_drawio_returns_finalized.

(** [nested]: [draw]'s clean-up block as a straight line (a stream call of the clean-up that
    raises leaves finalization to [RenderData.__del__]) or with [finalize()] in a nested
    [finally]; with the latter EVERY exit of [draw] has finalized the data itself *)
Theorem C10_drawio_nested_always_finalized : forall F anim l,
  fz (state_of (fst (run_draw F false true anim l))) = true.
Proof. exact drawio_nested_always_finalized. Qed.
Print Assumptions C10_drawio_nested_always_finalized.

Theorem C10_renderio_entries_ok : forall F l,
  entries_ok (evs (snd (run_render F l))) = true.
Proof. exact renderio_entries_ok. Qed.
Print Assumptions C10_renderio_entries_ok.

(** the variant that finalizes a one-off render's data before writing it: still exactly
    one finalizer call on every path, but the interrupted-draw hook is handed finalized data *)
Theorem C10_drawio_early_finalize_refuted :
  (forall F l, count_fin (evs (snd (run_draw F true false false l))) = 1%nat) /\
  let F := {| f_io := Some (0%nat, XKI); f_sleep := None |} in
  rev (evs (snd (run_draw F true false false [PFrame true])))
    = [(HRender, false); (HFinalize, false); (HInterrupt, true)]
  /\ entries_ok (evs (snd (run_draw F true false false [PFrame true]))) = false.
Proof. exact (conj early_finalize_once early_finalize_refuted). Qed.
Print Assumptions C10_drawio_early_finalize_refuted.

(** the judge of the correspondence is consistent with these theorems: observations that
    agree with the model satisfy the specification side *)
Theorem C10_drawio_judge_consistent : forall t,
  d_async t = false -> dmodel_ok t = true -> dspec_ok t = true.
Proof. exact model_agreement_implies_spec. Qed.
Print Assumptions C10_drawio_judge_consistent.

(** * Part 5: faults DURING THE CONSTRUCTION of an iterator (model/IterCtor.v)

    Both constructors assemble the object attribute by attribute and prime the generator, whose
    set-up part runs code of the padding and allocates the frame cache.  A constructor is a program
    (list of [IterCtor.instr]); [exec p k] runs it with a fault at position [k] - for EVERY [k] -,
    the half-built object is then dropped ([__del__] -> [close()] on whatever attributes exist) and
    the data collected once nobody references it.  [after_drop]: the iterator is gone, the caller of
    [_from_render_data_] still holds its data; [the_end]: the owner of kept data has finalized it
    itself and everything is released. *)
From TI Require model.IterCtor proofs.IterCtorProofs model.FinNest proofs.FinNestProofs.

(** whatever the constructor program (ANY list of instructions, in any order) and wherever it
    faults: never two finalizer entries, and exactly one in the end if a data object came into being *)
Theorem C10_ctor_exactly_once_for_every_design_and_fault : forall kd p k,
  (IterCtor.d_calls (IterCtor.c_data (IterCtor.after_drop kd p k)) <= 1)%nat /\
  let d := IterCtor.c_data (IterCtor.the_end kd p k) in
  (IterCtor.d_calls d <= 1)%nat /\
  (IterCtor.d_exists d = true -> IterCtor.d_finalized d = true /\ IterCtor.d_calls d = 1%nat).
Proof. exact IterCtorProofs.ctor_exactly_once_for_every_design_and_fault. Qed.
Print Assumptions C10_ctor_exactly_once_for_every_design_and_fault.

(** data of a caller who asked to keep it is untouched after the collection of the (half-built)
    iterator, for every fault position, in EVERY constructor program that never gives the ownership
    flag a value the caller did not ask for - and the code's programs are of that kind *)
Theorem C10_ctor_kept_data_untouched : forall p k,
  IterCtor.flags_faithful IterCtor.KKeep p ->
  IterCtor.kept_untouched (IterCtor.c_data (IterCtor.after_drop IterCtor.KKeep p k)).
Proof. exact IterCtorProofs.ctor_kept_untouched. Qed.
Print Assumptions C10_ctor_kept_data_untouched.

Theorem C10_ctor_code_kept_data_untouched :
  (forall kd, IterCtor.flags_faithful kd (IterCtor.prog_of kd)) /\
  forall k, IterCtor.kept_untouched
              (IterCtor.c_data (IterCtor.after_drop IterCtor.KKeep (IterCtor.prog_of IterCtor.KKeep) k)).
Proof. exact IterCtorProofs.ctor_code_kept. Qed.
Print Assumptions C10_ctor_code_kept_data_untouched.

(** the excluded design "the flag defaults to True in the common initialisation and the caller's
    value is stored after priming": unfaulted it is the code; a fault at positions 7, 8 (priming) or 9
    (between priming and the late store) makes the collected half-built iterator finalize kept data *)
Theorem C10_ctor_default_first_refuted :
  IterCtor.after_drop IterCtor.KKeep (IterCtor.prog_frd_default_first false) 11
    = IterCtor.after_drop IterCtor.KKeep (IterCtor.prog_of IterCtor.KKeep) 10 /\
  map (fun k => IterCtor.d_calls (IterCtor.c_data
                  (IterCtor.after_drop IterCtor.KKeep (IterCtor.prog_frd_default_first false) k))) (seq 0 12)
    = [0;0;0;0;0;0;0;1;1;1;0;0]%nat /\
  ~ IterCtor.kept_untouched
      (IterCtor.c_data (IterCtor.after_drop IterCtor.KKeep (IterCtor.prog_frd_default_first false) 7)) /\
  ~ IterCtor.flags_faithful IterCtor.KKeep (IterCtor.prog_frd_default_first false).
Proof. exact IterCtorProofs.default_first_refuted_all. Qed.
Print Assumptions C10_ctor_default_first_refuted.

(** the un-faulted construction is what [Iter.mk] (Parts 1-1d) starts from, and dropping it is
    [Iter.close] *)
Theorem C10_ctor_complete_is_mk : forall RS n term kd c rs0 s,
  mk RS n term c rs0 = inl s -> c_owns c = IterCtor.owns_of kd ->
  (forall k, (length (IterCtor.prog_of kd) <= k)%nat ->
             IterCtor.exec (IterCtor.prog_of kd) k (IterCtor.start kd) = (IterCtorProofs.complete kd, true)) /\
  let o := match IterCtor.c_obj (IterCtorProofs.complete kd) with Some o => o | None => IterCtor.blank end in
  IterCtor.a_closed o = Some (closed s) /\ phase s = AtDummy /\ IterCtor.a_flag o = Some (owns (gh s)) /\
  IterCtor.d_finalized (IterCtor.c_data (IterCtorProofs.complete kd)) = finalized (gh s) /\
  IterCtor.d_calls (IterCtor.c_data (IterCtorProofs.complete kd)) = fin_calls (gh s) /\
  IterCtor.d_finalized (IterCtor.c_data (IterCtor.drop (IterCtorProofs.complete kd))) = finalized (gh (close RS s)) /\
  IterCtor.d_calls (IterCtor.c_data (IterCtor.drop (IterCtorProofs.complete kd))) = fin_calls (gh (close RS s)).
Proof. exact IterCtorProofs.ctor_complete_is_mk_all. Qed.
Print Assumptions C10_ctor_complete_is_mk.

(** * Part 6: SEVERAL render-data objects, nested and concurrent finalization (model/FinNest.v)

    Objects indexed by [nat]; [body j] = the objects the finalizer of object [j] finalizes (closing
    the iterators that own them, finalizing them, dropping the last reference to them) - ANY
    function, so any nesting depth and shape; [progs] = per thread, the objects whose life its
    operations end; any schedule.  [race_free]: no [finalize()] of an object is attempted while that
    object's finalizer is running (in the same thread the real finalizer would recurse for ever; from
    another thread both would enter it - the once-flag is check-then-act). *)
Theorem C10_nest_at_most_once : forall body progs sched j,
  FinNest.race_free body false (FinNest.init progs) sched = true ->
  let x := FinNest.hp (FinNest.run body false (FinNest.init progs) sched) j in
  (FinNest.o_calls x <= 1)%nat /\ (FinNest.o_st x = FinNest.Idle <-> FinNest.o_calls x = 0%nat) /\
  (FinNest.o_st x = FinNest.Done -> FinNest.o_calls x = 1%nat).
Proof. exact FinNestProofs.nest_at_most_once. Qed.
Print Assumptions C10_nest_at_most_once.

(** when everything has come to rest: every object named by some thread's program, and every
    object named by the finalizer of a finalized object - hence everything reachable -, is
    finalized, by exactly one entry into its finalizer; no finalizer is left running *)
Theorem C10_nest_each_object_exactly_once : forall body progs sched,
  FinNest.race_free body false (FinNest.init progs) sched = true ->
  let c := FinNest.run body false (FinNest.init progs) sched in
  FinNest.quiescent c = true ->
  (forall j, In j (concat progs) ->
             FinNest.o_st (FinNest.hp c j) = FinNest.Done /\ FinNest.o_calls (FinNest.hp c j) = 1%nat) /\
  (forall i j, FinNest.o_st (FinNest.hp c i) = FinNest.Done -> In j (body i) ->
               FinNest.o_st (FinNest.hp c j) = FinNest.Done /\ FinNest.o_calls (FinNest.hp c j) = 1%nat) /\
  (forall j, FinNest.o_st (FinNest.hp c j) <> FinNest.Running).
Proof. exact FinNestProofs.nest_exactly_once. Qed.
Print Assumptions C10_nest_each_object_exactly_once.

(** the hypotheses are satisfiable on a composite of nesting depth 2 with a second thread at work
    in the middle of it; and the excluded design - ONE non-blocking lock shared by all objects -
    loses the inner object of a composite (one thread) and an unrelated object (two threads), under
    schedules under which the code finalizes everything *)
Theorem C10_nest_shared_nonblocking_guard_refuted :
  (FinNest.race_free FinNestProofs.ex_body false (FinNest.init FinNestProofs.ex_progs) FinNestProofs.ex_sched = true /\
   FinNest.quiescent (FinNest.run FinNestProofs.ex_body false (FinNest.init FinNestProofs.ex_progs) FinNestProofs.ex_sched) = true) /\
  (let c := FinNest.run (FinNest.body_of [[]; [0%nat]]) true (FinNest.init [[1%nat]]) (repeat 0%nat 8) in
   FinNest.quiescent c = true /\ FinNest.is_done (FinNest.hp c 1%nat) = true /\
   FinNest.o_st (FinNest.hp c 0%nat) = FinNest.Idle /\ FinNest.o_calls (FinNest.hp c 0%nat) = 0%nat) /\
  (let c := FinNest.run (FinNest.body_of [[]; []]) true (FinNest.init [[0%nat]; [1%nat]]) [0; 1; 1; 0; 0]%nat in
   FinNest.quiescent c = true /\ FinNest.is_done (FinNest.hp c 0%nat) = true /\
   FinNest.o_st (FinNest.hp c 1%nat) = FinNest.Idle /\ FinNest.o_calls (FinNest.hp c 1%nat) = 0%nat).
Proof. exact FinNestProofs.shared_guard_refuted_all. Qed.
Print Assumptions C10_nest_shared_nonblocking_guard_refuted.

(** * Part 7: ALL client code run inside [next()] (model/IterClient.v)

    [_render_] is not the only client code [RenderIterator.__next__] runs: the padding step calls
    [pad] (-> [_get_exact_dimensions_]) of the iterator's padding object - a client [Padding]
    subclass is part of the public API - and the iterator reads attributes of whatever [_render_]
    returned.  [client] is ONE oracle for all of it (any state-passing function: returns a value,
    returns garbage, raises StopIteration, raises another exception).  [late = false] is the code
    (the padding step inside the generator, i.e. inside [__next__]'s try/except ladder). *)
From TI Require model.IterClient model.IterClientTie proofs.IterClientProofs.

(** whatever ended a [next()] without a frame - an exception out of [_render_], out of the
    padding's [pad], the iterator tripping over a non-Frame, StopIteration - the iterator is
    closed, owned data is finalized by exactly one entry (data of another owner: none), and from
    then on [next()] stops, control operations raise the finalized-iterator error, [close()] is
    accepted and nothing is finalized again *)
Theorem C10_client_any_failure_in_next_closes : forall CS client n own p rsz psz c0 ops s' x,
  let s := IterClient.run CS client n false (IterClient.mk CS own p rsz psz c0) ops in
  IterClient.closed s = false ->
  IterClient.next CS client n false s = (s', x) ->
  (forall b, x <> IterClient.OFrame b) ->
  IterClient.closed s' = true /\
  IterClient.finalized (IterClient.gh s') = own /\
  IterClient.fin_calls (IterClient.gh s') = (if own then 1 else 0)%nat /\
  forall o, let '(s'', y) := IterClient.step CS client n false s' o in
            IterClient.dead_outcome o y = true /\ IterClient.gh s'' = IterClient.gh s'.
Proof. exact IterClientProofs.next_failure_closes. Qed.
Print Assumptions C10_client_any_failure_in_next_closes.

(** the observable history of every run, under every behaviour of the client code, satisfies the
    history-level specification the correspondence judges observations by ([IterClient.spec_ok]:
    a function of operations, outcomes, finalizer entries and the [finalized] flag alone) *)
Theorem C10_client_history_meets_spec : forall CS client n own p rsz psz c0 ops,
  IterClient.spec_ok own false
    (IterClient.trace CS client n false (IterClient.mk CS own p rsz psz c0) ops) = true.
Proof. exact IterClientProofs.trace_spec_ok. Qed.
Print Assumptions C10_client_history_meets_spec.

(** no client code is ever entered with finalized render data *)
Theorem C10_client_never_entered_with_finalized_data : forall CS client n own p rsz psz c0 ops,
  IterClient.bad_use (IterClient.gh
    (IterClient.run CS client n false (IterClient.mk CS own p rsz psz c0) ops)) = 0%nat.
Proof. exact IterClientProofs.never_used_finalized. Qed.
Print Assumptions C10_client_never_entered_with_finalized_data.

(** the excluded design - the frame is padded / post-processed by [__next__] BEHIND the ladder
    ([late = true]) - fails the specification: a padding whose [pad] raises on the second frame
    (and a [_render_] returning a non-Frame) leaves the iterator open and the data un-finalized *)
Theorem C10_client_padding_after_the_ladder_refuted :
  (exists n s ops, IterClient.spec_ok true false
     (IterClient.trace IterClientTie.script IterClientTie.scripted n true s ops) = false) /\
  (forall CS client n own p rsz psz c0 ops,
     IterClient.spec_ok own false
       (IterClient.trace CS client n false (IterClient.mk CS own p rsz psz c0) ops) = true).
Proof. exact IterClientProofs.refuted_all. Qed.
Print Assumptions C10_client_padding_after_the_ladder_refuted.

(** ** [RenderIterator.close()] tied to the source as a theorem (T): its statements are translated
    from render/_iterator.py on every run into the step program [gen/CloseSrc.v] by
    [harness/tx/tx_close.py]; run over the iterator state with the finalizer oracle
    ([model/IterCloseProg.v]: [CFinalize] is the only step that may raise, a [finally] block
    runs all the same) the program IS [IterFin.fclose] — the close of every theorem above about
    raising finalizers — for every state and every finalizer behaviour *)
From TI Require Import model.IterCloseProg gen.CloseSrc proofs.IterCloseTie.
Theorem C10_source_close :
  forall RS (fr : nat -> bool) (s : TI.model.Iter.state RS),
    ccall RS fr src_iter_close s = TI.model.IterFin.fclose RS fr s.
Proof. exact close_prog_is_fclose. Qed.
Print Assumptions C10_source_close.

(** the order repaired by 08c670c ([_closed] set only after [finalize()] returned) is a
    different program; its run is the unrepaired model, which a raising finalizer leaves open *)
Theorem C10_source_close_unrepaired_order :
  forall RS (fr : nat -> bool) (s : TI.model.Iter.state RS),
    ccall RS fr (unrepaired_close) s = TI.model.IterFin.fclose_unrepaired RS fr s.
Proof. exact unrepaired_prog_is_fclose_unrepaired. Qed.
Print Assumptions C10_source_close_unrepaired_order.
