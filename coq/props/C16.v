(** C16 — render-argument sets obey their precedence, compatibility and immutability laws.

    Only statements, each closed by [exact <lemma>], and [Print Assumptions].

    [F] ranges over every single-inheritance forest of render classes ([wf_forest]: the
    base of class [c > 0] was created before [c]; class 0 = [Renderable] has no [Args]),
    with any subset of classes owning an [Args] namespace with any default field values.
    [WF F h] is the representation invariant of the heap of [RenderArgs] objects and the
    per-type interning tables; it holds initially ([heap0]) and after every operation.
    [denotes h i v]: object [i] of heap [h] is associated with class [s_cls v] and holds,
    for every class [c], the field values [s_ns v c].  The specification side
    ([spec_construct], [spec_op], [spec_run]) mentions no heap, identity or interning. *)
From Coq Require Import List ZArith Bool Arith.
Import ListNotations.
From TI Require Import model.RArgs proofs.RArgsBasics proofs.RArgsProofs proofs.RArgsOps
     proofs.RArgsLaws proofs.RArgsTags.
From TI Require Import model.RArgsVal proofs.RArgsValProofs.
From TI Require Import model.RArgsSub proofs.RArgsSubProofs.
From TI Require model.RArgsIntern proofs.RArgsInternProofs.
From TI Require model.RArgsRel proofs.RArgsRelProofs.
From TI Require model.RArgsShape proofs.RArgsShapeProofs.

(** the invariant holds initially *)
Theorem C16_initial_heap_wf : forall F, wf_forest F -> WF F heap0.
Proof. exact WF_heap0. Qed.
Print Assumptions C16_initial_heap_wf.

(** precedence: for each class with a namespace in the ancestry of the target, the
    result holds the last namespace given for it, else init's, else the default; nothing
    for any other class — whichever interning shortcut [__new__]/[__init__] took *)
Theorem C16_construct_spec :
  forall F, wf_forest F -> forall h k cls init iv nss id,
    WF F h -> init_agree h init iv ->
    snd (construct F h k cls init nss) = Ok id ->
    exists kk d,
      getobj (fst (construct F h k cls init nss)) id = Some (kk, cls, d) /\
      forall c, dget d c =
        if anc F c cls && hasns F c then
          Some (match last_for c nss with
                | Some f => f
                | None => match iv with
                          | Some v => match s_ns v c with Some f => f | None => dflt F c end
                          | None => dflt F c
                          end
                end)
        else None.
Proof. exact construct_spec. Qed.
Print Assumptions C16_construct_spec.

(** compatibility: accepted iff init's class is an ancestor-or-self of the target and
    every namespace's class is an ancestor-or-self owning a namespace; the documented
    error otherwise *)
Theorem C16_construct_accepts_iff :
  forall F, wf_forest F -> forall h k cls init iv nss,
    WF F h -> init_agree h init iv ->
    let r := snd (construct F h k cls init nss) in
    ((exists id, r = Ok id) <->
     init_compatible F cls iv = true /\ forallb (ns_compatible F cls) nss = true) /\
    (r = Err EIncompatRA <-> init_compatible F cls iv = false) /\
    (r = Err EIncompatNS <->
     init_compatible F cls iv = true /\ forallb (ns_compatible F cls) nss = false).
Proof. exact construct_accepts_iff. Qed.
Print Assumptions C16_construct_accepts_iff.

(** ... and a rejected call changes no object and no interning entry *)
Theorem C16_construct_rejected_unchanged :
  forall F h k cls init nss e,
    WF F h ->
    snd (construct F h k cls init nss) = Err e ->
    let h' := fst (construct F h k cls init nss) in
    (forall i, getobj h' i = getobj h i) /\ itn h' = itn h.
Proof. exact construct_rejected_unchanged. Qed.
Print Assumptions C16_construct_rejected_unchanged.

(** the aliasing theorem: no operation (constructor of any [RenderArgs] type, update in
    both forms, convert in both directions, [|] with both operand kinds and orders,
    unary [+], [to_render_args]), whatever objects it is given, alters an existing
    object or replaces an interned default set — including [BASE_RENDER_ARGS] *)
Theorem C16_heap_monotone :
  forall F, wf_forest F -> forall h env senv o,
    WF F h -> env_agree h env senv ->
    let h' := fst (step_op F h env o) in
    (forall i x, getobj h i = Some x -> getobj h' i = Some x) /\
    (forall k c i, itn h k c = Some i -> itn h' k c = Some i) /\
    WF F h'.
Proof. exact heap_monotone. Qed.
Print Assumptions C16_heap_monotone.

(** update / convert / [|] / [+] obey the same rule: the result of every operation
    denotes what [spec_op] says (a function of the operands' denotations only), with
    the same error otherwise *)
Theorem C16_every_operation_obeys_the_rule :
  forall F, wf_forest F -> forall h env senv o,
    WF F h -> env_agree h env senv ->
    agree (fst (step_op F h env o)) (snd (step_op F h env o)) (spec_op F senv o).
Proof. exact op_refines. Qed.
Print Assumptions C16_every_operation_obeys_the_rule.

(** operation SEQUENCES: after any program, every result — read in the FINAL heap —
    denotes what the rule said when it was created *)
Theorem C16_programs_obey_the_rule :
  forall F, wf_forest F -> forall p,
    WF F (fst (run F p)) /\
    Forall2 (agree (fst (run F p))) (snd (run F p)) (spec_run F p).
Proof. exact run_refines. Qed.
Print Assumptions C16_programs_obey_the_rule.

Theorem C16_programs_never_alter_objects :
  forall F, wf_forest F -> forall p q i x,
    getobj (fst (run F p)) i = Some x -> getobj (fst (run F (p ++ q))) i = Some x.
Proof. exact run_heap_monotone. Qed.
Print Assumptions C16_programs_never_alter_objects.

Theorem C16_default_shared_never_altered :
  forall F, wf_forest F -> forall p q k c i,
    itn (fst (run F p)) k c = Some i ->
    itn (fst (run F (p ++ q))) k c = Some i /\
    getobj (fst (run F (p ++ q))) i = Some (k, c, defaults F c) /\
    getobj (fst (run F p)) i = Some (k, c, defaults F c).
Proof. exact default_shared_never_altered. Qed.
Print Assumptions C16_default_shared_never_altered.

Theorem C16_base_render_args_never_altered :
  forall F, wf_forest F -> forall p,
    getobj (fst (run F p)) BASE = Some (0, 0, []) /\ itn (fst (run F p)) 0 0 = Some BASE.
Proof. exact base_never_altered. Qed.
Print Assumptions C16_base_render_args_never_altered.

(** equal sets hash equal; [==] is "same class, same values"; [in] *)
Theorem C16_eq_hash :
  forall F, wf_forest F -> forall h x y,
    WF F h -> req h x y = true -> rhash h x = rhash h y.
Proof. exact eq_hash. Qed.
Print Assumptions C16_eq_hash.

Theorem C16_eq_iff_same_values :
  forall F, wf_forest F -> forall h x y sx sy,
    WF F h -> denotes h x sx -> denotes h y sy ->
    (req h x y = true <-> (s_cls sx = s_cls sy /\ forall c, s_ns sx c = s_ns sy c)).
Proof. exact eq_iff_same_denotation. Qed.
Print Assumptions C16_eq_iff_same_values.

Theorem C16_contains_spec :
  forall h x s n, denotes h x s ->
    (contains h x n = true <-> s_ns s (fst n) = Some (snd n)).
Proof. exact contains_spec. Qed.
Print Assumptions C16_contains_spec.

Theorem C16_namespace_eq_hash :
  forall a b, ns_eq a b = true -> ns_hash a = ns_hash b.
Proof. exact ns_eq_hash. Qed.
Print Assumptions C16_namespace_eq_hash.

(** namespace-class SUBCLASSES.  Every theorem above quantifies over all forests and all
    namespace values, so it also holds of the TAGGED reading used by the correspondence
    (a namespace made from the [tag]-th subclass of [c]'s namespace class is written
    [(c, tag :: f)], defaults [0 :: d], field [j] is field [S j]; model/RArgsTie.v), in
    which "the last namespace given" is a statement about INSTANCES.  The only operation
    that computes on field lists, the field update, accepts / rejects on the tagged
    encoding exactly as on the plain one and keeps the tag (= [type(self)], _types.py:589),
    in the heap model and in the rule *)
Theorem C16_namespace_class_is_a_hidden_field :
  forall F Ft c tag f fields,
    length (dflt Ft c) = S (length (dflt F c)) ->
    ns_update Ft c (tag :: f) (shift fields) =
      match ns_update F c f fields with Ok f' => Ok (tag :: f') | Err e => Err e end /\
    spec_fields Ft c (tag :: f) (shift fields) =
      match spec_fields F c f fields with Ok f' => Ok (tag :: f') | Err e => Err e end.
Proof. exact tagged_field_update. Qed.
Print Assumptions C16_namespace_class_is_a_hidden_field.

(** namespace class statements: iff tables of the metaclass decision *)
Theorem C16_namespace_meta_accept_iff :
  forall s,
    ns_meta s = MAccept <->
    (args_kind s = true -> all_defaults s = true) /\
    n_extra_bases s = 0 /\
    n_base_fields s && has_fields s = false /\
    match n_rc s with
    | Some r => n_base_assoc s = false /\ has_fields s = true /\ r = Some false /\
                n_required s = false
    | None => has_fields s = false /\ n_base_fields s && n_required s = false
    end.
Proof. exact meta_accept_iff. Qed.
Print Assumptions C16_namespace_meta_accept_iff.

Theorem C16_namespace_meta_field_without_default :
  forall s, ns_meta s = MReject MNoDefault <-> args_kind s = true /\ all_defaults s = false.
Proof. exact meta_no_default_iff. Qed.
Print Assumptions C16_namespace_meta_field_without_default.

Theorem C16_namespace_meta_multiple_bases :
  forall s,
    ns_meta s = MReject MMultipleBases <->
    negb (args_kind s && negb (all_defaults s)) = true /\ n_extra_bases s <> 0.
Proof. exact meta_multiple_bases_iff. Qed.
Print Assumptions C16_namespace_meta_multiple_bases.

Theorem C16_namespace_meta_reassociation :
  forall s,
    ns_meta s = MReject MReassociate <->
    negb (args_kind s && negb (all_defaults s)) = true /\ n_extra_bases s = 0 /\
    n_base_fields s && has_fields s = false /\
    n_rc s <> None /\ n_base_assoc s = true.
Proof. exact meta_reassociate_iff. Qed.
Print Assumptions C16_namespace_meta_reassociation.

Theorem C16_namespace_unknown_field :
  forall nf nv kw,
    (ns_ctor nf nv kw = None <-> nv <= nf /\ forall j, In j kw -> nv <= j < nf) /\
    (ns_ctor nf nv kw = Some CUnknown <-> nv <= nf /\ exists j, In j kw /\ nf <= j).
Proof. intros; split; [exact (ns_ctor_accept_iff nf nv kw)|exact (ns_ctor_unknown_iff nf nv kw)]. Qed.
Print Assumptions C16_namespace_unknown_field.

Theorem C16_renderable_meta :
  forall bases, renderable_meta bases = true <-> In true bases.
Proof. exact renderable_meta_iff. Qed.
Print Assumptions C16_renderable_meta.

(** * Field VALUES (model/RArgsVal.v)

    The theorems above take field values to be integers.  The rejection and assignment
    rules of the namespace classes are statements about field NAMES: below they are proved
    over a universe of Python values [val] (ints, [False]/[True], integral floats, [None],
    [Ellipsis], strings, [()], NaN-like objects that are unequal to themselves) for EVERY
    value, every position of the offending keyword among the others and every split
    between positional and keyword arguments.  [py_eq] is Python's [==] on the universe,
    [hkey] what [hash] depends on. *)

(** Python's [==] on the universe: [a == b] iff [a] is not NaN-like and both have the same
    hash key; hence symmetric, transitive, reflexive exactly off the NaN-like objects, and
    equal values hash equal ([0 == False == 0.0] included) *)
Theorem C16_value_eq_iff :
  forall a b, py_eq a b = true <-> is_nan a = false /\ hkey a = hkey b.
Proof. exact py_eq_iff. Qed.
Print Assumptions C16_value_eq_iff.

Theorem C16_value_eq_laws :
  (forall a b, py_eq a b = py_eq b a) /\
  (forall a b c, py_eq a b = true -> py_eq b c = true -> py_eq a c = true) /\
  (forall a, py_eq a a = true <-> is_nan a = false) /\
  (forall a b, py_eq a b = true -> hkey a = hkey b).
Proof. exact py_eq_laws. Qed.
Print Assumptions C16_value_eq_laws.

Theorem C16_value_eq_table :
  py_eq (VInt 0) (VBool false) = true /\ py_eq (VBool true) (VFloat 1) = true /\
  hkey (VInt 0) = hkey (VBool false) /\ hkey (VBool false) = hkey (VFloat 0) /\
  py_eq VNone (VInt 0) = false /\ py_eq VNone (VBool false) = false /\
  py_eq (VStr 0) (VInt 0) = false /\ py_eq VEmptyTuple (VBool false) = false /\
  py_eq VNone VNone = true /\ py_eq VEllipsis VNone = false /\
  (forall i, py_eq (VNan i) (VNan i) = false).
Proof. exact py_eq_table. Qed.
Print Assumptions C16_value_eq_table.

(** unknown fields are rejected by [update] for EVERY value [v] given for the unknown name
    [j], whatever other keywords stand before ([kw1]) or after ([kw2]) it and whatever the
    current field values *)
Theorem C16_update_rejects_unknown_field_for_every_value :
  forall nf f kw1 j v kw2,
    nf <= j -> nupdate nf f (kw1 ++ (j, v) :: kw2) = NErr NEUnknown.
Proof. exact update_rejects_unknown. Qed.
Print Assumptions C16_update_rejects_unknown_field_for_every_value.

Theorem C16_update_accepts_iff_all_names_known :
  forall nf f kw,
    (exists r, nupdate nf f kw = NOk r) <-> (forall j v, In (j, v) kw -> j < nf).
Proof. exact update_accepts_iff. Qed.
Print Assumptions C16_update_accepts_iff_all_names_known.

(** ... and by the constructor for every value and EVERY split between positional values
    [pos] (any number of them, the full list included) and keywords: the call fails, with
    [UnknownArgsFieldError] unless there are also more positional values than fields *)
Theorem C16_constructor_rejects_unknown_field_for_every_value_and_split :
  forall dfl pos kw1 j v kw2,
    length dfl <= j ->
    nctor dfl pos (kw1 ++ (j, v) :: kw2) =
    NErr (if length dfl <? length pos then NEType else NEUnknown).
Proof. exact ctor_rejects_unknown. Qed.
Print Assumptions C16_constructor_rejects_unknown_field_for_every_value_and_split.

(** constructor and [update] ARE the field-by-field rule ([spec_nctor] / [spec_nupdate]:
    the value given by keyword, else by position, else the default / the previous value;
    the documented errors), for all values *)
Theorem C16_constructor_is_the_field_rule :
  forall dfl pos kw, nctor dfl pos kw = spec_nctor dfl pos kw.
Proof. exact nctor_is_rule. Qed.
Print Assumptions C16_constructor_is_the_field_rule.

Theorem C16_update_is_the_field_rule :
  forall nf f kw,
    length f = nf ->
    match nupdate nf f kw with
    | NErr e => spec_nupdate nf f kw = NErr e
    | NOk None => kw = [] /\ spec_nupdate nf f kw = NOk f
    | NOk (Some f') => kw <> [] /\ spec_nupdate nf f kw = NOk f'
    end.
Proof. exact nupdate_is_rule. Qed.
Print Assumptions C16_update_is_the_field_rule.

(** known fields take the value given for them WHATEVER it is ([None], a falsy value, a
    value equal to the current one, a NaN-like object); the others keep theirs *)
Theorem C16_update_known_fields_take_the_given_value :
  forall nf f kw f',
    length f = nf -> nupdate nf f kw = NOk (Some f') -> NoDup (map fst kw) ->
    length f' = nf /\
    (forall j v, In (j, v) kw -> nth_error f' j = Some v) /\
    (forall j, ~ In j (map fst kw) -> nth_error f' j = nth_error f j).
Proof. exact update_takes_values. Qed.
Print Assumptions C16_update_known_fields_take_the_given_value.

Theorem C16_constructor_fields_take_the_given_value :
  forall dfl pos kw f,
    nctor dfl pos kw = NOk f -> NoDup (map fst kw) ->
    length f = length dfl /\
    (forall j v, In (j, v) kw -> nth_error f j = Some v) /\
    (forall j, j < length pos -> nth_error f j = nth_error pos j) /\
    (forall j, length pos <= j -> ~ In j (map fst kw) -> nth_error f j = nth_error dfl j).
Proof. exact ctor_takes_values. Qed.
Print Assumptions C16_constructor_fields_take_the_given_value.

(** namespace PROGRAMS (constructor, [update], [RenderArgs.update(render_cls, fields...)],
    field reads on a heap of instances that starts with the shared default instances):
    every operation denotes what the rule says, the heap only grows — no live instance is
    altered — and a rejected call changes nothing *)
Theorem C16_namespace_operation_obeys_the_rule :
  forall cl h env senv o,
    WFn cl h -> Forall2 (nagree h) env senv ->
    let hr := nstep_op cl h env o in
    nagree (fst hr) (snd hr) (spec_nop cl senv o) /\
    WFn cl (fst hr) /\ (exists t, fst hr = h ++ t) /\ (forall e, snd hr = NErr e -> fst hr = h).
Proof. exact nstep_refines. Qed.
Print Assumptions C16_namespace_operation_obeys_the_rule.

Theorem C16_namespace_programs_obey_the_rule :
  forall cl p,
    WFn cl (fst (nrun cl p)) /\
    Forall2 (nagree (fst (nrun cl p))) (snd (nrun cl p)) (spec_nrun cl p).
Proof. exact nrun_refines. Qed.
Print Assumptions C16_namespace_programs_obey_the_rule.

Theorem C16_namespace_programs_never_alter_instances :
  forall cl p q i o,
    nth_error (fst (nrun cl p)) i = Some o -> nth_error (fst (nrun cl (p ++ q))) i = Some o.
Proof. exact nrun_heap_monotone. Qed.
Print Assumptions C16_namespace_programs_never_alter_instances.

Theorem C16_shared_default_namespace_never_altered :
  forall cl p c,
    c < length cl -> nth_error (fst (nrun cl p)) c = Some (c, nth c cl []).
Proof. exact defaults_never_altered. Qed.
Print Assumptions C16_shared_default_namespace_never_altered.

(** the unknown-field rule at the level of operations, through both [update] routes and the
    constructor: [UnknownArgsFieldError], heap untouched *)
Theorem C16_operation_update_unknown_field :
  forall cl h env x i c f kw1 j v kw2,
    nlookup h env x = Some (i, (c, f)) -> nfields cl c <= j ->
    nstep_op cl h env (NUpdate x (kw1 ++ (j, v) :: kw2)) = (h, NErr NEUnknown).
Proof. exact op_update_unknown. Qed.
Print Assumptions C16_operation_update_unknown_field.

Theorem C16_operation_render_args_update_unknown_field :
  forall cl h env x m i c f kw1 j v kw2,
    nlookup h env x = Some (i, (c, f)) -> c <= m < length cl -> nfields cl c <= j ->
    nstep_op cl h env (NRaUpdate x m (kw1 ++ (j, v) :: kw2)) = (h, NErr NEUnknown).
Proof. exact op_ra_update_unknown. Qed.
Print Assumptions C16_operation_render_args_update_unknown_field.

Theorem C16_operation_constructor_unknown_field :
  forall cl h env c dfl pos kw1 j v kw2,
    nth_error cl c = Some dfl -> length dfl <= j ->
    nstep_op cl h env (NCtor c pos (kw1 ++ (j, v) :: kw2)) =
    (h, NErr (if length dfl <? length pos then NEType else NEUnknown)).
Proof. exact op_ctor_unknown. Qed.
Print Assumptions C16_operation_constructor_unknown_field.

Theorem C16_render_args_update_is_namespace_update :
  forall cl h env x m i c f kw,
    nlookup h env x = Some (i, (c, f)) -> c <= m < length cl ->
    nstep_op cl h env (NRaUpdate x m kw) = nstep_op cl h env (NUpdate x kw).
Proof. exact ra_update_is_ns_update. Qed.
Print Assumptions C16_render_args_update_is_namespace_update.

(** [==] / [hash] of namespace instances over the universe: equal instances hash equal;
    [==] is an equivalence on live instances (reflexive by identity even with a NaN-like
    field); two distinct instances are equal iff same class and pairwise [==] values *)
Theorem C16_namespace_value_eq_hash :
  forall h i j, nobj_eq h i j = true -> nobj_hash h i = nobj_hash h j.
Proof. exact nobj_eq_hash. Qed.
Print Assumptions C16_namespace_value_eq_hash.

Theorem C16_namespace_value_eq_equivalence :
  (forall (h : list nobj) i o, nth_error h i = Some o -> nobj_eq h i i = true) /\
  (forall h i j, nobj_eq h i j = nobj_eq h j i) /\
  (forall h i j k, nobj_eq h i j = true -> nobj_eq h j k = true -> nobj_eq h i k = true).
Proof. exact nobj_eq_equivalence. Qed.
Print Assumptions C16_namespace_value_eq_equivalence.

Theorem C16_namespace_value_eq_distinct_instances :
  forall (h : list nobj) i j c f c' f',
    nth_error h i = Some (c, f) -> nth_error h j = Some (c', f') -> i <> j ->
    nobj_eq h i j = sv_eq (SObj c f) (SObj c' f').
Proof. exact nobj_eq_distinct. Qed.
Print Assumptions C16_namespace_value_eq_distinct_instances.

(** the integer-valued field update of [model/RArgs.v] (used by every theorem of the first
    part) is the restriction of this layer to [VInt] *)
Theorem C16_integer_model_is_the_restriction_to_ints :
  forall F c f fields,
    nupdate (length (dflt F c)) (map VInt f) (kw_of_Z fields) =
    match ns_update F c f fields with
    | Ok f' => NOk (match fields with [] => None | _ => Some (map VInt f') end)
    | Err _ => NErr NEUnknown
    end.
Proof. exact int_model_embeds. Qed.
Print Assumptions C16_integer_model_is_the_restriction_to_ints.

(** * Namespace SUBCLASSES with their own constructor (model/RArgsSub.v)

    A namespace subclass may define its own [__init__] (a preset without parameters, renamed
    parameters, forced fields, ...; [ctor_of]).  "update ... return new objects that obey the
    same rule": the copy is defined on the FIELDS of the instance and keeps its class; the
    statements below do not mention the constructor descriptor of the class at all, so they
    hold for every subclass. *)

(** [x.update(known fields...)] on an instance of ANY class [s] of the table: a new instance
    of the same class whose fields are those of [x] with the given ones replaced; never raises *)
Theorem C16_subclass_update_copies_by_fields :
  forall cl sl (h : list nobj) env x i s f kw,
    nlookup h env x = Some (i, (s, f)) -> length f = sfields cl sl s ->
    kw <> nil -> all_known (sfields cl sl s) kw = true ->
    sstep_op cl sl h env (SUpdate x kw) =
    (h ++ (s, fields_by_rule (sfields cl sl s) (fun j => nth j f VNone) kw) :: nil,
     NOk (RObj (length h))).
Proof. exact sub_update_by_fields. Qed.
Print Assumptions C16_subclass_update_copies_by_fields.

Theorem C16_subclass_update_raises_only_for_unknown_names :
  forall cl sl (h : list nobj) env x i s f kw,
    nlookup h env x = Some (i, (s, f)) -> all_known (sfields cl sl s) kw = false ->
    sstep_op cl sl h env (SUpdate x kw) = (h, NErr NEUnknown).
Proof. exact sub_update_unknown_rejected. Qed.
Print Assumptions C16_subclass_update_raises_only_for_unknown_names.

(** the same result whatever constructors the classes define *)
Theorem C16_subclass_update_is_independent_of_the_constructor :
  forall cl sl sl' (h : list nobj) env x i s f kw,
    nlookup h env x = Some (i, (s, f)) -> base_of sl s = base_of sl' s ->
    sstep_op cl sl h env (SUpdate x kw) = sstep_op cl sl' h env (SUpdate x kw).
Proof. exact sub_update_ctor_irrelevant. Qed.
Print Assumptions C16_subclass_update_is_independent_of_the_constructor.

Theorem C16_subclass_render_args_update_is_namespace_update :
  forall cl sl (h : list nobj) env x m i s f kw,
    nlookup h env x = Some (i, (s, f)) -> base_of sl s <= m < length cl ->
    sstep_op cl sl h env (SRaUpdate x m kw) = sstep_op cl sl h env (SUpdate x kw).
Proof. exact sub_ra_update_is_update. Qed.
Print Assumptions C16_subclass_render_args_update_is_namespace_update.

(** [|], unary [+], [to_render_args], [convert]: the set holds the very instance *)
Theorem C16_subclass_sets_hold_the_instance_itself :
  forall pol cl sl (h : list nobj) env x r i s f,
    nlookup h env x = Some (i, (s, f)) -> hold_ok (length cl) (base_of sl s) r = NOk tt ->
    sstep_pol pol cl sl h env (SHold x r) = (h, NOk (RObj i)).
Proof. exact sub_hold_is_identity. Qed.
Print Assumptions C16_subclass_sets_hold_the_instance_itself.

(** operation SEQUENCES (construction through the own constructors, update, RenderArgs.update,
    the holding routes) obey the value-level rule and never alter a live instance *)
Theorem C16_subclass_programs_obey_the_rule :
  forall cl subs p,
    Forall2 (nagree (fst (srun cl subs p))) (snd (srun cl subs p)) (spec_srun cl subs p).
Proof. exact srun_refines. Qed.
Print Assumptions C16_subclass_programs_obey_the_rule.

Theorem C16_subclass_programs_never_alter_an_instance :
  forall cl subs p q i o,
    nth_error (fst (srun cl subs p)) i = Some o ->
    nth_error (fst (srun cl subs (p ++ q))) i = Some o.
Proof. exact srun_heap_monotone. Qed.
Print Assumptions C16_subclass_programs_never_alter_an_instance.

(** the excluded design [type(self)(all fields as keywords)]: raises on a preset subclass,
    silently loses the update on a subclass that forces a field *)
Theorem C16_update_through_the_constructor_preset_refuted :
  exists dfl pk f kw,
    all_known (length dfl) kw = true /\ kw <> nil /\ length f = length dfl /\
    update_via_ctor dfl (ctor_of (DPreset pk)) f kw = NErr NEType /\
    exists f', spec_nupdate (length dfl) f kw = NOk f'.
Proof. exact update_via_ctor_preset_refuted. Qed.
Print Assumptions C16_update_through_the_constructor_preset_refuted.

Theorem C16_update_through_the_constructor_forced_field_refuted :
  exists dfl pk f kw f1 f2,
    all_known (length dfl) kw = true /\
    update_via_ctor dfl (ctor_of (DForce pk)) f kw = NOk (Some f1) /\
    spec_nupdate (length dfl) f kw = NOk f2 /\ f1 <> f2.
Proof. exact update_via_ctor_force_refuted. Qed.
Print Assumptions C16_update_through_the_constructor_forced_field_refuted.

(** ** Round 7 (second part): requests for the shared default set of one class may INTERLEAVE
    (model/RArgsIntern.v: nothing is locked; a thread may be pre-empted between the look-up in
    [__new__], the "has been initialised" test in [__init__], the building of the namespaces,
    the data-init and the publication in [_interned]).  Every natural number names a thread,
    a schedule is any list of thread names; [dflt] is what the default set of the class
    holds (any type).  [code_proto]: test "the cell holds THIS object", publication last. *)

(** for EVERY schedule and any number of threads: the object in [_interned] and every
    object a request returned is complete and holds the default namespaces *)
Theorem C16_interned_default_complete_under_every_interleaving :
  forall (D : Type) (dflt : D) (sched : list nat),
    let s := RArgsIntern.run dflt RArgsIntern.code_proto sched in
    (forall o, RArgsIntern.interned s = Some o -> RArgsIntern.heap s o = Some dflt) /\
    (forall t o, RArgsIntern.result_of s t = Some o -> RArgsIntern.heap s o = Some dflt).
Proof. exact RArgsInternProofs.interned_default_complete. Qed.
Print Assumptions C16_interned_default_complete_under_every_interleaving.

(** value semantics: any two requests get sets that hold the same namespaces ... *)
Theorem C16_interned_default_requests_get_equal_values :
  forall (D : Type) (dflt : D) sched t1 t2 o1 o2,
    let s := RArgsIntern.run dflt RArgsIntern.code_proto sched in
    RArgsIntern.result_of s t1 = Some o1 -> RArgsIntern.result_of s t2 = Some o2 ->
    RArgsIntern.heap s o1 = RArgsIntern.heap s o2 /\ RArgsIntern.heap s o1 = Some dflt.
Proof. exact RArgsInternProofs.interned_default_same_value. Qed.
Print Assumptions C16_interned_default_requests_get_equal_values.

(** ... but not necessarily the same object (identity is not part of the property): two
    first requests may each build their own, the later publication replaces the earlier *)
Theorem C16_interned_default_identity_may_differ :
  exists sched,
    let s := RArgsIntern.run tt RArgsIntern.code_proto sched in
    RArgsIntern.result_of s 0 = Some 0 /\ RArgsIntern.result_of s 1 = Some 1 /\
    RArgsIntern.result_of s 2 = Some 0 /\ RArgsIntern.interned s = Some 0 /\
    RArgsIntern.heap s 0 = Some tt /\ RArgsIntern.heap s 1 = Some tt.
Proof. exact RArgsInternProofs.interned_default_identity_may_differ. Qed.
Print Assumptions C16_interned_default_identity_may_differ.

(** publication last keeps the object in [_interned] complete whatever the test is *)
Theorem C16_interned_default_published_object_complete :
  forall (D : Type) (dflt : D) P sched,
    RArgsIntern.p_pub P = RArgsIntern.PubLast ->
    RArgsIntern.published_complete dflt (RArgsIntern.run dflt P sched).
Proof. exact RArgsInternProofs.published_complete_always. Qed.
Print Assumptions C16_interned_default_published_object_complete.

(** the excluded order, publish before build: a request served while the first one is
    still building gets an object that holds nothing *)
Theorem C16_interned_default_publish_before_build_refuted :
  forall c, exists sched t o,
    let s := RArgsIntern.run tt {| RArgsIntern.p_chk := c; RArgsIntern.p_pub := RArgsIntern.PubFirst |} sched in
    RArgsIntern.result_of s t = Some o /\ RArgsIntern.interned s = Some o /\
    RArgsIntern.heap s o = None.
Proof. exact RArgsInternProofs.publish_before_build_refuted. Qed.
Print Assumptions C16_interned_default_publish_before_build_refuted.

(** the excluded test "the class is in [_interned]" (upstream before
    pending_fixes/C16_interned_default_init_race.diff): a request whose [__new__] ran before
    and whose [__init__] ran after another thread's publication returns its own EMPTY object *)
Theorem C16_interned_default_presence_test_refuted :
  exists sched t o,
    let s := RArgsIntern.run tt {| RArgsIntern.p_chk := RArgsIntern.ChkPresent;
                                    RArgsIntern.p_pub := RArgsIntern.PubLast |} sched in
    RArgsIntern.result_of s t = Some o /\ RArgsIntern.heap s o = None /\
    exists o', RArgsIntern.interned s = Some o' /\ o' <> o /\ RArgsIntern.heap s o' = Some tt.
Proof. exact RArgsInternProofs.presence_test_refuted. Qed.
Print Assumptions C16_interned_default_presence_test_refuted.

(** ** What equality / hash / compatibility READ ([model/RArgsRel.v])

    Namespace subclasses may override the documented public methods [as_dict()],
    [get_fields()], [__repr__] (an instance is (render class, export descriptor, fields)).
    For instances of ANY such classes: equal namespaces hash equal, equal sets hash equal, and
    [==] / [hash] of namespaces and of sets are functions of the associated class and the FIELD
    values only - a base-class instance and a subclass instance with equal fields are
    interchangeable as keys. *)
Theorem C16_subclass_hash_ignores_exports :
  (forall a b, RArgsRel.x_eq a b = true ->
               RArgsRel.x_hash RArgsRel.HashFields a = RArgsRel.x_hash RArgsRel.HashFields b) /\
  (forall s t, RArgsRel.xset_eq s t = true ->
               RArgsRel.xset_hash RArgsRel.HashFields s = RArgsRel.xset_hash RArgsRel.HashFields t) /\
  (forall e a b, RArgsRel.x_eq (RArgsRel.with_export e a) b = RArgsRel.x_eq a b /\
                 RArgsRel.x_eq a (RArgsRel.with_export e b) = RArgsRel.x_eq a b) /\
  (forall e a, RArgsRel.x_hash RArgsRel.HashFields (RArgsRel.with_export e a) =
               RArgsRel.x_hash RArgsRel.HashFields a) /\
  (forall e c l, RArgsRel.xset_hash RArgsRel.HashFields (c, map (RArgsRel.with_export e) l) =
                 RArgsRel.xset_hash RArgsRel.HashFields (c, l)).
Proof. exact RArgsRelProofs.subclass_hash_ignores_exports. Qed.
Print Assumptions C16_subclass_hash_ignores_exports.

(** the excluded design, hash computed from the values of the (overridable) export: equal
    namespaces - and the equal sets holding them - hash differently *)
Theorem C16_hash_through_the_export_refuted :
  exists a b, RArgsRel.x_eq a b = true /\ RArgsRel.x_eq b a = true /\
              RArgsRel.x_hash RArgsRel.HashExport a <> RArgsRel.x_hash RArgsRel.HashExport b /\
              RArgsRel.xset_eq (RArgsRel.x_cls a, [a]) (RArgsRel.x_cls b, [b]) = true /\
              RArgsRel.xset_hash RArgsRel.HashExport (RArgsRel.x_cls a, [a]) <>
              RArgsRel.xset_hash RArgsRel.HashExport (RArgsRel.x_cls b, [b]).
Proof. exact RArgsRelProofs.hash_through_export_refuted. Qed.
Print Assumptions C16_hash_through_the_export_refuted.

(** The class universe has TWO relations: inheritance (the forest) and registration
    ([Base.register(Cls)], [abc]: [issubclass] true, not in the MRO).  "Associated with the
    target class or one of its ancestors" is the inheritance relation: the acceptance test of
    the code is that rule whatever is registered; [issubclass] extends the ancestor relation
    strictly, and the namespaces of a merely registered base are rejected. *)
Theorem C16_virtual_subclass_is_not_an_ancestor :
  (forall U t c, RArgsRel.u_accept RArgsRel.ByHierarchy U t c = RArgsRel.u_rule U t c) /\
  (forall U reg t c,
      RArgsRel.u_accept RArgsRel.ByHierarchy (RArgsRel.with_reg U reg) t c =
      RArgsRel.u_accept RArgsRel.ByHierarchy U t c /\
      RArgsRel.u_rule (RArgsRel.with_reg U reg) t c = RArgsRel.u_rule U t c) /\
  (forall U t c, anc (RArgsRel.u_F U) c t = true -> RArgsRel.issubclass U t c = true) /\
  (exists U t c, RArgsRel.issubclass U t c = true /\ anc (RArgsRel.u_F U) c t = false /\
                 RArgsRel.u_accept RArgsRel.ByHierarchy U t c = false /\
                 RArgsRel.u_accept RArgsRel.ByHierarchy U c c = true /\
                 RArgsRel.u_accept RArgsRel.ByHierarchy U t t = true).
Proof. exact RArgsRelProofs.virtual_subclass_is_not_an_ancestor. Qed.
Print Assumptions C16_virtual_subclass_is_not_an_ancestor.

(** the excluded test [issubclass(render_cls, namespace._RENDER_CLS)]: a namespace of a class
    that is not in the hierarchy of the target (no default for it there) is accepted *)
Theorem C16_compatibility_by_issubclass_refuted :
  exists U t c, RArgsRel.u_accept RArgsRel.ByIssubclass U t c = true /\
                RArgsRel.u_rule U t c = false /\
                existsb (Nat.eqb c) (keys (RArgsRel.u_F U) t) = false.
Proof. exact RArgsRelProofs.compatibility_by_issubclass_refuted. Qed.
Print Assumptions C16_compatibility_by_issubclass_refuted.

(** THE INITIAL SET x WHAT FOLLOWS.  Whether [K(cls, init, *nss)] raises
    IncompatibleRenderArgsError is decided by the class of [init] and [cls] alone (rejected
    exactly when the class of [init] is neither [cls] nor an ancestor): for EVERY heap (so
    whether [init] is BASE_RENDER_ARGS, the interned default set of its class or any other set),
    EVERY list of namespaces that follows (none, compatible, incompatible) and every type [K]. *)
Theorem C16_initial_set_compatibility_independent_of_namespaces_and_defaultness : forall F,
  (forall h k cls init nss,
      RArgsShape.construct_p RArgsShape.CheckAlways F h k cls init nss = construct F h k cls init nss) /\
  (forall h k cls i ki ci di nss,
      getobj h i = Some (ki, ci, di) ->
      (snd (construct F h k cls (Some i) nss) = Err EIncompatRA <-> anc F ci cls = false)) /\
  (forall cls ci h k i ki di nss h' k' i' ki' di' nss',
      getobj h i = Some (ki, ci, di) -> getobj h' i' = Some (ki', ci, di') ->
      (snd (construct F h k cls (Some i) nss) = Err EIncompatRA <->
       snd (construct F h' k' cls (Some i') nss') = Err EIncompatRA)).
Proof. exact RArgsShapeProofs.initial_set_compatibility_independent. Qed.
Print Assumptions C16_initial_set_compatibility_independent_of_namespaces_and_defaultness.

(** the excluded design, the test run only "where the initial set is used" (without namespaces,
    or when a non-default initial set is copied): the interned default set of a sibling class
    followed by a namespace is accepted, against the rule *)
Theorem C16_initial_set_compatibility_independent_of_namespaces_and_defaultness_refuted :
  exists F h k cls i ki ci di nss id,
    getobj h i = Some (ki, ci, di) /\ anc F ci cls = false /\
    snd (RArgsShape.construct_p RArgsShape.CheckWhenUsed F h k cls (Some i) nss) = Ok id /\
    snd (construct F h k cls (Some i) nss) = Err EIncompatRA /\
    spec_construct F cls (Some {| s_cls := ci; s_ns := dget di |}) nss = Err EIncompatRA /\
    snd (RArgsShape.construct_p RArgsShape.CheckWhenUsed F h k cls (Some i) []) = Err EIncompatRA.
Proof. exact RArgsShapeProofs.check_only_when_used_refuted. Qed.
Print Assumptions C16_initial_set_compatibility_independent_of_namespaces_and_defaultness_refuted.

(** THE SHAPE OF THE CLASS STATEMENT.  Render class statements may list plain (non-render)
    mix-in classes before and after the render base, in any class of the chain.  For every
    forest, every placement [mx] and every class [c]: the render classes the metaclass visits
    in [c.__mro__] are [c] and its ancestors by inheritance, the owner classes whose default
    namespace a set for [c] holds are exactly the rule's ([in_hierarchy] mentions neither
    mix-ins nor the MRO), and nothing depends on the mix-ins. *)
Theorem C16_mixins_do_not_cut_the_hierarchy : forall F mx c,
  RArgsShape.walk RArgsShape.SkipNonRender (RArgsShape.mro F mx c) = chain F c /\
  RArgsShape.held RArgsShape.SkipNonRender F mx c = keys F c /\
  (forall a, existsb (Nat.eqb a) (RArgsShape.held RArgsShape.SkipNonRender F mx c) =
             RArgsShape.in_hierarchy F c a) /\
  (forall mx', RArgsShape.held RArgsShape.SkipNonRender F mx' c =
               RArgsShape.held RArgsShape.SkipNonRender F mx c) /\
  defaults F c = map (fun k => (k, dflt F k)) (RArgsShape.held RArgsShape.SkipNonRender F mx c).
Proof. exact RArgsShapeProofs.mixins_do_not_cut_the_hierarchy. Qed.
Print Assumptions C16_mixins_do_not_cut_the_hierarchy.

(** the excluded design, the walk over the MRO stopped at the first non-render class: the same
    on statements without mix-ins, but a mix-in listed before the render base cuts off an
    ancestor that owns a namespace class *)
Theorem C16_mixins_do_not_cut_the_hierarchy_refuted :
  (forall F c, RArgsShape.held RArgsShape.StopAtNonRender F RArgsShape.no_mixes c = keys F c) /\
  (exists F mx c a, RArgsShape.in_hierarchy F c a = true /\
                    existsb (Nat.eqb a) (RArgsShape.held RArgsShape.StopAtNonRender F mx c) = false /\
                    existsb (Nat.eqb a) (RArgsShape.held RArgsShape.SkipNonRender F mx c) = true).
Proof. exact RArgsShapeProofs.stop_at_first_non_render_class_refuted. Qed.
Print Assumptions C16_mixins_do_not_cut_the_hierarchy_refuted.
