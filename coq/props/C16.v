(** C16 — render-argument sets obey their precedence, compatibility and immutability laws.

    Only statements, each closed by [exact <lemma>], and [Print Assumptions].

    [F] ranges over every single-inheritance forest of render classes ([wf_forest]: the
    base of class [c > 0] was created before [c]; class 0 = [Renderable] has no [Args]),
    with any subset of classes owning an [Args] namespace with any default field values.
    [WF F h] is the representation invariant of the heap of [RenderArgs] objects and the
    per-type interning tables; it holds initially ([heap0]) and after every operation.
    [denotes h i v]: object [i] of heap [h] is associated with class [s_cls v] and holds,
    for every class [c], the field values [s_ns v c].  The specification side
    ([spec_construct], [spec_op], [spec_run]) mentions no heap, identity or interning. *)
From Coq Require Import List ZArith Bool Arith.
Import ListNotations.
From TI Require Import model.RArgs proofs.RArgsBasics proofs.RArgsProofs proofs.RArgsOps
     proofs.RArgsLaws proofs.RArgsTags.

(** the invariant holds initially *)
Theorem C16_initial_heap_wf : forall F, wf_forest F -> WF F heap0.
Proof. exact WF_heap0. Qed.
Print Assumptions C16_initial_heap_wf.

(** precedence: for each class with a namespace in the ancestry of the target, the
    result holds the last namespace given for it, else init's, else the default; nothing
    for any other class — whichever interning shortcut [__new__]/[__init__] took *)
Theorem C16_construct_spec :
  forall F, wf_forest F -> forall h k cls init iv nss id,
    WF F h -> init_agree h init iv ->
    snd (construct F h k cls init nss) = Ok id ->
    exists kk d,
      getobj (fst (construct F h k cls init nss)) id = Some (kk, cls, d) /\
      forall c, dget d c =
        if anc F c cls && hasns F c then
          Some (match last_for c nss with
                | Some f => f
                | None => match iv with
                          | Some v => match s_ns v c with Some f => f | None => dflt F c end
                          | None => dflt F c
                          end
                end)
        else None.
Proof. exact construct_spec. Qed.
Print Assumptions C16_construct_spec.

(** compatibility: accepted iff init's class is an ancestor-or-self of the target and
    every namespace's class is an ancestor-or-self owning a namespace; the documented
    error otherwise *)
Theorem C16_construct_accepts_iff :
  forall F, wf_forest F -> forall h k cls init iv nss,
    WF F h -> init_agree h init iv ->
    let r := snd (construct F h k cls init nss) in
    ((exists id, r = Ok id) <->
     init_compatible F cls iv = true /\ forallb (ns_compatible F cls) nss = true) /\
    (r = Err EIncompatRA <-> init_compatible F cls iv = false) /\
    (r = Err EIncompatNS <->
     init_compatible F cls iv = true /\ forallb (ns_compatible F cls) nss = false).
Proof. exact construct_accepts_iff. Qed.
Print Assumptions C16_construct_accepts_iff.

(** ... and a rejected call changes no object and no interning entry *)
Theorem C16_construct_rejected_unchanged :
  forall F h k cls init nss e,
    WF F h ->
    snd (construct F h k cls init nss) = Err e ->
    let h' := fst (construct F h k cls init nss) in
    (forall i, getobj h' i = getobj h i) /\ itn h' = itn h.
Proof. exact construct_rejected_unchanged. Qed.
Print Assumptions C16_construct_rejected_unchanged.

(** the aliasing theorem: no operation (constructor of any [RenderArgs] type, update in
    both forms, convert in both directions, [|] with both operand kinds and orders,
    unary [+], [to_render_args]), whatever objects it is given, alters an existing
    object or replaces an interned default set — including [BASE_RENDER_ARGS] *)
Theorem C16_heap_monotone :
  forall F, wf_forest F -> forall h env senv o,
    WF F h -> env_agree h env senv ->
    let h' := fst (step_op F h env o) in
    (forall i x, getobj h i = Some x -> getobj h' i = Some x) /\
    (forall k c i, itn h k c = Some i -> itn h' k c = Some i) /\
    WF F h'.
Proof. exact heap_monotone. Qed.
Print Assumptions C16_heap_monotone.

(** update / convert / [|] / [+] obey the same rule: the result of every operation
    denotes what [spec_op] says (a function of the operands' denotations only), with
    the same error otherwise *)
Theorem C16_every_operation_obeys_the_rule :
  forall F, wf_forest F -> forall h env senv o,
    WF F h -> env_agree h env senv ->
    agree (fst (step_op F h env o)) (snd (step_op F h env o)) (spec_op F senv o).
Proof. exact op_refines. Qed.
Print Assumptions C16_every_operation_obeys_the_rule.

(** operation SEQUENCES: after any program, every result — read in the FINAL heap —
    denotes what the rule said when it was created *)
Theorem C16_programs_obey_the_rule :
  forall F, wf_forest F -> forall p,
    WF F (fst (run F p)) /\
    Forall2 (agree (fst (run F p))) (snd (run F p)) (spec_run F p).
Proof. exact run_refines. Qed.
Print Assumptions C16_programs_obey_the_rule.

Theorem C16_programs_never_alter_objects :
  forall F, wf_forest F -> forall p q i x,
    getobj (fst (run F p)) i = Some x -> getobj (fst (run F (p ++ q))) i = Some x.
Proof. exact run_heap_monotone. Qed.
Print Assumptions C16_programs_never_alter_objects.

Theorem C16_default_shared_never_altered :
  forall F, wf_forest F -> forall p q k c i,
    itn (fst (run F p)) k c = Some i ->
    itn (fst (run F (p ++ q))) k c = Some i /\
    getobj (fst (run F (p ++ q))) i = Some (k, c, defaults F c) /\
    getobj (fst (run F p)) i = Some (k, c, defaults F c).
Proof. exact default_shared_never_altered. Qed.
Print Assumptions C16_default_shared_never_altered.

Theorem C16_base_render_args_never_altered :
  forall F, wf_forest F -> forall p,
    getobj (fst (run F p)) BASE = Some (0, 0, []) /\ itn (fst (run F p)) 0 0 = Some BASE.
Proof. exact base_never_altered. Qed.
Print Assumptions C16_base_render_args_never_altered.

(** equal sets hash equal; [==] is "same class, same values"; [in] *)
Theorem C16_eq_hash :
  forall F, wf_forest F -> forall h x y,
    WF F h -> req h x y = true -> rhash h x = rhash h y.
Proof. exact eq_hash. Qed.
Print Assumptions C16_eq_hash.

Theorem C16_eq_iff_same_values :
  forall F, wf_forest F -> forall h x y sx sy,
    WF F h -> denotes h x sx -> denotes h y sy ->
    (req h x y = true <-> (s_cls sx = s_cls sy /\ forall c, s_ns sx c = s_ns sy c)).
Proof. exact eq_iff_same_denotation. Qed.
Print Assumptions C16_eq_iff_same_values.

Theorem C16_contains_spec :
  forall h x s n, denotes h x s ->
    (contains h x n = true <-> s_ns s (fst n) = Some (snd n)).
Proof. exact contains_spec. Qed.
Print Assumptions C16_contains_spec.

Theorem C16_namespace_eq_hash :
  forall a b, ns_eq a b = true -> ns_hash a = ns_hash b.
Proof. exact ns_eq_hash. Qed.
Print Assumptions C16_namespace_eq_hash.

(** namespace-class SUBCLASSES.  Every theorem above quantifies over all forests and all
    namespace values, so it also holds of the TAGGED reading used by the correspondence
    (a namespace made from the [tag]-th subclass of [c]'s namespace class is written
    [(c, tag :: f)], defaults [0 :: d], field [j] is field [S j]; model/RArgsTie.v), in
    which "the last namespace given" is a statement about INSTANCES.  The only operation
    that computes on field lists, the field update, accepts / rejects on the tagged
    encoding exactly as on the plain one and keeps the tag (= [type(self)], _types.py:589),
    in the heap model and in the rule *)
Theorem C16_namespace_class_is_a_hidden_field :
  forall F Ft c tag f fields,
    length (dflt Ft c) = S (length (dflt F c)) ->
    ns_update Ft c (tag :: f) (shift fields) =
      match ns_update F c f fields with Ok f' => Ok (tag :: f') | Err e => Err e end /\
    spec_fields Ft c (tag :: f) (shift fields) =
      match spec_fields F c f fields with Ok f' => Ok (tag :: f') | Err e => Err e end.
Proof. exact tagged_field_update. Qed.
Print Assumptions C16_namespace_class_is_a_hidden_field.

(** namespace class statements: iff tables of the metaclass decision *)
Theorem C16_namespace_meta_accept_iff :
  forall s,
    ns_meta s = MAccept <->
    (args_kind s = true -> all_defaults s = true) /\
    n_extra_bases s = 0 /\
    n_base_fields s && has_fields s = false /\
    match n_rc s with
    | Some r => n_base_assoc s = false /\ has_fields s = true /\ r = Some false /\
                n_required s = false
    | None => has_fields s = false /\ n_base_fields s && n_required s = false
    end.
Proof. exact meta_accept_iff. Qed.
Print Assumptions C16_namespace_meta_accept_iff.

Theorem C16_namespace_meta_field_without_default :
  forall s, ns_meta s = MReject MNoDefault <-> args_kind s = true /\ all_defaults s = false.
Proof. exact meta_no_default_iff. Qed.
Print Assumptions C16_namespace_meta_field_without_default.

Theorem C16_namespace_meta_multiple_bases :
  forall s,
    ns_meta s = MReject MMultipleBases <->
    negb (args_kind s && negb (all_defaults s)) = true /\ n_extra_bases s <> 0.
Proof. exact meta_multiple_bases_iff. Qed.
Print Assumptions C16_namespace_meta_multiple_bases.

Theorem C16_namespace_meta_reassociation :
  forall s,
    ns_meta s = MReject MReassociate <->
    negb (args_kind s && negb (all_defaults s)) = true /\ n_extra_bases s = 0 /\
    n_base_fields s && has_fields s = false /\
    n_rc s <> None /\ n_base_assoc s = true.
Proof. exact meta_reassociate_iff. Qed.
Print Assumptions C16_namespace_meta_reassociation.

Theorem C16_namespace_unknown_field :
  forall nf nv kw,
    (ns_ctor nf nv kw = None <-> nv <= nf /\ forall j, In j kw -> nv <= j < nf) /\
    (ns_ctor nf nv kw = Some CUnknown <-> nv <= nf /\ exists j, In j kw /\ nf <= j).
Proof. intros; split; [exact (ns_ctor_accept_iff nf nv kw)|exact (ns_ctor_unknown_iff nf nv kw)]. Qed.
Print Assumptions C16_namespace_unknown_field.

Theorem C16_renderable_meta :
  forall bases, renderable_meta bases = true <-> In true bases.
Proof. exact renderable_meta_iff. Qed.
Print Assumptions C16_renderable_meta.
