(** C13 — terminal attributes are always put back exactly as found.

    Only statements, each closed by [exact <lemma>], and [Print Assumptions].

    [sk_*] are the effect skeletons translated from the current source
    (coq/gen/Skeletons.v, harness/tx/tx_skel.py); [eval cfg_all false p (init vs) o s']
    is the big-step semantics of coq/lib/Eff.v: a run of [p] from a state in which the
    terminal attributes are the ones found at entry, for the valuation [vs] of the
    function's boolean flags ([echo], [not_echo_input], ...), along ANY path (timeout
    None / >= 0 / < 0, min, every branch), ANY number of iterations of the read loops,
    with ANY call (system call, the [more] predicate, any other call) raising
    KeyboardInterrupt or an Exception before or after it takes effect, anywhere outside
    the function's own clean-up blocks (an inlined callee's clean-up blocks are ordinary
    code of the caller).  [tmod s' = false]: the attributes at exit are those at entry
    (a [tcsetattr] of a list that was obtained by [tcgetattr] while the attributes were
    unmodified and that has not been touched since).  Whatever the outcome [o]: normal
    return, timeout, the predicate raising, an interrupt. *)
From Coq Require Import List Bool Arith.
Import ListNotations.
From TI Require Import lib.Eff gen.Skeletons proofs.SkelC13 model.C13Any proofs.C13AnyProofs proofs.SkelC13Any.
From TI Require Import gen.AttrFd model.C13Multi proofs.C13MultiProofs proofs.SkelC13Multi.

Theorem C13_query_restores :
  forall vs, length vs = nv_query_terminal ->
  forall o s', eval cfg_all false sk_query_terminal (init vs) o s' -> tmod s' = false.
Proof. exact query_restores. Qed.
Print Assumptions C13_query_restores.

Theorem C13_read_tty_restores :
  forall vs, length vs = nv_read_tty ->
  forall o s', eval cfg_all false sk_read_tty (init vs) o s' -> tmod s' = false.
Proof. exact read_tty_restores. Qed.
Print Assumptions C13_read_tty_restores.

Theorem C13_write_tty_restores :
  forall vs, length vs = nv_write_tty ->
  forall o s', eval cfg_all false sk_write_tty (init vs) o s' -> tmod s' = false.
Proof. exact write_tty_restores. Qed.
Print Assumptions C13_write_tty_restores.

Theorem C13_draw_restores_attrs :
  forall vs, length vs = nv_Renderable_draw ->
  forall o s', eval cfg_all false sk_Renderable_draw (init vs) o s' -> tmod s' = false.
Proof. exact draw_restores_attrs. Qed.
Print Assumptions C13_draw_restores_attrs.

(** * Round 4: faults ANYWHERE, the operation's own clean-up blocks included

    "... leaves the terminal's attribute set byte-for-byte identical ... when it is
    interrupted by a signal AT ANY POINT": [evalA] (coq/model/C13Any.v) is the semantics above
    with the faults allowed inside the functions' own [finally] / [except] blocks as well --
    the final stream writes and flush of draw()'s clean-up (a broken or user-supplied
    stdout, Ctrl-C while a write to a stalled terminal blocks), the render-data finalizer (a
    renderable-defined hook), the clean-up of [read_tty] / [write_tty] inlined into
    [query_terminal].  The one position without a fault is a [tcsetattr] standing in a
    clean-up block failing BEFORE it takes effect (if the OS refuses the restore nothing can
    be restored; a signal cannot be delivered between the previous call's return and that
    call); it may still raise after its effect.  The clean-up must therefore be ORDERED:
    nothing that may raise precedes the restore unless an inner [try ... finally] restores. *)

(** the analysis ([Eff.analyze] on the transformed program [anyfault p]) is sound for [evalA] *)
Theorem C13_anyfault_analysis_sound :
  forall nv p, analyze_any nv p = true ->
  forall vs, length vs = nv ->
  forall o s', evalA false p (init vs) o s' -> tmod s' = false.
Proof. exact analyze_any_sound. Qed.
Print Assumptions C13_anyfault_analysis_sound.

(** [evalA] has every run of the semantics used above (these theorems are strictly stronger) *)
Theorem C13_anyfault_includes_round2 :
  forall c p s o s', eval cfg_all c p s o s' -> evalA c p s o s'.
Proof. exact evalA_includes_eval. Qed.
Print Assumptions C13_anyfault_includes_round2.

Theorem C13_query_restores_anywhere :
  forall vs, length vs = nv_query_terminal ->
  forall o s', evalA false sk_query_terminal (init vs) o s' -> tmod s' = false.
Proof. exact query_restores_anywhere. Qed.
Print Assumptions C13_query_restores_anywhere.

Theorem C13_read_tty_restores_anywhere :
  forall vs, length vs = nv_read_tty ->
  forall o s', evalA false sk_read_tty (init vs) o s' -> tmod s' = false.
Proof. exact read_tty_restores_anywhere. Qed.
Print Assumptions C13_read_tty_restores_anywhere.

Theorem C13_write_tty_restores_anywhere :
  forall vs, length vs = nv_write_tty ->
  forall o s', evalA false sk_write_tty (init vs) o s' -> tmod s' = false.
Proof. exact write_tty_restores_anywhere. Qed.
Print Assumptions C13_write_tty_restores_anywhere.

Theorem C13_draw_restores_attrs_anywhere :
  forall vs, length vs = nv_Renderable_draw ->
  forall o s', evalA false sk_Renderable_draw (init vs) o s' -> tmod s' = false.
Proof. exact draw_restores_attrs_anywhere. Qed.
Print Assumptions C13_draw_restores_attrs_anywhere.

(** a clean-up that runs a renderable-defined hook (or writes to the stream) before the
    restore is rejected, with a run of [evalA] that ends with the attributes modified *)
Theorem C13_hook_before_restore_refuted :
  analyze_any 0 hook_before_restore = false /\
  exists s', evalA false hook_before_restore (init []) (ORaise Exc) s' /\ tmod s' = true.
Proof. exact (conj (proj1 analysis_any_shapes) hook_before_restore_run). Qed.
Print Assumptions C13_hook_before_restore_refuted.

(** * Round 8: WHICH terminal -- every terminal's attributes are put back

    A process has several terminals (that of stdout, that of stdin -- the same or another one --,
    the library's active terminal [_tty_fd], terminals it must not touch).  Each
    [tcgetattr(E)] / [tcsetattr(E, ..)] addresses the terminal its descriptor expression [E]
    refers to; [addr_of afd_*] is the addressing of the call sites translated from the current
    source (coq/gen/AttrFd.v, harness/tx/tx_attrfd.py, fail-closed).  [multi_restores nv p a]
    (coq/model/C13Multi.v): for EVERY layout [L] of descriptor expressions over terminals and
    EVERY terminal [t] -- addressed or not --, every run of [evalA] (faults anywhere) of what [t]
    sees of [p] ([proj]: a [tcgetattr] of another terminal taints the variable, a [tcsetattr] on
    another terminal does not change [t]) ends with [t]'s attributes as found at entry. *)

(** the check (all call sites of the operation on ONE descriptor expression, every attribute call
    of the skeleton has a site, both views accepted by the verified analysis) is sound *)
Theorem C13_multi_check_sound :
  forall nv p l e0, multi_check nv p l e0 = true -> multi_restores nv p (addr_of l).
Proof. exact multi_check_sound. Qed.
Print Assumptions C13_multi_check_sound.

Theorem C13_multi_query_restores :
  multi_restores nv_query_terminal sk_query_terminal (addr_of afd_query_terminal).
Proof. exact query_multi_restores. Qed.
Print Assumptions C13_multi_query_restores.

Theorem C13_multi_read_tty_restores :
  multi_restores nv_read_tty sk_read_tty (addr_of afd_read_tty).
Proof. exact read_tty_multi_restores. Qed.
Print Assumptions C13_multi_read_tty_restores.

Theorem C13_multi_write_tty_restores :
  multi_restores nv_write_tty sk_write_tty (addr_of afd_write_tty).
Proof. exact write_tty_multi_restores. Qed.
Print Assumptions C13_multi_write_tty_restores.

Theorem C13_multi_draw_restores :
  multi_restores nv_Renderable_draw sk_Renderable_draw (addr_of afd_Renderable_draw).
Proof. exact draw_multi_restores. Qed.
Print Assumptions C13_multi_draw_restores.

(** "save on A, set on B, restore on A": accepted by the one-terminal analysis, fine when A and B
    are one terminal, refuted when they are two (terminal B ends with its attributes modified on
    the fault-free run) *)
Theorem C13_multi_save_A_set_B_refuted :
  analyze_any 0 save_A_set_B_restore_A = true /\
  ~ multi_restores 0 save_A_set_B_restore_A (addr_of sites_AB) /\
  exists s', evalA false (proj (sel_of (addr_of sites_AB) (fun e => e) 1) save_A_set_B_restore_A)
                   (init []) ONorm s' /\ tmod s' = true.
Proof. exact (conj (proj1 one_terminal_accepts_AB) (conj AB_refuted AB_two_terminals_run)). Qed.
Print Assumptions C13_multi_save_A_set_B_refuted.
