(** C13 — terminal attributes are always put back exactly as found.

    Only statements, each closed by [exact <lemma>], and [Print Assumptions].

    [sk_*] are the effect skeletons translated from the current source
    (coq/gen/Skeletons.v, harness/tx/tx_skel.py); [eval cfg_all false p (init vs) o s']
    is the big-step semantics of coq/lib/Eff.v: a run of [p] from a state in which the
    terminal attributes are the ones found at entry, for the valuation [vs] of the
    function's boolean flags ([echo], [not_echo_input], ...), along ANY path (timeout
    None / >= 0 / < 0, min, every branch), ANY number of iterations of the read loops,
    with ANY call (system call, the [more] predicate, any other call) raising
    KeyboardInterrupt or an Exception before or after it takes effect, anywhere outside
    the function's own clean-up blocks (an inlined callee's clean-up blocks are ordinary
    code of the caller).  [tmod s' = false]: the attributes at exit are those at entry
    (a [tcsetattr] of a list that was obtained by [tcgetattr] while the attributes were
    unmodified and that has not been touched since).  Whatever the outcome [o]: normal
    return, timeout, the predicate raising, an interrupt. *)
From Coq Require Import List Bool Arith.
Import ListNotations.
From TI Require Import lib.Eff gen.Skeletons proofs.SkelC13.

Theorem C13_query_restores :
  forall vs, length vs = nv_query_terminal ->
  forall o s', eval cfg_all false sk_query_terminal (init vs) o s' -> tmod s' = false.
Proof. exact query_restores. Qed.
Print Assumptions C13_query_restores.

Theorem C13_read_tty_restores :
  forall vs, length vs = nv_read_tty ->
  forall o s', eval cfg_all false sk_read_tty (init vs) o s' -> tmod s' = false.
Proof. exact read_tty_restores. Qed.
Print Assumptions C13_read_tty_restores.

Theorem C13_write_tty_restores :
  forall vs, length vs = nv_write_tty ->
  forall o s', eval cfg_all false sk_write_tty (init vs) o s' -> tmod s' = false.
Proof. exact write_tty_restores. Qed.
Print Assumptions C13_write_tty_restores.

Theorem C13_draw_restores_attrs :
  forall vs, length vs = nv_Renderable_draw ->
  forall o s', eval cfg_all false sk_Renderable_draw (init vs) o s' -> tmod s' = false.
Proof. exact draw_restores_attrs. Qed.
Print Assumptions C13_draw_restores_attrs.
