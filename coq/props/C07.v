(** C07 — an interrupted draw() still restores the terminal and the image.

    Only statements, each closed by [exact <lemma>], and [Print Assumptions].

    (a) CONTROL FLOW.  [sk_*] are the effect skeletons translated from the current source
    (coq/gen/Skeletons.v, harness/tx/tx_skel.py); [eval cfg_draw false (protect p) (init vs) o s']
    is the big-step semantics of coq/lib/Eff.v: a run of [p] from a clean obligation vector,
    for the valuation [vs] of the function's boolean flags, along ANY path, ANY number of
    iterations of the frame loops, with ANY stream write / flush / sleep / frame render
    ([mf_draw]) raising KeyboardInterrupt or an Exception before or after it takes effect,
    anywhere outside the clean-up blocks (finally / except) of draw() and of the functions
    it calls ([protect]).  Whatever the outcome [o], the final vector [s'] is clean: cursor
    shown again ([hidden]), terminal attributes as found ([tmod]), image size setting as
    found ([szmod]), frame position as found ([skmod]), frame iterator closed ([iter_open]),
    render data finalized ([unfin]), every interrupted render-output write followed by the
    interrupt handler ([cut]); still images re-raise KeyboardInterrupt, animations end
    normally on it.  SGR reset and the handler's bytes are part (b).

    (b) TERMINAL SIDE.  [DrawInt.old_interrupted s anim lines frames k j c] is the token
    stream the terminal receives when the [k]-th write of the old-API draw() is cut after
    [j] tokens ([c]: the cut falls inside the next token's escape sequence -> [TCut]) and
    the code's clean-up then runs; [new_interrupted] likewise for Renderable.draw with the
    subclass's handler output [hnd] as a parameter.  For ALL frames, [k], [j], [c] the
    terminal ([Term.exec]) ends with the parser in the ground state, no chunked kitty
    transmission pending, the cursor visible and default SGR attributes. *)
From Coq Require Import List ZArith Bool Arith.
Import ListNotations.
From TI Require Import lib.Term lib.Eff gen.Skeletons model.DrawInt
  proofs.SkelC07 proofs.SkelC07Old proofs.SkelC07Cut proofs.SkelC07Any proofs.DrawIntProofs.

(** ** (a) control flow *)

(** Renderable.draw: cursor shown, attributes restored, iterator closed, data finalized
    (except on the un-faulted size-validation error raised before draw()'s try), a still
    image propagates KeyboardInterrupt, an animation swallows it (unless hide_cursor and it
    hit the HIDE_CURSOR write preceding the animation) *)
Theorem C07_draw_cleans :
  forall vs, length vs = nv_Renderable_draw ->
  forall o s', eval cfg_draw false (protect sk_Renderable_draw) (init vs) o s' ->
    hidden s' = false /\ tmod s' = false /\ iter_open s' = false /\
    (unfin s' = false \/ (o = ORaise Exc /\ kiseen s' = false /\ excseen s' = false)) /\
    (get fv_Renderable_draw__animation (vars s') = false -> kiseen s' = true -> o = ORaise KI) /\
    (get fv_Renderable_draw__animation (vars s') = true -> get fv_Renderable_draw__hide_cursor (vars s') = false ->
       o <> ORaise KI).
Proof. exact draw_cleans_facts. Qed.
Print Assumptions C07_draw_cleans.

(** every render-output write of Renderable.draw / _animate_ interrupted by
    KeyboardInterrupt OR an Exception is followed by _handle_interrupted_draw_ *)
Theorem C07_draw_handles_cut_frames :
  forall vs, length vs = nv_Renderable_draw ->
  forall o s', eval cfg_draw false (protect sk_Renderable_draw) (init vs) o s' -> cut s' = false.
Proof. exact draw_handles_cut_frames_all. Qed.
Print Assumptions C07_draw_handles_cut_frames.

(** Renderable._animate_ on its own: KeyboardInterrupt swallowed, iterator closed *)
Theorem C07_animate_swallows_interrupt :
  forall vs, length vs = nv_Renderable__animate_ ->
  forall o s', eval cfg_draw false (protect sk_Renderable__animate_) (init vs) o s' ->
    o <> ORaise KI /\ iter_open s' = false.
Proof. exact animate_swallows_interrupt. Qed.
Print Assumptions C07_animate_swallows_interrupt.

(** BaseImage.draw (with _renderer, the inner render() and _display_animated inlined) *)
Theorem C07_old_draw_cleans :
  forall vs, length vs = nv_BaseImage_draw ->
  forall o s', eval cfg_draw false (protect sk_BaseImage_draw) (init vs) o s' ->
    hidden s' = false /\ szmod s' = false /\ skmod s' = false /\ iter_open s' = false /\ cut s' = false /\
    (get fv_BaseImage_draw__animation (vars s') = false -> kiseen s' = true -> o = ORaise KI) /\
    (get fv_BaseImage_draw__animation (vars s') = true ->
     get fv_BaseImage_draw__sys_stdout_isatty (vars s') = false -> o <> ORaise KI).
Proof. exact old_draw_cleans_facts. Qed.
Print Assumptions C07_old_draw_cleans.

(** _display_animated on its own: KeyboardInterrupt swallowed, iterator and image closed,
    frame position restored, cut frames handled *)
Theorem C07_display_animated_cleans :
  forall vs, length vs = nv_BaseImage__display_animated ->
  forall o s', eval cfg_draw false (protect sk_BaseImage__display_animated) (init vs) o s' ->
    o <> ORaise KI /\ skmod s' = false /\ iter_open s' = false /\ imgs_closed s' = true /\ cut s' = false.
Proof. exact display_animated_cleans. Qed.
Print Assumptions C07_display_animated_cleans.

(** the two _handle_interrupted_draw()s only write and flush *)
Theorem C07_handlers_harmless :
  analyze cfg_draw 0 sk_KittyImage__handle_interrupted_draw (fun _ s => all_clean s) = true /\
  analyze cfg_draw 0 sk_ITerm2Image__handle_interrupted_draw (fun _ s => all_clean s) = true.
Proof. exact handlers_harmless. Qed.
Print Assumptions C07_handlers_harmless.

(** ** (a') control flow, faults at ANY call (round 4)

    "at any point before its own clean-up starts": [cfg_all] lets EVERY call of the skeleton --
    tracked or not: argument checks, size computations, opening the image source ([OpenImg]),
    fixing the size, tcgetattr / tcsetattr, creating the frame iterator, ... -- raise
    KeyboardInterrupt or an Exception before or after taking effect, anywhere outside the
    finally / except blocks of draw() and of the functions it calls.  (What does not hold at
    that strength -- an object created before the [try] that releases it is left to its
    finalizer by a fault in between; a KeyboardInterrupt before the animation loop's [try] is
    entered propagates -- is shown by the witness runs [*_refuted] of proofs/SkelC07Any.v.) *)

(** Renderable.draw: cursor shown, attributes restored, cut frames handled, a still image
    propagates KeyboardInterrupt *)
Theorem C07_draw_cleans_any_call :
  forall vs, length vs = nv_Renderable_draw ->
  forall o s', eval cfg_all false (protect sk_Renderable_draw) (init vs) o s' ->
    hidden s' = false /\ tmod s' = false /\ cut s' = false /\
    (get fv_Renderable_draw__animation (vars s') = false -> kiseen s' = true -> o = ORaise KI).
Proof. exact draw_cleans_any_call. Qed.
Print Assumptions C07_draw_cleans_any_call.

(** from draw()'s [try:] on (entered with the render data created and not finalized, for any
    valuation of draw()'s flags), whatever raises at whatever call: the render data is
    finalized, the cursor shown, the attributes restored, cut frames handled *)
Theorem C07_draw_try_finalizes :
  forall vs, length vs = nv_Renderable_draw ->
  forall o s', eval cfg_all false draw_try (draw_try_entry vs) o s' ->
    unfin s' = false /\ hidden s' = false /\ tmod s' = false /\ cut s' = false.
Proof. exact draw_try_finalizes. Qed.
Print Assumptions C07_draw_try_finalizes.

(** BaseImage.draw: cursor shown, image size setting and frame position as found, cut frames
    handled, a still image propagates KeyboardInterrupt *)
Theorem C07_old_draw_cleans_any_call :
  forall vs, length vs = nv_BaseImage_draw ->
  forall o s', eval cfg_all false (protect sk_BaseImage_draw) (init vs) o s' ->
    hidden s' = false /\ szmod s' = false /\ skmod s' = false /\ cut s' = false /\
    (get fv_BaseImage_draw__animation (vars s') = false -> kiseen s' = true -> o = ORaise KI).
Proof. exact old_draw_cleans_any_call. Qed.
Print Assumptions C07_old_draw_cleans_any_call.

(** [_renderer] on its own, whatever the renderer it is given does: the size setting is restored *)
Theorem C07_renderer_restores_size_any_call :
  forall vs, length vs = nv_BaseImage__renderer ->
  forall o s', eval cfg_all false (protect (sk_BaseImage__renderer (Op Other))) (init vs) o s' -> szmod s' = false.
Proof. exact renderer_restores_size_any_call. Qed.
Print Assumptions C07_renderer_restores_size_any_call.

(** ** (b) terminal side *)

(** old API, every style (block: no handler; kitty: ST ST + end of chunks; iterm2: ST ST),
    still or animated: ALL frames (of the style's token class), ALL writes [k], ALL cut
    positions [j] and cut kinds [c], any left margin, from an idle terminal *)
Theorem C07_interrupted_terminal_clean :
  forall lm s anim lines frames k j c t,
    parser t = Ground -> pending t = None ->
    frames_ok s frames = true ->
    let t' := Term.exec lm t (old_interrupted s anim lines frames k j c) in
    parser t' = Ground /\ pending t' = None /\ visible t' = true /\ sgr t' = adefault.
Proof. exact old_interrupted_terminal_clean. Qed.
Print Assumptions C07_interrupted_terminal_clean.

(** the recovery itself, from ANY terminal state (whatever was cut, whatever is pending):
    kitty's handler + clean-up *)
Theorem C07_kitty_recovery_from_any_state :
  forall lm t anim lines,
    let t' := Term.exec lm t (handler SKitty ++ old_anim_tail anim lines ++ old_final) in
    parser t' = Ground /\ pending t' = None /\ visible t' = true /\ sgr t' = adefault.
Proof. exact recover_kitty. Qed.
Print Assumptions C07_kitty_recovery_from_any_state.

(** new API (text renderables; [hnd] = what the subclass's handler writes, assumed to
    ground the parser and reset SGR from any state a cut text frame can leave): no string
    left open, nothing pending, cursor visible, SGR default; parser ground unless
    hide_cursor = False and a cursor-positioning write was cut inside its CSI *)
Theorem C07_new_interrupted_terminal_clean :
  forall lm hnd,
    (forall t, parser t <> InStr -> pending t = None ->
       parser (Term.exec lm t hnd) = Ground /\ pending (Term.exec lm t hnd) = None /\
       sgr (Term.exec lm t hnd) = adefault /\ visible (Term.exec lm t hnd) = visible t) ->
  forall hide anim h pb pl frames k j c inwrite t,
    parser t = Ground -> pending t = None -> sgr t = adefault -> visible t = true ->
    forallb text_frame frames = true ->
    let w := nth k (new_writes hide anim h pb pl frames) (false, []) in
    let t' := Term.exec lm t (new_interrupted hnd hide anim h pb pl frames k j c inwrite) in
    parser t' <> InStr /\ pending t' = None /\ visible t' = true /\ sgr t' = adefault /\
    (hide = true \/ inwrite = false \/ c = None \/ fst w = true -> parser t' = Ground).
Proof. exact new_interrupted_terminal_clean. Qed.
Print Assumptions C07_new_interrupted_terminal_clean.
