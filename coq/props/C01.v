(** C01 — a render output occupies exactly its advertised columns x lines rectangle.

    [Rect w h R] (lib/Rect.v) is the contract: from any clean terminal state with default
    attributes and the cursor at the left margin [lm] (any row, any [lm]: "any cursor
    position"), executing [R] produces only events inside the [h x w] rectangle anchored at
    the cursor, covers every cell of it, ends on the last row at the logical column just
    past it (physically the right margin when the rectangle reaches it), attributes
    default, protocol state clean (every control sequence complete: tokens are complete
    sequences by construction, incomplete ones are [TCut]), exactly [h-1] line feeds, no
    trailing one, end column and default attributes at every line feed.
    [C01_fits]: when the rectangle fits a [W x H] screen nothing wraps, scrolls or leaves
    the screen. *)
From Coq Require Import List ZArith Bool.
Import ListNotations.
From TI Require Import lib.Term lib.TermFacts lib.Rect lib.Lines model.Block model.GfxRender
     proofs.BlockRect proofs.GfxRect
     model.RenderSession model.RenderTie model.RenderSessionTie proofs.RenderSessionProofs
     model.TermIdent model.TermIdentTie proofs.TermIdentProofs proofs.TermIdentTieProofs
     lib.RectCheck model.KittyQuirk model.KittyQuirkTie proofs.KittyQuirkProofs.
Open Scope Z_scope.

(** block style: every pixel content, alpha mode, kitty work-around, terminal background,
    split cells, every size *)
Theorem C01_block_rect :
  forall (alpha kitty : bool) (bgcol : option rgb) (split : bool) (w : nat) (rows : list (list px)),
    rows <> [] -> (0 < w)%nat -> (forall r, In r rows -> length r = w) ->
    Rect (Z.of_nat w) (Z.of_nat (length rows)) (Block.render alpha kitty bgcol split rows).
Proof. exact block_rect. Qed.
Print Assumptions C01_block_rect.

(** kitty style, LINES: any chunking of each line's transmission, z-index, mix, blend *)
Theorem C01_kitty_lines_rect :
  forall (w h z : Z) (mix blend : bool), 0 < w -> 0 < h ->
  forall pls : list (list Z), Z.of_nat (length pls) = h ->
    Rect w h (kitty_lines w z mix blend pls).
Proof. exact kitty_lines_rect. Qed.
Print Assumptions C01_kitty_lines_rect.

Theorem C01_kitty_whole_rect :
  forall (w h z : Z) (mix blend : bool), 0 < w -> 0 < h ->
  forall pl : list Z, Rect w h (kitty_whole w h z mix blend pl).
Proof. exact kitty_whole_rect. Qed.
Print Assumptions C01_kitty_whole_rect.

(** iterm2 style on every terminal identity (konsole / wezterm / other), mix on/off *)
Theorem C01_iterm2_lines_rect :
  forall (w h : Z) (konsole wezterm mix : bool), 0 < w -> 0 < h ->
  forall sps : list (Z * Z), Z.of_nat (length sps) = h ->
    Rect w h (iterm2_lines w konsole wezterm mix sps).
Proof. exact iterm2_lines_rect. Qed.
Print Assumptions C01_iterm2_lines_rect.

(** WHOLE, native ANIM (same choreography) and ANIM falling back to WHOLE *)
Theorem C01_iterm2_whole_rect :
  forall (w h : Z) (konsole wezterm mix : bool) (sp : Z * Z), 0 < w -> 0 < h ->
    Rect w h (iterm2_whole w h konsole wezterm mix sp).
Proof. exact iterm2_whole_rect. Qed.
Print Assumptions C01_iterm2_whole_rect.

(** on any screen where the rectangle fits: no wrap, no scroll, no excursion *)
Theorem C01_fits :
  forall W H top lm t w h R,
    Rect w h R -> clean t -> col t = lm -> sgr t = adefault ->
    0 <= lm -> lm + w <= W -> top <= row t -> row t + h <= top + H ->
    exists evs, log (exec lm t R) = log t ++ evs /\ fits_noscroll W H top evs = true.
Proof. exact (rect_fits all_cells). Qed.
Print Assumptions C01_fits.

(** ** Sessions: "the render output of an image" is EVERY render output an instance hands
    out -- the N-th render after earlier renders of the same instance that completed or were
    interrupted at any point (model/RenderSession.v: a session is a list of requests, each
    with an optional cut position; an interrupted request yields nothing). *)

(** a completed request yields the render of its own parameters, whatever was requested,
    completed or interrupted (at any position) before and after it *)
Theorem C01_session_pure :
  forall (s1 : list req) (r : req) (s2 : list req),
    r_cut r = None ->
    nth_error (session (s1 ++ r :: s2)) (length s1) = Some (Some (p_render (r_par r))).
Proof. exact session_pure. Qed.
Print Assumptions C01_session_pure.

Theorem C01_session_outputs :
  forall s : list req,
    session_outputs s =
    map (fun r => (r, p_render (r_par r))) (filter (fun r => negb (interrupted r)) s).
Proof. exact session_outputs_spec. Qed.
Print Assumptions C01_session_outputs.

(** every render output yielded by every session (all three styles, every method)
    satisfies the rectangle contract of its own request *)
Theorem C01_session_rect :
  forall s : list req,
    (forall r, In r s -> interrupted r = false -> p_wf (r_par r)) ->
    forall r out, In (r, out) (session_outputs s) ->
      Rect (p_w (r_par r)) (p_h (r_par r)) out.
Proof. exact session_rect. Qed.
Print Assumptions C01_session_rect.

Theorem C01_session_fits :
  forall s : list req,
    (forall r, In r s -> interrupted r = false -> p_wf (r_par r)) ->
    forall r out, In (r, out) (session_outputs s) ->
    forall W H top lm t,
      clean t -> col t = lm -> sgr t = adefault ->
      0 <= lm -> lm + p_w (r_par r) <= W -> top <= row t -> row t + p_h (r_par r) <= top + H ->
      exists evs, log (exec lm t out) = log t ++ evs /\ fits_noscroll W H top evs = true.
Proof. exact session_fits. Qed.
Print Assumptions C01_session_fits.

(** soundness of the executable session comparison used by the correspondence: when the
    observed yields of a session equal the session model's, every observed completed
    output satisfies the contract for its advertised size *)
Theorem C01_session_tie_sound :
  forall sc : list sstep,
    yields_eqb (session (map req_of sc)) (map observed sc) && forallb req_okb sc = true ->
    forall t, In (SDone t) sc -> Rect (t_w t) (t_h t) (t_obs t).
Proof. exact session_tie_sound. Qed.
Print Assumptions C01_session_tie_sound.

(** ** Terminal identity: "any terminal quirk mode" quantifies over TERMINALS, not over values of
    a private class attribute.  The terminal reports an identity; the library detects it
    ([is_supported()], which records it as a side effect) by whatever route the application
    takes; the render must meet the contract under the conventions of THAT terminal
    (model/TermIdent.v: [kind_of], [views], [RectOn]). *)

(** whatever support checks, forced-support switches and cache clearings on whatever classes
    of the chain precede it: an instance that could be constructed renders with exactly what
    the detection derives from the identity ([D]: the recorded data, [detect]: the detection's
    result for the identity) *)
Theorem C01_ident_route :
  forall (D : Type) (detect : option D) (ops : list rop) (k : nat) (r : option D),
    route_rec detect ops k = Some r -> r = detect.
Proof. exact route_rec_detect. Qed.
Print Assumptions C01_ident_route.

(** the design in which forced support short-circuits the support check is excluded: on a
    supported terminal, with forced support on and no earlier check, nothing is recorded *)
Theorem C01_ident_route_excludes_shortcut :
  forall (D : Type) (d : D),
    route_rec_lazy (Some d) [RForce 1 true] 1 = Some None
    /\ route_rec (Some d) [RForce 1 true] 1 = Some (Some d).
Proof. exact route_rec_lazy_refuted. Qed.
Print Assumptions C01_ident_route_excludes_shortcut.

(** for EVERY identity a terminal may report, the iterm2 renders (LINES; WHOLE = native ANIM =
    ANIM falling back to WHOLE) made in the mode the library derives from that identity meet the
    contract under that terminal's conventions *)
Theorem C01_ident_iterm2_rect :
  forall (i : ident) (w h : Z) (mix : bool), 0 < w -> 0 < h ->
    (forall sps : list (Z * Z), Z.of_nat (length sps) = h ->
       RectOn (kind_of i) mix w h (iterm2_lines_for (iterm2_recorded i) w mix sps))
    /\ (forall sp : Z * Z,
       RectOn (kind_of i) mix w h (iterm2_whole_for (iterm2_recorded i) w h mix sp)).
Proof. exact ident_iterm2_rect. Qed.
Print Assumptions C01_ident_iterm2_rect.

(** ... after ANY route: [term] is what an instance of class [k] sees recorded after [ops] *)
Theorem C01_ident_route_iterm2_rect :
  forall (i : ident) (ops : list rop) (k : nat) (term : option bytes) (w h : Z) (mix : bool),
    route_rec (iterm2_recorded i) ops k = Some term -> 0 < w -> 0 < h ->
    (forall sps : list (Z * Z), Z.of_nat (length sps) = h ->
       RectOn (kind_of i) mix w h (iterm2_lines_for term w mix sps))
    /\ (forall sp : Z * Z, RectOn (kind_of i) mix w h (iterm2_whole_for term w h mix sp)).
Proof. exact route_iterm2_rect. Qed.
Print Assumptions C01_ident_route_iterm2_rect.

(** a render made in the mode of ANOTHER identity is outside: on Konsole every LINES render
    made in plain or WezTerm mode, of every size, violates the contract *)
Theorem C01_ident_other_mode_on_konsole :
  forall (w h : Z) (wz mix : bool) (sps : list (Z * Z)),
    0 < h -> Z.of_nat (length sps) = h ->
    ~ RectOn KKonsole mix w h (iterm2_lines w false wz mix sps).
Proof. exact other_mode_on_konsole_lines_refuted. Qed.
Print Assumptions C01_ident_other_mode_on_konsole.

(** kitty: the frames of an animation are rendered with arguments derived from the identity
    (z-index, blend policy from the recorded version); for every identity they meet the contract *)
Theorem C01_ident_kitty_frame_rect :
  forall (i : ident) (w h : Z) (mix : bool), 0 < w -> 0 < h ->
    (forall pls : list (list Z), Z.of_nat (length pls) = h ->
       Rect w h (kitty_frame_lines_for (kitty_recorded i) w mix pls))
    /\ (forall pl : list Z, Rect w h (kitty_frame_whole_for (kitty_recorded i) w h mix pl)).
Proof. exact ident_kitty_frame_rect. Qed.
Print Assumptions C01_ident_kitty_frame_rect.

(** soundness of the executable identity comparison: when the model's prediction for the
    driven route equals the observed render, the observed render meets the contract under the
    conventions of the terminal the identity denotes *)
Theorem C01_ident_tie_sound :
  forall (c : icase) (m : imethod) (mix : bool),
    ic_render c = IIterm m mix ->
    imodel c = Some (ic_obs c) ->
    0 < ic_w c -> 0 < ic_h c ->
    (m = MLines -> Z.of_nat (length (iterm_sps (ic_obs c))) = ic_h c) ->
    RectOn (kind_of (ic_ident c)) mix (ic_w c) (ic_h c) (ic_obs c).
Proof. exact ident_tie_sound. Qed.
Print Assumptions C01_ident_tie_sound.

(** ** Round 9: coverage under the quirks of the terminal the render is made for (model/KittyQuirk.v)

    kitty does not paint a cell background equal to the terminal's DEFAULT background colour:
    [covered_on kitty dbg] is coverage on such a terminal.  Every block render (every pixel content,
    alpha mode, kitty or not, default background known or not, split cells, every size) covers every
    cell of its rectangle on the terminal it is made for, and appends only painted events. *)
Theorem C01_kitty_default_bg_cells_covered :
  forall (alpha kitty : bool) (bgcol : option rgb) (split : bool) (w : nat) (rows : list (list px)),
    rows <> [] -> (0 < w)%nat -> (forall r, In r rows -> length r = w) ->
    forall lm t, clean t -> col t = lm -> sgr t = adefault ->
    exists evs, log (exec lm t (Block.render alpha kitty bgcol split rows)) = log t ++ evs
      /\ forallb (ev_painted kitty bgcol) evs = true
      /\ forall r c, row t <= r < row t + Z.of_nat (length rows) -> lm <= c < lm + Z.of_nat w ->
           covered_on kitty bgcol evs r c = true.
Proof. exact kitty_default_bg_cells_covered. Qed.
Print Assumptions C01_kitty_default_bg_cells_covered.

(** the design that applies the work-around to solid cells only is excluded: a half-block cell
    whose lower pixel is the default background is not covered (the plain contract still holds) *)
Theorem C01_kitty_default_bg_solid_only_refuted :
  exists (d : rgb) (p : px),
    quirk_cover_checkb true (Some d) 1 1 0 0 (render1_solid_only false true (Some d) false p) = false
    /\ rect_checkb 1 1 0 0 (render1_solid_only false true (Some d) false p) = true.
Proof. exact kitty_default_bg_solid_only_refuted. Qed.
Print Assumptions C01_kitty_default_bg_solid_only_refuted.

(** a kitty transmission is displayed only if accepted on ITS OWN control data (decoded payload
    = s*v*f/8 bytes).  Control data a function of the line only => every line is accepted, for
    every opacity pattern of the lines (the code: [line_tx], f = the render's format). *)
Theorem C01_kitty_lines_control_data_per_line :
  forall (pol : bool -> Z) (s v : Z), (forall o, pol o = 24 \/ pol o = 32) ->
  forall ls : list bool, forallb accepted (map (policy_tx pol s v) ls) = true.
Proof. exact kitty_lines_control_data_per_line. Qed.
Print Assumptions C01_kitty_lines_control_data_per_line.

(** the code's LINES render AS DISPLAYED (rejected transmissions place nothing) meets the contract *)
Theorem C01_kitty_lines_shown_rect :
  forall (rgba : bool) (s v : Z) (ls : list bool) (w h z : Z) (mix blend : bool),
    0 < w -> 0 < h -> forall pls : list (list Z), Z.of_nat (length pls) = h ->
    Rect w h (accept_view (map accepted (lines_txs rgba s v ls)) true (kitty_lines w z mix blend pls)).
Proof. exact kitty_lines_shown_rect. Qed.
Print Assumptions C01_kitty_lines_shown_rect.

(** excluded: a sticky [f] on control data shared by the lines *)
Theorem C01_kitty_lines_sticky_refuted :
  exists (s v : Z) (ls : list bool) (pls : list (list Z)),
    forallb accepted (sticky_txs s v 32 ls) = false
    /\ gfx_shown_checkb (sticky_txs s v 32 ls) 3 2 (kitty_lines 3 0 false true pls) = false
    /\ rect_checkb 3 2 0 0 (accept_view (map accepted (sticky_txs s v 32 ls)) true (kitty_lines 3 0 true true pls)) = false
    /\ gfx_shown_checkb (lines_txs true s v ls) 3 2 (kitty_lines 3 0 false true pls) = true.
Proof. exact kitty_lines_sticky_refuted. Qed.
Print Assumptions C01_kitty_lines_sticky_refuted.

(** soundness of the executable quirk comparison (block) *)
Theorem C01_quirk_tie_sound :
  forall (c : qcase) alpha kitty bgcol split rows (w : nat),
    q_render c = QBlock alpha kitty bgcol split rows -> qmodel_ok c = true ->
    rows <> [] -> (0 < w)%nat -> (forall r, In r rows -> length r = w) ->
    forall lm t, clean t -> col t = lm -> sgr t = adefault ->
    exists evs, log (exec lm t (q_obs c)) = log t ++ evs
      /\ forall r cc, row t <= r < row t + Z.of_nat (length rows) -> lm <= cc < lm + Z.of_nat w ->
           covered_on kitty bgcol evs r cc = true.
Proof. exact quirk_tie_sound. Qed.
Print Assumptions C01_quirk_tie_sound.
