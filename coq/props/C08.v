(** C08 — a render iterator yields exactly the frames its operation history dictates.

    Only statements, each closed by [exact <lemma>], and [Print Assumptions].

    [Iter] (model/Iter.v) is the code model of [RenderIterator]: generator suspension
    points, cache, stored padded size, render data.  [IterSpec] (model/IterSpec.v) is the
    documented model: finalized?, number of the frame to be rendered next (INDEFINITE: the
    pending seek), loop countdown, the four settings.  The renderable's [_render_] is the
    parameter [render] (any state-passing function that returns a frame, raises
    StopIteration or raises another exception); [n] is its frame count ([None] =
    INDEFINITE), [term] the terminal size.

    [trace s ops] lists, per operation of the history [ops], what it returned (frame /
    StopIteration / ok / which error) and [iterator.loop] after it.

    [refines c]: caching is off for this configuration, or the renderable is
    deterministic ([render_det]; C09 is about that hypothesis). *)
From Coq Require Import List ZArith Bool Lia.
Import ListNotations.
From TI Require Import model.Iter model.IterSpec proofs.IterProofs proofs.IterProofs2
     proofs.IterProofs3 proofs.IterProofs4 proofs.IterExamples.
From TI Require gen.IterSrc proofs.IterSrcTie.
From TI Require Import model.IterEnv model.IterSession proofs.IterEnvProofs proofs.IterEnvExamples.
From TI Require Import model.IterArgs proofs.IterArgsProofs.
Open Scope Z_scope.

(** for EVERY history: frames (number, duration, size, output, padding), countdown, errors
    are those of the documented model *)
Theorem C08_iter_refines_spec :
  forall RS render n term c rs0 s a ops,
    (cache_decision n (c_cache c) = false \/ render_det RS render) ->
    mk RS n term c rs0 = inl s -> spec_mk RS n term c rs0 = inl a ->
    trace RS render n term s ops = spec_trace RS render n term a ops.
Proof. exact iter_refines_spec. Qed.
Print Assumptions C08_iter_refines_spec.

(** construction is refused exactly as documented (non-animated, loops = 0, cache <= 0,
    incompatible render arguments) *)
Theorem C08_mk_refines_spec :
  forall RS n term c rs0 e,
    mk RS n term c rs0 = inr e <-> spec_mk RS n term c rs0 = inr e.
Proof. exact mk_refines_spec. Qed.
Print Assumptions C08_mk_refines_spec.

(** whatever the history so far, the continuation is the documented machine's, started
    from the documented state [spec_run a ops] *)
Theorem C08_iter_follows_spec_after :
  forall RS render n term c rs0 s a ops ops',
    refines RS render n c -> mk RS n term c rs0 = inl s -> spec_mk RS n term c rs0 = inl a ->
    trace RS render n term s (ops ++ ops') =
    trace RS render n term s ops ++ spec_trace RS render n term (spec_run RS render n term a ops) ops'.
Proof. exact iter_follows_spec_after. Qed.
Print Assumptions C08_iter_follows_spec_after.

(** absent seeks (and failures): exactly [loops * n] frames, numbered [0 .. n-1]
    cyclically, the countdown showing [loops, loops-1, .., 1]; then Stop forever with the
    countdown at 0.  ([frame_of c v j]: frame [j] rendered and padded under [c]'s settings) *)
Theorem C08_frames_without_seek :
  forall RS render term F,
    (forall r o w sz d a, fst (render r o w sz d a) = ROk (F o w sz d a)) ->
    forall kn c rs0 s L m,
      mk RS (Some (Z.of_nat kn)) term c rs0 = inl s ->
      c_loops c = Z.of_nat (S L) ->
      exists v, c_args c = Some v /\
        trace RS render (Some (Z.of_nat kn)) term s (repeat Next (S L * kn + m)) =
        countdown_passes kn (frame_of term F c v) (S L) ++ repeat (OStop, 0) m.
Proof. exact frames_without_seek. Qed.
Print Assumptions C08_frames_without_seek.

Theorem C08_frames_without_seek_infinite :
  forall RS render term F,
    (forall r o w sz d a, fst (render r o w sz d a) = ROk (F o w sz d a)) ->
    forall kn c rs0 s p,
      mk RS (Some (Z.of_nat kn)) term c rs0 = inl s ->
      c_loops c < 0 ->
      exists v, c_args c = Some v /\
        trace RS render (Some (Z.of_nat kn)) term s (repeat Next (p * kn)) =
        concat (repeat (map (fun j => (frame_of term F c v (Z.of_nat j), c_loops c)) (seq 0 kn)) p).
Proof. exact frames_without_seek_infinite. Qed.
Print Assumptions C08_frames_without_seek_infinite.

(** a seek takes effect at the next render and does not consume a loop: after any
    history that leaves the iterator open, an in-range seek designating frame [t]
    returns normally, and the next [next] renders frame [t] with the current settings,
    the countdown unchanged through both — including at the end-of-pass boundary *)
Theorem C08_seek_keeps_loop :
  forall RS render n term c rs0 s a ops k off w t,
    refines RS render n c -> mk RS n term c rs0 = inl s -> spec_mk RS n term c rs0 = inl a ->
    n = Some k ->
    let a' := spec_run RS render n term a ops in
    a_closed a' = false -> seek_target k (a_next a') off w = Some t ->
    trace RS render n term s (ops ++ [Seek off w; Next]) =
    trace RS render n term s ops ++ [(OOk, a_loop a'); (render_outcome RS render n a' t WStart, a_loop a')].
Proof. exact seek_keeps_loop. Qed.
Print Assumptions C08_seek_keeps_loop.

(** the documented seek table *)
Theorem C08_seek_target_spec :
  forall k nx off w t,
    seek_target k nx off w = Some t <->
    t = match w with WStart => off | WCurrent => nx + off | WEnd => k - 1 + off end /\ 0 <= t < k.
Proof. exact seek_target_spec. Qed.
Print Assumptions C08_seek_target_spec.

(** CURRENT is relative to the frame to be rendered next; out of range: ValueError, and
    the documented state is unchanged *)
Theorem C08_seek_current_relative_to_next :
  forall RS render n term c rs0 s a ops k off,
    refines RS render n c -> mk RS n term c rs0 = inl s -> spec_mk RS n term c rs0 = inl a ->
    n = Some k ->
    let a' := spec_run RS render n term a ops in
    a_closed a' = false ->
    (0 <= a_next a' + off < k ->
     trace RS render n term s (ops ++ [Seek off WCurrent; Next]) =
     trace RS render n term s ops ++
       [(OOk, a_loop a'); (render_outcome RS render n a' (a_next a' + off) WStart, a_loop a')]) /\
    (~ 0 <= a_next a' + off < k ->
     trace RS render n term s (ops ++ [Seek off WCurrent]) =
     trace RS render n term s ops ++ [(OErr EValue, a_loop a')] /\
     spec_run RS render n term a (ops ++ [Seek off WCurrent]) = a').
Proof. exact seek_current_relative_to_next. Qed.
Print Assumptions C08_seek_current_relative_to_next.

(** "the frame to be rendered next" is the one after the frame rendered last, or the
    one set by the latest seek *)
Theorem C08_next_frame_number :
  forall RS render n term (a : astate RS) k,
    n = Some k -> a_closed a = false ->
    (forall f, snd (spec_step RS render n term a Next) = OFrame f ->
               a_next (fst (spec_step RS render n term a Next)) = next_frame RS n a + 1) /\
    (forall off w t, seek_target k (a_next a) off w = Some t ->
               a_next (fst (spec_step RS render n term a (Seek off w))) = t).
Proof. exact next_frame_number. Qed.
Print Assumptions C08_next_frame_number.

(** every setting applies from the next rendered frame: the setter itself yields nothing,
    the next frame has the number it would have had anyway and is rendered / padded with
    the new value ([with_setting]: the documented state with that one setting replaced;
    relative paddings resolved) *)
Theorem C08_settings_apply_from_next_frame :
  forall RS render n term c rs0 s a ops o a1,
    refines RS render n c -> mk RS n term c rs0 = inl s -> spec_mk RS n term c rs0 = inl a ->
    let a' := spec_run RS render n term a ops in
    a_closed a' = false -> with_setting RS term a' o = Some a1 ->
    (wraps RS n a' && (next_loop RS n a' =? 0)) = false ->
    map fst (trace RS render n term s (ops ++ [o; Next])) =
    map fst (trace RS render n term s ops) ++
      [OOk; render_outcome RS render n a1 (next_frame RS n a')
                           (match n with Some _ => WStart | None => a_wh a' end)].
Proof. exact settings_apply_from_next_frame. Qed.
Print Assumptions C08_settings_apply_from_next_frame.

(** rejected operations (out-of-range seek, bad duration, incompatible arguments, anything
    on a finalized iterator) leave the WHOLE state of the code model unchanged *)
Theorem C08_rejected_op_no_change :
  forall RS render n term (s : state RS) o e,
    o <> Next -> snd (step RS render n term s o) = OErr e -> fst (step RS render n term s o) = s.
Proof. exact rejected_op_no_change. Qed.
Print Assumptions C08_rejected_op_no_change.

Theorem C08_seek_rejected_iff_out_of_range :
  forall RS render n term (s : state RS) off w k,
    n = Some k -> closed s = false ->
    (snd (step RS render n term s (Seek off w)) = OErr EValue <->
     ~ (0 <= match w with WStart => off | WCurrent => fo (rd s) + off | WEnd => k - 1 + off end < k)).
Proof. exact seek_rejected_iff_out_of_range. Qed.
Print Assumptions C08_seek_rejected_iff_out_of_range.

(** on a finalized iterator: next stops, close is a no-op, every control operation raises
    FinalizedIteratorError; nothing changes *)
Theorem C08_closed_ops_raise :
  forall RS render n term (s : state RS) o,
    closed s = true ->
    step RS render n term s o =
    (s, match o with Next => OStop | Close | Drop => OOk | _ => OErr EFinalized end).
Proof. exact closed_ops_raise. Qed.
Print Assumptions C08_closed_ops_raise.

(** INDEFINITE sources: of several seeks between two renders only the last counts; the
    next render is handed it; the render after that is handed none ([0, CURRENT]) *)
Theorem C08_indefinite_seek_delivered_once :
  forall RS render n term c rs0 s a ops off0 w0 off w,
    mk RS n term c rs0 = inl s -> spec_mk RS n term c rs0 = inl a -> n = None ->
    let a' := spec_run RS render n term a ops in
    a_closed a' = false -> indefinite_seek_ok off0 w0 = true -> indefinite_seek_ok off w = true ->
    map fst (trace RS render n term s (ops ++ [Seek off0 w0; Seek off w; Next; Next])) =
    map fst (trace RS render n term s ops) ++ [OOk; OOk] ++ two_renders RS render n a' off w.
Proof. exact indefinite_seek_delivered_once. Qed.
Print Assumptions C08_indefinite_seek_delivered_once.

(** [iterator.loop] is the documented countdown *)
Theorem C08_loop_countdown :
  forall RS render n term c rs0 s a ops k,
    refines RS render n c -> mk RS n term c rs0 = inl s -> spec_mk RS n term c rs0 = inl a ->
    n = Some k ->
    let a' := spec_run RS render n term a ops in
    pub_loop (run RS render n term s ops) = a_loop a' /\
    a_loop a = c_loops c /\
    (forall o, o <> Next -> a_loop (fst (spec_step RS render n term a' o)) = a_loop a') /\
    (a_closed a' = false ->
     a_loop (fst (spec_step RS render n term a' Next)) =
     if (k <=? a_next a') && (0 <? a_loop a') then a_loop a' - 1 else a_loop a') /\
    (a_closed a' = false -> a_loop a' <> 0) /\
    (a_closed a' = false -> (k <=? a_next a') && (a_loop a' =? 1) = true ->
     snd (spec_step RS render n term a' Next) = OStop /\
     a_loop (fst (spec_step RS render n term a' Next)) = 0).
Proof. exact loop_countdown. Qed.
Print Assumptions C08_loop_countdown.

Theorem C08_loop_negative_forever :
  forall RS render n term k, n = Some k -> forall ops (a : astate RS),
    a_loop a < 0 -> a_loop (spec_run RS render n term a ops) = a_loop a.
Proof. exact loop_negative_forever. Qed.
Print Assumptions C08_loop_negative_forever.

(** the iterator never moves the renderable's own current frame *)
Theorem C08_renderable_frame_untouched :
  forall RS render n term ops (s : state RS), r_frame (run RS render n term s ops) = r_frame s.
Proof. exact renderable_frame_untouched. Qed.
Print Assumptions C08_renderable_frame_untouched.

(** *** [RenderIterator.seek] tied to the source as a theorem (T): the method is translated
    statement by statement from [render/_iterator.py] on every run into [gen/IterSrc.v] by
    [harness/tx/tx_iter.py]; for ALL states, offsets and whence values the model step [Iter.seek]
    raises exactly the exception, or performs exactly the update of (frame_offset, seek_whence),
    that the translated source does, and changes nothing else *)
Theorem C08_source_seek :
  forall RS n (s : state RS) off w,
    seek RS n s off w =
    TI.proofs.IterSrcTie.apply_seek RS s (TI.gen.IterSrc.src_seek (closed s) n (fo (rd s)) off w).
Proof. exact TI.proofs.IterSrcTie.seek_is_source. Qed.
Print Assumptions C08_source_seek.

(** read off the SOURCE: an accepted seek on a definite source selects a frame in range, relative
    to START / to the frame to be rendered next (CURRENT) / to the last frame (END) *)
Theorem C08_source_seek_definite_range :
  forall closed_ k fo_ off w f w',
    TI.gen.IterSrc.src_seek closed_ (Some k) fo_ off w = TI.gen.IterSrc.SUpdate f w' ->
    0 <= f < k /\ w' = WStart /\
    f = match w with WStart => off | WCurrent => fo_ + off | WEnd => k + off - 1 end.
Proof. exact TI.proofs.IterSrcTie.source_seek_definite_range. Qed.
Print Assumptions C08_source_seek_definite_range.

(** *** [set_frame_duration] tied to the source as a theorem (T), and the position of the
    finalized check: [gen/IterSrc.v] also carries [RenderIterator.set_frame_duration] translated
    statement by statement and, for [seek], [set_frame_duration], [set_padding],
    [set_render_args], [set_render_size], the position of
    [if self._closed: raise FinalizedIteratorError] among the method's statements *)
Theorem C08_source_set_frame_duration :
  forall RS (s : state RS) d,
    set_duration RS s d =
    TI.proofs.IterSrcTie.apply_sfd RS s (TI.gen.IterSrc.src_set_frame_duration (closed s) d).
Proof. exact TI.proofs.IterSrcTie.set_frame_duration_is_source. Qed.
Print Assumptions C08_source_set_frame_duration.

(** on a finalized iterator no control method looks at its argument first: the finalized
    check is statement 0 of each of the five methods *)
Theorem C08_source_finalized_check_first :
  (forall p, In p TI.gen.IterSrc.src_finalized_check_position -> snd p = 0%nat)
  /\ map fst TI.gen.IterSrc.src_finalized_check_position = (0 :: 1 :: 2 :: 3 :: 4 :: nil)%nat.
Proof. exact (conj TI.proofs.IterSrcTie.finalized_check_first TI.proofs.IterSrcTie.finalized_check_covers_all_methods). Qed.
Print Assumptions C08_source_finalized_check_first.

(** *** histories in a CHANGING environment (model/IterEnv.v)

    An event is [(terminal size in force, operation of the iterator | client write to
    [iterator.loop])]; [trace_env] / [spec_trace_env] run the code model / the documented
    machine over events, each operation AT the terminal size of its event; the documented
    machine keeps, beside the state of [IterSpec], the value the client last wrote into the
    attribute while the countdown has not changed since.  [term0] is the terminal size at
    construction.

    For EVERY history of events - whatever the resizes between operations and whatever is
    written to [iterator.loop] - frames (number, duration, size, output, padding), the value
    read from [iterator.loop] and errors are those of the documented machine *)
Theorem C08_iter_env_refines_spec :
  forall RS render n term0 c rs0 s a h,
    (cache_decision n (c_cache c) = false \/ render_det RS render) ->
    mk RS n term0 c rs0 = inl s -> spec_mk RS n term0 c rs0 = inl a ->
    trace_env RS render n s h = spec_trace_env RS render n (a, None) h.
Proof. exact iter_env_refines_spec. Qed.
Print Assumptions C08_iter_env_refines_spec.

(** the histories of the theorems above are the events at a constant terminal size *)
Theorem C08_env_constant_terminal :
  forall RS render n term ops (s : state RS) (a : astate RS),
    trace_env RS render n s (const_env term ops) = trace RS render n term s ops /\
    spec_trace_env RS render n (a, None) (const_env term ops) = spec_trace RS render n term a ops.
Proof. exact env_constant_terminal. Qed.
Print Assumptions C08_env_constant_terminal.

(** "Modifying this doesn't affect the iterator": from ANY state of the code model, for any
    history, what the operations return (frames, stops, errors) is what they return in the
    history with the client writes erased, and the final states agree (generator countdown
    included) except for the attribute itself *)
Theorem C08_loop_write_irrelevant :
  forall RS render n h (s : state RS),
    outs_env RS render n s h = outs_env RS render n s (erase_pokes h) /\
    eq_mod_pub RS (run_env RS render n s h) (run_env RS render n s (erase_pokes h)).
Proof. exact poke_irrelevant. Qed.
Print Assumptions C08_loop_write_irrelevant.

Theorem C08_loop_write_irrelevant_spec :
  forall RS render n h (p : pstate RS),
    spec_outs_env RS render n p h = spec_outs_env RS render n p (erase_pokes h) /\
    fst (spec_run_env RS render n p h) = fst (spec_run_env RS render n p (erase_pokes h)).
Proof. exact spec_poke_irrelevant. Qed.
Print Assumptions C08_loop_write_irrelevant_spec.

(** as soon as the documented countdown changes, [iterator.loop] shows it again *)
Theorem C08_loop_readback_after_update :
  forall RS render n (p : pstate RS) t o,
    a_loop (fst (fst (spec_estep RS render n p (t, EOp o)))) <> a_loop (fst p) ->
    readback RS (fst (spec_estep RS render n p (t, EOp o))) =
    a_loop (fst (fst (spec_estep RS render n p (t, EOp o)))).
Proof. exact readback_after_update. Qed.
Print Assumptions C08_loop_readback_after_update.

(** the padding of the iteration changes at [set_padding] only, where it becomes the padding
    given, resolved against the terminal size of THAT event: no other operation (in
    particular [set_render_size], [seek], [next]), no resize and no client write touches it *)
Theorem C08_padding_changes_only_at_set_padding :
  forall RS render n (s : state RS) (e : ev),
    pad (fst (estep RS render n s e)) =
    match snd e with
    | EOp (SetPadding p) => if closed s then pad s else resolve (fst e) p
    | _ => pad s
    end.
Proof. exact estep_pad. Qed.
Print Assumptions C08_padding_changes_only_at_set_padding.

(** hence, after any history that leaves the iterator open: the padding in force is the one
    given to the LATEST [set_padding], resolved against the terminal size at that event (the
    constructor's padding, resolved at construction, if there was none) ... *)
Theorem C08_padding_after_history :
  forall RS render n h (s : state RS),
    closed (run_env RS render n s h) = false ->
    pad (run_env RS render n s h) = resolved (last_set_padding h None) (pad s).
Proof. exact pad_after_history. Qed.
Print Assumptions C08_padding_after_history.

(** ... and the stored padded size is that padding applied to the current render size *)
Theorem C08_padded_size_after_history :
  forall RS render n term0 c rs0 s h,
    (cache_decision n (c_cache c) = false \/ render_det RS render) ->
    mk RS n term0 c rs0 = inl s ->
    let s' := run_env RS render n s h in
    closed s' = false ->
    pad s' = resolved (last_set_padding h None) (resolve term0 (c_pad c)) /\
    padded s' = padded_size (pad s') (d_size (rd s')).
Proof. exact padded_after_history. Qed.
Print Assumptions C08_padded_size_after_history.

(** the documented machine: same rule for its padding; every frame it yields is padded with
    the padding in force, to that padding applied to the current render size *)
Theorem C08_spec_padding_rule :
  forall RS render n term (a : astate RS) o,
    a_pad (fst (spec_step RS render n term a o)) =
    match o with
    | SetPadding p => if a_closed a then a_pad a else resolve term p
    | _ => a_pad a
    end.
Proof. exact spec_step_pad. Qed.
Print Assumptions C08_spec_padding_rule.

Theorem C08_spec_frame_padding :
  forall RS render n term (a : astate RS) o f,
    snd (spec_step RS render n term a o) = OFrame f ->
    exists rf, f = wrap_frame (a_pad a) (padded_size (a_pad a) (a_size a)) rf.
Proof. exact spec_frame_padding. Qed.
Print Assumptions C08_spec_frame_padding.

(** *** render data re-used by a second iterator ([_from_render_data_(..., finalize=False)],
    sessions of model/IterSession.v): a first iterator over fresh data runs ANY history [h1]
    (advanced k frames, seeked, resized, closed or simply dropped); a second iterator is made
    over the same data ([remake] = [IterSession.sstep] on [SMake]).  For a definite source its
    trace, for EVERY history [h2], is that of the documented machine constructed AFRESH - next
    frame 0, full countdown - over the render size and frame duration the first history
    documents, wherever the first iteration stopped ([rs s1']: the renderable's own state) *)
Theorem C08_second_iterator_is_fresh :
  forall RS render n term0 c1 rs0 s1 a1 h1 term2 c2 s2 k,
    n = Some k ->
    (cache_decision n (c_cache c1) = false \/ render_det RS render) ->
    (cache_decision n (c_cache c2) = false \/ render_det RS render) ->
    mk RS n term0 c1 rs0 = inl s1 -> spec_mk RS n term0 c1 rs0 = inl a1 ->
    let s1' := run_env RS render n s1 h1 in
    let a1' := fst (spec_run_env RS render n (a1, None) h1) in
    remake RS render n term2 s1' c2 = inl s2 ->
    exists a2,
      spec_mk RS n term2 (on_data c2 (a_size a1') (a_dur a1')) (rs s1') = inl a2 /\
      a_next a2 = 0 /\ a_loop a2 = c_loops c2 /\
      forall h2, trace_env RS render n s2 h2 = spec_trace_env RS render n (a2, None) h2.
Proof. exact second_iterator_is_fresh. Qed.
Print Assumptions C08_second_iterator_is_fresh.

(** *** render arguments offered BY CLASS RELATION (model/IterArgs.v)

    The render arguments handed to [set_render_args] / the constructors are associated with a
    render class; what the iterator does with them depends on the relation of that class to the
    class of the iterated renderable: the SAME class (installed as is), an ANCESTOR's (converted:
    accepted), a DESCENDANT's (subclass) or an UNRELATED one (incompatible).  [install] is the
    code's class test + [RenderArgs(render_cls, render_args)]; [doc_install] the documented
    compatibility rule.

    The code accepts exactly the compatible relations, with the documented resulting arguments *)
Theorem C08_args_install_is_documented :
  forall x, install x = doc_install x.
Proof. exact install_is_doc. Qed.
Print Assumptions C08_args_install_is_documented.

Theorem C08_args_accepted_iff_compatible :
  forall x, (exists v, install x = Some v) <-> compatible (o_rel x) = true.
Proof. exact install_accepts_iff_compatible. Qed.
Print Assumptions C08_args_accepted_iff_compatible.

(** [set_render_args] with arguments of a subclass of the renderable's class or of an unrelated
    class: IncompatibleRenderArgsError (FinalizedIteratorError on a finalized iterator) and the
    WHOLE state of the code model is unchanged - in every state, hence after every history *)
Theorem C08_incompatible_set_args_rejected :
  forall RS render n term (s : state RS) x,
    compatible (o_rel x) = false ->
    step RS render n term s (lower install (ASetArgs x)) =
    (s, OErr (if closed s then EFinalized else EIncompat)).
Proof. exact incompatible_set_args_rejected. Qed.
Print Assumptions C08_incompatible_set_args_rejected.

(** ... so that, in any history, the rejected call is answered by the error and is otherwise
    invisible: what follows is the trace from the state before it *)
Theorem C08_rejected_set_args_invisible :
  forall RS render n term (s : state RS) h x h',
    compatible (o_rel x) = false ->
    let s' := run RS render n term s (map (lower install) h) in
    trace RS render n term s (map (lower install) (h ++ ASetArgs x :: h')) =
    trace RS render n term s (map (lower install) h)
    ++ (OErr (if closed s' then EFinalized else EIncompat), pub_loop s')
    :: trace RS render n term s' (map (lower install) h').
Proof. exact rejected_set_args_invisible. Qed.
Print Assumptions C08_rejected_set_args_invisible.

(** compatible arguments: accepted, the arguments in force become the documented ones (an
    ancestor's converted: its namespaces kept, defaults for the rest), nothing else changes *)
Theorem C08_compatible_set_args_installed :
  forall RS render n term (s : state RS) x,
    compatible (o_rel x) = true -> closed s = false ->
    step RS render n term s (lower install (ASetArgs x)) = (set_args RS s (doc_value x), OOk).
Proof. exact compatible_set_args_installed. Qed.
Print Assumptions C08_compatible_set_args_installed.

(** the constructors ([RenderIterator(...)], [_from_render_data_]) *)
Theorem C08_mk_accepts_compatible_only :
  forall RS n term c x rs0 s,
    mk RS n term (with_args install c (Some x)) rs0 = inl s ->
    compatible (o_rel x) = true /\ args s = doc_value x.
Proof. exact mk_accepts_compatible_only. Qed.
Print Assumptions C08_mk_accepts_compatible_only.

Theorem C08_mk_rejects_incompatible :
  forall RS n term c x rs0,
    compatible (o_rel x) = false ->
    exists e, mk RS n term (with_args install c (Some x)) rs0 = inr e /\
              spec_mk RS n term (with_args doc_install c (Some x)) rs0 = inr e /\
              (e = EValue \/ e = EIncompat).
Proof. exact mk_rejects_incompatible. Qed.
Print Assumptions C08_mk_rejects_incompatible.

(** for EVERY history whose [set_render_args] carry arguments of any of the four relations: the
    trace of the code is the trace of the documented machine under the documented rule; also in a
    changing environment *)
Theorem C08_args_history_refines_spec :
  forall RS render n term c x0 rs0 s a h,
    (cache_decision n (c_cache c) = false \/ render_det RS render) ->
    mk RS n term (with_args install c x0) rs0 = inl s ->
    spec_mk RS n term (with_args doc_install c x0) rs0 = inl a ->
    trace RS render n term s (map (lower install) h) =
    spec_trace RS render n term a (map (lower doc_install) h).
Proof. exact args_history_refines_spec. Qed.
Print Assumptions C08_args_history_refines_spec.

Theorem C08_args_env_history_refines_spec :
  forall RS render n term0 c x0 rs0 s a h,
    (cache_decision n (c_cache c) = false \/ render_det RS render) ->
    mk RS n term0 (with_args install c x0) rs0 = inl s ->
    spec_mk RS n term0 (with_args doc_install c x0) rs0 = inl a ->
    trace_env RS render n s (map (lower_ev install) h) =
    spec_trace_env RS render n (a, None) (map (lower_ev doc_install) h).
Proof. exact args_env_history_refines_spec. Qed.
Print Assumptions C08_args_env_history_refines_spec.

(** EXCLUDED design: taking the "no conversion needed" path for
    [issubclass(render_args.render_cls, render_cls)] installs incompatible arguments; the frames
    that follow contradict the documented machine *)
Theorem C08_args_issubclass_fast_path_refuted :
  (compatible (o_rel ex_leaf) = false /\ install ex_leaf = None /\ install_issub ex_leaf = Some 203) /\
  exists s a,
    mk unit (Some 3) (80, 30) (with_args install_issub ex_cfg (Some {| o_rel := CSame; o_inh := 1; o_own := 1 |})) tt = inl s /\
    spec_mk unit (Some 3) (80, 30) (with_args doc_install ex_cfg (Some {| o_rel := CSame; o_inh := 1; o_own := 1 |})) tt = inl a /\
    map fst (trace unit show_render (Some 3) (80, 30) s (map (lower install_issub) ex_hist)) <>
    map fst (spec_trace unit show_render (Some 3) (80, 30) a (map (lower doc_install) ex_hist)).
Proof. exact (conj issub_accepts_incompatible issub_variant_refuted). Qed.
Print Assumptions C08_args_issubclass_fast_path_refuted.

(** ** ROUND 9 — the padding object by its CLASS; the padded size ACROSS [set_render_size]
    ([model/IterPadCls.v]) *)
From TI Require Import model.IterPadCls proofs.IterPadClsProofs.

(** a padding with relative dimensions is resolved when it is received whatever the class of the
    object ([AlignedPadding] itself or a client subclass): the padding in force depends on the
    fields only, is the one [Iter] / [IterSpec] compute ([resolve]) ... *)
Theorem C08_relative_padding_resolved_whatever_its_class :
  forall term k k' p,
    wf_offered {| pk := k; pp := p |} = true -> wf_offered {| pk := k'; pp := p |} = true ->
    install_pad term {| pk := k; pp := p |} = install_pad term {| pk := k'; pp := p |}
    /\ install_pad term {| pk := k; pp := p |} = resolve term p.
Proof. exact relative_padding_resolved_whatever_its_class. Qed.
Print Assumptions C08_relative_padding_resolved_whatever_its_class.

(** ... is the documented one (resolution by [relative] only), and has no relative dimension left *)
Theorem C08_padding_object_installed_as_documented :
  forall term o, wf_offered o = true ->
    install_pad term o = doc_install_pad term o /\ usable (install_pad term o) = true.
Proof. exact (fun term o H => conj (install_pad_is_doc term o H) (installed_padding_usable term o H)). Qed.
Print Assumptions C08_padding_object_installed_as_documented.

(** EXCLUDED design: the exact-type test [type(padding) is AlignedPadding and padding.relative]
    leaves a terminal-relative instance of a SUBCLASS unresolved (every later use raises
    RelativePaddingDimensionError); it differs from the code on such objects only *)
Theorem C08_relative_padding_exact_type_test_refuted :
  wf_offered ex_sub_relative = true /\
  install_pad (80, 30) ex_sub_relative = PAligned 80 28 1 1 /\
  doc_install_pad (80, 30) ex_sub_relative = PAligned 80 28 1 1 /\
  install_pad_exact_type (80, 30) ex_sub_relative = PAligned 0 (-2) 1 1 /\
  usable (install_pad_exact_type (80, 30) ex_sub_relative) = false /\
  padded_size (install_pad_exact_type (80, 30) ex_sub_relative) (2, 2) <>
  padded_size (doc_install_pad (80, 30) ex_sub_relative) (2, 2).
Proof. exact exact_type_test_refuted. Qed.
Print Assumptions C08_relative_padding_exact_type_test_refuted.

(** [set_padding] with an object of ANY class, in EVERY state: on an open iterator the documented
    padding is in force afterwards together with its padded size and nothing is yielded; on a
    finalized one FinalizedIteratorError and the WHOLE state unchanged — no other error exists,
    no rejected call changes anything *)
Theorem C08_set_padding_object_step :
  forall RS render n term (s : state RS) x,
    step RS render n term s (lowerp (PSetPadding x)) =
    if closed s then (s, OErr EFinalized)
    else (set_padded RS (set_pad RS s (doc_install_pad term x))
                     (padded_size (doc_install_pad term x) (d_size (rd s))), OOk).
Proof. exact set_padding_object_step. Qed.
Print Assumptions C08_set_padding_object_step.

(** for EVERY history whose [set_padding] and constructor carry padding objects of any class: the
    trace of the code (its [isinstance] test) is the trace of the documented machine under the
    documented rule; and the same stated on the fields of the objects *)
Theorem C08_padding_objects_history_refines_spec :
  forall RS render n term c x0 rs0 s a h,
    (cache_decision n (c_cache c) = false \/ render_det RS render) ->
    wf_offered x0 = true -> forallb pop_wf h = true ->
    mk RS n term (with_pad_by (install_pad term) c x0) rs0 = inl s ->
    spec_mk RS n term (with_pad_by (doc_install_pad term) c x0) rs0 = inl a ->
    trace RS render n term s (map (lower_by (install_pad term)) h) =
    spec_trace RS render n term a (map (lower_by (doc_install_pad term)) h).
Proof. exact padcls_installed_history_refines_spec. Qed.
Print Assumptions C08_padding_objects_history_refines_spec.

Theorem C08_padding_fields_history_refines_spec :
  forall RS render n term c x0 rs0 s a h,
    (cache_decision n (c_cache c) = false \/ render_det RS render) ->
    mk RS n term (with_pad c x0) rs0 = inl s ->
    spec_mk RS n term (with_pad c x0) rs0 = inl a ->
    trace RS render n term s (map lowerp h) = spec_trace RS render n term a (map lowerp h).
Proof. exact padcls_history_refines_spec. Qed.
Print Assumptions C08_padding_fields_history_refines_spec.

(** after [set_render_size] on an open iterator, in EVERY state: the stored padded size is
    [padded_size] of the CURRENT padding at the NEW size, whatever the old render size and the old
    padded size were; the padding is unchanged, nothing is yielded *)
Theorem C08_padded_size_after_set_render_size :
  forall RS render n term (s : state RS) sz,
    closed s = false ->
    let s' := fst (step RS render n term s (SetSize sz)) in
    padded s' = padded_size (pad s) sz /\ pad s' = pad s /\ d_size (rd s') = sz
    /\ snd (step RS render n term s (SetSize sz)) = OOk.
Proof. exact padded_size_after_set_render_size. Qed.
Print Assumptions C08_padded_size_after_set_render_size.

(** an aligned padding leaves a size alone iff the size is below its minimum in NEITHER dimension *)
Theorem C08_aligned_unpadded_iff :
  forall w h ha va sz,
    padded_size (PAligned w h ha va) sz = sz <->
    below_min_w (PAligned w h ha va) sz = false /\ below_min_h (PAligned w h ha va) sz = false.
Proof. exact aligned_unpadded_iff. Qed.
Print Assumptions C08_aligned_unpadded_iff.

(** EXCLUDED design 'unpadded now = unpadded afterwards': right for exact dimensions, refuted for an
    aligned padding whose minimum is not above the OLD render size but above the NEW one (both
    dimensions, width only, height only) *)
Theorem C08_padded_size_after_set_render_size_shortcut_refuted :
  (forall l t r b old new,
      padded_after_resize_shortcut (PExact l t r b) (padded_size (PExact l t r b) old) old new =
      padded_size (PExact l t r b) new) /\
  (let p := PAligned 3 3 1 1 in
   padded_size p (4, 3) = (4, 3) /\
   padded_after_resize_shortcut p (padded_size p (4, 3)) (4, 3) (1, 1) = (1, 1) /\
   padded_size p (1, 1) = (3, 3)) /\
  (let p := PAligned 3 1 0 0 in
   padded_after_resize_shortcut p (padded_size p (3, 2)) (3, 2) (2, 3) <> padded_size p (2, 3)) /\
  (let p := PAligned 1 3 2 2 in
   padded_after_resize_shortcut p (padded_size p (2, 3)) (2, 3) (3, 2) <> padded_size p (3, 2)).
Proof. exact (conj shortcut_right_for_exact shortcut_refuted). Qed.
Print Assumptions C08_padded_size_after_set_render_size_shortcut_refuted.
