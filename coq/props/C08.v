(** C08 — a render iterator yields exactly the frames its operation history dictates. *)
From Coq Require Import List ZArith Bool Lia.
Import ListNotations.
From TI Require Import model.Iter model.IterSpec proofs.IterProofs.
Open Scope Z_scope.

Theorem C08_iter_refines_spec :
  forall RS render n term c rs0 s a ops,
    (cache_decision n (c_cache c) = false \/ render_det RS render) ->
    mk RS n term c rs0 = inl s -> spec_mk RS n term c rs0 = inl a ->
    trace RS render n term s ops = spec_trace RS render n term a ops.
Proof. exact iter_refines_spec. Qed.
Print Assumptions C08_iter_refines_spec.
