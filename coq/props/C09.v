(** C09 — frame caching is invisible except for speed (render iterator).

    Only statements, each closed by [exact <lemma>], and [Print Assumptions].
    The image iterator's half ([ImageIterator._animate]) belongs to the model of C11; here
    it is covered by the paired cached / uncached runs of the correspondence only. *)
From Coq Require Import List ZArith Bool Lia.
Import ListNotations.
From TI Require Import model.Iter model.IterSpec proofs.IterProofs proofs.IterProofs2
     proofs.IterCacheProofs proofs.IterExamples.
From TI Require model.ImgIter model.ImgIterSpec proofs.ImgIterProofs.
Open Scope Z_scope.

(** for a deterministic renderable ([render_det]: the result of [_render_] depends on the
    frame offset / whence / size / duration / arguments it is handed, not on its own
    history — failures included), two iterators that differ at most in the [cache]
    argument yield the same trace (frames, countdown, errors) under EVERY history, setting
    changes mid-iteration included *)
Theorem C09_cache_transparent :
  forall RS render n term c c' rs0 s s' ops,
    render_det RS render -> same_but_cache c c' ->
    mk RS n term c rs0 = inl s -> mk RS n term c' rs0 = inl s' ->
    trace RS render n term s ops = trace RS render n term s' ops.
Proof. exact cache_transparent. Qed.
Print Assumptions C09_cache_transparent.

(** while size, duration and arguments are unchanged the iterator never renders a cached
    frame a second time: in every history of a caching iterator, two successive
    [_render_] invocations for the same frame differ in size, duration or arguments
    (whatever the renderable does, deterministic or not) *)
Theorem C09_no_rerender_unchanged :
  forall RS render n term c rs0 (s : state RS) ops,
    mk RS n term c rs0 = inl s -> cached s = true ->
    no_repeat (log (gh (run RS render n term s ops))).
Proof. exact no_rerender_unchanged. Qed.
Print Assumptions C09_no_rerender_unchanged.

(** state level: a [next] whose frame is in the cache with the current settings invokes
    no [_render_] and delivers the cached frame, padded with the CURRENT padding *)
Theorem C09_cache_hit_no_render :
  forall RS render n (s : state RS) fno e,
    cached s = true -> cache s fno = Some e -> key_eqb e (rd s) (args s) = true ->
    log (gh (fst (body RS render n s fno))) = log (gh s) /\
    rs (fst (body RS render n s fno)) = rs s /\
    snd (body RS render n s fno) = OFrame (wrap_frame (pad s) (padded s) (ce_frame e)).
Proof. exact cache_hit_no_render. Qed.
Print Assumptions C09_cache_hit_no_render.

(** caching is enabled iff [cache] is [True] or an integer >= the frame count; never for
    INDEFINITE sources *)
Theorem C09_cache_decision :
  forall RS n term c rs0 (s : state RS),
    mk RS n term c rs0 = inl s ->
    (cached s = true <->
     exists k, n = Some k /\ (c_cache c = CBool true \/ exists v, c_cache c = CInt v /\ k <= v)).
Proof. exact cache_decision_rule. Qed.
Print Assumptions C09_cache_decision.

(** [draw()] never caches a single-loop animation *)
Theorem C09_animate_cache :
  forall loops c, animate_cache loops c = if loops =? 1 then CBool false else c.
Proof. exact animate_cache_rule. Qed.
Print Assumptions C09_animate_cache.

(** *** the image-iterator half ([ImageIterator._animate], model [model/ImgIter.v], tied to the
    code by C11's correspondence): with and without the frame cache the caller sees the same
    trace — frames, image position, pass countdown, errors — for every renderer, frame count,
    repeat count, starting frame, and EVERY history of next / seek / image-size change / close /
    drop, provided the size hash (Python's [hash] of the rendered size, which keys the cache)
    separates the sizes that occur *)
Theorem C09_imgiter_cache_transparent :
  forall (Str Size : Type) (fmt_frame : nat -> Size -> TI.model.ImgIter.res Str) (hash : Size -> Z) (N : nat)
         (repeat pos0 : Z) (z0 : Size) (ops : list (TI.model.ImgIter.op Size)),
    TI.model.ImgIterSpec.renderer_ok fmt_frame N -> repeat <> 0%Z ->
    TI.model.ImgIterSpec.hash_separates hash (TI.model.ImgIterSpec.sizes_of z0 ops) ->
    TI.model.ImgIter.trace fmt_frame hash N true (TI.model.ImgIter.init Str repeat pos0 z0) ops =
    TI.model.ImgIter.trace fmt_frame hash N false (TI.model.ImgIter.init Str repeat pos0 z0) ops.
Proof. exact TI.proofs.ImgIterProofs.imgiter_cache_transparent. Qed.
Print Assumptions C09_imgiter_cache_transparent.
