(** C09 — frame caching is invisible except for speed (render iterator).

    Only statements, each closed by [exact <lemma>], and [Print Assumptions].
    The image iterator's half ([ImageIterator._animate]) belongs to the model of C11; here
    it is covered by the paired cached / uncached runs of the correspondence only. *)
From Coq Require Import List ZArith Bool Lia.
Import ListNotations.
From TI Require Import model.Iter model.IterSpec proofs.IterProofs proofs.IterProofs2
     proofs.IterCacheProofs proofs.IterExamples.
From TI Require Import model.IterWrap proofs.IterWrapProofs.
From TI Require Import model.IterHash proofs.IterHashProofs.
From TI Require model.ImgIter model.ImgIterSpec proofs.ImgIterProofs.
From TI Require model.ImgIterSrc model.ImgIterSrcTie proofs.ImgIterSrcProofs proofs.ImgIterSrcTieProofs.
Open Scope Z_scope.

(** for a deterministic renderable ([render_det]: the result of [_render_] depends on the
    frame offset / whence / size / duration / arguments it is handed, not on its own
    history — failures included), two iterators that differ at most in the [cache]
    argument yield the same trace (frames, countdown, errors) under EVERY history, setting
    changes mid-iteration included *)
Theorem C09_cache_transparent :
  forall RS render n term c c' rs0 s s' ops,
    render_det RS render -> same_but_cache c c' ->
    mk RS n term c rs0 = inl s -> mk RS n term c' rs0 = inl s' ->
    trace RS render n term s ops = trace RS render n term s' ops.
Proof. exact cache_transparent. Qed.
Print Assumptions C09_cache_transparent.

(** while size, duration and arguments are unchanged the iterator never renders a cached
    frame a second time: in every history of a caching iterator, two successive
    [_render_] invocations for the same frame differ in size, duration or arguments
    (whatever the renderable does, deterministic or not) *)
Theorem C09_no_rerender_unchanged :
  forall RS render n term c rs0 (s : state RS) ops,
    mk RS n term c rs0 = inl s -> cached s = true ->
    no_repeat (log (gh (run RS render n term s ops))).
Proof. exact no_rerender_unchanged. Qed.
Print Assumptions C09_no_rerender_unchanged.

(** state level: a [next] whose frame is in the cache with the current settings invokes
    no [_render_] and delivers the cached frame, padded with the CURRENT padding *)
Theorem C09_cache_hit_no_render :
  forall RS render n (s : state RS) fno e,
    cached s = true -> cache s fno = Some e -> key_eqb e (rd s) (args s) = true ->
    log (gh (fst (body RS render n s fno))) = log (gh s) /\
    rs (fst (body RS render n s fno)) = rs s /\
    snd (body RS render n s fno) = OFrame (wrap_frame (pad s) (padded s) (ce_frame e)).
Proof. exact cache_hit_no_render. Qed.
Print Assumptions C09_cache_hit_no_render.

(** caching is enabled iff [cache] is [True] or an integer >= the frame count; never for
    INDEFINITE sources *)
Theorem C09_cache_decision :
  forall RS n term c rs0 (s : state RS),
    mk RS n term c rs0 = inl s ->
    (cached s = true <->
     exists k, n = Some k /\ (c_cache c = CBool true \/ exists v, c_cache c = CInt v /\ k <= v)).
Proof. exact cache_decision_rule. Qed.
Print Assumptions C09_cache_decision.

(** [draw()] never caches a single-loop animation *)
Theorem C09_animate_cache :
  forall loops c, animate_cache loops c = if loops =? 1 then CBool false else c.
Proof. exact animate_cache_rule. Qed.
Print Assumptions C09_animate_cache.

(** *** the image-iterator half ([ImageIterator._animate], model [model/ImgIter.v], tied to the
    code by C11's correspondence): with and without the frame cache the caller sees the same
    trace — frames, image position, pass countdown, errors — for every renderer, frame count,
    repeat count, starting frame, and EVERY history of next / seek / image-size change / close /
    drop, provided the size hash (Python's [hash] of the rendered size, which keys the cache)
    separates the sizes that occur *)
Theorem C09_imgiter_cache_transparent :
  forall (Str Size : Type) (fmt_frame : nat -> Size -> TI.model.ImgIter.res Str) (hash : Size -> Z) (N : nat)
         (repeat pos0 : Z) (z0 : Size) (ops : list (TI.model.ImgIter.op Size)),
    TI.model.ImgIterSpec.renderer_ok fmt_frame N -> repeat <> 0%Z ->
    TI.model.ImgIterSpec.hash_separates hash (TI.model.ImgIterSpec.sizes_of z0 ops) ->
    TI.model.ImgIter.trace fmt_frame hash N true (TI.model.ImgIter.init Str repeat pos0 z0) ops =
    TI.model.ImgIter.trace fmt_frame hash N false (TI.model.ImgIter.init Str repeat pos0 z0) ops.
Proof. exact TI.proofs.ImgIterProofs.imgiter_cache_transparent. Qed.
Print Assumptions C09_imgiter_cache_transparent.

(** *** [wrap] invariance (round 4).  [RenderIterator] wraps every yielded frame — rendered
    just now or taken from the cache — with a STORED padded size.  After every history, for
    every renderable (deterministic or not, failing or not), every frame count and every
    [cache] argument, that stored size is [get_padded_size] of the CURRENT padding at the
    CURRENT render size: it does not depend on which frames were rendered or served from
    the cache, nor on the settings under which the last frame was rendered *)
Theorem C09_padded_is_current :
  forall RS render n term c rs0 (s : state RS) ops,
    mk RS n term c rs0 = inl s ->
    padded (run RS render n term s ops)
    = padded_size (pad (run RS render n term s ops)) (d_size (rd (run RS render n term s ops))).
Proof. exact padded_is_current. Qed.
Print Assumptions C09_padded_is_current.

(** on an iterator that is not finalized the four settings, and with them the padded size,
    are a function of the history's setter operations alone ([settings_of]: the latest
    accepted value of each) — in particular equal again after a round trip A -> B -> A,
    whatever was rendered under B *)
Theorem C09_settings_by_history :
  forall RS render n term c rs0 (s : state RS) ops,
    mk RS n term c rs0 = inl s -> closed (run RS render n term s ops) = false ->
    let h := settings_of term (settings0 term c) ops in
    stored RS (run RS render n term s ops) = h /\
    padded (run RS render n term s ops) = padded_size (h_pad h) (h_size h).
Proof. exact settings_by_history. Qed.
Print Assumptions C09_settings_by_history.

(** every frame yielded anywhere in any history — cache hit or fresh render — has the
    padded size and the padding dimensions of the padding and the render size that the
    history had established when it was asked for ([wrap_okb], the history-level oracle the
    correspondence applies to the cached AND the uncached run), for every renderable that
    returns frames of the requested size (the contract of [_render_]) *)
Theorem C09_wrap_current :
  forall RS render n term,
    render_honours_size RS render ->
    forall c rs0 (s : state RS) ops,
    mk RS n term c rs0 = inl s ->
    wrap_okb term (settings0 term c) ops (trace RS render n term s ops) = true.
Proof. exact wrap_current. Qed.
Print Assumptions C09_wrap_current.

(** *** the VALUES of the settings (round 5).  The cache is validated by comparing the
    settings a frame was rendered with — (size, duration, arguments) — with the current
    ones BY VALUE ([Iter.key_eqb]).  [model/IterHash.v] is the iterator with that one test
    replaced by [h key = h key'] for an arbitrary function [h] (keeping, with the frame, a
    digest of the settings instead of the settings).  Frame caching validated through [h] is
    invisible — for every deterministic renderable, every configuration with a valid
    duration, every history — IF AND ONLY IF [h] separates any two valid keys: the
    quantification over the VALUES of sizes, durations and argument fields is essential *)
Theorem C09_hashed_cache_transparent_iff :
  forall (h : key -> Z),
    inj_valid h <->
    (forall RS render n term c c' rs0 s s' ops,
        render_det RS render -> same_but_cache c c' -> dur_valid (c_dur c) = true ->
        mk RS n term c rs0 = inl s -> mk RS n term c' rs0 = inl s' ->
        htrace RS render n term h s ops = htrace RS render n term h s' ops).
Proof. exact hashed_cache_transparent_iff. Qed.
Print Assumptions C09_hashed_cache_transparent_iff.

(** the positive half on its own: with an [h] that separates valid keys the hashed-key
    iterator yields, from every constructed state, the trace of the iterator of
    [model/Iter.v], and caching is invisible *)
Theorem C09_hashed_cache_transparent :
  forall RS render n term (h : key -> Z),
    inj_valid h ->
    forall c c' rs0 s s' ops,
      render_det RS render -> same_but_cache c c' -> dur_valid (c_dur c) = true ->
      mk RS n term c rs0 = inl s -> mk RS n term c' rs0 = inl s' ->
      htrace RS render n term h s ops = htrace RS render n term h s' ops.
Proof. exact hashed_cache_transparent. Qed.
Print Assumptions C09_hashed_cache_transparent.

(** the negative half on its own, constructively: for EVERY [h] and any two distinct valid
    keys it confuses, the deterministic two-frame renderable [echo_render] and the history
    next; set_render_size; set_frame_duration; set_render_args; seek(0); next separate the
    caching iterator from the non-caching one *)
Theorem C09_hashed_cache_needs_injective :
  forall (h : key -> Z) k k' term,
    key_valid k = true -> key_valid k' = true -> k <> k' -> h k = h k' ->
    exists s s',
      mk unit (Some 2) term (collide_cfg k true) tt = inl s /\
      mk unit (Some 2) term (collide_cfg k false) tt = inl s' /\
      htrace unit echo_render (Some 2) term h s (collide_ops k')
      <> htrace unit echo_render (Some 2) term h s' (collide_ops k').
Proof. exact hashed_cache_needs_injective. Qed.
Print Assumptions C09_hashed_cache_needs_injective.

(** CPython's [hash] of an integer ([py_int_hash]: sign * (|x| mod (2^61 - 1)), -1 -> -2)
    confuses -1 with -2 and any value with the one [2^61 - 1] further from zero; hence a key
    digest that sees an argument value only through it — however the component hashes are
    combined ([g] arbitrary) — makes the cache visible *)
Theorem C09_py_int_hash_collisions :
  py_int_hash (-1) = py_int_hash (-2) /\ py_int_hash 0 = py_int_hash py_modulus /\
  py_int_hash 5 = py_int_hash (5 + py_modulus) /\ py_int_hash (-7) = py_int_hash (-7 - py_modulus).
Proof. exact py_int_hash_collisions. Qed.
Print Assumptions C09_py_int_hash_collisions.

Theorem C09_py_int_hash_period :
  forall x, 0 <= x -> py_int_hash (x + py_modulus) = py_int_hash x.
Proof. exact py_int_hash_period. Qed.
Print Assumptions C09_py_int_hash_period.

Theorem C09_py_hashed_cache_refuted :
  forall (g : Z * Z * Z * Z -> Z) term,
    let h := fun k => g (arg_hashed_key k) in
    exists k k' s s',
      k <> k' /\
      mk unit (Some 2) term (collide_cfg k true) tt = inl s /\
      mk unit (Some 2) term (collide_cfg k false) tt = inl s' /\
      htrace unit echo_render (Some 2) term h s (collide_ops k')
      <> htrace unit echo_render (Some 2) term h s' (collide_ops k').
Proof. exact py_hashed_cache_refuted. Qed.
Print Assumptions C09_py_hashed_cache_refuted.

(** the image iterator keys its cache by [hash(rendered_size)] (hypothesis [hash_separates] of
    [C09_imgiter_cache_transparent]); the components of a rendered size are positive and far
    below [2^61 - 1], where the integer hash is injective: the collisions above (-1 / -2, a
    difference of [2^61 - 1]) are not reachable by a rendered size *)
Theorem C09_py_int_hash_small_inj :
  forall x y, 0 <= x < py_modulus -> 0 <= y < py_modulus -> py_int_hash x = py_int_hash y -> x = y.
Proof. exact py_int_hash_small_inj. Qed.
Print Assumptions C09_py_int_hash_small_inj.

(** *** the SOURCE of an image iterator (round 6).  [model/ImgIterSrc.v] is the image iterator with
    the renderer threading the state of the source it renders from ([render : R -> nat -> Size ->
    res * R]: the PIL image the iterator holds is an open file of its own for file- and
    URL-sourced images) and a hook [handover] at the hand-over from the first loop to the cached
    loops; the code does nothing to its source there ([keep]).  For every source state space,
    every invariant [P] of the source under which rendering is the pure [fmt_frame] and which
    the renderer and the hand-over preserve, the caller sees the trace of [model/ImgIter.v] *)
Theorem C09_imgiter_source_erased :
  forall (Str Size R : Type) (fmt_frame : nat -> Size -> TI.model.ImgIter.res Str)
         (render : R -> nat -> Size -> TI.model.ImgIter.res Str * R) (hash : Size -> Z) (N : nat)
         (cached : bool) (handover : R -> R) (P : R -> Prop),
    (forall r k z, P r -> fst (render r k z) = fmt_frame k z /\ P (snd (render r k z))) ->
    (forall r, P r -> P (handover r)) ->
    forall ops s r, P r ->
      TI.model.ImgIterSrc.traceS render hash N cached handover s r ops
      = TI.model.ImgIter.trace fmt_frame hash N cached s ops.
Proof. exact TI.proofs.ImgIterSrcProofs.src_erase. Qed.
Print Assumptions C09_imgiter_source_erased.

(** WHAT is rendered WHEN.  [reqs] is the list, operation by operation, of the calls of the
    renderer (frame number, size).  The non-caching iterator renders exactly what the
    specification renders ([wants]: the frame it yields, at the size in force, and the probe for
    the frame past the last one where a pass ends) ... *)
Theorem C09_imgiter_uncached_requests :
  forall (Str Size : Type) (fmt_frame : nat -> Size -> TI.model.ImgIter.res Str) (hash : Size -> Z) (N : nat)
         (repeat pos0 : Z) (z0 : Size) (ops : list (TI.model.ImgIter.op Size)),
    TI.model.ImgIterSpec.renderer_ok fmt_frame N -> repeat <> 0%Z ->
    TI.model.ImgIterSrc.reqs fmt_frame hash N false (TI.model.ImgIter.init Str repeat pos0 z0) ops
    = TI.proofs.ImgIterSrcProofs.wants fmt_frame N (TI.model.ImgIterSpec.sinit repeat pos0 z0) ops.
Proof. exact TI.proofs.ImgIterSrcProofs.uncached_requests. Qed.
Print Assumptions C09_imgiter_uncached_requests.

(** ... and in EVERY history — size changes in the first loop or in any later, cached one, seeks,
    any repeat count — the render requests of the caching iterator are, operation by operation, a
    sub-list of the render requests of the non-caching iterator: a re-render in a cached loop asks
    the source for nothing the non-caching iterator does not ask for at the same yield.  So
    whatever rendering needs (the open source) must be as available in the cached loops as it is
    to an iterator that has no cache *)
Theorem C09_imgiter_cached_requests_sub :
  forall (Str Size : Type) (fmt_frame : nat -> Size -> TI.model.ImgIter.res Str) (hash : Size -> Z) (N : nat)
         (repeat pos0 : Z) (z0 : Size) (ops : list (TI.model.ImgIter.op Size)),
    TI.model.ImgIterSpec.renderer_ok fmt_frame N -> repeat <> 0%Z ->
    TI.model.ImgIterSpec.hash_separates hash (TI.model.ImgIterSpec.sizes_of z0 ops) ->
    Forall2 (@TI.model.ImgIterSrc.Sub (nat * Size))
      (TI.model.ImgIterSrc.reqs fmt_frame hash N true (TI.model.ImgIter.init Str repeat pos0 z0) ops)
      (TI.model.ImgIterSrc.reqs fmt_frame hash N false (TI.model.ImgIter.init Str repeat pos0 z0) ops).
Proof. exact TI.proofs.ImgIterSrcProofs.cached_requests_sub. Qed.
Print Assumptions C09_imgiter_cached_requests_sub.

(** a closable source ([file_render]: a render on a closed source fails) that the iterator keeps
    open until it ends, as the code does: caching is invisible, in every history *)
Theorem C09_imgiter_kept_source_transparent :
  forall (Str Size : Type) (fmt_frame : nat -> Size -> TI.model.ImgIter.res Str) (hash : Size -> Z) (N : nat)
         (repeat pos0 : Z) (z0 : Size) (ops : list (TI.model.ImgIter.op Size)),
    TI.model.ImgIterSpec.renderer_ok fmt_frame N -> repeat <> 0%Z ->
    TI.model.ImgIterSpec.hash_separates hash (TI.model.ImgIterSpec.sizes_of z0 ops) ->
    TI.model.ImgIterSrc.traceS (TI.model.ImgIterSrc.file_render fmt_frame) hash N true
      (@TI.model.ImgIterSrc.keep bool) (TI.model.ImgIter.init Str repeat pos0 z0) true ops
    = TI.model.ImgIterSrc.traceS (TI.model.ImgIterSrc.file_render fmt_frame) hash N false
      (@TI.model.ImgIterSrc.keep bool) (TI.model.ImgIter.init Str repeat pos0 z0) true ops.
Proof. exact TI.proofs.ImgIterSrcProofs.kept_source_transparent. Qed.
Print Assumptions C09_imgiter_kept_source_transparent.

(** the non-caching iterator never reaches the hand-over: whatever is done there, it behaves as
    the iterator of [model/ImgIter.v] *)
Theorem C09_imgiter_uncached_ignores_handover :
  forall (Str Size : Type) (fmt_frame : nat -> Size -> TI.model.ImgIter.res Str) (hash : Size -> Z) (N : nat)
         (h : bool -> bool) (ops : list (TI.model.ImgIter.op Size)) (s : TI.model.ImgIter.st Str Size),
    TI.model.ImgIterSrc.traceS (TI.model.ImgIterSrc.file_render fmt_frame) hash N false h s true ops
    = TI.model.ImgIter.trace fmt_frame hash N false s ops.
Proof. exact TI.proofs.ImgIterSrcProofs.uncached_ignores_handover. Qed.
Print Assumptions C09_imgiter_uncached_ignores_handover.

(** THE EXCLUDED DESIGN: closing the source once every frame is cached ([release]).  Three frames,
    one full pass, then a size change in the second (cached) pass: the caching iterator raises
    where the non-caching iterator yields the frame at the new size *)
Theorem C09_imgiter_released_source_refuted :
  let fmt := TI.proofs.ImgIterProofs.ex_fmt in
  let s0 := TI.model.ImgIter.init nat (-1) 0 5%nat in
  let h := TI.proofs.ImgIterSrcProofs.late_history in
  let run c := TI.model.ImgIterSrc.traceS (TI.model.ImgIterSrc.file_render fmt) Z.of_nat 3 c
                 TI.model.ImgIterSrc.release s0 true h in
  run true <> run false
  /\ nth 5 (run true) (TI.model.ImgIter.OStop, 0, None, true) = (TI.model.ImgIter.ORaise, 1, Some (-1), false)
  /\ nth 5 (run false) (TI.model.ImgIter.OStop, 0, None, true)
     = (TI.model.ImgIter.OYield 1 701%nat, 1, Some (-1), true).
Proof. exact TI.proofs.ImgIterSrcProofs.released_source_refuted. Qed.
Print Assumptions C09_imgiter_released_source_refuted.

(** the sub-list verdict the correspondence computes on the observed request logs
    ([model/ImgIterSrcTie.v]) is the relation of [C09_imgiter_cached_requests_sub] *)
Theorem C09_imgiter_subb_decides :
  forall a b : list (list (nat * nat)),
    TI.model.ImgIterSrcTie.all_subb a b = true <-> Forall2 (@TI.model.ImgIterSrc.Sub (nat * nat)) a b.
Proof. exact TI.proofs.ImgIterSrcTieProofs.all_subb_iff. Qed.
Print Assumptions C09_imgiter_subb_decides.

(** ** Source tie of the cache discipline (gen/CacheKeySrc.v is regenerated from
    render/_iterator.py on every run by harness/tx/tx_cachekey.py) *)
From TI Require Import model.IterKey gen.CacheKeySrc proofs.CacheKeyTie.

(** the model's validity test compares exactly the components the source compares, in the
    source's order; look-up and store list the same components; the cache holds unpadded
    frames (the padded frame is built after the store and never written back) *)
Theorem C09_source_cache_key :
  (forall e r a, key_eqb e r a = key_eqb_by src_key_lookup e r a)
  /\ src_key_lookup = src_key_store /\ src_cache_holds_unpadded = true.
Proof. exact (conj key_eqb_is_source_lemma lookup_store_agree_lemma). Qed.
Print Assumptions C09_source_cache_key.

(** the entry the source stores is the entry the model stores, and it is valid for the
    settings it was stored under *)
Theorem C09_source_stored_entry :
  forall e0 fr r a,
    store_by src_key_store e0 fr r a
    = {| ce_frame := fr; ce_size := d_size r; ce_dur := d_dur r; ce_args := a |}
    /\ key_eqb (store_by src_key_store e0 fr r a) r a = true.
Proof. exact stored_entry_is_model_lemma. Qed.
Print Assumptions C09_source_stored_entry.

(** a test that leaves out any one component accepts an entry the full test rejects *)
Theorem C09_source_key_without_component_refuted :
  (exists e r a, key_eqb_by [KDur; KArgs] e r a = true /\ key_eqb e r a = false)
  /\ (exists e r a, key_eqb_by [KSize; KArgs] e r a = true /\ key_eqb e r a = false)
  /\ (exists e r a, key_eqb_by [KSize; KDur] e r a = true /\ key_eqb e r a = false).
Proof. exact key_without_component_refuted_lemma. Qed.
Print Assumptions C09_source_key_without_component_refuted.

(** *** the RENDERED SIZE as a function of the size setting and of the environment (round 9;
    model/ImgIterRsz.v).  [rsize setting env] is the setting itself when fixed and the
    resolution [rsize_dyn member env] of a [Size] member otherwise, where the environment has
    three components nobody tells the iterator about: terminal size, cell ratio
    ([set_cell_ratio], text styles), cell size (graphics styles).  The code stamps a cached
    frame with hash(rsize setting env) and evaluates that stamp again PER FRAME: the model is
    [model/ImgIter.v] on the history lowered to rendered sizes.  For every [rsize_dyn],
    renderer, frame count, repeat count and EVERY history of next / seek / close / drop /
    setting changes (fixed -> dynamic, dynamic -> fixed, member -> member, fixed -> fixed) /
    environment changes (any component, any number of times): caching is transparent ... *)
From TI Require model.ImgIterEnv model.ImgIterRsz proofs.ImgIterRszProofs.

Theorem C09_imgiter_rsz_cache_transparent :
  forall (Str Size : Type) (fixed_size : Z -> Z -> Size) (rsize_dyn : nat -> TI.model.ImgIterRsz.env3 -> Size)
         (fmt_frame : nat -> Size -> TI.model.ImgIter.res Str) (hash : Size -> Z) (N : nat)
         (repeat pos0 : Z) (g0 : TI.model.ImgIterRsz.setting) (e0 : TI.model.ImgIterRsz.env3)
         (ops : list (TI.model.ImgIterEnv.eop TI.model.ImgIterRsz.setting TI.model.ImgIterRsz.env3)),
    let rs := TI.model.ImgIterRsz.rsize fixed_size rsize_dyn in
    TI.model.ImgIterSpec.renderer_ok fmt_frame N -> repeat <> 0%Z ->
    TI.model.ImgIterSpec.hash_separates hash
      (TI.model.ImgIterSpec.sizes_of (rs g0 e0) (TI.model.ImgIterEnv.lower rs g0 e0 ops)) ->
    TI.model.ImgIter.trace fmt_frame hash N true (TI.model.ImgIter.init Str repeat pos0 (rs g0 e0))
      (TI.model.ImgIterEnv.lower rs g0 e0 ops) =
    TI.model.ImgIter.trace fmt_frame hash N false (TI.model.ImgIter.init Str repeat pos0 (rs g0 e0))
      (TI.model.ImgIterEnv.lower rs g0 e0 ops).
Proof. exact TI.proofs.ImgIterRszProofs.rsz_cache_transparent. Qed.
Print Assumptions C09_imgiter_rsz_cache_transparent.

(** ... the size the generator validates a cached frame against is the rendered size of the
    setting and environment in force at that moment ... *)
Theorem C09_imgiter_rsz_size_is_current :
  forall (Str Size : Type) (fixed_size : Z -> Z -> Size) (rsize_dyn : nat -> TI.model.ImgIterRsz.env3 -> Size)
         (fmt_frame : nat -> Size -> TI.model.ImgIter.res Str) (hash : Size -> Z) (N : nat)
         (cached : bool) (repeat pos0 : Z) (g0 : TI.model.ImgIterRsz.setting) (e0 : TI.model.ImgIterRsz.env3)
         (ops : list (TI.model.ImgIterEnv.eop TI.model.ImgIterRsz.setting TI.model.ImgIterRsz.env3)),
    let rs := TI.model.ImgIterRsz.rsize fixed_size rsize_dyn in
    TI.model.ImgIterSpec.renderer_ok fmt_frame N -> repeat <> 0%Z ->
    (cached = true -> TI.model.ImgIterSpec.hash_separates hash
      (TI.model.ImgIterSpec.sizes_of (rs g0 e0) (TI.model.ImgIterEnv.lower rs g0 e0 ops))) ->
    TI.model.ImgIter.size
      (TI.model.ImgIter.after fmt_frame hash N cached repeat pos0 (rs g0 e0) (TI.model.ImgIterEnv.lower rs g0 e0 ops)) =
    rs (fst (TI.model.ImgIterEnv.cur g0 e0 ops)) (snd (TI.model.ImgIterEnv.cur g0 e0 ops)).
Proof. exact TI.proofs.ImgIterRszProofs.rsz_size_is_current. Qed.
Print Assumptions C09_imgiter_rsz_size_is_current.

(** ... and A CACHED ENTRY IS SERVED ONLY FOR THE RENDERED SIZE IT WAS MADE FOR: after every
    such history an entry (f, h) that passes the validity test under the current setting and
    environment was rendered at a size equal to the CURRENT rendered size, and f is the direct
    formatting of that frame at the current rendered size *)
Theorem C09_imgiter_rsz_served_entry_current :
  forall (Str Size : Type) (fixed_size : Z -> Z -> Size) (rsize_dyn : nat -> TI.model.ImgIterRsz.env3 -> Size)
         (fmt_frame : nat -> Size -> TI.model.ImgIter.res Str) (hash : Size -> Z) (N : nat)
         (repeat pos0 : Z) (g0 : TI.model.ImgIterRsz.setting) (e0 : TI.model.ImgIterRsz.env3)
         (ops : list (TI.model.ImgIterEnv.eop TI.model.ImgIterRsz.setting TI.model.ImgIterRsz.env3))
         (k : nat) (f : Str) (h : Z),
    let rs := TI.model.ImgIterRsz.rsize fixed_size rsize_dyn in
    TI.model.ImgIterSpec.renderer_ok fmt_frame N -> repeat <> 0%Z ->
    TI.model.ImgIterSpec.hash_separates hash
      (TI.model.ImgIterSpec.sizes_of (rs g0 e0) (TI.model.ImgIterEnv.lower rs g0 e0 ops)) ->
    let s := TI.model.ImgIter.after fmt_frame hash N true repeat pos0 (rs g0 e0) (TI.model.ImgIterEnv.lower rs g0 e0 ops) in
    let zc := rs (fst (TI.model.ImgIterEnv.cur g0 e0 ops)) (snd (TI.model.ImgIterEnv.cur g0 e0 ops)) in
    TI.model.ImgIter.ph s = TI.model.ImgIter.P1 \/ TI.model.ImgIter.ph s = TI.model.ImgIter.P2 ->
    nth k (TI.model.ImgIter.cache s) None = Some (f, h) ->
    h = hash zc ->
    exists z, h = hash z /\ fmt_frame k z = TI.model.ImgIter.Ok f /\ z = zc /\ fmt_frame k zc = TI.model.ImgIter.Ok f.
Proof. exact TI.proofs.ImgIterRszProofs.rsz_served_entry_current. Qed.
Print Assumptions C09_imgiter_rsz_served_entry_current.

(** EXCLUDED stamp (setting, terminal size): on a dynamic setting, an environment change that
    leaves the terminal size alone (the cell ratio) makes the caching iterator differ from
    the non-caching one *)
Theorem C09_imgiter_stamp_setting_term_refuted :
  exists (e' : TI.model.ImgIterRsz.env3)
         (ops : list (TI.model.ImgIterEnv.eop TI.model.ImgIterRsz.setting TI.model.ImgIterRsz.env3)),
    TI.model.ImgIterRsz.term_size e' = TI.model.ImgIterRsz.term_size TI.proofs.ImgIterRszProofs.e_a /\
    let fmt := TI.model.ImgIterEnv.fmt_env TI.proofs.ImgIterRszProofs.ex_rs TI.proofs.ImgIterRszProofs.ex_fmt in
    let stamp := TI.model.ImgIterRsz.stamp_setting_term (@pair Z Z) TI.proofs.ImgIterRszProofs.ex_hash TI.proofs.ImgIterRszProofs.ex_hst in
    let g0 := TI.model.ImgIterRsz.Dyn 0 in
    let e0 := TI.proofs.ImgIterRszProofs.e_a in
    TI.model.ImgIter.trace fmt stamp 2 true (TI.model.ImgIter.init Z (-1) 0 (g0, e0)) (TI.model.ImgIterEnv.lower2 g0 e0 ops) <>
    TI.model.ImgIter.trace fmt stamp 2 false (TI.model.ImgIter.init Z (-1) 0 (g0, e0)) (TI.model.ImgIterEnv.lower2 g0 e0 ops).
Proof. exact TI.proofs.ImgIterRszProofs.stamp_setting_term_refuted. Qed.
Print Assumptions C09_imgiter_stamp_setting_term_refuted.

(** EXCLUDED stamp "kind of the setting decided when the iterator is created": fixed at
    creation, dynamic later, then a terminal resize *)
Theorem C09_imgiter_stamp_kind_at_creation_refuted :
  exists (g0 : TI.model.ImgIterRsz.setting)
         (ops : list (TI.model.ImgIterEnv.eop TI.model.ImgIterRsz.setting TI.model.ImgIterRsz.env3)),
    TI.model.ImgIterRsz.is_dyn g0 = false /\
    let fmt := TI.model.ImgIterEnv.fmt_env TI.proofs.ImgIterRszProofs.ex_rs TI.proofs.ImgIterRszProofs.ex_fmt in
    let stamp := TI.model.ImgIterRsz.stamp_kind_at_creation (@pair Z Z) TI.proofs.ImgIterRszProofs.ex_dyn
                   TI.proofs.ImgIterRszProofs.ex_hash TI.proofs.ImgIterRszProofs.ex_hm (TI.model.ImgIterRsz.is_dyn g0) in
    let e0 := TI.proofs.ImgIterRszProofs.e_a in
    TI.model.ImgIter.trace fmt stamp 2 true (TI.model.ImgIter.init Z (-1) 0 (g0, e0)) (TI.model.ImgIterEnv.lower2 g0 e0 ops) <>
    TI.model.ImgIter.trace fmt stamp 2 false (TI.model.ImgIter.init Z (-1) 0 (g0, e0)) (TI.model.ImgIterEnv.lower2 g0 e0 ops).
Proof. exact TI.proofs.ImgIterRszProofs.stamp_kind_at_creation_refuted. Qed.
Print Assumptions C09_imgiter_stamp_kind_at_creation_refuted.

(** KNOWN FINDING (round 9).  The three theorems above take the formatting of a frame to be a
    function of (frame number, rendered size).  For graphics-based styles the render is made
    for rendered size x cell size pixels: modelled faithfully ([fmt_pix]: the frame records the
    pixel size; the code's stamp hash(rendered size)), a cell-size change that leaves the
    rendered size, the terminal size and the cell ratio alone makes the caching iterator yield
    stale frames.  The correspondence counts such pairs instead of reporting them. *)
Theorem C09_imgiter_cell_size_only_change_refuted :
  exists (g0 : TI.model.ImgIterRsz.setting) (e' : TI.model.ImgIterRsz.env3)
         (ops : list (TI.model.ImgIterEnv.eop TI.model.ImgIterRsz.setting TI.model.ImgIterRsz.env3)),
    let e0 := TI.proofs.ImgIterRszProofs.e_a in
    let stamp := TI.model.ImgIterRsz.stamp_rendered (@pair Z Z) TI.proofs.ImgIterRszProofs.ex_dyn TI.proofs.ImgIterRszProofs.ex_hash in
    TI.proofs.ImgIterRszProofs.ex_rs g0 e' = TI.proofs.ImgIterRszProofs.ex_rs g0 e0 /\
    TI.model.ImgIterRsz.term_size e' = TI.model.ImgIterRsz.term_size e0 /\
    TI.model.ImgIterRsz.cell_ratio e' = TI.model.ImgIterRsz.cell_ratio e0 /\
    TI.model.ImgIter.trace TI.proofs.ImgIterRszProofs.fmt_pix stamp 2 true (TI.model.ImgIter.init Z (-1) 0 (g0, e0)) (TI.model.ImgIterEnv.lower2 g0 e0 ops) <>
    TI.model.ImgIter.trace TI.proofs.ImgIterRszProofs.fmt_pix stamp 2 false (TI.model.ImgIter.init Z (-1) 0 (g0, e0)) (TI.model.ImgIterEnv.lower2 g0 e0 ops).
Proof. exact TI.proofs.ImgIterRszProofs.cell_size_only_change_refuted. Qed.
Print Assumptions C09_imgiter_cell_size_only_change_refuted.
