(** C04 — automatic sizing always fits the frame, fills it, and preserves aspect ratio.

    Only statements, each closed by [exact <lemma>], and [Print Assumptions].

    Every arithmetic theorem is [forall FA, StandardModel FA -> ...]: it holds for every
    float arithmetic that behaves like IEEE-754 binary64 round-to-nearest in the sense of
    lib/FArith.v ([StandardModel]); that Coq's primitive floats (lib/FPrim.v, the instance
    the correspondence executes against CPython) are such an arithmetic is the IEEE
    assumption of the trusted base.  [valid_size] is the model of
    [BaseImage._valid_size] (model/Sizing.v); the vocabulary ([Dom], [claimed], [nearP],
    [HX], [WX], [fits], [columns], [lines], ...) is model/SizingSpec.v.

    Domain ([Dom0] / [Dom] / [claimed]): source dimensions, frame dimensions (in pixels)
    and a given width/height (in pixels) in [1, 2^30); cell size in [1, 2^12]; a fixed cell
    ratio in [2^-30, 2^30]; where the free dimension is not bounded by the frame
    (ORIGINAL, FIT_TO_WIDTH, width=, height=) its exact value is at most 2^40 pixels.
    [auto_mode w h = Some m] covers the Size member passed as width or as height, and
    (None, None) = FIT.  Both style families ([fam]); any terminal size, absolute or
    terminal-relative frame ([columns] / [lines] resolve it). *)
From Coq Require Import ZArith QArith List Bool.
From TI Require Import lib.FArith model.Sizing model.SizingSpec
     proofs.SizingProofs proofs.SizingHistory proofs.SizingTheorems
     model.SizingConc proofs.SizingConcProofs.
From TI Require gen.Pure proofs.PureTieSizing gen.SizingSrc proofs.SizingSrcTie.
Open Scope Z_scope.

(** an automatically computed (or manual) size is a pair of positive integers, for every
    argument shape of the API *)
Theorem C04_size_positive :
  forall (FA : FloatArith) (SM : StandardModel FA) (fam : family) (e : env FA)
         (ow oh : Z) (frame : Z * Z) (w h : dim),
    claimed SM fam e ow oh w h frame ->
    let '(a, b) := valid_size fam e ow oh w h frame in 0 < a /\ 0 < b.
Proof. exact @size_positive. Qed.
Print Assumptions C04_size_positive.

(** FIT and AUTO never exceed the frame on either axis *)
Theorem C04_fit_within_frame :
  forall (FA : FloatArith) (SM : StandardModel FA) (fam : family) (e : env FA)
         (ow oh : Z) (frame : Z * Z) (w h : dim),
    auto_mode w h = Some FIT -> Dom SM fam e ow oh frame ->
    let '(a, b) := valid_size fam e ow oh w h frame in
    a <= columns e frame /\ b <= lines e frame.
Proof. exact @fit_within_frame. Qed.
Print Assumptions C04_fit_within_frame.

Theorem C04_auto_within_frame :
  forall (FA : FloatArith) (SM : StandardModel FA) (fam : family) (e : env FA)
         (ow oh : Z) (frame : Z * Z) (w h : dim),
    auto_mode w h = Some AUTO -> Dom SM fam e ow oh frame ->
    let '(a, b) := valid_size fam e ow oh w h frame in
    a <= columns e frame /\ b <= lines e frame.
Proof. exact @auto_within_frame. Qed.
Print Assumptions C04_auto_within_frame.

(** FIT touches the frame on at least one axis *)
Theorem C04_fit_touches_frame :
  forall (FA : FloatArith) (SM : StandardModel FA) (fam : family) (e : env FA)
         (ow oh : Z) (frame : Z * Z) (w h : dim),
    auto_mode w h = Some FIT -> Dom SM fam e ow oh frame ->
    let '(a, b) := valid_size fam e ow oh w h frame in
    a = columns e frame \/ b = lines e frame.
Proof. exact @fit_touches_frame. Qed.
Print Assumptions C04_fit_touches_frame.

(** FIT_TO_WIDTH has exactly the frame width (for EVERY float arithmetic: no float is
    involved in the width) *)
Theorem C04_fit_to_width_exact :
  forall (FA : FloatArith) (fam : family) (e : env FA) (ow oh : Z) (frame : Z * Z) (w h : dim),
    auto_mode w h = Some FIT_TO_WIDTH -> cell_ok e ->
    fst (valid_size fam e ow oh w h frame) = columns e frame.
Proof. exact @fit_to_width_exact_m. Qed.
Print Assumptions C04_fit_to_width_exact.

(** AUTO equals ORIGINAL when ORIGINAL's own pixel size (source width, ROUNDED scaled
    height) fits the frame's pixel area, and FIT otherwise *)
Theorem C04_auto_original_iff_fits :
  forall (FA : FloatArith) (fam : family) (e : env FA) (ow oh : Z) (frame : Z * Z) (w h : dim),
    auto_mode w h = Some AUTO ->
    valid_size fam e ow oh w h frame =
    (if fits fam e ow oh frame
     then valid_size fam e ow oh (DSize ORIGINAL) DNone frame
     else valid_size fam e ow oh (DSize FIT) DNone frame).
Proof. exact @auto_original_iff_fits_m. Qed.
Print Assumptions C04_auto_original_iff_fits.

(** ... where the rounded scaled height is the round-half-even of the correctly rounded
    product [oh * pixel_ratio]; it is [oh] itself for graphics-based styles *)
Theorem C04_scaled_height_value :
  forall (FA : FloatArith) (SM : StandardModel FA) (fam : family) (e : env FA) (oh : Z),
    dim30 oh -> cell_ok e -> ratio_ok SM e ->
    original_hpx fam e oh = rhe (rnd SM (QZ oh * val SM (pr_of fam e))).
Proof. exact @original_hpx_value. Qed.
Print Assumptions C04_scaled_height_value.

Theorem C04_scaled_height_graphics :
  forall FA : FloatArith, StandardModel FA ->
  forall (e : env FA) (oh : Z), dim30 oh -> original_hpx Graphics e oh = oh.
Proof. exact @original_hpx_graphics. Qed.
Print Assumptions C04_scaled_height_graphics.

(** a given width or height is kept exactly (for every float arithmetic) *)
Theorem C04_given_width_kept :
  forall (FA : FloatArith) (fam : family) (e : env FA) (ow oh wi : Z) (frame : Z * Z),
    0 < wi -> fst (valid_size fam e ow oh (DInt wi) DNone frame) = wi.
Proof. exact @given_width_kept. Qed.
Print Assumptions C04_given_width_kept.

Theorem C04_given_height_kept :
  forall (FA : FloatArith) (fam : family) (e : env FA) (ow oh hi : Z) (frame : Z * Z),
    0 < hi -> snd (valid_size fam e ow oh DNone (DInt hi) frame) = hi.
Proof. exact @given_height_kept. Qed.
Print Assumptions C04_given_height_kept.

(** aspect ratio: the dimension that was not fixed is within one cell of the exact
    rational aspect-preserving value, and is 1 when that value is below 1 ([nearP]).
    FIT: one axis is the frame's, the other is near the value that goes with it. *)
Theorem C04_aspect_lt_one_cell_fit :
  forall (FA : FloatArith) (SM : StandardModel FA) (fam : family) (e : env FA)
         (ow oh : Z) (frame : Z * Z) (w h : dim),
    auto_mode w h = Some FIT -> Dom SM fam e ow oh frame ->
    let '(a, b) := valid_size fam e ow oh w h frame in
    (a = columns e frame /\
     nearP b (HX SM (pr_of fam e) ow oh (fwpx fam e frame) / QZ (chp fam e))) \/
    (b = lines e frame /\
     nearP a (WX SM (pr_of fam e) ow oh (fhpx fam e frame) / QZ (cwp fam e))).
Proof. exact @aspect_fit. Qed.
Print Assumptions C04_aspect_lt_one_cell_fit.

(** ORIGINAL: both dimensions are near the source's own size in cells *)
Theorem C04_aspect_lt_one_cell_original :
  forall (FA : FloatArith) (SM : StandardModel FA) (fam : family) (e : env FA)
         (ow oh : Z) (frame : Z * Z) (w h : dim),
    auto_mode w h = Some ORIGINAL -> Dom0 SM e ow oh ->
    (QZ oh * val SM (pr_of fam e) <= two 40)%Q ->
    let '(a, b) := valid_size fam e ow oh w h frame in
    nearP a (QZ ow / QZ (cwp fam e)) /\
    nearP b (QZ oh * val SM (pr_of fam e) / QZ (chp fam e)).
Proof. exact @aspect_original. Qed.
Print Assumptions C04_aspect_lt_one_cell_original.

(** AUTO: the clause of whichever of the two it resolves to (no extra bound needed) *)
Theorem C04_aspect_lt_one_cell_auto :
  forall (FA : FloatArith) (SM : StandardModel FA) (fam : family) (e : env FA)
         (ow oh : Z) (frame : Z * Z) (w h : dim),
    auto_mode w h = Some AUTO -> Dom SM fam e ow oh frame ->
    let '(a, b) := valid_size fam e ow oh w h frame in
    (fits fam e ow oh frame = true /\
     nearP a (QZ ow / QZ (cwp fam e)) /\
     nearP b (QZ oh * val SM (pr_of fam e) / QZ (chp fam e))) \/
    (fits fam e ow oh frame = false /\
     ((a = columns e frame /\
       nearP b (HX SM (pr_of fam e) ow oh (fwpx fam e frame) / QZ (chp fam e))) \/
      (b = lines e frame /\
       nearP a (WX SM (pr_of fam e) ow oh (fhpx fam e frame) / QZ (cwp fam e))))).
Proof. exact @aspect_auto. Qed.
Print Assumptions C04_aspect_lt_one_cell_auto.

Theorem C04_aspect_lt_one_cell_fit_to_width :
  forall (FA : FloatArith) (SM : StandardModel FA) (fam : family) (e : env FA)
         (ow oh : Z) (frame : Z * Z) (w h : dim),
    auto_mode w h = Some FIT_TO_WIDTH -> Dom SM fam e ow oh frame ->
    (HX SM (pr_of fam e) ow oh (fwpx fam e frame) <= two 40)%Q ->
    let '(a, b) := valid_size fam e ow oh w h frame in
    a = columns e frame /\
    nearP b (HX SM (pr_of fam e) ow oh (fwpx fam e frame) / QZ (chp fam e)).
Proof. exact @aspect_fit_to_width. Qed.
Print Assumptions C04_aspect_lt_one_cell_fit_to_width.

Theorem C04_aspect_lt_one_cell_given_width :
  forall (FA : FloatArith) (SM : StandardModel FA) (fam : family) (e : env FA)
         (ow oh : Z) (frame : Z * Z) (wi : Z),
    Dom0 SM e ow oh -> dim30 (px_of_cols fam e wi) -> 0 < wi ->
    (HX SM (pr_of fam e) ow oh (px_of_cols fam e wi) <= two 40)%Q ->
    let '(a, b) := valid_size fam e ow oh (DInt wi) DNone frame in
    a = wi /\ nearP b (HX SM (pr_of fam e) ow oh (px_of_cols fam e wi) / QZ (chp fam e)).
Proof. exact @aspect_given_width. Qed.
Print Assumptions C04_aspect_lt_one_cell_given_width.

Theorem C04_aspect_lt_one_cell_given_height :
  forall (FA : FloatArith) (SM : StandardModel FA) (fam : family) (e : env FA)
         (ow oh : Z) (frame : Z * Z) (hi : Z),
    Dom0 SM e ow oh -> dim30 (px_of_lines fam e hi) -> 0 < hi ->
    (WX SM (pr_of fam e) ow oh (px_of_lines fam e hi) <= two 40)%Q ->
    let '(a, b) := valid_size fam e ow oh DNone (DInt hi) frame in
    b = hi /\ nearP a (WX SM (pr_of fam e) ow oh (px_of_lines fam e hi) / QZ (cwp fam e)).
Proof. exact @aspect_given_height. Qed.
Print Assumptions C04_aspect_lt_one_cell_given_height.

(** ---- histories (every float arithmetic; every state, including every terminal and
    cell-ratio setting) ---- *)

(** manual (width, height) sizes are stored unchanged *)
Theorem C04_manual_stored :
  forall (FA : FloatArith) (fam : family) (ow oh : Z) (s : state FA) (w h : Z) (frame : Z * Z),
    0 < w -> 0 < h ->
    let r := step fam ow oh s (OSetSize (DInt w) (DInt h) frame) in
    st_size (fst r) = Fixed w h /\ o_outcome (snd r) = ok /\ o_rendered (snd r) = (w, h).
Proof. exact @manual_stored. Qed.
Print Assumptions C04_manual_stored.

(** an automatic set_size stores what _valid_size computes at that moment *)
Theorem C04_auto_set_stored :
  forall (FA : FloatArith) (fam : family) (ow oh : Z) (s : state FA) (w h : dim) (frame : Z * Z),
    arg_error w = None -> arg_error h = None -> is_none w || is_none h = true ->
    let r := step fam ow oh s (OSetSize w h frame) in
    st_size (fst r) = (let '(a, b) := valid_size fam (st_env s) ow oh w h frame in Fixed a b) /\
    o_outcome (snd r) = ok.
Proof. exact @auto_set_stored. Qed.
Print Assumptions C04_auto_set_stored.

(** a fixed size is unchanged -- and is what [rendered_size] reports -- after any sequence
    of renders, terminal resizes and set_cell_ratio calls *)
Theorem C04_fixed_unchanged_by_history :
  forall (FA : FloatArith) (fam : family) (ow oh : Z) (ops : list (op FA)) (s : state FA) (w h : Z),
    st_size s = Fixed w h -> forallb keeps_size ops = true ->
    st_size (run fam ow oh s ops) = Fixed w h /\
    rendered_size fam ow oh (run fam ow oh s ops) = (w, h) /\
    rendered_height fam ow oh (run fam ow oh s ops) = h /\
    Forall (fun ob : obs => o_size ob = Fixed w h /\ o_rendered ob = (w, h) /\ o_rheight ob = h)
           (trace fam ow oh s ops).
Proof. exact @fixed_unchanged_by_history. Qed.
Print Assumptions C04_fixed_unchanged_by_history.

(** a dynamic size stays dynamic and [rendered_size] is [_valid_size] under the
    environment in force after the history *)
Theorem C04_dynamic_follows :
  forall (FA : FloatArith) (fam : family) (ow oh : Z) (ops : list (op FA)) (s : state FA) (m : smode),
    st_size s = Dyn m -> forallb keeps_size ops = true ->
    st_size (run fam ow oh s ops) = Dyn m /\
    rendered_size fam ow oh (run fam ow oh s ops) =
      valid_size fam (env_run (st_env s) ops) ow oh (DSize m) DNone default_frame /\
    rendered_height fam ow oh (run fam ow oh s ops) =
      snd (valid_size fam (env_run (st_env s) ops) ow oh DNone (DSize m) default_frame).
Proof. exact @dynamic_follows. Qed.
Print Assumptions C04_dynamic_follows.

(** a render (whether or not the renderer raises) leaves size and environment as they
    were; the renderer sees a fixed size: the stored one, or the dynamic one evaluated now *)
Theorem C04_render_restores_dynamic :
  forall (FA : FloatArith) (fam : family) (ow oh : Z) (s : state FA) (raises : bool),
    let r := step fam ow oh s (ORender raises) in
    st_size (fst r) = st_size s /\ st_env (fst r) = st_env s /\
    o_during (snd r) =
      Some match st_size s with
           | Fixed w h => Fixed w h
           | Dyn m => let '(w, h) := valid_size fam (st_env s) ow oh (DSize m) DNone default_frame in
                      Fixed w h
           end.
Proof. exact @render_restores. Qed.
Print Assumptions C04_render_restores_dynamic.

(** a rejected set_size / size assignment changes nothing *)
Theorem C04_rejected_changes_nothing :
  forall (FA : FloatArith) (fam : family) (ow oh : Z) (s : state FA) (o : op FA),
    match o with OSetSize _ _ _ | OAssign _ => True | _ => False end ->
    o_outcome (snd (step fam ow oh s o)) <> ok ->
    st_size (fst (step fam ow oh s o)) = st_size s.
Proof. exact @rejected_changes_nothing. Qed.
Print Assumptions C04_rejected_changes_nothing.

(** the assumption is satisfiable (exact rational arithmetic is a [StandardModel]) and
    the domain is inhabited by an ordinary state *)
Theorem C04_assumption_consistent : StandardModel ExactFA.
Proof. exact exact_standard_model. Qed.
Print Assumptions C04_assumption_consistent.

Theorem C04_domain_inhabited :
  Dom exact_standard_model Text ex_env 288 288 default_frame /\
  valid_size Text ex_env 288 288 (DSize FIT) DNone default_frame = (56, 28) /\
  valid_size Text ex_env 288 288 (DSize AUTO) DNone default_frame = (56, 28) /\
  valid_size Text ex_env 288 288 (DSize ORIGINAL) DNone default_frame = (288, 144).
Proof. exact dom_nonvacuous. Qed.
Print Assumptions C04_domain_inhabited.

(** *** the tie to the source, as theorems (T): the pixel <-> cell conversions of both style
    families, regenerated from [block.py] / [common.py] on every run into [gen/Pure.v] by
    [harness/tx/tx_pure.py], are the model's conversions for ALL arguments (the text family's
    [ceil(pixels / 2)], a float computation in the code, under the IEEE standard model) *)
Theorem C04_source_px_of_cols :
  forall (FA : FloatArith) fam (e : env FA) c,
    px_of_cols fam e c = match fam with
                         | Text => TI.gen.Pure.block_pixels_cols_to_px c
                         | Graphics => TI.gen.Pure.graphics_pixels_cols_to_px (fst (cell_or_default e)) c
                         end.
Proof. exact @TI.proofs.PureTieSizing.px_of_cols_is_source. Qed.
Print Assumptions C04_source_px_of_cols.

Theorem C04_source_px_of_lines :
  forall (FA : FloatArith) fam (e : env FA) l,
    px_of_lines fam e l = match fam with
                          | Text => TI.gen.Pure.block_pixels_lines_to_px l
                          | Graphics => TI.gen.Pure.graphics_pixels_lines_to_px (snd (cell_or_default e)) l
                          end.
Proof. exact @TI.proofs.PureTieSizing.px_of_lines_is_source. Qed.
Print Assumptions C04_source_px_of_lines.

Theorem C04_source_cols_of_px :
  forall (FA : FloatArith) fam (e : env FA) p,
    cols_of_px fam e p = match fam with
                         | Text => TI.gen.Pure.block_pixels_cols_of_px p
                         | Graphics => TI.gen.Pure.graphics_pixels_cols_of_px (fst (cell_or_default e)) p
                         end.
Proof. exact @TI.proofs.PureTieSizing.cols_of_px_is_source. Qed.
Print Assumptions C04_source_cols_of_px.

Theorem C04_source_lines_of_px :
  forall (FA : FloatArith) (SM : StandardModel FA) fam (e : env FA) p,
    0 <= p <= 2 ^ 53 ->
    lines_of_px fam e p = match fam with
                          | Text => TI.gen.Pure.block_pixels_lines_of_px p
                          | Graphics => TI.gen.Pure.graphics_pixels_lines_of_px (snd (cell_or_default e)) p
                          end.
Proof. exact @TI.proofs.PureTieSizing.lines_of_px_is_source. Qed.
Print Assumptions C04_source_lines_of_px.

(** *** the sizing ALGORITHM itself, tied to the source as a theorem (T): [BaseImage._valid_size],
    [_width_height_px], the two [_pixel_ratio]s and [get_cell_ratio] are translated statement by
    statement from [image/common.py] / [__init__.py] on every run into [gen/SizingSrc.v] by
    [harness/tx/tx_sizing.py] (typed: int = Z, float = [F FA], width/height arguments = [dim]);
    for EVERY float arithmetic and ALL arguments of the API's domain ([dims_ok]: what [set_size]
    lets through) the translated function is the model function all theorems above are about *)
Theorem C04_source_valid_size :
  forall (FA : FloatArith) fam (e : env FA) ow oh w h frame,
    TI.proofs.SizingSrcTie.dims_ok w h = true ->
    TI.gen.SizingSrc.src_valid_size
      (px_of_cols fam e) (cols_of_px fam e) (px_of_lines fam e) (lines_of_px fam e)
      (pixel_ratio fam e) ow oh (e_cols e) (e_lines e) w h (fst frame) (snd frame)
    = valid_size fam e ow oh w h frame.
Proof. exact @TI.proofs.SizingSrcTie.valid_size_is_source. Qed.
Print Assumptions C04_source_valid_size.

Theorem C04_source_pixel_ratio :
  forall (FA : FloatArith) fam (e : env FA),
    pixel_ratio fam e =
    match fam with
    | Graphics => TI.gen.SizingSrc.src_graphics_pixel_ratio
    | Text => TI.gen.SizingSrc.src_text_pixel_ratio
                (TI.gen.SizingSrc.src_get_cell_ratio (e_ratio e) (e_cell e))
    end.
Proof. exact @TI.proofs.SizingSrcTie.pixel_ratio_is_source. Qed.
Print Assumptions C04_source_pixel_ratio.

Theorem C04_source_default_frame : default_frame = TI.gen.SizingSrc.src_default_frame.
Proof. exact TI.proofs.SizingSrcTie.default_frame_is_source. Qed.
Print Assumptions C04_source_default_frame.

(** ---- OVERLAPPING renders of one image (round 6; model/SizingConc.v): any number of threads
    inside [_renderer] at the same time, every interleaving of their steps (save the setting;
    fix a dynamic size; run the renderer; the [finally] clause) with each other and with
    terminal resizes.  Every float arithmetic. ---- *)

(** a dynamic size under EVERY schedule (prefix or complete execution): the size is the member
    or a fixed size one of the renders computed for it under an environment in force at some
    moment; once every render has ended it is the member again; every renderer saw one of
    those values *)
Theorem C04_conc_dynamic_any_schedule :
  forall (FA : FloatArith) (fam : family) (ow oh : Z) (s : state FA) (n : nat) (gs : list grant) (m : smode),
    st_size s = Dyn m ->
    let st := grun code_restore fam ow oh (cinit s n) gs in
    let S := fun e' => In e' (envs_of (st_env s) gs) in
    size_ok fam ow oh m S (c_size st)
    /\ (all_done st = true -> c_size st = Dyn m)
    /\ (forall i d, seen_of i (c_seen st) = Some d -> size_ok fam ow oh m S d).
Proof. exact @conc_dynamic_any_schedule. Qed.
Print Assumptions C04_conc_dynamic_any_schedule.

(** a fixed size is never written by any render under any schedule, and is what every
    renderer sees *)
Theorem C04_conc_fixed_any_schedule :
  forall (FA : FloatArith) (fam : family) (ow oh : Z) (s : state FA) (n : nat) (gs : list grant) (w h : Z),
    st_size s = Fixed w h ->
    let st := grun code_restore fam ow oh (cinit s n) gs in
    c_size st = Fixed w h /\ (forall i d, seen_of i (c_seen st) = Some d -> d = Fixed w h).
Proof. exact @conc_fixed. Qed.
Print Assumptions C04_conc_fixed_any_schedule.

(** "a render leaves the size setting as it was" ([C04_render_restores_dynamic]) for a whole
    concurrent section: any number of renders, any schedule, every render then runs to its
    end (which the completion guarantees: [C04_conc_section_ends_every_render]) *)
Theorem C04_conc_renders_restore_dynamic :
  forall (FA : FloatArith) (fam : family) (ow oh : Z) (s : state FA) (n : nat) (sched : list grant),
    let st := conc_run code_restore fam ow oh s n sched in
    c_size st = st_size s /\ c_env st = env_after (st_env s) sched.
Proof. exact @conc_run_restores. Qed.
Print Assumptions C04_conc_renders_restore_dynamic.

Theorem C04_conc_section_ends_every_render :
  forall (FA : FloatArith) (fam : family) (ow oh : Z) (R : restore_rule) (s : state FA) (n : nat)
         (sched : list grant),
    all_done (conc_run R fam ow oh s n sched) = true.
Proof. exact @conc_run_all_done. Qed.
Print Assumptions C04_conc_section_ends_every_render.

(** what the renderers of a section saw *)
Theorem C04_conc_renderers_see :
  forall (FA : FloatArith) (fam : family) (ow oh : Z) (s : state FA) (n : nat) (sched : list grant)
         (i : nat) (d : sizeval),
    seen_of i (c_seen (conc_run code_restore fam ow oh s n sched)) = Some d ->
    match st_size s with
    | Fixed w h => d = Fixed w h
    | Dyn m => d = Dyn m \/ exists e', In e' (envs_of (st_env s) sched) /\ d = fixed_for fam ow oh e' m
    end.
Proof. exact @conc_run_seen. Qed.
Print Assumptions C04_conc_renderers_see.

(** one render alone under the small-step semantics is the atomic [ORender] step of the
    history model *)
Theorem C04_conc_one_render_is_render :
  forall (FA : FloatArith) (fam : family) (ow oh : Z) (s : state FA) (raises : bool),
    let st := conc_run code_restore fam ow oh s 1 nil in
    let r := step fam ow oh s (ORender raises) in
    c_size st = st_size (fst r) /\ c_env st = st_env (fst r)
    /\ seen_of 0 (c_seen st) = o_during (snd r).
Proof. exact @conc_one_is_render. Qed.
Print Assumptions C04_conc_one_render_is_render.

(** EXCLUDED: a [finally] clause that writes back whatever it saved ("leave the size exactly as
    it was found").  Two overlapping, non-nested renders (T0 in, T1 in, T0 out, T1 out) leave a
    dynamically sized image with a fixed size for good *)
Theorem C04_conc_unconditional_restore_refuted :
  let st := conc_run uncond_restore Text 100 50 toy_state 2 overlap in
  all_done st = true /\ (exists w h, c_size st = Fixed w h) /\ c_size st <> st_size toy_state.
Proof. exact uncond_restore_refuted. Qed.
Print Assumptions C04_conc_unconditional_restore_refuted.

(** ---- HOW the image came into being (round 8; model/SizingRoute.v): the constructor,
    [from_file()] or [from_url()], the size given as keyword arguments that may be left out or
    written out (also as [None]).  Every float arithmetic. ---- *)
From TI Require Import model.SizingRoute proofs.SizingRouteProofs.

(** the size setting of a new image does not depend on the construction route *)
Theorem C04_route_irrelevant :
  forall (FA : FloatArith) (fam : family) (ow oh : Z) (r1 r2 : route) (e : env FA) (kw kh : kwarg),
    create r1 fam ow oh e kw kh = create r2 fam ow oh e kw kh.
Proof. exact @route_irrelevant. Qed.
Print Assumptions C04_route_irrelevant.

(** ... nor on whether a value was written out: only on the values bound to [width] / [height] *)
Theorem C04_route_explicit_none_irrelevant :
  forall (FA : FloatArith) (fam : family) (ow oh : Z) (r1 r2 : route) (e : env FA)
         (kw kh kw' kh' : kwarg),
    kw_value kw = kw_value kw' -> kw_value kh = kw_value kh' ->
    create r1 fam ow oh e kw kh = create r2 fam ow oh e kw' kh'.
Proof. exact @explicit_none_irrelevant. Qed.
Print Assumptions C04_route_explicit_none_irrelevant.

(** a new image has a dynamic size exactly when no size was given (then [Size.FIT]); every
    other successful creation stores a FIXED size: what [set_size(width, height)] stores under
    the environment of the moment of creation *)
Theorem C04_route_dynamic_iff_no_size :
  forall (FA : FloatArith) (fam : family) (ow oh : Z) (r : route) (e : env FA) (kw kh : kwarg)
         (sz : sizeval) (c : Z),
    create r fam ow oh e kw kh = (Some sz, c) ->
    c = ok /\
    ((is_none (kw_value kw) && is_none (kw_value kh) = true /\ sz = Dyn FIT) \/
     (is_none (kw_value kw) && is_none (kw_value kh) = false /\
      set_size fam ow oh e (Dyn FIT) (kw_value kw) (kw_value kh) default_frame = (sz, ok) /\
      exists a b, sz = Fixed a b)).
Proof. exact @create_dynamic_iff. Qed.
Print Assumptions C04_route_dynamic_iff_no_size.

(** an image created without a size by ANY route follows the environment: after any history of
    renders, terminal resizes and cell-ratio changes its rendered size is [_valid_size(FIT)]
    under the CURRENT environment (with C04_fit_within_frame: within the current frame) *)
Theorem C04_route_created_dynamic_follows :
  forall (FA : FloatArith) (fam : family) (ow oh : Z) (r : route) (e : env FA) (kw kh : kwarg)
         (ops : list (op FA)),
    is_none (kw_value kw) && is_none (kw_value kh) = true ->
    forallb keeps_size ops = true ->
    exists sz, create r fam ow oh e kw kh = (Some sz, ok) /\
      st_size (run fam ow oh (created_state e sz) ops) = Dyn FIT /\
      rendered_size fam ow oh (run fam ow oh (created_state e sz) ops)
      = valid_size fam (env_run e ops) ow oh (DSize FIT) DNone default_frame.
Proof. exact @created_dynamic_follows. Qed.
Print Assumptions C04_route_created_dynamic_follows.

(** an image created with a size by ANY route keeps it *)
Theorem C04_route_created_fixed_unchanged :
  forall (FA : FloatArith) (fam : family) (ow oh : Z) (r : route) (e : env FA) (kw kh : kwarg)
         (sz : sizeval) (c : Z) (ops : list (op FA)),
    is_none (kw_value kw) && is_none (kw_value kh) = false ->
    create r fam ow oh e kw kh = (Some sz, c) ->
    forallb keeps_size ops = true ->
    exists a b, sz = Fixed a b /\
      st_size (run fam ow oh (created_state e sz) ops) = Fixed a b /\
      rendered_size fam ow oh (run fam ow oh (created_state e sz) ops) = (a, b).
Proof. exact @created_fixed_unchanged. Qed.
Print Assumptions C04_route_created_fixed_unchanged.

(** EXCLUDED: "build the image, then apply the size arguments that were given with set_size":
    with [width=None, height=None] written out FIT is computed once, at creation (56x28 for a
    288x288 source in 80x30); after the terminal shrinks to 40x12 the image is wider than the
    terminal and not what [_valid_size(FIT)] gives now *)
Theorem C04_route_size_fixed_at_creation_refuted :
  exists w h,
    create_with AfterCtor RFromUrl Text 288 288 ex_env (Some DNone) (Some DNone) = (Some (Fixed w h), ok)
    /\ let s := run Text 288 288 (created_state ex_env (Fixed w h)) shrink_ops in
       fst (rendered_size Text 288 288 s) > e_cols (st_env s)
       /\ rendered_size Text 288 288 s
          <> valid_size Text (st_env s) 288 288 (DSize FIT) DNone default_frame
    /\ create_with AfterCtor RFromUrl Text 288 288 ex_env None None = (Some (Dyn FIT), ok).
Proof. exact size_fixed_at_creation_refuted. Qed.
Print Assumptions C04_route_size_fixed_at_creation_refuted.
