(** placeholder, replaced below *)
From Coq Require Import ZArith.
From TI Require Import lib.FArith model.Sizing.
Theorem C04_placeholder : or1 0 = 1%Z.
Proof. exact eq_refl. Qed.
Print Assumptions C04_placeholder.
