(** C02 — block renders show exactly the image's pixels (colour and transparency). *)
From Coq Require Import List ZArith Bool.
Import ListNotations.
From TI Require Import lib.Term lib.TermFacts lib.Rect model.Block proofs.BlockProofs proofs.BlockRect.
Open Scope Z_scope.

(** After executing a block render of [rows] (pixel pairs at render resolution, as
    returned by the conversion step) on the terminal, the cell at line [i], column [j]
    of the rectangle shows, in its upper and lower half, exactly [expect] of the pixel
    pair [(i, j)]: an opaque pixel its RGB value, a transparent one (alpha enabled and
    alpha value 0 after thresholding) the terminal's own background; with transparency
    disabled alpha is ignored; the kitty work-around nudges a background-path colour equal
    to the terminal background by one red level.  For every pixel content, size, start
    position, initial attributes and prior screen content. *)
Theorem C02_block_pixels_exact :
  forall (alpha kitty : bool) (bgcol : option rgb) (split : bool)
         (lm : Z) (w : nat) (rows : list (list px)) (t : term) (i j : nat),
    parser t = Ground -> col t = lm -> (0 < w)%nat -> (forall r, In r rows -> length r = w) ->
    (i < length rows)%nat -> (j < w)%nat ->
    exists pxs p,
      nth_error rows i = Some pxs /\ nth_error pxs j = Some p /\
      visual (view (log (exec lm t (Block.render alpha kitty bgcol split rows)))
                   (row t + Z.of_nat i) (lm + Z.of_nat j))
      = Some (Block.expect alpha kitty bgcol p).
Proof. exact block_pixels_exact. Qed.
Print Assumptions C02_block_pixels_exact.

(** disabling transparency ignores alpha *)
Theorem C02_alpha_disabled_ignores_alpha :
  forall kitty bgcol c1 c2 x1 x2 y1 y2,
    Block.expect false kitty bgcol {| p1 := c1; p2 := c2; a1 := x1; a2 := x2 |} =
    Block.expect false kitty bgcol {| p1 := c1; p2 := c2; a1 := y1; a2 := y2 |}.
Proof. intros; exact (cexpect_noalpha false kitty bgcol c1 c2 x1 x2 y1 y2 eq_refl). Qed.
Print Assumptions C02_alpha_disabled_ignores_alpha.

(** without the kitty work-around the colours are exact: an opaque pixel pair shows
    precisely its two RGB values *)
Theorem C02_exact_without_workaround :
  forall alpha bgcol p,
    Block.transparent alpha (a1 p) = false -> Block.transparent alpha (a2 p) = false ->
    Block.expect alpha false bgcol p = (CRgb (p1 p), CRgb (p2 p)).
Proof. exact expect_opaque_exact. Qed.
Print Assumptions C02_exact_without_workaround.

(** the work-around moves red by exactly one level, and only for a lower colour equal to
    the terminal background on the background-colour path *)
Theorem C02_workaround_bounded :
  forall alpha bgcol p,
    Block.transparent alpha (a1 p) = false -> Block.transparent alpha (a2 p) = false ->
    forall r g b, p2 p = (r, g, b) -> 0 <= r <= 255 ->
    exists r', snd (Block.expect alpha true bgcol p) = CRgb (r', g, b)
               /\ Z.abs (r' - r) <= 1 /\ 0 <= r' <= 255
               /\ (r' <> r -> bgcol = Some (p2 p)).
Proof. exact expect_workaround_bounded. Qed.
Print Assumptions C02_workaround_bounded.
