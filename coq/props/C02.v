(** C02 — block renders show exactly the image's pixels (colour and transparency). *)
From Coq Require Import List ZArith Bool.
Import ListNotations.
From TI Require Import lib.Term lib.TermFacts lib.Rect model.Block proofs.BlockProofs proofs.BlockRect.
From TI Require model.RenderData proofs.RenderDataProofs.
From TI Require gen.BlockSrc proofs.BlockSrcTie.
From TI Require model.BlockSeq model.BlockSeqTie proofs.BlockSeqProofs proofs.BlockSeqTieProofs.
From TI Require model.BlockSeqSrc proofs.BlockSeqSrcProofs.
Open Scope Z_scope.

(** After executing a block render of [rows] (pixel pairs at render resolution, as
    returned by the conversion step) on the terminal, the cell at line [i], column [j]
    of the rectangle shows, in its upper and lower half, exactly [expect] of the pixel
    pair [(i, j)]: an opaque pixel its RGB value, a transparent one (alpha enabled and
    alpha value 0 after thresholding) the terminal's own background; with transparency
    disabled alpha is ignored; the kitty work-around nudges a background-path colour equal
    to the terminal background by one red level.  For every pixel content, size, start
    position, initial attributes and prior screen content. *)
Theorem C02_block_pixels_exact :
  forall (alpha kitty : bool) (bgcol : option rgb) (split : bool)
         (lm : Z) (w : nat) (rows : list (list px)) (t : term) (i j : nat),
    parser t = Ground -> col t = lm -> (0 < w)%nat -> (forall r, In r rows -> length r = w) ->
    (i < length rows)%nat -> (j < w)%nat ->
    exists pxs p,
      nth_error rows i = Some pxs /\ nth_error pxs j = Some p /\
      visual (view (log (exec lm t (Block.render alpha kitty bgcol split rows)))
                   (row t + Z.of_nat i) (lm + Z.of_nat j))
      = Some (Block.expect alpha kitty bgcol p).
Proof. exact block_pixels_exact. Qed.
Print Assumptions C02_block_pixels_exact.

(** disabling transparency ignores alpha *)
Theorem C02_alpha_disabled_ignores_alpha :
  forall kitty bgcol c1 c2 x1 x2 y1 y2,
    Block.expect false kitty bgcol {| p1 := c1; p2 := c2; a1 := x1; a2 := x2 |} =
    Block.expect false kitty bgcol {| p1 := c1; p2 := c2; a1 := y1; a2 := y2 |}.
Proof. intros; exact (cexpect_noalpha false kitty bgcol c1 c2 x1 x2 y1 y2 eq_refl). Qed.
Print Assumptions C02_alpha_disabled_ignores_alpha.

(** without the kitty work-around the colours are exact: an opaque pixel pair shows
    precisely its two RGB values *)
Theorem C02_exact_without_workaround :
  forall alpha bgcol p,
    Block.transparent alpha (a1 p) = false -> Block.transparent alpha (a2 p) = false ->
    Block.expect alpha false bgcol p = (CRgb (p1 p), CRgb (p2 p)).
Proof. exact expect_opaque_exact. Qed.
Print Assumptions C02_exact_without_workaround.

(** the work-around moves red by exactly one level, and only for a lower colour equal to
    the terminal background on the background-colour path *)
Theorem C02_workaround_bounded :
  forall alpha bgcol p,
    Block.transparent alpha (a1 p) = false -> Block.transparent alpha (a2 p) = false ->
    forall r g b, p2 p = (r, g, b) -> 0 <= r <= 255 ->
    exists r', snd (Block.expect alpha true bgcol p) = CRgb (r', g, b)
               /\ Z.abs (r' - r) <= 1 /\ 0 <= r' <= 255
               /\ (r' <> r -> bgcol = Some (p2 p)).
Proof. exact expect_workaround_bounded. Qed.
Print Assumptions C02_workaround_bounded.

(** *** from SOURCE pixels to the screen (at render resolution, where no resampling is
    involved).  [RenderData.render_pair] is the transparency logic of [_get_render_data]
    (tied to the code by the correspondence), [src_expect] the property's demand on a source
    pixel: alpha ignored when transparency is disabled; composited over the requested
    background colour; for thresholded transparency the terminal's own background below the
    threshold and, above it, opaque and composited over the terminal background (black if
    unknown).  [comp] is Pillow's per-channel composite (any function). *)
Theorem C02_source_pair_exact :
  forall (comp : Z -> Z -> Z -> Z) has_alpha s termbg bgcol u l,
    Block.expect (TI.model.RenderData.alpha_mode has_alpha s) false bgcol
                 (TI.model.RenderData.render_pair comp has_alpha s termbg u l)
    = (TI.proofs.RenderDataProofs.col_of (TI.model.RenderData.src_expect comp has_alpha s termbg u),
       TI.proofs.RenderDataProofs.col_of (TI.model.RenderData.src_expect comp has_alpha s termbg l)).
Proof. exact TI.proofs.RenderDataProofs.source_pair_exact. Qed.
Print Assumptions C02_source_pair_exact.

(** with the exact composite (the function the correspondence runs against Pillow), an
    opaque source pixel is shown with its own RGB value under every alpha setting *)
Theorem C02_opaque_pixel_unchanged :
  forall has_alpha s termbg c,
    (match s with TI.model.RenderData.AThreshold thr => thr <= 255 | _ => True end) ->
    TI.model.RenderData.src_expect TI.model.RenderData.comp_exact has_alpha s termbg
      {| TI.model.RenderData.s_rgb := c; TI.model.RenderData.s_a := 255 |} = TI.model.RenderData.SColour c.
Proof. exact TI.proofs.RenderDataProofs.opaque_pixel_unchanged. Qed.
Print Assumptions C02_opaque_pixel_unchanged.

(** the exact composite is the nearest integer to the rational blend and stays in range *)
Theorem C02_composite_nearest :
  forall s a d, 0 <= a <= 255 ->
    let e := TI.model.RenderData.comp_exact s a d in
    2 * Z.abs (255 * e - (s * a + d * (255 - a))) < 255 + 1.
Proof. exact TI.proofs.RenderDataProofs.comp_exact_nearest. Qed.
Print Assumptions C02_composite_nearest.

(** *** the renderer's kernels tied to the source as theorems (T): [update_buffer()] and the
    run-boundary test of [BlockImage._render_image] are translated from [image/block.py] on every
    run into [gen/BlockSrc.v] by [harness/tx/tx_block.py] (which also pins the loop skeleton
    around them to the text the model's loop mirrors); for ALL arguments they are the model's
    [update_buffer] and [flush_cond], the functions every theorem above is about *)
Theorem C02_source_update_buffer :
  forall alpha kitty bgcol split c1 c2 ac1 ac2 n,
    update_buffer alpha kitty bgcol split c1 c2 ac1 ac2 n
    = TI.gen.BlockSrc.src_update_buffer alpha kitty bgcol split c1 c2 ac1 ac2 n.
Proof. exact TI.proofs.BlockSrcTie.update_buffer_is_source. Qed.
Print Assumptions C02_source_update_buffer.

Theorem C02_source_run_boundary :
  forall alpha c1 c2 ac1 ac2 p,
    flush_cond alpha c1 c2 ac1 ac2 p
    = TI.gen.BlockSrc.src_run_boundary alpha c1 c2 ac1 ac2 (p1 p) (p2 p) (a1 p) (a2 p).
Proof. exact TI.proofs.BlockSrcTie.flush_cond_is_source. Qed.
Print Assumptions C02_source_run_boundary.

(** *** SEQUENCES of renders in one process ([model/BlockSeq.v]).  The property speaks of every
    block render the library hands out: also the N-th one of a process, after renders of the
    same instance, of other instances (of [BlockImage], of subclasses, of other styles) with
    the same or other settings, after seeks and size changes, for sources whose frames differ
    in mode.  What the code keeps between renders is, per instance, the selected frame and the
    size; the model's state is exactly that, [src i n sz] (decoding and resampling, Pillow's)
    is the pixel content of frame [n] of instance [i] at size [sz], [comp] Pillow's composite.
    (Statements about a plain render request and about a frame yielded by the image iterator
    are exported as conjunctions: every exported theorem costs the check a [Print Assumptions].)

    For EVERY sequence of requests and EVERY position in it: the render handed out is the
    render of that request alone -- of the frame selected by the last seek / iterator position
    of its own instance and the last size set on its own instance ([sel_pos], [sel_size]:
    functions of the history), under its own settings; a frame yielded by the image iterator
    is the render of the frame the iterator asked for. *)
Theorem C02_seq_output :
  (forall comp src st0 pre i s post,
    nth_error (TI.model.BlockSeq.bs_run comp src st0 (pre ++ TI.model.BlockSeq.ORender i s :: post)) (length pre)
    = Some (Some {| TI.model.BlockSeq.r_inst := i;
                    TI.model.BlockSeq.r_frame := TI.model.BlockSeq.sel_pos i (TI.model.BlockSeq.pos (st0 i)) pre;
                    TI.model.BlockSeq.r_size := TI.model.BlockSeq.sel_size i (TI.model.BlockSeq.isize (st0 i)) pre;
                    TI.model.BlockSeq.r_toks :=
                      TI.model.BlockSeq.render_of comp
                        (src i (TI.model.BlockSeq.sel_pos i (TI.model.BlockSeq.pos (st0 i)) pre)
                               (TI.model.BlockSeq.sel_size i (TI.model.BlockSeq.isize (st0 i)) pre)) s |}))
  /\
  (forall comp src st0 pre i n s post,
    nth_error (TI.model.BlockSeq.bs_run comp src st0 (pre ++ TI.model.BlockSeq.OIterFrame i n s :: post)) (length pre)
    = Some (Some {| TI.model.BlockSeq.r_inst := i; TI.model.BlockSeq.r_frame := n;
                    TI.model.BlockSeq.r_size := TI.model.BlockSeq.sel_size i (TI.model.BlockSeq.isize (st0 i)) pre;
                    TI.model.BlockSeq.r_toks :=
                      TI.model.BlockSeq.render_of comp
                        (src i n (TI.model.BlockSeq.sel_size i (TI.model.BlockSeq.isize (st0 i)) pre)) s |})).
Proof. exact TI.proofs.BlockSeqProofs.seq_outputs. Qed.
Print Assumptions C02_seq_output.

(** [C02_block_pixels_exact] and [C02_source_pair_exact] lifted to every element of every
    sequence: the cell at line [a], column [b] of the output of ANY request of ANY sequence
    shows exactly what the property demands of the two SOURCE pixels [(a, b)] of the frame
    selected for that request, under the request's own settings (requested background colour,
    threshold, terminal background at that moment).  First conjunct: a render request without
    the kitty work-around; second: a frame yielded by the image iterator, idem; third: with
    the work-around, [Block.expect] (see [C02_workaround_bounded]) of the render data of the
    selected frame's source pixel pair *)
Theorem C02_seq_source_pixels_exact :
  (forall comp src st0 pre i s post (lm : Z) (w : nat) (t : term) (a b : nat),
    let f := src i (TI.model.BlockSeq.sel_pos i (TI.model.BlockSeq.pos (st0 i)) pre)
                   (TI.model.BlockSeq.sel_size i (TI.model.BlockSeq.isize (st0 i)) pre) in
    TI.model.BlockSeq.st_kitty s = false ->
    parser t = Ground -> col t = lm -> (0 < w)%nat ->
    (forall r, In r (TI.model.BlockSeq.f_rows f) -> length r = w) ->
    (a < length (TI.model.BlockSeq.f_rows f))%nat -> (b < w)%nat ->
    exists out line ul,
      nth_error (TI.model.BlockSeq.bs_run comp src st0 (pre ++ TI.model.BlockSeq.ORender i s :: post)) (length pre)
      = Some (Some out) /\
      nth_error (TI.model.BlockSeq.f_rows f) a = Some line /\ nth_error line b = Some ul /\
      visual (view (log (exec lm t (TI.model.BlockSeq.r_toks out))) (row t + Z.of_nat a) (lm + Z.of_nat b))
      = Some (TI.proofs.RenderDataProofs.col_of (fst (TI.model.BlockSeq.shown_pair comp f s ul)),
              TI.proofs.RenderDataProofs.col_of (snd (TI.model.BlockSeq.shown_pair comp f s ul))))
  /\
  (forall comp src st0 pre i n s post (lm : Z) (w : nat) (t : term) (a b : nat),
    let f := src i n (TI.model.BlockSeq.sel_size i (TI.model.BlockSeq.isize (st0 i)) pre) in
    TI.model.BlockSeq.st_kitty s = false ->
    parser t = Ground -> col t = lm -> (0 < w)%nat ->
    (forall r, In r (TI.model.BlockSeq.f_rows f) -> length r = w) ->
    (a < length (TI.model.BlockSeq.f_rows f))%nat -> (b < w)%nat ->
    exists out line ul,
      nth_error (TI.model.BlockSeq.bs_run comp src st0 (pre ++ TI.model.BlockSeq.OIterFrame i n s :: post)) (length pre)
      = Some (Some out) /\
      nth_error (TI.model.BlockSeq.f_rows f) a = Some line /\ nth_error line b = Some ul /\
      visual (view (log (exec lm t (TI.model.BlockSeq.r_toks out))) (row t + Z.of_nat a) (lm + Z.of_nat b))
      = Some (TI.proofs.RenderDataProofs.col_of (fst (TI.model.BlockSeq.shown_pair comp f s ul)),
              TI.proofs.RenderDataProofs.col_of (snd (TI.model.BlockSeq.shown_pair comp f s ul))))
  /\
  (forall comp src st0 pre i s post (lm : Z) (w : nat) (t : term) (a b : nat),
    let f := src i (TI.model.BlockSeq.sel_pos i (TI.model.BlockSeq.pos (st0 i)) pre)
                   (TI.model.BlockSeq.sel_size i (TI.model.BlockSeq.isize (st0 i)) pre) in
    parser t = Ground -> col t = lm -> (0 < w)%nat ->
    (forall r, In r (TI.model.BlockSeq.f_rows f) -> length r = w) ->
    (a < length (TI.model.BlockSeq.f_rows f))%nat -> (b < w)%nat ->
    exists out line ul,
      nth_error (TI.model.BlockSeq.bs_run comp src st0 (pre ++ TI.model.BlockSeq.ORender i s :: post)) (length pre)
      = Some (Some out) /\
      nth_error (TI.model.BlockSeq.f_rows f) a = Some line /\ nth_error line b = Some ul /\
      visual (view (log (exec lm t (TI.model.BlockSeq.r_toks out))) (row t + Z.of_nat a) (lm + Z.of_nat b))
      = Some (Block.expect (TI.model.RenderData.alpha_mode (TI.model.BlockSeq.f_has_alpha f) (TI.model.BlockSeq.st_alpha s))
                           (TI.model.BlockSeq.st_kitty s) (TI.model.BlockSeq.st_termbg s)
                           (TI.model.RenderData.render_pair comp (TI.model.BlockSeq.f_has_alpha f)
                              (TI.model.BlockSeq.st_alpha s) (TI.model.BlockSeq.st_termbg s) (fst ul) (snd ul)))).
Proof. exact TI.proofs.BlockSeqProofs.seq_pixels. Qed.
Print Assumptions C02_seq_source_pixels_exact.

(** two requests anywhere in any two sequences about the same frame at the same size with
    the same settings hand out the same render; and the requests made on OTHER instances (and
    anything else that happened in the process) are irrelevant to a request *)
Theorem C02_seq_requests_independent :
  (forall comp src st0 pre i s post st0' pre' post',
    TI.model.BlockSeq.sel_pos i (TI.model.BlockSeq.pos (st0 i)) pre
    = TI.model.BlockSeq.sel_pos i (TI.model.BlockSeq.pos (st0' i)) pre' ->
    TI.model.BlockSeq.sel_size i (TI.model.BlockSeq.isize (st0 i)) pre
    = TI.model.BlockSeq.sel_size i (TI.model.BlockSeq.isize (st0' i)) pre' ->
    nth_error (TI.model.BlockSeq.bs_run comp src st0 (pre ++ TI.model.BlockSeq.ORender i s :: post)) (length pre)
    = nth_error (TI.model.BlockSeq.bs_run comp src st0' (pre' ++ TI.model.BlockSeq.ORender i s :: post')) (length pre'))
  /\
  (forall comp src st0 pre i s post,
    nth_error (TI.model.BlockSeq.bs_run comp src st0 (pre ++ TI.model.BlockSeq.ORender i s :: post)) (length pre)
    = nth_error (TI.model.BlockSeq.bs_run comp src st0
                   (filter (TI.proofs.BlockSeqProofs.concerns i) pre ++ [TI.model.BlockSeq.ORender i s]))
                (length (filter (TI.proofs.BlockSeqProofs.concerns i) pre))).
Proof. exact TI.proofs.BlockSeqProofs.seq_requests_independent. Qed.
Print Assumptions C02_seq_requests_independent.

(** soundness of the executable sequence comparison the correspondence runs ([qcheck]): for a
    sequence it finds nothing in, the OBSERVED output of a render request whose selected source
    frame is known is [render_of] of the frame selected by the history before it -- the term
    the theorems above are about *)
Theorem C02_seq_tie_sound :
  forall c pre i s post ob,
    TI.model.BlockSeqTie.qcheck c = 0%nat ->
    map fst (TI.model.BlockSeqTie.q_elems c) = pre ++ TI.model.BlockSeq.ORender i s :: post ->
    nth_error (TI.model.BlockSeqTie.q_elems c) (length pre) = Some (TI.model.BlockSeq.ORender i s, Some ob) ->
    let n := TI.model.BlockSeq.sel_pos i 0%nat pre in
    let sz := TI.model.BlockSeq.sel_size i (0, 0)%nat pre in
    forall f, TI.model.BlockSeqTie.lookup (TI.model.BlockSeqTie.q_tbl c) (i, n, sz) = Some f ->
    TI.model.BlockSeqTie.o_toks ob = TI.model.BlockSeq.render_of TI.model.RenderData.comp_exact f s.
Proof. exact TI.proofs.BlockSeqTieProofs.qcheck_observed_is_render_of. Qed.
Print Assumptions C02_seq_tie_sound.

(** *** the SOURCE OBJECTS behind a sequence ([model/BlockSeqSrc.v]).  The quantifier covers every
    image PIL can open: also formats decoded lazily whose decoder can be configured before the
    first load (JPEG / MPO draft mode: decode at 1/2, 1/4, 1/8 scale, in place and for good), handed
    over as a path (opened afresh for every render) or as a PIL object of the caller's that lives
    through the sequence.  [dec i n d] is frame [n] of source [i] decoded at scale 1/[d] (the
    decoder's), [resample] conversion + BOX resampling (Pillow's), [persistent i] says whether
    instance [i]'s source is one object for the whole sequence.  The code never configures a
    decoder ([full_policy]).  For EVERY sequence over sources the caller hands in intact (not
    loaded yet, or loaded in full): the renders handed out are those of [BlockSeq.bs_run] over the
    ONE world of full decodes -- so all the sequence theorems above speak of the image's own
    pixels --, and afterwards every object of the caller's is still intact: reading it yields the
    full decode of the frame. *)
Theorem C02_seq_sources_intact :
  (forall comp image dec resample persistent ops bs ds,
     TI.proofs.BlockSeqSrcProofs.callers_intact persistent ds ->
     TI.model.BlockSeqSrc.srcs_run comp image dec resample persistent TI.model.BlockSeqSrc.full_policy (bs, ds) ops
     = TI.model.BlockSeq.bs_run comp (TI.model.BlockSeqSrc.full_src image dec resample) bs ops)
  /\
  (forall comp image dec resample persistent ops bs ds i n,
     TI.proofs.BlockSeqSrcProofs.callers_intact persistent ds -> persistent i = true ->
     TI.model.BlockSeqSrc.intact
       (snd (TI.model.BlockSeqSrc.srcs_final comp image dec resample persistent TI.model.BlockSeqSrc.full_policy (bs, ds) ops) i) = true
     /\ TI.model.BlockSeqSrc.caller_view image dec
          (snd (TI.model.BlockSeqSrc.srcs_final comp image dec resample persistent TI.model.BlockSeqSrc.full_policy (bs, ds) ops)) i n
        = dec i n 1%nat).
Proof. exact TI.proofs.BlockSeqSrcProofs.srcs_full. Qed.
Print Assumptions C02_seq_sources_intact.

(** the output of a request is the render of the FULL decode of the frame its own history
    selects, resampled to the size last set on its own instance: it does not depend on the sizes
    requested before (a thumbnail render first, then a render at the image's own pixel size: the
    second is pixel-for-pixel), nor on which source objects were loaded when *)
Theorem C02_seq_output_independent_of_earlier_sizes :
  (forall comp image dec resample persistent bs ds pre i s post,
     TI.proofs.BlockSeqSrcProofs.callers_intact persistent ds ->
     nth_error (TI.model.BlockSeqSrc.srcs_run comp image dec resample persistent TI.model.BlockSeqSrc.full_policy (bs, ds)
                  (pre ++ TI.model.BlockSeq.ORender i s :: post)) (length pre)
     = Some (Some {| TI.model.BlockSeq.r_inst := i;
                     TI.model.BlockSeq.r_frame := TI.model.BlockSeq.sel_pos i (TI.model.BlockSeq.pos (bs i)) pre;
                     TI.model.BlockSeq.r_size := TI.model.BlockSeq.sel_size i (TI.model.BlockSeq.isize (bs i)) pre;
                     TI.model.BlockSeq.r_toks :=
                       TI.model.BlockSeq.render_of comp
                         (resample (dec i (TI.model.BlockSeq.sel_pos i (TI.model.BlockSeq.pos (bs i)) pre) 1%nat)
                                   (TI.model.BlockSeq.sel_size i (TI.model.BlockSeq.isize (bs i)) pre)) s |}))
  /\
  (forall comp image dec resample persistent bs ds pre i s post bs' ds' pre' post',
     TI.proofs.BlockSeqSrcProofs.callers_intact persistent ds ->
     TI.proofs.BlockSeqSrcProofs.callers_intact persistent ds' ->
     TI.model.BlockSeq.sel_pos i (TI.model.BlockSeq.pos (bs i)) pre
     = TI.model.BlockSeq.sel_pos i (TI.model.BlockSeq.pos (bs' i)) pre' ->
     TI.model.BlockSeq.sel_size i (TI.model.BlockSeq.isize (bs i)) pre
     = TI.model.BlockSeq.sel_size i (TI.model.BlockSeq.isize (bs' i)) pre' ->
     nth_error (TI.model.BlockSeqSrc.srcs_run comp image dec resample persistent TI.model.BlockSeqSrc.full_policy (bs, ds)
                  (pre ++ TI.model.BlockSeq.ORender i s :: post)) (length pre)
     = nth_error (TI.model.BlockSeqSrc.srcs_run comp image dec resample persistent TI.model.BlockSeqSrc.full_policy (bs', ds')
                    (pre' ++ TI.model.BlockSeq.ORender i s :: post')) (length pre')).
Proof. exact TI.proofs.BlockSeqSrcProofs.srcs_requests. Qed.
Print Assumptions C02_seq_output_independent_of_earlier_sizes.

(** the decoder-state variant (NOT the code: an unloaded source at least twice the render size is
    configured to decode at reduced scale before convert / resize) violates both, in a concrete
    world ([BlockSeqSrcProofs.ex_dec], [ex_resample]: a 2 x 4 pixel source): after a thumbnail
    render of a caller's object, the render at the image's own pixel size shows the half-scale
    leftover blown up instead of the image's pixels (while the same request served first is right),
    and the caller's object has become the half-scale decode.  (For a source opened afresh per
    render the thumbnail itself shows the decoder's reduced-scale pixels, not the BOX-resampled
    full decode: [BlockSeqSrcProofs.draft_file_thumbnail_refuted].) *)
Theorem C02_seq_decoder_state_variant_refuted :
  let out := TI.model.BlockSeqSrc.srcs_run TI.model.RenderData.comp_exact TI.proofs.BlockSeqSrcProofs.eimg
               TI.proofs.BlockSeqSrcProofs.ex_dec TI.proofs.BlockSeqSrcProofs.ex_resample (fun _ => true)
               (TI.model.BlockSeqSrc.draft_policy TI.proofs.BlockSeqSrcProofs.ex_orig)
               (TI.proofs.BlockSeqSrcProofs.ex_bs0, TI.proofs.BlockSeqSrcProofs.ex_ds0)
               TI.proofs.BlockSeqSrcProofs.ex_thumb_then_full in
  let want := TI.model.BlockSeq.bs_run TI.model.RenderData.comp_exact
                (TI.model.BlockSeqSrc.full_src TI.proofs.BlockSeqSrcProofs.eimg TI.proofs.BlockSeqSrcProofs.ex_dec
                   TI.proofs.BlockSeqSrcProofs.ex_resample)
                TI.proofs.BlockSeqSrcProofs.ex_bs0 TI.proofs.BlockSeqSrcProofs.ex_thumb_then_full in
  nth_error (TI.proofs.BlockSeqSrcProofs.toks_of out) 3
  = Some (Some (TI.model.BlockSeq.render_of TI.model.RenderData.comp_exact
                  (TI.proofs.BlockSeqSrcProofs.ex_resample TI.proofs.BlockSeqSrcProofs.EHalf (2, 2)%nat)
                  TI.proofs.BlockSeqSrcProofs.ex_plain))
  /\ nth_error (TI.proofs.BlockSeqSrcProofs.toks_of want) 3
     = Some (Some (TI.model.BlockSeq.render_of TI.model.RenderData.comp_exact
                     (TI.proofs.BlockSeqSrcProofs.ex_resample TI.proofs.BlockSeqSrcProofs.EFull (2, 2)%nat)
                     TI.proofs.BlockSeqSrcProofs.ex_plain))
  /\ nth_error (TI.proofs.BlockSeqSrcProofs.toks_of out) 3 <> nth_error (TI.proofs.BlockSeqSrcProofs.toks_of want) 3
  /\ TI.proofs.BlockSeqSrcProofs.toks_of
       (TI.model.BlockSeqSrc.srcs_run TI.model.RenderData.comp_exact TI.proofs.BlockSeqSrcProofs.eimg
          TI.proofs.BlockSeqSrcProofs.ex_dec TI.proofs.BlockSeqSrcProofs.ex_resample (fun _ => true)
          (TI.model.BlockSeqSrc.draft_policy TI.proofs.BlockSeqSrcProofs.ex_orig)
          (TI.proofs.BlockSeqSrcProofs.ex_bs0, TI.proofs.BlockSeqSrcProofs.ex_ds0)
          [TI.model.BlockSeq.ORender 0 TI.proofs.BlockSeqSrcProofs.ex_plain])
     = TI.proofs.BlockSeqSrcProofs.toks_of
         (TI.model.BlockSeq.bs_run TI.model.RenderData.comp_exact
            (TI.model.BlockSeqSrc.full_src TI.proofs.BlockSeqSrcProofs.eimg TI.proofs.BlockSeqSrcProofs.ex_dec
               TI.proofs.BlockSeqSrcProofs.ex_resample)
            TI.proofs.BlockSeqSrcProofs.ex_bs0 [TI.model.BlockSeq.ORender 0 TI.proofs.BlockSeqSrcProofs.ex_plain])
  /\ TI.model.BlockSeqSrc.caller_view TI.proofs.BlockSeqSrcProofs.eimg TI.proofs.BlockSeqSrcProofs.ex_dec
       (snd (TI.model.BlockSeqSrc.srcs_final TI.model.RenderData.comp_exact TI.proofs.BlockSeqSrcProofs.eimg
               TI.proofs.BlockSeqSrcProofs.ex_dec TI.proofs.BlockSeqSrcProofs.ex_resample (fun _ => true)
               (TI.model.BlockSeqSrc.draft_policy TI.proofs.BlockSeqSrcProofs.ex_orig)
               (TI.proofs.BlockSeqSrcProofs.ex_bs0, TI.proofs.BlockSeqSrcProofs.ex_ds0)
               TI.proofs.BlockSeqSrcProofs.ex_thumb_then_full)) 0 0
     = TI.proofs.BlockSeqSrcProofs.EHalf
  /\ TI.model.BlockSeqSrc.intact
       (snd (TI.model.BlockSeqSrc.srcs_final TI.model.RenderData.comp_exact TI.proofs.BlockSeqSrcProofs.eimg
               TI.proofs.BlockSeqSrcProofs.ex_dec TI.proofs.BlockSeqSrcProofs.ex_resample (fun _ => true)
               (TI.model.BlockSeqSrc.draft_policy TI.proofs.BlockSeqSrcProofs.ex_orig)
               (TI.proofs.BlockSeqSrcProofs.ex_bs0, TI.proofs.BlockSeqSrcProofs.ex_ds0)
               TI.proofs.BlockSeqSrcProofs.ex_thumb_then_full) 0%nat)
     = false.
Proof. exact TI.proofs.BlockSeqSrcProofs.draft_thumbnail_then_full_refuted. Qed.
Print Assumptions C02_seq_decoder_state_variant_refuted.
