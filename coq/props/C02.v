(** C02 — block renders show exactly the image's pixels (colour and transparency). *)
From Coq Require Import List ZArith Bool.
Import ListNotations.
From TI Require Import lib.Term lib.TermFacts lib.Rect model.Block proofs.BlockProofs proofs.BlockRect.
From TI Require model.RenderData proofs.RenderDataProofs.
From TI Require gen.BlockSrc proofs.BlockSrcTie.
From TI Require model.BlockSeq model.BlockSeqTie proofs.BlockSeqProofs proofs.BlockSeqTieProofs.
Open Scope Z_scope.

(** After executing a block render of [rows] (pixel pairs at render resolution, as
    returned by the conversion step) on the terminal, the cell at line [i], column [j]
    of the rectangle shows, in its upper and lower half, exactly [expect] of the pixel
    pair [(i, j)]: an opaque pixel its RGB value, a transparent one (alpha enabled and
    alpha value 0 after thresholding) the terminal's own background; with transparency
    disabled alpha is ignored; the kitty work-around nudges a background-path colour equal
    to the terminal background by one red level.  For every pixel content, size, start
    position, initial attributes and prior screen content. *)
Theorem C02_block_pixels_exact :
  forall (alpha kitty : bool) (bgcol : option rgb) (split : bool)
         (lm : Z) (w : nat) (rows : list (list px)) (t : term) (i j : nat),
    parser t = Ground -> col t = lm -> (0 < w)%nat -> (forall r, In r rows -> length r = w) ->
    (i < length rows)%nat -> (j < w)%nat ->
    exists pxs p,
      nth_error rows i = Some pxs /\ nth_error pxs j = Some p /\
      visual (view (log (exec lm t (Block.render alpha kitty bgcol split rows)))
                   (row t + Z.of_nat i) (lm + Z.of_nat j))
      = Some (Block.expect alpha kitty bgcol p).
Proof. exact block_pixels_exact. Qed.
Print Assumptions C02_block_pixels_exact.

(** disabling transparency ignores alpha *)
Theorem C02_alpha_disabled_ignores_alpha :
  forall kitty bgcol c1 c2 x1 x2 y1 y2,
    Block.expect false kitty bgcol {| p1 := c1; p2 := c2; a1 := x1; a2 := x2 |} =
    Block.expect false kitty bgcol {| p1 := c1; p2 := c2; a1 := y1; a2 := y2 |}.
Proof. intros; exact (cexpect_noalpha false kitty bgcol c1 c2 x1 x2 y1 y2 eq_refl). Qed.
Print Assumptions C02_alpha_disabled_ignores_alpha.

(** without the kitty work-around the colours are exact: an opaque pixel pair shows
    precisely its two RGB values *)
Theorem C02_exact_without_workaround :
  forall alpha bgcol p,
    Block.transparent alpha (a1 p) = false -> Block.transparent alpha (a2 p) = false ->
    Block.expect alpha false bgcol p = (CRgb (p1 p), CRgb (p2 p)).
Proof. exact expect_opaque_exact. Qed.
Print Assumptions C02_exact_without_workaround.

(** the work-around moves red by exactly one level, and only for a lower colour equal to
    the terminal background on the background-colour path *)
Theorem C02_workaround_bounded :
  forall alpha bgcol p,
    Block.transparent alpha (a1 p) = false -> Block.transparent alpha (a2 p) = false ->
    forall r g b, p2 p = (r, g, b) -> 0 <= r <= 255 ->
    exists r', snd (Block.expect alpha true bgcol p) = CRgb (r', g, b)
               /\ Z.abs (r' - r) <= 1 /\ 0 <= r' <= 255
               /\ (r' <> r -> bgcol = Some (p2 p)).
Proof. exact expect_workaround_bounded. Qed.
Print Assumptions C02_workaround_bounded.

(** *** from SOURCE pixels to the screen (at render resolution, where no resampling is
    involved).  [RenderData.render_pair] is the transparency logic of [_get_render_data]
    (tied to the code by the correspondence), [src_expect] the property's demand on a source
    pixel: alpha ignored when transparency is disabled; composited over the requested
    background colour; for thresholded transparency the terminal's own background below the
    threshold and, above it, opaque and composited over the terminal background (black if
    unknown).  [comp] is Pillow's per-channel composite (any function). *)
Theorem C02_source_pair_exact :
  forall (comp : Z -> Z -> Z -> Z) has_alpha s termbg bgcol u l,
    Block.expect (TI.model.RenderData.alpha_mode has_alpha s) false bgcol
                 (TI.model.RenderData.render_pair comp has_alpha s termbg u l)
    = (TI.proofs.RenderDataProofs.col_of (TI.model.RenderData.src_expect comp has_alpha s termbg u),
       TI.proofs.RenderDataProofs.col_of (TI.model.RenderData.src_expect comp has_alpha s termbg l)).
Proof. exact TI.proofs.RenderDataProofs.source_pair_exact. Qed.
Print Assumptions C02_source_pair_exact.

(** with the exact composite (the function the correspondence runs against Pillow), an
    opaque source pixel is shown with its own RGB value under every alpha setting *)
Theorem C02_opaque_pixel_unchanged :
  forall has_alpha s termbg c,
    (match s with TI.model.RenderData.AThreshold thr => thr <= 255 | _ => True end) ->
    TI.model.RenderData.src_expect TI.model.RenderData.comp_exact has_alpha s termbg
      {| TI.model.RenderData.s_rgb := c; TI.model.RenderData.s_a := 255 |} = TI.model.RenderData.SColour c.
Proof. exact TI.proofs.RenderDataProofs.opaque_pixel_unchanged. Qed.
Print Assumptions C02_opaque_pixel_unchanged.

(** the exact composite is the nearest integer to the rational blend and stays in range *)
Theorem C02_composite_nearest :
  forall s a d, 0 <= a <= 255 ->
    let e := TI.model.RenderData.comp_exact s a d in
    2 * Z.abs (255 * e - (s * a + d * (255 - a))) < 255 + 1.
Proof. exact TI.proofs.RenderDataProofs.comp_exact_nearest. Qed.
Print Assumptions C02_composite_nearest.

(** *** the renderer's kernels tied to the source as theorems (T): [update_buffer()] and the
    run-boundary test of [BlockImage._render_image] are translated from [image/block.py] on every
    run into [gen/BlockSrc.v] by [harness/tx/tx_block.py] (which also pins the loop skeleton
    around them to the text the model's loop mirrors); for ALL arguments they are the model's
    [update_buffer] and [flush_cond], the functions every theorem above is about *)
Theorem C02_source_update_buffer :
  forall alpha kitty bgcol split c1 c2 ac1 ac2 n,
    update_buffer alpha kitty bgcol split c1 c2 ac1 ac2 n
    = TI.gen.BlockSrc.src_update_buffer alpha kitty bgcol split c1 c2 ac1 ac2 n.
Proof. exact TI.proofs.BlockSrcTie.update_buffer_is_source. Qed.
Print Assumptions C02_source_update_buffer.

Theorem C02_source_run_boundary :
  forall alpha c1 c2 ac1 ac2 p,
    flush_cond alpha c1 c2 ac1 ac2 p
    = TI.gen.BlockSrc.src_run_boundary alpha c1 c2 ac1 ac2 (p1 p) (p2 p) (a1 p) (a2 p).
Proof. exact TI.proofs.BlockSrcTie.flush_cond_is_source. Qed.
Print Assumptions C02_source_run_boundary.

(** *** SEQUENCES of renders in one process ([model/BlockSeq.v]).  The property speaks of every
    block render the library hands out: also the N-th one of a process, after renders of the
    same instance, of other instances (of [BlockImage], of subclasses, of other styles) with
    the same or other settings, after seeks and size changes, for sources whose frames differ
    in mode.  What the code keeps between renders is, per instance, the selected frame and the
    size; the model's state is exactly that, [src i n sz] (decoding and resampling, Pillow's)
    is the pixel content of frame [n] of instance [i] at size [sz], [comp] Pillow's composite.
    (Statements about a plain render request and about a frame yielded by the image iterator
    are exported as conjunctions: every exported theorem costs the check a [Print Assumptions].)

    For EVERY sequence of requests and EVERY position in it: the render handed out is the
    render of that request alone -- of the frame selected by the last seek / iterator position
    of its own instance and the last size set on its own instance ([sel_pos], [sel_size]:
    functions of the history), under its own settings; a frame yielded by the image iterator
    is the render of the frame the iterator asked for. *)
Theorem C02_seq_output :
  (forall comp src st0 pre i s post,
    nth_error (TI.model.BlockSeq.bs_run comp src st0 (pre ++ TI.model.BlockSeq.ORender i s :: post)) (length pre)
    = Some (Some {| TI.model.BlockSeq.r_inst := i;
                    TI.model.BlockSeq.r_frame := TI.model.BlockSeq.sel_pos i (TI.model.BlockSeq.pos (st0 i)) pre;
                    TI.model.BlockSeq.r_size := TI.model.BlockSeq.sel_size i (TI.model.BlockSeq.isize (st0 i)) pre;
                    TI.model.BlockSeq.r_toks :=
                      TI.model.BlockSeq.render_of comp
                        (src i (TI.model.BlockSeq.sel_pos i (TI.model.BlockSeq.pos (st0 i)) pre)
                               (TI.model.BlockSeq.sel_size i (TI.model.BlockSeq.isize (st0 i)) pre)) s |}))
  /\
  (forall comp src st0 pre i n s post,
    nth_error (TI.model.BlockSeq.bs_run comp src st0 (pre ++ TI.model.BlockSeq.OIterFrame i n s :: post)) (length pre)
    = Some (Some {| TI.model.BlockSeq.r_inst := i; TI.model.BlockSeq.r_frame := n;
                    TI.model.BlockSeq.r_size := TI.model.BlockSeq.sel_size i (TI.model.BlockSeq.isize (st0 i)) pre;
                    TI.model.BlockSeq.r_toks :=
                      TI.model.BlockSeq.render_of comp
                        (src i n (TI.model.BlockSeq.sel_size i (TI.model.BlockSeq.isize (st0 i)) pre)) s |})).
Proof. exact TI.proofs.BlockSeqProofs.seq_outputs. Qed.
Print Assumptions C02_seq_output.

(** [C02_block_pixels_exact] and [C02_source_pair_exact] lifted to every element of every
    sequence: the cell at line [a], column [b] of the output of ANY request of ANY sequence
    shows exactly what the property demands of the two SOURCE pixels [(a, b)] of the frame
    selected for that request, under the request's own settings (requested background colour,
    threshold, terminal background at that moment).  First conjunct: a render request without
    the kitty work-around; second: a frame yielded by the image iterator, idem; third: with
    the work-around, [Block.expect] (see [C02_workaround_bounded]) of the render data of the
    selected frame's source pixel pair *)
Theorem C02_seq_source_pixels_exact :
  (forall comp src st0 pre i s post (lm : Z) (w : nat) (t : term) (a b : nat),
    let f := src i (TI.model.BlockSeq.sel_pos i (TI.model.BlockSeq.pos (st0 i)) pre)
                   (TI.model.BlockSeq.sel_size i (TI.model.BlockSeq.isize (st0 i)) pre) in
    TI.model.BlockSeq.st_kitty s = false ->
    parser t = Ground -> col t = lm -> (0 < w)%nat ->
    (forall r, In r (TI.model.BlockSeq.f_rows f) -> length r = w) ->
    (a < length (TI.model.BlockSeq.f_rows f))%nat -> (b < w)%nat ->
    exists out line ul,
      nth_error (TI.model.BlockSeq.bs_run comp src st0 (pre ++ TI.model.BlockSeq.ORender i s :: post)) (length pre)
      = Some (Some out) /\
      nth_error (TI.model.BlockSeq.f_rows f) a = Some line /\ nth_error line b = Some ul /\
      visual (view (log (exec lm t (TI.model.BlockSeq.r_toks out))) (row t + Z.of_nat a) (lm + Z.of_nat b))
      = Some (TI.proofs.RenderDataProofs.col_of (fst (TI.model.BlockSeq.shown_pair comp f s ul)),
              TI.proofs.RenderDataProofs.col_of (snd (TI.model.BlockSeq.shown_pair comp f s ul))))
  /\
  (forall comp src st0 pre i n s post (lm : Z) (w : nat) (t : term) (a b : nat),
    let f := src i n (TI.model.BlockSeq.sel_size i (TI.model.BlockSeq.isize (st0 i)) pre) in
    TI.model.BlockSeq.st_kitty s = false ->
    parser t = Ground -> col t = lm -> (0 < w)%nat ->
    (forall r, In r (TI.model.BlockSeq.f_rows f) -> length r = w) ->
    (a < length (TI.model.BlockSeq.f_rows f))%nat -> (b < w)%nat ->
    exists out line ul,
      nth_error (TI.model.BlockSeq.bs_run comp src st0 (pre ++ TI.model.BlockSeq.OIterFrame i n s :: post)) (length pre)
      = Some (Some out) /\
      nth_error (TI.model.BlockSeq.f_rows f) a = Some line /\ nth_error line b = Some ul /\
      visual (view (log (exec lm t (TI.model.BlockSeq.r_toks out))) (row t + Z.of_nat a) (lm + Z.of_nat b))
      = Some (TI.proofs.RenderDataProofs.col_of (fst (TI.model.BlockSeq.shown_pair comp f s ul)),
              TI.proofs.RenderDataProofs.col_of (snd (TI.model.BlockSeq.shown_pair comp f s ul))))
  /\
  (forall comp src st0 pre i s post (lm : Z) (w : nat) (t : term) (a b : nat),
    let f := src i (TI.model.BlockSeq.sel_pos i (TI.model.BlockSeq.pos (st0 i)) pre)
                   (TI.model.BlockSeq.sel_size i (TI.model.BlockSeq.isize (st0 i)) pre) in
    parser t = Ground -> col t = lm -> (0 < w)%nat ->
    (forall r, In r (TI.model.BlockSeq.f_rows f) -> length r = w) ->
    (a < length (TI.model.BlockSeq.f_rows f))%nat -> (b < w)%nat ->
    exists out line ul,
      nth_error (TI.model.BlockSeq.bs_run comp src st0 (pre ++ TI.model.BlockSeq.ORender i s :: post)) (length pre)
      = Some (Some out) /\
      nth_error (TI.model.BlockSeq.f_rows f) a = Some line /\ nth_error line b = Some ul /\
      visual (view (log (exec lm t (TI.model.BlockSeq.r_toks out))) (row t + Z.of_nat a) (lm + Z.of_nat b))
      = Some (Block.expect (TI.model.RenderData.alpha_mode (TI.model.BlockSeq.f_has_alpha f) (TI.model.BlockSeq.st_alpha s))
                           (TI.model.BlockSeq.st_kitty s) (TI.model.BlockSeq.st_termbg s)
                           (TI.model.RenderData.render_pair comp (TI.model.BlockSeq.f_has_alpha f)
                              (TI.model.BlockSeq.st_alpha s) (TI.model.BlockSeq.st_termbg s) (fst ul) (snd ul)))).
Proof. exact TI.proofs.BlockSeqProofs.seq_pixels. Qed.
Print Assumptions C02_seq_source_pixels_exact.

(** two requests anywhere in any two sequences about the same frame at the same size with
    the same settings hand out the same render; and the requests made on OTHER instances (and
    anything else that happened in the process) are irrelevant to a request *)
Theorem C02_seq_requests_independent :
  (forall comp src st0 pre i s post st0' pre' post',
    TI.model.BlockSeq.sel_pos i (TI.model.BlockSeq.pos (st0 i)) pre
    = TI.model.BlockSeq.sel_pos i (TI.model.BlockSeq.pos (st0' i)) pre' ->
    TI.model.BlockSeq.sel_size i (TI.model.BlockSeq.isize (st0 i)) pre
    = TI.model.BlockSeq.sel_size i (TI.model.BlockSeq.isize (st0' i)) pre' ->
    nth_error (TI.model.BlockSeq.bs_run comp src st0 (pre ++ TI.model.BlockSeq.ORender i s :: post)) (length pre)
    = nth_error (TI.model.BlockSeq.bs_run comp src st0' (pre' ++ TI.model.BlockSeq.ORender i s :: post')) (length pre'))
  /\
  (forall comp src st0 pre i s post,
    nth_error (TI.model.BlockSeq.bs_run comp src st0 (pre ++ TI.model.BlockSeq.ORender i s :: post)) (length pre)
    = nth_error (TI.model.BlockSeq.bs_run comp src st0
                   (filter (TI.proofs.BlockSeqProofs.concerns i) pre ++ [TI.model.BlockSeq.ORender i s]))
                (length (filter (TI.proofs.BlockSeqProofs.concerns i) pre))).
Proof. exact TI.proofs.BlockSeqProofs.seq_requests_independent. Qed.
Print Assumptions C02_seq_requests_independent.

(** soundness of the executable sequence comparison the correspondence runs ([qcheck]): for a
    sequence it finds nothing in, the OBSERVED output of a render request whose selected source
    frame is known is [render_of] of the frame selected by the history before it -- the term
    the theorems above are about *)
Theorem C02_seq_tie_sound :
  forall c pre i s post ob,
    TI.model.BlockSeqTie.qcheck c = 0%nat ->
    map fst (TI.model.BlockSeqTie.q_elems c) = pre ++ TI.model.BlockSeq.ORender i s :: post ->
    nth_error (TI.model.BlockSeqTie.q_elems c) (length pre) = Some (TI.model.BlockSeq.ORender i s, Some ob) ->
    let n := TI.model.BlockSeq.sel_pos i 0%nat pre in
    let sz := TI.model.BlockSeq.sel_size i (0, 0)%nat pre in
    forall f, TI.model.BlockSeqTie.lookup (TI.model.BlockSeqTie.q_tbl c) (i, n, sz) = Some f ->
    TI.model.BlockSeqTie.o_toks ob = TI.model.BlockSeq.render_of TI.model.RenderData.comp_exact f s.
Proof. exact TI.proofs.BlockSeqTieProofs.qcheck_observed_is_render_of. Qed.
Print Assumptions C02_seq_tie_sound.
