(** C02 — block renders show exactly the image's pixels (colour and transparency). *)
From Coq Require Import List ZArith Bool.
Import ListNotations.
From TI Require Import lib.Term lib.TermFacts lib.Rect model.Block proofs.BlockProofs proofs.BlockRect.
From TI Require model.RenderData proofs.RenderDataProofs.
From TI Require gen.BlockSrc proofs.BlockSrcTie.
Open Scope Z_scope.

(** After executing a block render of [rows] (pixel pairs at render resolution, as
    returned by the conversion step) on the terminal, the cell at line [i], column [j]
    of the rectangle shows, in its upper and lower half, exactly [expect] of the pixel
    pair [(i, j)]: an opaque pixel its RGB value, a transparent one (alpha enabled and
    alpha value 0 after thresholding) the terminal's own background; with transparency
    disabled alpha is ignored; the kitty work-around nudges a background-path colour equal
    to the terminal background by one red level.  For every pixel content, size, start
    position, initial attributes and prior screen content. *)
Theorem C02_block_pixels_exact :
  forall (alpha kitty : bool) (bgcol : option rgb) (split : bool)
         (lm : Z) (w : nat) (rows : list (list px)) (t : term) (i j : nat),
    parser t = Ground -> col t = lm -> (0 < w)%nat -> (forall r, In r rows -> length r = w) ->
    (i < length rows)%nat -> (j < w)%nat ->
    exists pxs p,
      nth_error rows i = Some pxs /\ nth_error pxs j = Some p /\
      visual (view (log (exec lm t (Block.render alpha kitty bgcol split rows)))
                   (row t + Z.of_nat i) (lm + Z.of_nat j))
      = Some (Block.expect alpha kitty bgcol p).
Proof. exact block_pixels_exact. Qed.
Print Assumptions C02_block_pixels_exact.

(** disabling transparency ignores alpha *)
Theorem C02_alpha_disabled_ignores_alpha :
  forall kitty bgcol c1 c2 x1 x2 y1 y2,
    Block.expect false kitty bgcol {| p1 := c1; p2 := c2; a1 := x1; a2 := x2 |} =
    Block.expect false kitty bgcol {| p1 := c1; p2 := c2; a1 := y1; a2 := y2 |}.
Proof. intros; exact (cexpect_noalpha false kitty bgcol c1 c2 x1 x2 y1 y2 eq_refl). Qed.
Print Assumptions C02_alpha_disabled_ignores_alpha.

(** without the kitty work-around the colours are exact: an opaque pixel pair shows
    precisely its two RGB values *)
Theorem C02_exact_without_workaround :
  forall alpha bgcol p,
    Block.transparent alpha (a1 p) = false -> Block.transparent alpha (a2 p) = false ->
    Block.expect alpha false bgcol p = (CRgb (p1 p), CRgb (p2 p)).
Proof. exact expect_opaque_exact. Qed.
Print Assumptions C02_exact_without_workaround.

(** the work-around moves red by exactly one level, and only for a lower colour equal to
    the terminal background on the background-colour path *)
Theorem C02_workaround_bounded :
  forall alpha bgcol p,
    Block.transparent alpha (a1 p) = false -> Block.transparent alpha (a2 p) = false ->
    forall r g b, p2 p = (r, g, b) -> 0 <= r <= 255 ->
    exists r', snd (Block.expect alpha true bgcol p) = CRgb (r', g, b)
               /\ Z.abs (r' - r) <= 1 /\ 0 <= r' <= 255
               /\ (r' <> r -> bgcol = Some (p2 p)).
Proof. exact expect_workaround_bounded. Qed.
Print Assumptions C02_workaround_bounded.

(** *** from SOURCE pixels to the screen (at render resolution, where no resampling is
    involved).  [RenderData.render_pair] is the transparency logic of [_get_render_data]
    (tied to the code by the correspondence), [src_expect] the property's demand on a source
    pixel: alpha ignored when transparency is disabled; composited over the requested
    background colour; for thresholded transparency the terminal's own background below the
    threshold and, above it, opaque and composited over the terminal background (black if
    unknown).  [comp] is Pillow's per-channel composite (any function). *)
Theorem C02_source_pair_exact :
  forall (comp : Z -> Z -> Z -> Z) has_alpha s termbg bgcol u l,
    Block.expect (TI.model.RenderData.alpha_mode has_alpha s) false bgcol
                 (TI.model.RenderData.render_pair comp has_alpha s termbg u l)
    = (TI.proofs.RenderDataProofs.col_of (TI.model.RenderData.src_expect comp has_alpha s termbg u),
       TI.proofs.RenderDataProofs.col_of (TI.model.RenderData.src_expect comp has_alpha s termbg l)).
Proof. exact TI.proofs.RenderDataProofs.source_pair_exact. Qed.
Print Assumptions C02_source_pair_exact.

(** with the exact composite (the function the correspondence runs against Pillow), an
    opaque source pixel is shown with its own RGB value under every alpha setting *)
Theorem C02_opaque_pixel_unchanged :
  forall has_alpha s termbg c,
    (match s with TI.model.RenderData.AThreshold thr => thr <= 255 | _ => True end) ->
    TI.model.RenderData.src_expect TI.model.RenderData.comp_exact has_alpha s termbg
      {| TI.model.RenderData.s_rgb := c; TI.model.RenderData.s_a := 255 |} = TI.model.RenderData.SColour c.
Proof. exact TI.proofs.RenderDataProofs.opaque_pixel_unchanged. Qed.
Print Assumptions C02_opaque_pixel_unchanged.

(** the exact composite is the nearest integer to the rational blend and stays in range *)
Theorem C02_composite_nearest :
  forall s a d, 0 <= a <= 255 ->
    let e := TI.model.RenderData.comp_exact s a d in
    2 * Z.abs (255 * e - (s * a + d * (255 - a))) < 255 + 1.
Proof. exact TI.proofs.RenderDataProofs.comp_exact_nearest. Qed.
Print Assumptions C02_composite_nearest.

(** *** the renderer's kernels tied to the source as theorems (T): [update_buffer()] and the
    run-boundary test of [BlockImage._render_image] are translated from [image/block.py] on every
    run into [gen/BlockSrc.v] by [harness/tx/tx_block.py] (which also pins the loop skeleton
    around them to the text the model's loop mirrors); for ALL arguments they are the model's
    [update_buffer] and [flush_cond], the functions every theorem above is about *)
Theorem C02_source_update_buffer :
  forall alpha kitty bgcol split c1 c2 ac1 ac2 n,
    update_buffer alpha kitty bgcol split c1 c2 ac1 ac2 n
    = TI.gen.BlockSrc.src_update_buffer alpha kitty bgcol split c1 c2 ac1 ac2 n.
Proof. exact TI.proofs.BlockSrcTie.update_buffer_is_source. Qed.
Print Assumptions C02_source_update_buffer.

Theorem C02_source_run_boundary :
  forall alpha c1 c2 ac1 ac2 p,
    flush_cond alpha c1 c2 ac1 ac2 p
    = TI.gen.BlockSrc.src_run_boundary alpha c1 c2 ac1 ac2 (p1 p) (p2 p) (a1 p) (a2 p).
Proof. exact TI.proofs.BlockSrcTie.flush_cond_is_source. Qed.
Print Assumptions C02_source_run_boundary.
