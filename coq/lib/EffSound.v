(** Soundness of the effect-skeleton analysis: every run of the big-step semantics
    (any path, any iteration count, a fault at any call outside clean-up blocks) ends in
    a configuration computed by [exec]; hence a post-condition checked by [analyze] holds
    of every run. *)
From Coq Require Import List Bool Arith Lia.
Import ListNotations.
From TI Require Import lib.Eff.

(** * Decidable equalities *)

Lemma lb_eqb_eq : forall a b, lb_eqb a b = true <-> a = b.
Proof.
  induction a as [|x a IH]; destruct b as [|y b]; simpl; split; intros H; try congruence; try discriminate.
  - apply andb_true_iff in H. destruct H as [H1 H2]. apply eqb_prop in H1. apply IH in H2. congruence.
  - inversion H; subst. rewrite eqb_reflx. simpl. apply IH. reflexivity.
Qed.

Lemma st_eqb_eq : forall a b, st_eqb a b = true <-> a = b.
Proof.
  intros a b. destruct a, b. unfold st_eqb. simpl.
  rewrite !andb_true_iff, !lb_eqb_eq, !eqb_true_iff.
  split.
  - intros H. decompose [and] H. congruence.
  - intros H. inversion H; subst. repeat split.
Qed.

Lemma out_eqb_eq : forall a b, out_eqb a b = true <-> a = b.
Proof.
  intros a b; destruct a as [| |[|]], b as [| |[|]]; simpl; split; intros H; try reflexivity; try discriminate; congruence.
Qed.

Lemma os_eqb_eq : forall a b, os_eqb a b = true <-> a = b.
Proof.
  intros [o s] [o' s']. unfold os_eqb. simpl. rewrite andb_true_iff, out_eqb_eq, st_eqb_eq.
  split; [intros [? ?]; congruence | intros H; inversion H; auto].
Qed.

(** * Sets as duplicate-free lists *)

Section TrieFacts.
Context {A : Type} (eqb : A -> A -> bool) (enc : A -> list bool).
Hypothesis eqb_eq : forall a b, eqb a b = true <-> a = b.

Lemma mem_In : forall x l, mem eqb x l = true <-> In x l.
Proof.
  induction l as [|y t IH]; simpl.
  - split; [discriminate | tauto].
  - rewrite orb_true_iff, IH, eqb_eq. split; intros [H|H]; auto.
Qed.

Lemma tinsert_elems : forall bits x t y,
  In y (telems (fst (tinsert eqb bits x t))) <-> y = x \/ In y (telems t).
Proof.
  induction bits as [|bt rest IH]; intros x t y.
  - destruct t as [|h a b]; simpl.
    + split; [intros [H|[]]; auto | intros [H|[]]; auto].
    + destruct (mem eqb x h) eqn:E; simpl.
      * split; [auto|]. intros [->|H]; [|assumption].
        apply in_or_app. left. apply mem_In. assumption.
      * split; [intros [H|H]; auto | intros [H|H]; auto].
  - destruct t as [|h a b].
    + simpl. destruct bt; simpl; rewrite ?app_nil_r; rewrite IH; simpl; tauto.
    + simpl. destruct bt; simpl; rewrite !in_app_iff, IH; tauto.
Qed.

Lemma tinsert_old : forall bits x t, snd (tinsert eqb bits x t) = false -> In x (telems t).
Proof.
  induction bits as [|bt rest IH]; intros x t H.
  - destruct t as [|h a b]; simpl in *; [discriminate|].
    destruct (mem eqb x h) eqn:E; simpl in H; [|discriminate].
    apply in_or_app. left. apply mem_In. assumption.
  - destruct t as [|h a b]; simpl in *; [discriminate|].
    destruct bt; simpl in H; apply IH in H; rewrite !in_app_iff; tauto.
Qed.

Lemma tfold_spec : forall l t fr,
  (forall y, In y (telems (fst (tfold eqb enc l t fr))) <-> In y l \/ In y (telems t)) /\
  (forall y, In y fr -> In y (snd (tfold eqb enc l t fr))) /\
  (forall y, In y (snd (tfold eqb enc l t fr)) -> In y fr \/ In y l) /\
  (forall y, In y l -> In y (snd (tfold eqb enc l t fr)) \/ In y (telems t)).
Proof.
  induction l as [|x r IH]; intros t fr; simpl.
  - repeat split; try tauto.
  - set (i := tinsert eqb (enc x) x t).
    destruct (IH (fst i) (if snd i then x :: fr else fr)) as [H1 [H2 [H3 H4]]].
    repeat split.
    + intros H. apply H1 in H. destruct H as [H|H]; [tauto|].
      apply tinsert_elems in H. destruct H as [->|H]; tauto.
    + intros [[->|H]|H]; apply H1.
      * right. apply tinsert_elems. auto.
      * auto.
      * right. apply tinsert_elems. auto.
    + intros y H. apply H2. destruct (snd i); simpl; auto.
    + intros y H. apply H3 in H. destruct H as [H|H]; [|tauto].
      destruct (snd i); simpl in H; [destruct H as [->|H]|]; tauto.
    + intros y [<-|H].
      * destruct (snd i) eqn:E.
        -- left. apply H2. simpl; auto.
        -- right. apply tinsert_old with (bits := enc x). assumption.
      * apply H4 in H. destruct H as [H|H]; [tauto|].
        apply tinsert_elems in H. destruct H as [->|H]; [|tauto].
        destruct (snd i) eqn:E.
        -- left. apply H2. simpl; auto.
        -- right. apply tinsert_old with (bits := enc x). assumption.
Qed.

Lemma tdedup_In : forall l y, In y (tdedup eqb enc l) <-> In y l.
Proof.
  intros l y. unfold tdedup. destruct (tfold_spec l TLeaf []) as [_ [_ [H3 H4]]]. split.
  - intros H. apply H3 in H. destruct H as [[]|H]. assumption.
  - intros H. apply H4 in H. destruct H as [H|[]]. assumption.
Qed.

Lemma tfresh_In : forall old new y, In y new -> In y (tfresh eqb enc old new) \/ In y old.
Proof.
  intros old new y H. unfold tfresh.
  destruct (tfold_spec new (fst (tfold eqb enc old TLeaf [])) []) as [_ [_ [_ H4]]].
  apply H4 in H. destruct H as [H|H]; [auto|]. right.
  destruct (tfold_spec old TLeaf []) as [H1 _]. apply H1 in H. destruct H as [H|[]]. assumption.
Qed.
End TrieFacts.

Lemma dedup_os_In : forall l x, In x (dedup_os l) <-> In x l.
Proof. intros. apply (tdedup_In os_eqb enc_os os_eqb_eq). Qed.
Lemma dedup_st_In : forall l x, In x (dedup_st l) <-> In x l.
Proof. intros. apply (tdedup_In st_eqb enc_st st_eqb_eq). Qed.
Lemma fresh_st_In : forall old new y, In y new -> In y (fresh_st old new) \/ In y old.
Proof. intros. apply (tfresh_In st_eqb enc_st st_eqb_eq). assumption. Qed.

Lemma norm_states_In : forall R s, In s (norm_states R) <-> In (ONorm, s) R.
Proof.
  intros R s. unfold norm_states. rewrite in_flat_map. split.
  - intros [[o s'] [Hin H]]. simpl in H. destruct o; simpl in H; try contradiction.
    destruct H as [->|[]]. assumption.
  - intros H. exists (ONorm, s). split; [assumption|]. simpl. auto.
Qed.

Lemma states_with_In : forall o R s, In s (states_with o R) <-> In (o, s) R.
Proof.
  intros o R s. unfold states_with. rewrite in_flat_map. split.
  - intros [[o' s'] [Hin H]]. simpl in H. destruct (out_eqb o' o) eqn:E; [|contradiction].
    apply out_eqb_eq in E. destruct H as [->|[]]. subst. assumption.
  - intros H. exists (o, s). split; [assumption|]. simpl.
    replace (out_eqb o o) with true; [simpl; auto|]. symmetry. apply out_eqb_eq. reflexivity.
Qed.

Lemma abrupt_In : forall R o s, In (o, s) (abrupt R) <-> In (o, s) R /\ is_norm o = false.
Proof.
  intros R o s. unfold abrupt. rewrite filter_In. simpl. rewrite negb_true_iff. tauto.
Qed.

Lemma with_out_In : forall o S o' s, In (o', s) (with_out o S) <-> o' = o /\ In s S.
Proof.
  intros. unfold with_out. rewrite in_map_iff. split.
  - intros [x [H Hin]]. inversion H; subst. auto.
  - intros [-> H]. exists s. auto.
Qed.

(** * Loops *)

Section Loops.
Variable C : cfg.
Variable c : bool.
Variable b : prog.
Variable body : list st -> option res_t.
Hypothesis body_sound : forall S R, body S = Some R ->
  forall s o s', In s S -> eval C c b s o s' -> In (o, s') R.

(** [H] is a set of loop heads closed under the body, whose exits are in [Rf] *)
Definition closed_heads (H : list st) (Rf : res_t) : Prop :=
  forall h, In h H ->
    In (ONorm, h) Rf /\
    forall o s', eval C c b h o s' -> if is_norm o then In s' H else In (o, s') Rf.

Lemma loop_fix_spec : forall fuel done frontier exits Rf,
  loop_fix body fuel done frontier exits = Some Rf ->
  (forall h, In h done -> forall o s', eval C c b h o s' ->
     if is_norm o then In s' (done ++ frontier) else In (o, s') exits) ->
  exists H, incl (done ++ frontier) H /\ closed_heads H Rf.
Proof.
  induction fuel as [|n IH]; intros done frontier exits Rf Hf Hinv; simpl in Hf; [discriminate|].
  destruct frontier as [|f0 fr].
  - inversion Hf; subst; clear Hf. exists done. split; [rewrite app_nil_r; apply incl_refl|].
    intros h Hh. split.
    + apply in_or_app. left. apply with_out_In. auto.
    + intros o s' Hev. specialize (Hinv h Hh o s' Hev). rewrite app_nil_r in Hinv.
      destruct (is_norm o); [assumption|]. apply in_or_app. right. assumption.
  - set (frontier := f0 :: fr) in *.
    destruct (body frontier) as [R|] eqn:ER; [|discriminate].
    apply IH in Hf.
    + destruct Hf as [H [Hi Hc]]. exists H. split; [|assumption].
      intros x Hx. apply Hi. apply in_or_app. left. assumption.
    + intros h Hh o s' Hev. apply in_app_or in Hh. destruct Hh as [Hh|Hh].
      * specialize (Hinv h Hh o s' Hev). destruct (is_norm o).
        -- apply in_or_app. left. assumption.
        -- apply dedup_os_In. apply in_or_app. left. assumption.
      * pose proof (body_sound _ _ ER _ _ _ Hh Hev) as Hin.
        destruct (is_norm o) eqn:Eo.
        -- destruct o; try discriminate.
           apply norm_states_In in Hin.
           apply (fresh_st_In (done ++ frontier)) in Hin.
           apply in_or_app. destruct Hin; auto.
        -- apply dedup_os_In. apply in_or_app. right. apply abrupt_In. auto.
Qed.

Lemma loop_sound : forall H Rf,
  closed_heads H Rf ->
  forall s o s', eval C c (Loop b) s o s' -> In s H -> In (o, s') Rf.
Proof.
  intros H Rf Hc s o s' Hev.
  remember (Loop b) as p eqn:Ep. remember c as c0 eqn:Ec.
  induction Hev; intros Hin; try discriminate; inversion Ep; subst.
  - apply Hc. assumption.
  - destruct (Hc _ Hin) as [_ Hall].
    pose proof (Hall _ _ Hev1) as H1. simpl in H1. apply IHHev2; auto.
  - destruct (Hc _ Hin) as [_ Hall].
    pose proof (Hall _ _ Hev) as H1. rewrite H0 in H1. assumption.
Qed.
End Loops.

(** * Main theorem *)

Section Sound.
Variable C : cfg.
Variable fuel : nat.

Lemma faults_of_before : forall o k s, mf C o = true -> fk C k = true ->
  In (ORaise k, fault o k s) (faults_of C false o s).
Proof.
  intros o k s Hm Hk. unfold faults_of. rewrite Hm. simpl.
  destruct k.
  - rewrite Hk. simpl. auto.
  - apply in_or_app. right. rewrite Hk. simpl. auto.
Qed.

Lemma faults_of_after : forall o k s, mf C o = true -> fk C k = true ->
  In (ORaise k, fault o k (eff o s)) (faults_of C false o s).
Proof.
  intros o k s Hm Hk. unfold faults_of. rewrite Hm. simpl.
  destruct k.
  - rewrite Hk. simpl. auto.
  - apply in_or_app. right. rewrite Hk. simpl. auto.
Qed.

Lemma fin_run_sound : forall c f (ex : list st -> option res_t) Rb o R,
  (forall S R, ex S = Some R -> forall s o s', In s S -> eval C c f s o s' -> In (o, s') R) ->
  fin_run ex Rb o = Some R ->
  forall s1 o' s2, In (o, s1) Rb -> eval C c f s1 o' s2 -> In (after_finally o o', s2) R.
Proof.
  intros c f ex Rb o R Hex Hr s1 o' s2 Hin Hev. unfold fin_run in Hr.
  destruct (ex (dedup_st (states_with o Rb))) as [Rf|] eqn:E; [|discriminate].
  inversion Hr; subst. apply in_map_iff. exists (o', s2). split; [reflexivity|].
  eapply Hex; [eassumption| |eassumption].
  apply dedup_st_In. apply states_with_In. assumption.
Qed.

Lemma some_inj : forall {A} (a b : A), Some a = Some b -> b = a.
Proof. intros A a b H. inversion H. reflexivity. Qed.

Theorem exec_sound : forall p c S R,
  exec C fuel c p S = Some R ->
  forall s o s', In s S -> eval C c p s o s' -> In (o, s') R.
Proof.
  induction p; intros c S R Hex s o0 s' Hin Hev;
    (destruct S as [|s0 S0]; [destruct Hin|]); cbn [exec] in Hex;
    set (S := s0 :: S0) in *.
  - (* Skip *) inversion Hev; subst. apply some_inj in Hex; subst R. apply with_out_In. auto.
  - (* Op *) apply some_inj in Hex; subst R. apply dedup_os_In. apply in_flat_map.
    exists s. split; [assumption|]. inversion Hev; subst.
    + simpl; auto.
    + right. apply faults_of_before; assumption.
    + right. apply faults_of_after; assumption.
  - (* Seq *)
    destruct (exec C fuel c p1 S) as [Ra|] eqn:Ea; [|discriminate].
    destruct (exec C fuel c p2 (dedup_st (norm_states Ra))) as [Rb|] eqn:Eb; [|discriminate].
    apply some_inj in Hex; subst R. apply dedup_os_In. apply in_or_app.
    inversion Hev; subst.
    + right. eapply IHp2; [eassumption| |eassumption].
      apply dedup_st_In. apply norm_states_In. eapply IHp1; eassumption.
    + left. apply abrupt_In. split; [|assumption]. eapply IHp1; eassumption.
  - (* Choice *)
    destruct (exec C fuel c p1 S) as [Ra|] eqn:Ea; [|discriminate].
    destruct (exec C fuel c p2 S) as [Rb|] eqn:Eb; [|discriminate].
    apply some_inj in Hex; subst R. apply dedup_os_In. apply in_or_app.
    inversion Hev; subst.
    + left. eapply IHp1; eassumption.
    + right. eapply IHp2; eassumption.
  - (* Loop *)
    destruct (loop_fix_spec C c p (exec C fuel c p) (fun S R => IHp c S R) _ _ _ _ _ Hex) as [H [Hi Hc]].
    + intros h [].
    + eapply (loop_sound C c p (exec C fuel c p) (fun S R => IHp c S R)); try eassumption.
      apply Hi. simpl. apply dedup_st_In. assumption.
  - (* TryFinally *)
    destruct (exec C fuel c p1 S) as [Rb|] eqn:Eb; [|discriminate].
    cbv zeta in Hex.
    destruct (fin_run (exec C fuel (c || prot) p2) Rb ONorm) as [R1|] eqn:E1; [|discriminate].
    destruct (fin_run (exec C fuel (c || prot) p2) Rb ORet) as [R2|] eqn:E2; [|discriminate].
    destruct (fin_run (exec C fuel (c || prot) p2) Rb (ORaise KI)) as [R3|] eqn:E3; [|discriminate].
    destruct (fin_run (exec C fuel (c || prot) p2) Rb (ORaise Exc)) as [R4|] eqn:E4; [|discriminate].
    apply some_inj in Hex; subst R. apply dedup_os_In. rewrite !in_app_iff.
    inversion Hev; subst.
    match goal with Hb : eval C c p1 s ?o ?s1, Hf : eval C (c || prot) p2 ?s1 ?o' s' |- _ =>
      pose proof (IHp1 _ _ _ Eb _ _ _ Hin Hb) as HinB;
      pose proof (fun R E => fin_run_sound (c || prot) p2 _ Rb o R (fun S R => IHp2 (c || prot) S R) E _ _ _ HinB Hf) as HR;
      destruct o as [| |[|]]
    end.
    + left. apply HR. assumption.
    + right; left. apply HR. assumption.
    + right; right; left. apply HR. assumption.
    + right; right; right. apply HR. assumption.
  - (* TryExcept *)
    destruct (exec C fuel c p1 S) as [Rb|] eqn:Eb; [|discriminate].
    cbv zeta in Hex.
    match type of Hex with
    | match ?X with _ => _ end = _ => destruct X as [RK|] eqn:EK; [|discriminate]
    end.
    match type of Hex with
    | match ?X with _ => _ end = _ => destruct X as [RE|] eqn:EE; [|discriminate]
    end.
    apply some_inj in Hex; subst R. apply dedup_os_In. rewrite !in_app_iff.
    inversion Hev; subst.
    + (* pass *) left. apply filter_In. split; [eapply IHp1; eassumption|].
      simpl. destruct o0 as [| |k]; simpl; auto.
      match goal with Hn : forall k, _ <> _ |- _ => exfalso; eapply Hn; reflexivity end.
    + (* caught KI *)
      right; right; right; left.
      match goal with Hc : may_catch mk = true |- _ => rewrite Hc in EK end.
      eapply IHp2; [eassumption| |eassumption].
      apply dedup_st_In. apply states_with_In. eapply IHp1; eassumption.
    + (* caught Exc *)
      right; right; right; right.
      match goal with Hc : may_catch me = true |- _ => rewrite Hc in EE end.
      eapply IHp3; [eassumption| |eassumption].
      apply dedup_st_In. apply states_with_In. eapply IHp1; eassumption.
    + (* missed KI *)
      right; left.
      match goal with Hc : may_miss mk = true |- _ => rewrite Hc end.
      apply with_out_In. split; [reflexivity|].
      apply dedup_st_In. apply states_with_In. eapply IHp1; eassumption.
    + (* missed Exc *)
      right; right; left.
      match goal with Hc : may_miss me = true |- _ => rewrite Hc end.
      apply with_out_In. split; [reflexivity|].
      apply dedup_st_In. apply states_with_In. eapply IHp1; eassumption.
  - (* Raise *) inversion Hev; subst. apply some_inj in Hex; subst R. apply with_out_In. auto.
  - (* Return *) inversion Hev; subst. apply some_inj in Hex; subst R. apply with_out_In. auto.
  - (* IfVar *)
    match type of Hex with
    | match ?X with _ => _ end = _ => destruct X as [Ra|] eqn:Ea; [|discriminate]
    end.
    match type of Hex with
    | match ?X with _ => _ end = _ => destruct X as [Rb|] eqn:Eb; [|discriminate]
    end.
    apply some_inj in Hex; subst R. apply dedup_os_In. apply in_or_app.
    inversion Hev; subst.
    + left. eapply IHp1; [eassumption| |eassumption]. apply filter_In. auto.
    + right. eapply IHp2; [eassumption| |eassumption]. apply filter_In. split; [assumption|].
      apply negb_true_iff. assumption.
  - (* SetVar *) inversion Hev; subst. apply some_inj in Hex; subst R. apply dedup_os_In.
    apply in_map_iff. exists s. auto.
  - (* Call *)
    destruct (exec C fuel c p S) as [R'|] eqn:Ep; [|discriminate].
    apply some_inj in Hex; subst R. inversion Hev; subst. apply dedup_os_In.
    apply in_map_iff. match goal with Hp : eval C c p s ?o s' |- _ => exists (o, s') end.
    split; [reflexivity|]. eapply IHp; eassumption.
Qed.

End Sound.

Lemma all_vals_complete : forall n vs, length vs = n -> In vs (all_vals n).
Proof.
  induction n as [|n IH]; intros vs H.
  - destruct vs; [simpl; auto|discriminate].
  - destruct vs as [|v vs]; [discriminate|]. simpl in H. injection H as H.
    simpl. apply in_flat_map. exists vs. split; [apply IH; assumption|].
    destruct v; simpl; auto.
Qed.

(** [analyze] is sound: its post-condition holds of every run from a clean state, for
    every valuation of the tracked booleans at entry, every path, every iteration count
    and a fault (of a kind the configuration allows) at any call the configuration allows,
    before or after the call takes effect, outside the clean-up blocks. *)
Theorem analyze_sound : forall C nv p post,
  analyze C nv p post = true ->
  forall vs, length vs = nv ->
  forall o s', eval C false p (init vs) o s' -> post o s' = true.
Proof.
  intros C nv p post Ha vs Hl o s' Hev.
  unfold analyze in Ha.
  destruct (exec C default_fuel false p (map init (all_vals nv))) as [R|] eqn:E; [|discriminate].
  rewrite forallb_forall in Ha.
  apply (Ha (o, s')). eapply exec_sound; [eassumption| |eassumption].
  apply in_map. apply all_vals_complete. assumption.
Qed.
