(** * Term — token-level terminal semantics (specification side of C01 C02 C05 C06 C07 C17)

    The terminal is modelled on an unbounded plane of cells addressed by integer
    (virtual row, logical column) with a *monotone event log*: [exec] never looks at the
    screen size, so it commutes exactly with translations ([TermFacts.exec_shift]).
    Whether an execution stayed on a [W x H] screen — never wrapped at the right margin,
    never moved the cursor outside, scrolled only by line feeds at the bottom — is a
    separate predicate over the log ([fits]).  For executions that fit, the plane
    semantics is what an xterm/VT-style terminal does, with the logical column [W]
    standing for "at the right margin, wrap pending / clamped" (physical column
    [min col (W-1)]).  These conventions (deferred wrap, [LF] under [ONLCR] returning to
    the left margin, CUU/CUD/CUF/CUB with parameter 0 meaning 1, ECH, SGR direct colour,
    DECTCEM, mode 2026, the kitty graphics subset [a=T C=1 c r z m], [a=d], the iTerm2
    inline-image protocol with the cursor ending on the image's last row just right of
    it unless [doNotMoveCursor=1], string-state swallowing until ST) are the ones the
    library's own comments assume; they are specification, not implementation.

    [lm] (left margin) generalises "column 0": on a real terminal [lm = 0]; quantifying
    over [lm] expresses "any cursor position where it fits" for outputs containing LF. *)

From Coq Require Import List ZArith Bool Lia.
Import ListNotations.
Open Scope Z_scope.

(** ** Tokens *)

Inductive glyph := GSpace | GUpper | GLower | GOther (code : Z).
Definition rgb := (Z * Z * Z)%type.

Record kitty_keys := {
  kk_cols : Z;      (* c= *)
  kk_rows : Z;      (* r= *)
  kk_z : Z;         (* z= *)
  kk_stay : bool    (* C=1 *)
}.

Inductive kitty_del := DelAll | DelCursor | DelZ (z : Z).
Inductive cut_kind := CutCsi | CutOsc | CutApc.

Inductive tok :=
| TChar (g : glyph)
| TNul                                   (* ignored by terminals *)
| TCR | TLF
| TSgr0 | TFg (c : rgb) | TBg (c : rgb)
| TCuu (n : Z) | TCud (n : Z) | TCuf (n : Z) | TCub (n : Z)
| TEch (n : Z)
| THide | TShow | TSyncB | TSyncE
| TKittyFirst (k : kitty_keys) (more : bool) (plen : Z)   (* a=T, first chunk, m=more *)
| TKittyCont (more : bool) (plen : Z)                     (* continuation chunk *)
| TKittyEnd                                               (* q=1,m=0 with empty payload *)
| TKittyDel (d : kitty_del)
| TIterm (w h : Z) (dnmc : bool) (size plen : Z)          (* OSC 1337 File=...:payload ST *)
| TSt                                                     (* stray string terminator *)
| TCut (k : cut_kind).                                    (* sequence cut by an interrupted write *)

(** ** State *)

Record attrs := { fg : option rgb; bg : option rgb }.
Definition adefault : attrs := {| fg := None; bg := None |}.

Inductive pstate := Ground | InCsi | InStr.

Inductive ev :=
| EText (r c : Z) (g : glyph) (a : attrs)          (* a glyph written into a cell *)
| EErase (r c : Z) (a : attrs)                     (* a cell erased (ECH), one event per cell *)
| EImg (r c h w : Z) (z : Z)                       (* an image placed over h x w cells *)
| EDel (d : kitty_del) (r c : Z)                   (* a kitty delete command, cursor at (r,c) *)
| EMove (r c : Z)                                  (* target of a cursor movement *)
| EGarbled.                                        (* protocol state abused *)

Record term := {
  row : Z; col : Z;
  sgr : attrs;
  visible : bool;
  synced : bool;
  parser : pstate;
  pending : option kitty_keys;        (* chunked kitty transmission in progress *)
  log : list ev                       (* newest LAST *)
}.

Definition origin : term :=
  {| row := 0; col := 0; sgr := adefault; visible := true; synced := false;
     parser := Ground; pending := None; log := [] |}.

Definition set_pos (t : term) (r c : Z) : term :=
  {| row := r; col := c; sgr := sgr t; visible := visible t; synced := synced t;
     parser := parser t; pending := pending t; log := log t |}.
Definition set_sgr (t : term) (a : attrs) : term :=
  {| row := row t; col := col t; sgr := a; visible := visible t; synced := synced t;
     parser := parser t; pending := pending t; log := log t |}.
Definition set_parser (t : term) (p : pstate) : term :=
  {| row := row t; col := col t; sgr := sgr t; visible := visible t; synced := synced t;
     parser := p; pending := pending t; log := log t |}.
Definition set_pending (t : term) (p : option kitty_keys) : term :=
  {| row := row t; col := col t; sgr := sgr t; visible := visible t; synced := synced t;
     parser := parser t; pending := p; log := log t |}.
Definition set_visible (t : term) (b : bool) : term :=
  {| row := row t; col := col t; sgr := sgr t; visible := b; synced := synced t;
     parser := parser t; pending := pending t; log := log t |}.
Definition set_synced (t : term) (b : bool) : term :=
  {| row := row t; col := col t; sgr := sgr t; visible := visible t; synced := b;
     parser := parser t; pending := pending t; log := log t |}.
Definition emit (t : term) (es : list ev) : term :=
  {| row := row t; col := col t; sgr := sgr t; visible := visible t; synced := synced t;
     parser := parser t; pending := pending t; log := log t ++ es |}.

Definition pos1 (n : Z) : Z := Z.max n 1.   (* parameter 0 (or absent) means 1 *)

(** [n] erased cells starting at (r, c) *)
Fixpoint erase_evs (r c : Z) (a : attrs) (n : nat) : list ev :=
  match n with
  | O => []
  | S k => EErase r c a :: erase_evs r (c + 1) a k
  end.

Definition place (t : term) (k : kitty_keys) : term :=
  let t1 := emit t [EImg (row t) (col t) (kk_rows k) (kk_cols k) (kk_z k)] in
  if kk_stay k then t1
  else (* C=0: cursor moves right of the image on its last row (unused by the library) *)
    emit (set_pos t1 (row t + kk_rows k - 1) (col t + kk_cols k))
         [EMove (row t + kk_rows k - 1) (col t + kk_cols k)].

(** A token that starts with ESC ends a cut control sequence; C0 controls are executed
    inside it; anything else is swallowed as its final byte with unknown meaning. *)
Definition is_esc_seq (x : tok) : bool :=
  match x with
  | TChar _ | TNul | TCR | TLF => false
  | _ => true
  end.

Definition step_ground (lm : Z) (t : term) (x : tok) : term :=
  match x with
  | TChar g => set_pos (emit t [EText (row t) (col t) g (sgr t)]) (row t) (col t + 1)
  | TNul => t
  | TCR => emit (set_pos t (row t) lm) [EMove (row t) lm]
  | TLF => emit (set_pos t (row t + 1) lm) [EMove (row t + 1) lm]
  | TSgr0 => set_sgr t adefault
  | TFg c => set_sgr t {| fg := Some c; bg := bg (sgr t) |}
  | TBg c => set_sgr t {| fg := fg (sgr t); bg := Some c |}
  | TCuu n => emit (set_pos t (row t - pos1 n) (col t)) [EMove (row t - pos1 n) (col t)]
  | TCud n => emit (set_pos t (row t + pos1 n) (col t)) [EMove (row t + pos1 n) (col t)]
  | TCuf n => emit (set_pos t (row t) (col t + pos1 n)) [EMove (row t) (col t + pos1 n)]
  | TCub n => emit (set_pos t (row t) (col t - pos1 n)) [EMove (row t) (col t - pos1 n)]
  | TEch n => emit t (erase_evs (row t) (col t) (sgr t) (Z.to_nat (pos1 n)))
  | THide => set_visible t false
  | TShow => set_visible t true
  | TSyncB => set_synced t true
  | TSyncE => set_synced t false
  | TKittyFirst k more _ =>
    match pending t with
    | Some _ => emit t [EGarbled]                 (* a new command inside a chunked one *)
    | None => if more then set_pending t (Some k) else place t k
    end
  | TKittyCont more _ =>
    match pending t with
    | None => emit t [EGarbled]
    | Some k => if more then t else place (set_pending t None) k
    end
  | TKittyEnd => set_pending t None               (* incomplete data: nothing is shown *)
  | TKittyDel d => emit t [EDel d (row t) (col t)]
  | TIterm w h dnmc _ _ =>
    let t1 := emit t [EImg (row t) (col t) h w 0] in
    if dnmc then t1
    else emit (set_pos t1 (row t + h - 1) (col t + w)) [EMove (row t + h - 1) (col t + w)]
  | TSt => t
  | TCut CutCsi => set_parser t InCsi
  | TCut _ => set_parser t InStr
  end.

Definition step (lm : Z) (t : term) (x : tok) : term :=
  match parser t with
  | Ground => step_ground lm t x
  | InCsi =>
    if is_esc_seq x then step_ground lm (set_parser t Ground) x
    else match x with
         | TChar _ => set_parser (emit t [EGarbled]) Ground
         | _ => step_ground lm t x         (* C0 control: executed, sequence still open *)
         end
  | InStr =>
    match x with
    | TSt => set_parser t Ground
    | _ => t                                (* swallowed *)
    end
  end.

Definition exec (lm : Z) (t : term) (ts : list tok) : term := fold_left (step lm) ts t.

(** ** Geometry of events *)

(** event [e] lies inside the [h x w] rectangle at (r0, c0); cursor movements may rest on
    the column just right of it (the logical "one past" column) *)
Definition ev_inside (r0 c0 h w : Z) (e : ev) : bool :=
  match e with
  | EText r c _ _ | EErase r c _ | EDel _ r c =>
    (r0 <=? r) && (r <? r0 + h) && (c0 <=? c) && (c <? c0 + w)
  | EImg r c h' w' _ =>
    (r0 <=? r) && (r + h' <=? r0 + h) && (c0 <=? c) && (c + w' <=? c0 + w)
    && (0 <? h') && (0 <? w')
  | EMove r c => (r0 <=? r) && (r <? r0 + h) && (c0 <=? c) && (c <=? c0 + w)
  | EGarbled => false
  end.

(** event [e] determines the content of cell (r, c) *)
Definition ev_covers (r c : Z) (e : ev) : bool :=
  match e with
  | EText r' c' _ _ | EErase r' c' _ => (r' =? r) && (c' =? c)
  | EImg r' c' h w _ => (r' <=? r) && (r <? r' + h) && (c' <=? c) && (c <? c' + w)
  | _ => false
  end.

Definition covered (evs : list ev) (r c : Z) : bool := existsb (ev_covers r c) evs.

(** The execution stayed on a [W x H] screen whose top line is virtual row [top]:
    nothing written at or beyond column [W] (no wrap), no cursor excursion outside,
    no line feed past the bottom line (no scrolling). *)
Definition fits_noscroll (W H top : Z) (evs : list ev) : bool :=
  forallb (ev_inside top 0 H W) evs.

(** text-layer content of a cell: the last glyph or erasure that hit it *)
Inductive cellview := VNone | VGlyph (g : glyph) (a : attrs) | VBlank (a : attrs).
Fixpoint view_from (acc : cellview) (evs : list ev) (r c : Z) : cellview :=
  match evs with
  | [] => acc
  | EText r' c' g a :: rest =>
    view_from (if (r' =? r) && (c' =? c) then VGlyph g a else acc) rest r c
  | EErase r' c' a :: rest =>
    view_from (if (r' =? r) && (c' =? c) then VBlank a else acc) rest r c
  | _ :: rest => view_from acc rest r c
  end.
Definition view (evs : list ev) (r c : Z) : cellview := view_from VNone evs r c.

(** what a direct-colour terminal shows in the two halves of a cell:
    (upper colour, lower colour) *)
Inductive colour :=
| CBg0                 (* the terminal's own background *)
| CFg0                 (* the terminal's default foreground *)
| CRgb (c : rgb).
Definition bgc (a : attrs) : colour := match bg a with Some c => CRgb c | None => CBg0 end.
Definition fgc (a : attrs) : colour := match fg a with Some c => CRgb c | None => CFg0 end.

Definition visual (v : cellview) : option (colour * colour) :=
  match v with
  | VNone => None
  | VBlank a => Some (bgc a, bgc a)
  | VGlyph GSpace a => Some (bgc a, bgc a)
  | VGlyph GUpper a => Some (fgc a, bgc a)
  | VGlyph GLower a => Some (bgc a, fgc a)
  | VGlyph (GOther _) a => Some (bgc a, bgc a)    (* a non-block glyph: background only *)
  end.

(** ** Counting newlines *)
Definition is_lf (x : tok) : bool := match x with TLF => true | _ => false end.
Definition count_lf (ts : list tok) : nat := length (filter is_lf ts).
