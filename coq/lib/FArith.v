(** Float interface of the sizing model (DESIGN 3.4).

    [FloatArith] is the signature of the handful of binary64 operations that
    [BaseImage._valid_size] performs; the sizing model (model/Sizing.v) is generic over
    it.  [StandardModel FA] says what the theorems of C04 assume about those
    operations: the IEEE-754 "standard model" of round-to-nearest arithmetic, stated
    over [Q] (no reals, no axioms):

      - every finite float [a] has an exact rational value [val a];
      - an operation returns the rounding [rnd] of the exact result, provided that
        result is far from overflow ([<= 2^200]; binary64 reaches [2^1023]);
      - [rnd] is monotone, is the identity on [m * 2^e] with [|m| <= 2^53] (hence on
        the integers up to [2^53] and on their halves) and on every float value, and
        has relative error [<= 2^-53] on [2^-200 <= |x| <= 2^200] (binary64 is normal
        down to [2^-1022]);
      - comparisons are those of the values; [round()] / [math.ceil()] are the exact
        integer functions of the value (round-half-even, ceiling).

    The instance that the correspondence executes is lib/FPrim.v (Coq's primitive
    binary64 floats, bit-exact with CPython's).  That this instance satisfies
    [StandardModel] is IEEE-754; it is ASSUMED (named in the trusted base), not proved. *)
From Coq Require Import ZArith QArith Qround Qabs.

Record FloatArith : Type := {
  F : Type;
  ofZ : Z -> F;              (* int -> float conversion (exact below 2^53) *)
  fmul : F -> F -> F;
  fdiv : F -> F -> F;
  fltb : F -> F -> bool;
  fleb : F -> F -> bool;
  fround : F -> Z;           (* Python round(x): nearest integer, ties to even *)
  fceil : F -> Z             (* math.ceil(x) *)
}.

Arguments ofZ {_} _.
Arguments fmul {_} _ _.
Arguments fdiv {_} _ _.
Arguments fltb {_} _ _.
Arguments fleb {_} _ _.
Arguments fround {_} _.
Arguments fceil {_} _.

(** Python's [min(a, b)]: [b] if [b < a] else [a] *)
Definition fmin {FA : FloatArith} (a b : F FA) : F FA := if fltb b a then b else a.

(** round-half-even of a rational, exactly *)
Definition rhe (x : Q) : Z :=
  let f := Qfloor x in
  match Qcompare (x - inject_Z f) (1 # 2) with
  | Lt => f
  | Gt => (f + 1)%Z
  | Eq => if Z.even f then f else (f + 1)%Z
  end.

Definition ulp_rel : Q := 1 # (2 ^ 53).          (* unit roundoff 2^-53 *)
Definition fbig : Q := inject_Z (2 ^ 200).
Definition fsmall : Q := 1 # (2 ^ 200).

Record StandardModel (FA : FloatArith) : Type := {
  finite : F FA -> Prop;
  val : F FA -> Q;
  rnd : Q -> Q;
  rnd_comp : forall x y, x == y -> rnd x == rnd y;
  rnd_mono : forall x y, x <= y -> rnd x <= rnd y;
  rnd_repr : forall m e, (Z.abs m <= 2 ^ 53)%Z -> (-200 <= e <= 200)%Z ->
             rnd (inject_Z m * 2 ^ e) == inject_Z m * 2 ^ e;
  rnd_err : forall x, fsmall <= Qabs x -> Qabs x <= fbig ->
            Qabs (rnd x - x) <= ulp_rel * Qabs x;
  rnd_val : forall a, finite a -> rnd (val a) == val a;
  ofZ_ok : forall z, (Z.abs z <= 2 ^ 53)%Z ->
           finite (ofZ z) /\ val (ofZ z) == inject_Z z;
  mul_ok : forall a b, finite a -> finite b -> Qabs (val a * val b) <= fbig ->
           finite (fmul a b) /\ val (fmul a b) == rnd (val a * val b);
  div_ok : forall a b, finite a -> finite b -> ~ val b == 0 ->
           Qabs (val a / val b) <= fbig ->
           finite (fdiv a b) /\ val (fdiv a b) == rnd (val a / val b);
  ltb_ok : forall a b, finite a -> finite b -> (fltb a b = true <-> val a < val b);
  leb_ok : forall a b, finite a -> finite b -> (fleb a b = true <-> val a <= val b);
  round_ok : forall a, finite a -> fround a = rhe (val a);
  ceil_ok : forall a, finite a -> fceil a = Qceiling (val a)
}.

Arguments finite {_} _ _.
Arguments val {_} _ _.
Arguments rnd {_} _ _.
Arguments rnd_comp {_} _.
Arguments rnd_mono {_} _.
Arguments rnd_repr {_} _.
Arguments rnd_err {_} _.
Arguments rnd_val {_} _.
Arguments ofZ_ok {_} _.
Arguments mul_ok {_} _.
Arguments div_ok {_} _.
Arguments ltb_ok {_} _.
Arguments leb_ok {_} _.
Arguments round_ok {_} _.
Arguments ceil_ok {_} _.
