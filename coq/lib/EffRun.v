(** A deterministic runner for effect skeletons, used for NON-VACUITY examples that do not
    depend on the shape of the translated source: it follows one path (at a [Choice] the branch that
    completes normally or takes the fault, left first; zero iterations of every [Loop], handlers that may catch do catch), injects one
    fault at the n-th call at which a fault is allowed, and records whether an
    "interesting" intermediate state was visited.  [rund_eval]: what it computes is a run
    of the semantics of [Eff.v]. *)
From Coq Require Import List Bool Arith.
Import ListNotations.
From TI Require Import lib.Eff.

Record rres := mkr { ro : outcome; rs : st; rn : option nat; rseen : bool }.

Section Run.
Variable C : cfg.
Variable k : exn.          (* kind of the injected fault *)
Variable aft : bool.       (* inject after the call took effect *)
Variable w : st -> bool.   (* interesting states *)

Definition faulted (n n' : option nat) : bool :=
  match n, n' with Some _, None => true | _, _ => false end.

Fixpoint rund (c : bool) (p : prog) (n : option nat) (s : st) (seen : bool) : rres :=
  match p with
  | Skip => mkr ONorm s n seen
  | Op o =>
      match n with
      | Some 0 =>
          if negb c && mf C o && fk C k then
            let s1 := if aft then eff o s else s in
            mkr (ORaise k) (fault o k s1) None (seen || w s1)
          else mkr ONorm (eff o s) n (seen || w (eff o s))
      | Some (S m) =>
          if negb c && mf C o && fk C k then mkr ONorm (eff o s) (Some m) (seen || w (eff o s))
          else mkr ONorm (eff o s) n (seen || w (eff o s))
      | None => mkr ONorm (eff o s) None (seen || w (eff o s))
      end
  | Seq a b =>
      let r := rund c a n s seen in
      if is_norm (ro r) then rund c b (rn r) (rs r) (rseen r) else r
  | Choice a b =>
      (* prefer a branch that completes normally (or in which the fault is injected) *)
      let ra := rund c a n s seen in
      if is_norm (ro ra) || faulted n (rn ra) then ra
      else
        let rb := rund c b n s seen in
        if is_norm (ro rb) || faulted n (rn rb) then rb else ra
  | Loop _ => mkr ONorm s n seen
  | TryFinally prot b f =>
      let r := rund c b n s seen in
      let r' := rund (c || prot) f (rn r) (rs r) (rseen r) in
      mkr (after_finally (ro r) (ro r')) (rs r') (rn r') (rseen r')
  | TryExcept prot b mk hk me he =>
      let r := rund c b n s seen in
      match ro r with
      | ORaise KI => if may_catch mk then rund (c || prot) hk (rn r) (rs r) (rseen r) else r
      | ORaise Exc => if may_catch me then rund (c || prot) he (rn r) (rs r) (rseen r) else r
      | _ => r
      end
  | Raise k' => mkr (ORaise k') s n seen
  | Return => mkr ORet s n seen
  | IfVar x a b => if get x (vars s) then rund c a n s seen else rund c b n s seen
  | SetVar x v => mkr ONorm (set_vars (upd x v (vars s)) s) n seen
  | Call q => let r := rund c q n s seen in mkr (after_call (ro r)) (rs r) (rn r) (rseen r)
  end.

Lemma no_catch_miss : forall m, may_catch m = false -> may_miss m = true.
Proof. destruct m; simpl; auto; discriminate. Qed.

Theorem rund_eval : forall p c n s seen,
  eval C c p s (ro (rund c p n s seen)) (rs (rund c p n s seen)).
Proof.
  induction p; intros c n s seen; simpl.
  - constructor.
  - destruct n as [[|m]|]; simpl.
    + destruct (negb c && mf C o && fk C k) eqn:E; simpl; [|constructor].
      apply andb_true_iff in E. destruct E as [E E3]. apply andb_true_iff in E. destruct E as [E1 E2].
      apply negb_true_iff in E1. subst c. destruct aft.
      * apply E_FaultAfter; assumption.
      * apply E_FaultBefore; assumption.
    + destruct (negb c && mf C o && fk C k); simpl; constructor.
    + constructor.
  - destruct (is_norm (ro (rund c p1 n s seen))) eqn:E.
    + eapply E_SeqN; [|apply IHp2].
      specialize (IHp1 c n s seen). destruct (ro (rund c p1 n s seen)); try discriminate. exact IHp1.
    + apply E_SeqA; [apply IHp1|assumption].
  - destruct (is_norm (ro (rund c p1 n s seen)) || faulted n (rn (rund c p1 n s seen))).
    + apply E_ChoiceL. apply IHp1.
    + destruct (is_norm (ro (rund c p2 n s seen)) || faulted n (rn (rund c p2 n s seen))).
      * apply E_ChoiceR. apply IHp2.
      * apply E_ChoiceL. apply IHp1.
  - constructor.
  - eapply E_Finally; [apply IHp1|apply IHp2].
  - specialize (IHp1 c n s seen).
    destruct (ro (rund c p1 n s seen)) as [| |[|]] eqn:E.
    + apply E_ExceptPass; [rewrite E; exact IHp1 | rewrite E; intros k0; discriminate].
    + apply E_ExceptPass; [rewrite E; exact IHp1 | rewrite E; intros k0; discriminate].
    + destruct (may_catch mk) eqn:Em.
      * eapply E_ExceptKI; [exact IHp1|assumption|apply IHp2].
      * rewrite E. apply E_MissKI; [exact IHp1|apply no_catch_miss; assumption].
    + destruct (may_catch me) eqn:Em.
      * eapply E_ExceptExc; [exact IHp1|assumption|apply IHp3].
      * rewrite E. apply E_MissExc; [exact IHp1|apply no_catch_miss; assumption].
  - constructor.
  - constructor.
  - destruct (get x (vars s)) eqn:E.
    + apply E_IfT; [assumption|apply IHp1].
    + apply E_IfF; [assumption|apply IHp2].
  - constructor.
  - apply E_Call. apply IHp.
Qed.
End Run.

(** some fault position n < bound gives a run ending with outcome [o] in a state satisfying
    [fin], having visited a state satisfying [w] *)
Definition witness (C : cfg) (k : exn) (aft : bool) (w fin : st -> bool) (o : outcome) (p : prog) (vs : list bool)
  (bound : nat) : bool :=
  existsb (fun n =>
    let r := rund C k aft w false p (Some n) (init vs) false in
    out_eqb (ro r) o && rseen r && fin (rs r) && match rn r with None => true | Some _ => false end)
    (seq 0 bound).

Lemma witness_run : forall C k aft w fin o p vs bound,
  witness C k aft w fin o p vs bound = true ->
  exists s', eval C false p (init vs) o s' /\ fin s' = true.
Proof.
  intros C k aft w fin o p vs bound H. unfold witness in H. apply existsb_exists in H.
  destruct H as [n [_ H]]. repeat (apply andb_true_iff in H; destruct H as [H ?]).
  exists (rs (rund C k aft w false p (Some n) (init vs) false)). split; [|assumption].
  assert (E : ro (rund C k aft w false p (Some n) (init vs) false) = o).
  { destruct (ro (rund C k aft w false p (Some n) (init vs) false)) as [| |[|]], o as [| |[|]]; simpl in H; try discriminate; reflexivity. }
  rewrite <- E. apply rund_eval.
Qed.
