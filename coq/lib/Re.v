(** Extended regular expressions over a finite class alphabet (DESIGN §3.3).

    Letters are class indices [0 .. n-1] ([nat]); a character set is a bit mask ([N],
    bit [c] set = class [c] belongs to the set).  [lang] is the denotational meaning
    (the specification); [deriv] is the Brzozowski derivative with smart constructors
    (ACI-normalised [Alt]/[And], unit/zero laws) and [matches] runs it.  [closed] is the
    *certificate checker* for language equivalence: a list of pairs that agree on
    nullability and is closed under derivatives for every letter is a bisimulation.
    [explore] (the search that produces the certificate) and [distinguish] (BFS for a
    shortest word on which two expressions differ) are untrusted helpers: nothing is
    proved about them, only [closed] is (ReSound.v).  Definitions only. *)
From Coq Require Import List Bool Arith NArith.
Import ListNotations.

Inductive re : Type :=
| Emp                      (* no word *)
| Eps                      (* the empty word *)
| Chr (s : N)              (* one letter of the set s *)
| Cat (r s : re)
| Alt (r s : re)
| Star (r : re)
| And (r s : re)           (* intersection *)
| Not (r : re).            (* complement *)

Definition in_set (s : N) (c : nat) : bool := N.testbit s (N.of_nat c).

(** ** Denotational semantics (the specification of "w is a sentence of r") *)
Inductive star_l (L : list nat -> Prop) : list nat -> Prop :=
| star_nil : star_l L []
| star_app : forall u v, L u -> star_l L v -> star_l L (u ++ v).

Fixpoint lang (r : re) (w : list nat) : Prop :=
  match r with
  | Emp => False
  | Eps => w = []
  | Chr s => exists c, w = [c] /\ in_set s c = true
  | Cat r s => exists u v, w = u ++ v /\ lang r u /\ lang s v
  | Alt r s => lang r w \/ lang s w
  | Star r => star_l (lang r) w
  | And r s => lang r w /\ lang s w
  | Not r => ~ lang r w
  end.

(** ** A total order on expressions, used only to normalise sums and intersections *)
Definition rank (r : re) : nat :=
  match r with
  | Emp => 0 | Eps => 1 | Chr _ => 2 | Cat _ _ => 3 | Alt _ _ => 4
  | Star _ => 5 | And _ _ => 6 | Not _ => 7
  end.

Fixpoint re_cmp (r s : re) : comparison :=
  match r, s with
  | Chr a, Chr b => N.compare a b
  | Cat a b, Cat c d => match re_cmp a c with Eq => re_cmp b d | x => x end
  | Alt a b, Alt c d => match re_cmp a c with Eq => re_cmp b d | x => x end
  | And a b, And c d => match re_cmp a c with Eq => re_cmp b d | x => x end
  | Star a, Star b => re_cmp a b
  | Not a, Not b => re_cmp a b
  | _, _ => Nat.compare (rank r) (rank s)
  end.

Definition re_eqb (r s : re) : bool :=
  match re_cmp r s with Eq => true | _ => false end.

(** ** Smart constructors *)
Definition is_emp (r : re) : bool := match r with Emp => true | _ => false end.
Definition is_eps (r : re) : bool := match r with Eps => true | _ => false end.
Definition is_top (r : re) : bool := match r with Not Emp => true | _ => false end.

Definition mkCat (r s : re) : re :=
  if is_emp r || is_emp s then Emp
  else if is_eps r then s
  else if is_eps s then r
  else Cat r s.

(** insert [r] into the sorted right-nested sum [s], dropping duplicates *)
Fixpoint alt_ins (r s : re) : re :=
  match s with
  | Alt s1 s2 =>
      match re_cmp r s1 with
      | Eq => s
      | Lt => Alt r s
      | Gt => Alt s1 (alt_ins r s2)
      end
  | _ =>
      match re_cmp r s with
      | Eq => s
      | Lt => Alt r s
      | Gt => Alt s r
      end
  end.

Definition alt2 (r s : re) : re :=
  if is_emp r then s
  else if is_emp s then r
  else if is_top r || is_top s then Not Emp
  else alt_ins r s.

Fixpoint mkAlt (r s : re) : re :=
  match r with
  | Alt r1 r2 => mkAlt r1 (mkAlt r2 s)
  | _ => alt2 r s
  end.

Fixpoint and_ins (r s : re) : re :=
  match s with
  | And s1 s2 =>
      match re_cmp r s1 with
      | Eq => s
      | Lt => And r s
      | Gt => And s1 (and_ins r s2)
      end
  | _ =>
      match re_cmp r s with
      | Eq => s
      | Lt => And r s
      | Gt => And s r
      end
  end.

Definition and2 (r s : re) : re :=
  if is_emp r || is_emp s then Emp
  else if is_top r then s
  else if is_top s then r
  else and_ins r s.

Fixpoint mkAnd (r s : re) : re :=
  match r with
  | And r1 r2 => mkAnd r1 (mkAnd r2 s)
  | _ => and2 r s
  end.

(** ** Nullability, derivative, matching *)
Fixpoint nullable (r : re) : bool :=
  match r with
  | Emp => false
  | Eps => true
  | Chr _ => false
  | Cat r s => nullable r && nullable s
  | Alt r s => nullable r || nullable s
  | Star _ => true
  | And r s => nullable r && nullable s
  | Not r => negb (nullable r)
  end.

Fixpoint deriv (c : nat) (r : re) : re :=
  match r with
  | Emp => Emp
  | Eps => Emp
  | Chr s => if in_set s c then Eps else Emp
  | Cat r s =>
      if nullable r then mkAlt (mkCat (deriv c r) s) (deriv c s)
      else mkCat (deriv c r) s
  | Alt r s => mkAlt (deriv c r) (deriv c s)
  | Star r => mkCat (deriv c r) (Star r)
  | And r s => mkAnd (deriv c r) (deriv c s)
  | Not r => Not (deriv c r)
  end.

Definition derivs (w : list nat) (r : re) : re := fold_left (fun r c => deriv c r) w r.
Definition matches (r : re) (w : list nat) : bool := nullable (derivs w r).

(** ** The certificate checker (trusted through ReSound.closed_sound) *)
Definition pair_mem (p : re * re) (R : list (re * re)) : bool :=
  existsb (fun q => re_eqb (fst p) (fst q) && re_eqb (snd p) (snd q)) R.

Definition closed (n : nat) (R : list (re * re)) : bool :=
  forallb
    (fun p =>
       Bool.eqb (nullable (fst p)) (nullable (snd p))
       && forallb (fun c => pair_mem (deriv c (fst p), deriv c (snd p)) R) (seq 0 n))
    R.

(** ** Untrusted search: all derivative pairs reachable from [todo] (BFS, with fuel) *)
Fixpoint explore (n fuel : nat) (todo seen : list (re * re)) : list (re * re) :=
  match fuel with
  | 0 => seen
  | S fuel' =>
      match todo with
      | [] => seen
      | p :: rest =>
          if pair_mem p seen then explore n fuel' rest seen
          else
            explore n fuel'
                    (rest ++ map (fun c => (deriv c (fst p), deriv c (snd p))) (seq 0 n))
                    (p :: seen)
      end
  end.

(** the certificate for "r and s have the same language" *)
Definition cert (n fuel : nat) (r s : re) : list (re * re) := explore n fuel [(r, s)] [].

(** [equiv_check] = the certificate produced by [explore] is accepted by [closed] and
    contains the pair itself *)
Definition equiv_check (n fuel : nat) (r s : re) : bool :=
  let R := cert n fuel r s in closed n R && pair_mem (r, s) R.

(** ** Untrusted search: a shortest word on which r and s differ (BFS over derivative
    pairs, the word is carried reversed).  [None]: none found (equivalent, or fuel). *)
Fixpoint distinguish_loop (n fuel : nat) (todo : list (list nat * (re * re)))
         (seen : list (re * re)) : option (list nat) :=
  match fuel with
  | 0 => None
  | S fuel' =>
      match todo with
      | [] => None
      | (w, p) :: rest =>
          if negb (Bool.eqb (nullable (fst p)) (nullable (snd p))) then Some (rev w)
          else if pair_mem p seen then distinguish_loop n fuel' rest seen
          else
            distinguish_loop n fuel'
              (rest ++ map (fun c => (c :: w, (deriv c (fst p), deriv c (snd p)))) (seq 0 n))
              (p :: seen)
      end
  end.

Definition distinguish (n fuel : nat) (r s : re) : option (list nat) :=
  distinguish_loop n fuel [([], (r, s))] [].
