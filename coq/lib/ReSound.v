(** Soundness of the derivative machinery of Re.v (proved once, used by C19):

    - [matches_lang]  : [matches r w = true <-> lang r w] (derivatives with the smart
                        constructors compute the denotational meaning);
    - [closed_sound]  : a list accepted by the certificate checker [closed] is a
                        bisimulation: every pair in it has the same language
                        (over words whose letters are < n);
    - [equiv_check_sound] : the packaged form used by reflection.

    Nothing here depends on [explore]/[distinguish] being right. *)
From Coq Require Import List Bool Arith NArith Lia.
Import ListNotations.
From TI Require Import lib.Re.

(** ** The order: only [Eq -> equal] is needed *)
Lemma re_cmp_eq : forall r s, re_cmp r s = Eq -> r = s.
Proof.
  intro r.
  induction r as [| | a | r1 IH1 r2 IH2 | r1 IH1 r2 IH2 | r1 IH1 | r1 IH1 r2 IH2 | r1 IH1];
    intros t H; destruct t; simpl in H; try discriminate; try reflexivity.
  - apply N.compare_eq in H. now subst.
  - destruct (re_cmp r1 t1) eqn:E; try discriminate.
    apply IH1 in E. apply IH2 in H. now subst.
  - destruct (re_cmp r1 t1) eqn:E; try discriminate.
    apply IH1 in E. apply IH2 in H. now subst.
  - apply IH1 in H. now subst.
  - destruct (re_cmp r1 t1) eqn:E; try discriminate.
    apply IH1 in E. apply IH2 in H. now subst.
  - apply IH1 in H. now subst.
Qed.

Lemma re_eqb_eq : forall r s, re_eqb r s = true -> r = s.
Proof.
  unfold re_eqb. intros r s H. apply re_cmp_eq. destruct (re_cmp r s); congruence.
Qed.

Lemma is_emp_eq : forall r, is_emp r = true -> r = Emp.
Proof. destruct r; simpl; congruence. Qed.
Lemma is_eps_eq : forall r, is_eps r = true -> r = Eps.
Proof. destruct r; simpl; congruence. Qed.
Lemma is_top_eq : forall r, is_top r = true -> r = Not Emp.
Proof. destruct r; simpl; try congruence. destruct r; simpl; congruence. Qed.

(** ** Smart constructors preserve the language *)
Lemma mkCat_lang : forall r s w, lang (mkCat r s) w <-> lang (Cat r s) w.
Proof.
  intros r s w. unfold mkCat.
  destruct (is_emp r) eqn:E1.
  { apply is_emp_eq in E1. subst. simpl. split; [tauto|]. intros (u & v & _ & F & _). exact F. }
  destruct (is_emp s) eqn:E2.
  { apply is_emp_eq in E2. subst. simpl. split; [tauto|]. intros (u & v & _ & _ & F). exact F. }
  simpl orb. cbv iota.
  destruct (is_eps r) eqn:E3.
  { apply is_eps_eq in E3. subst. simpl. split.
    - intro H. exists [], w. auto.
    - intros (u & v & -> & -> & H). exact H. }
  destruct (is_eps s) eqn:E4.
  { apply is_eps_eq in E4. subst. simpl. split.
    - intro H. exists w, []. rewrite app_nil_r. auto.
    - intros (u & v & -> & H & ->). rewrite app_nil_r. exact H. }
  reflexivity.
Qed.

Lemma alt_ins_lang : forall r s w, lang (alt_ins r s) w <-> lang r w \/ lang s w.
Proof.
  intros r s; revert r.
  induction s; intros r0 w; simpl;
    try (match goal with |- context [re_cmp ?a ?b] => destruct (re_cmp a b) eqn:E end;
         [apply re_cmp_eq in E; subst; simpl; tauto | simpl; tauto | simpl; tauto]).
  destruct (re_cmp r0 s1) eqn:E.
  - apply re_cmp_eq in E. subst. simpl. tauto.
  - simpl. tauto.
  - simpl. rewrite IHs2. tauto.
Qed.

Lemma top_lang : forall w, lang (Not Emp) w <-> True.
Proof. intro w. simpl. tauto. Qed.

Lemma alt2_lang : forall r s w, lang (alt2 r s) w <-> lang r w \/ lang s w.
Proof.
  intros r s w. unfold alt2.
  destruct (is_emp r) eqn:E1.
  { apply is_emp_eq in E1. subst. simpl. tauto. }
  destruct (is_emp s) eqn:E2.
  { apply is_emp_eq in E2. subst. simpl. tauto. }
  destruct (is_top r) eqn:E3.
  { apply is_top_eq in E3. subst. simpl. tauto. }
  destruct (is_top s) eqn:E4.
  { apply is_top_eq in E4. subst. simpl. tauto. }
  simpl orb. cbv iota. apply alt_ins_lang.
Qed.

Lemma mkAlt_lang : forall r s w, lang (mkAlt r s) w <-> lang r w \/ lang s w.
Proof.
  induction r; intros s0 w; try (simpl mkAlt; apply alt2_lang).
  simpl mkAlt. rewrite IHr1, IHr2. simpl. tauto.
Qed.

Lemma and_ins_lang : forall r s w, lang (and_ins r s) w <-> lang r w /\ lang s w.
Proof.
  intros r s; revert r.
  induction s; intros r0 w; simpl;
    try (match goal with |- context [re_cmp ?a ?b] => destruct (re_cmp a b) eqn:E end;
         [apply re_cmp_eq in E; subst; simpl; tauto | simpl; tauto | simpl; tauto]).
  destruct (re_cmp r0 s1) eqn:E.
  - apply re_cmp_eq in E. subst. simpl. tauto.
  - simpl. tauto.
  - simpl. rewrite IHs2. tauto.
Qed.

Lemma and2_lang : forall r s w, lang (and2 r s) w <-> lang r w /\ lang s w.
Proof.
  intros r s w. unfold and2.
  destruct (is_emp r) eqn:E1.
  { apply is_emp_eq in E1. subst. simpl. tauto. }
  destruct (is_emp s) eqn:E2.
  { apply is_emp_eq in E2. subst. simpl. tauto. }
  simpl orb. cbv iota.
  destruct (is_top r) eqn:E3.
  { apply is_top_eq in E3. subst. simpl. tauto. }
  destruct (is_top s) eqn:E4.
  { apply is_top_eq in E4. subst. simpl. tauto. }
  apply and_ins_lang.
Qed.

Lemma mkAnd_lang : forall r s w, lang (mkAnd r s) w <-> lang r w /\ lang s w.
Proof.
  induction r; intros s0 w; try (simpl mkAnd; apply and2_lang).
  simpl mkAnd. rewrite IHr1, IHr2. simpl. tauto.
Qed.

(** ** Nullability and derivatives *)
Lemma nullable_lang : forall r, nullable r = true <-> lang r [].
Proof.
  induction r; simpl.
  - split; [discriminate | tauto].
  - tauto.
  - split; [discriminate|]. intros (c & H & _). discriminate.
  - rewrite andb_true_iff, IHr1, IHr2. split.
    + intros [H1 H2]. exists [], []. auto.
    + intros (u & v & H & H1 & H2). symmetry in H. apply app_eq_nil in H.
      destruct H; subst. auto.
  - rewrite orb_true_iff, IHr1, IHr2. tauto.
  - split; [intros _; constructor | reflexivity].
  - rewrite andb_true_iff, IHr1, IHr2. tauto.
  - rewrite negb_true_iff. rewrite <- IHr. destruct (nullable r); split; congruence.
Qed.

(** a non-empty word of a star splits into a non-empty first factor and a rest *)
Lemma star_cons_inv : forall (L : list nat -> Prop) w, star_l L w ->
  forall c w', w = c :: w' ->
  exists u v, w' = u ++ v /\ L (c :: u) /\ star_l L v.
Proof.
  intros L w H. induction H; intros c w' E.
  - discriminate.
  - destruct u as [|a u'].
    + simpl in E. apply (IHstar_l _ _ E).
    + simpl in E. injection E as -> <-. exists u', v. auto.
Qed.

Lemma deriv_lang : forall r c w, lang (deriv c r) w <-> lang r (c :: w).
Proof.
  induction r; intros c w; simpl deriv.
  - simpl. tauto.
  - simpl. split; [tauto | discriminate].
  - destruct (in_set s c) eqn:E; simpl.
    + split.
      * intros ->. exists c. auto.
      * intros (c' & H & _). injection H as <- ->. reflexivity.
    + split; [tauto|]. intros (c' & H & H'). injection H as <- ->. congruence.
  - (* Cat *)
    assert (CatD : lang (mkCat (deriv c r1) r2) w <->
                   exists u v, w = u ++ v /\ lang r1 (c :: u) /\ lang r2 v).
    { rewrite mkCat_lang. simpl. split; intros (u & v & E & H1 & H2); exists u, v;
        (split; [exact E|]); (split; [apply IHr1; exact H1 | exact H2]). }
    destruct (nullable r1) eqn:N1.
    + rewrite mkAlt_lang, CatD, IHr2. simpl. split.
      * intros [(u & v & -> & H1 & H2) | H].
        -- exists (c :: u), v. auto.
        -- exists [], (c :: w). apply nullable_lang in N1. auto.
      * intros (u & v & E & H1 & H2). destruct u as [|a u'].
        -- simpl in E. subst v. right. exact H2.
        -- simpl in E. injection E as <- ->. left. exists u', v. auto.
    + rewrite CatD. simpl. split.
      * intros (u & v & -> & H1 & H2). exists (c :: u), v. auto.
      * intros (u & v & E & H1 & H2). destruct u as [|a u'].
        -- apply nullable_lang in H1. congruence.
        -- simpl in E. injection E as <- ->. exists u', v. auto.
  - rewrite mkAlt_lang, IHr1, IHr2. simpl. tauto.
  - (* Star *)
    rewrite mkCat_lang. simpl. split.
    + intros (u & v & -> & H1 & H2). apply IHr in H1.
      change (c :: u ++ v) with ((c :: u) ++ v). constructor; assumption.
    + intro H. destruct (star_cons_inv _ _ H c w eq_refl) as (u & v & E & H1 & H2).
      exists u, v. split; [exact E|]. split; [apply IHr; exact H1 | exact H2].
  - rewrite mkAnd_lang, IHr1, IHr2. simpl. tauto.
  - simpl. rewrite IHr. tauto.
Qed.

Theorem matches_lang : forall w r, matches r w = true <-> lang r w.
Proof.
  unfold matches, derivs.
  induction w as [|c w IH]; intro r; simpl.
  - apply nullable_lang.
  - rewrite IH. apply deriv_lang.
Qed.

Corollary matches_false_lang : forall w r, matches r w = false <-> ~ lang r w.
Proof.
  intros w r. rewrite <- matches_lang. destruct (matches r w); split; congruence.
Qed.

Lemma matches_cons : forall r c w, matches r (c :: w) = matches (deriv c r) w.
Proof. reflexivity. Qed.

(** ** The certificate checker is sound *)
Lemma pair_mem_In : forall p R, pair_mem p R = true -> In p R.
Proof.
  unfold pair_mem. intros [a b] R H. apply existsb_exists in H.
  destruct H as ([a' b'] & HIn & H). simpl in H. apply andb_true_iff in H.
  destruct H as [H1 H2]. apply re_eqb_eq in H1. apply re_eqb_eq in H2. now subst.
Qed.

Theorem closed_sound : forall n R, closed n R = true ->
  forall r s, In (r, s) R ->
  forall w, Forall (fun c => c < n) w -> matches r w = matches s w.
Proof.
  intros n R HC r s HIn w. revert r s HIn.
  induction w as [|c w IH]; intros r s HIn HW.
  - unfold closed in HC. rewrite forallb_forall in HC. specialize (HC _ HIn).
    apply andb_true_iff in HC. destruct HC as [HN _]. simpl in HN.
    apply eqb_prop in HN. exact HN.
  - rewrite !matches_cons. inversion HW; subst. apply IH; [|assumption].
    unfold closed in HC. rewrite forallb_forall in HC. specialize (HC _ HIn).
    apply andb_true_iff in HC. destruct HC as [_ HD]. simpl in HD.
    rewrite forallb_forall in HD. apply pair_mem_In. apply HD.
    apply in_seq. lia.
Qed.

Theorem equiv_check_sound : forall n fuel r s, equiv_check n fuel r s = true ->
  forall w, Forall (fun c => c < n) w -> (lang r w <-> lang s w).
Proof.
  unfold equiv_check. intros n fuel r s H w HW.
  apply andb_true_iff in H. destruct H as [HC HM]. apply pair_mem_In in HM.
  rewrite <- !matches_lang. rewrite (closed_sound _ _ HC _ _ HM w HW). tauto.
Qed.

(** A witness found by [distinguish] needs no trust: it is re-checked by evaluation. *)
Lemma distinguishing_word_differs : forall r s w,
  matches r w <> matches s w -> ~ (lang r w <-> lang s w).
Proof.
  intros r s w H E. apply H. rewrite <- !matches_lang in E.
  destruct (matches r w), (matches s w); try reflexivity; exfalso.
  - assert (true = true) by reflexivity. apply E in H0. discriminate.
  - assert (true = true) by reflexivity. apply E in H0. discriminate.
Qed.
