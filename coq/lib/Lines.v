(** * Lines — line-structured renders meet the render contract

    A render whose text is [h] lines joined by LF, where every line — run from the left
    margin with default attributes — ends at the logical column just past the rectangle
    with default attributes and only produces events inside the rectangle, satisfies
    [Rect w h] as soon as the rectangle is covered: either every line covers its own row,
    or one line covers the whole rectangle (an image placement). *)
From Coq Require Import List ZArith Bool Lia.
Import ListNotations.
From TI Require Import lib.Term lib.TermFacts lib.Rect.
Open Scope Z_scope.

Fixpoint joinlf (ls : list (list tok)) : list tok :=
  match ls with
  | [] => []
  | [l] => l
  | l :: rest => l ++ TLF :: joinlf rest
  end.

Lemma joinlf_cons2 l l2 rest : joinlf (l :: l2 :: rest) = l ++ TLF :: joinlf (l2 :: rest).
Proof. reflexivity. Qed.

Definition nolf (ts : list tok) : Prop := Forall (fun x => is_lf x = false) ts.

Lemma nolf_count ts : nolf ts -> count_lf ts = 0%nat.
Proof.
  unfold nolf, count_lf. induction 1 as [|x l Hx _ IH]; [reflexivity|].
  cbn [filter]. rewrite Hx. exact IH.
Qed.

Lemma nolf_app a b : nolf a -> nolf b -> nolf (a ++ b).
Proof. intros; apply Forall_app; split; assumption. Qed.

(** line [l], the [i]-th of a [h x w] render: stays inside, ends at the end column *)
Definition LineOK (w h : Z) (i : Z) (l : list tok) : Prop :=
  nolf l /\
  forall lm t, clean t -> col t = lm -> sgr t = adefault ->
    exists evs,
      exec lm t l = mk (row t) (lm + w) adefault t evs
      /\ forallb (ev_inside (row t - i) lm h w) evs = true.

(** events of line [l] run from a clean state (extracted, for coverage statements) *)
Definition line_evs (lm : Z) (t : term) (l : list tok) : list ev :=
  skipn (length (log t)) (log (exec lm t l)).

Lemma line_evs_mk lm t l r c a evs :
  exec lm t l = mk r c a t evs -> line_evs lm t l = evs.
Proof.
  intros E. unfold line_evs. rewrite E. cbn [log mk].
  rewrite skipn_app, skipn_all, Nat.sub_diag. reflexivity.
Qed.

(** every needed cell (i, j) of the rectangle is covered by the events of some line [k]
    (run on its own row, [k] lines below the top) *)
Definition coverage (need : Z -> Z -> bool) (w h : Z) (ls : list (list tok)) : Prop :=
  forall i j, 0 <= i < h -> 0 <= j < w -> need i j = true ->
    exists k lk, nth_error ls k = Some lk /\
      forall lm t, clean t -> col t = lm -> sgr t = adefault ->
        covered (line_evs lm t lk) (row t - Z.of_nat k + i) (lm + j) = true.

(** the two usual ways: every line covers its own row; one line covers everything *)
Lemma coverage_rows need w h ls :
  Z.of_nat (length ls) = h ->
  (forall i l lm t, nth_error ls i = Some l -> clean t -> col t = lm -> sgr t = adefault ->
     forall c, lm <= c < lm + w -> covered (line_evs lm t l) (row t) c = true) ->
  coverage need w h ls.
Proof.
  intros Hlen H i j Hi Hj _.
  destruct (nth_error ls (Z.to_nat i)) as [l|] eqn:En; [|apply nth_error_None in En; lia].
  exists (Z.to_nat i), l. split; [exact En|]. intros lm t Hc Hcol Hs.
  replace (row t - Z.of_nat (Z.to_nat i) + i) with (row t) by lia.
  eapply H; eauto. lia.
Qed.

Lemma coverage_block need w h ls k lk :
  nth_error ls k = Some lk ->
  (forall lm t, clean t -> col t = lm -> sgr t = adefault ->
     forall r c, row t - Z.of_nat k <= r < row t - Z.of_nat k + h -> lm <= c < lm + w ->
       covered (line_evs lm t lk) r c = true) ->
  coverage need w h ls.
Proof.
  intros Hk H i j Hi Hj _. exists k, lk. split; [exact Hk|].
  intros lm t Hc Hcol Hs. apply H; auto; lia.
Qed.

Lemma covered_app a b r c : covered (a ++ b) r c = covered a r c || covered b r c.
Proof. unfold covered. apply existsb_app. Qed.

(** the generic induction: lines [i0 ..] of the render, started on row [r0 + i0] *)
Lemma lines_exec w h : 0 <= w -> forall ls i0 lm t,
  Z.of_nat (i0 + length ls) = h ->
  (forall i l, nth_error ls i = Some l -> LineOK w h (Z.of_nat (i0 + i)) l) ->
  ls <> [] -> clean t -> col t = lm -> sgr t = adefault ->
  exists evs,
    exec lm t (joinlf ls) = mk (row t + Z.of_nat (length ls) - 1) (lm + w) adefault t evs
    /\ forallb (ev_inside (row t - Z.of_nat i0) lm h w) evs = true
    /\ (forall i l, nth_error ls i = Some l ->
          exists t', clean t' /\ col t' = lm /\ sgr t' = adefault
                     /\ row t' = row t + Z.of_nat i
                     /\ forall r c, covered (line_evs lm t' l) r c = true ->
                                    covered evs r c = true)
    /\ lf_ok lm w t (joinlf ls).
Proof.
  intros Hw0. induction ls as [|l rest IH]; intros i0 lm t Hh HL Hne Hc Hcol Hs; [congruence|].
  destruct (HL 0%nat l eq_refl) as (Hnl & Hl). rewrite Nat.add_0_r in Hl.
  destruct (Hl lm t Hc Hcol Hs) as (evs & E & Hin).
  assert (Hg : parser t = Ground) by apply Hc.
  destruct rest as [|l2 rest'].
  - cbn [joinlf length]. exists evs. rewrite E. split; [f_equal; lia|]. split; [exact Hin|].
    split.
    + intros i l' Hn. destruct i as [|i]; [|destruct i; discriminate]. inversion Hn; subst l'.
      exists t. repeat split; try apply Hc; auto; try lia.
      intros r c Hcov. rewrite (line_evs_mk _ _ _ _ _ _ _ E) in Hcov. exact Hcov.
    + apply lf_ok_nolf, nolf_count, Hnl.
  - rewrite joinlf_cons2, exec_app, E. rewrite exec_cons.
    rewrite step_lf by exact Hg. rewrite mk_mk. cbn [row col sgr mk].
    set (t2 := mk (row t + 1) lm adefault t (evs ++ [EMove (row t + 1) lm])).
    destruct (IH (S i0) lm t2) as (evs2 & E2 & Hin2 & Hsub2 & Hlf2).
    { cbn [length] in *. lia. }
    { intros i l' Hn. replace (S i0 + i)%nat with (i0 + S i)%nat by lia. apply HL. exact Hn. }
    { congruence. } { exact Hc. } { reflexivity. } { reflexivity. }
    exists (evs ++ EMove (row t + 1) lm :: evs2).
    split; [|split; [|split]].
    + rewrite E2. subst t2. rewrite mk_mk. cbn [row mk]. unfold mk; cbn. f_equal.
      * cbn [length]. lia.
      * rewrite <- !app_assoc. reflexivity.
    + rewrite forallb_app. apply andb_true_iff. split; [exact Hin|].
      cbn [forallb]. apply andb_true_iff. split.
      * cbn [ev_inside length] in *. rewrite !andb_true_iff, !Z.leb_le, !Z.ltb_lt. lia.
      * subst t2. cbn [row mk] in Hin2.
        replace (row t + 1 - Z.of_nat (S i0)) with (row t - Z.of_nat i0) in Hin2 by lia.
        exact Hin2.
    + intros i l' Hn. destruct i as [|i].
      * inversion Hn; subst l'. exists t. repeat split; try apply Hc; auto; try lia.
        intros r c Hcov. rewrite (line_evs_mk _ _ _ _ _ _ _ E) in Hcov.
        rewrite covered_app, Hcov. reflexivity.
      * destruct (Hsub2 i l' Hn) as (t' & C1 & C2 & C3 & C4 & C5).
        exists t'. repeat split; try apply C1; auto.
        -- subst t2. cbn [row mk] in C4. lia.
        -- intros r c Hcov. rewrite covered_app. apply orb_true_iff. right.
           unfold covered. cbn [existsb ev_covers orb]. apply C5, Hcov.
    + apply lf_ok_app. split; [apply lf_ok_nolf, nolf_count, Hnl|].
      rewrite E. cbn [lf_ok]. split; [cbn [col sgr parser mk]; auto|].
      rewrite step_lf by exact Hg. rewrite mk_mk. cbn [row col sgr mk]. exact Hlf2.
Qed.

Lemma count_lf_joinlf : forall ls, ls <> [] -> (forall l, In l ls -> nolf l) ->
  count_lf (joinlf ls) = (length ls - 1)%nat.
Proof.
  induction ls as [|l rest IH]; intros Hne Hn; [congruence|].
  destruct rest as [|l2 rest'].
  - cbn [joinlf length]. apply nolf_count, Hn. left. reflexivity.
  - rewrite joinlf_cons2, count_lf_app. rewrite (nolf_count l) by (apply Hn; left; reflexivity).
    change (TLF :: joinlf (l2 :: rest')) with ([TLF] ++ joinlf (l2 :: rest')).
    rewrite count_lf_app, IH; [cbn; lia|congruence|].
    intros x Hx. apply Hn. right. exact Hx.
Qed.

Lemma last_nolf l : nolf l -> l <> [] -> last l TNul <> TLF.
Proof.
  induction 1 as [|x l' Hx _ IH]; intros Hne; [congruence|].
  destruct l' as [|y l'']; [cbn; intros ->; discriminate|].
  change (last (x :: y :: l'') TNul) with (last (y :: l'') TNul). apply IH. congruence.
Qed.

Lemma last_joinlf : forall ls, ls <> [] -> (forall l, In l ls -> nolf l /\ l <> []) ->
  last (joinlf ls) TNul <> TLF.
Proof.
  induction ls as [|l rest IH]; intros Hne Hn; [congruence|].
  destruct rest as [|l2 rest'].
  - cbn [joinlf]. destruct (Hn l (or_introl eq_refl)). apply last_nolf; assumption.
  - rewrite joinlf_cons2.
    assert (Hj : joinlf (l2 :: rest') <> []).
    { destruct (Hn l2 (or_intror (or_introl eq_refl))) as [_ H2].
      destruct rest'; cbn [joinlf]; [exact H2|]. destruct l2; [congruence|discriminate]. }
    assert (E : forall (a b : list tok) d, b <> [] -> last (a ++ b) d = last b d).
    { intros a b d Hb. induction a as [|x a IHa]; [reflexivity|].
      cbn [app]. destruct (a ++ b) eqn:Eab.
      - destruct a; [cbn in Eab; congruence|discriminate].
      - cbn [last]. exact IHa. }
    rewrite E by discriminate.
    change (last (TLF :: joinlf (l2 :: rest')) TNul) with
        (match joinlf (l2 :: rest') with [] => TLF | _ => last (joinlf (l2 :: rest')) TNul end).
    destruct (joinlf (l2 :: rest')) eqn:Ej; [congruence|].
    apply IH; [congruence|]. intros x Hx. apply Hn. right. exact Hx.
Qed.

(** a line that moves the cursor cannot be empty *)
Lemma LineOK_nonempty w h i l : 0 < w -> LineOK w h i l -> l <> [].
Proof.
  intros Hw (_ & H) ->.
  destruct (H 0 origin) as (evs & E & _); try reflexivity; [split; reflexivity|].
  cbn in E. apply (f_equal col) in E. cbn in E. lia.
Qed.

(** ** The theorem: line-structured renders meet the contract *)
Theorem lines_rect need w h ls :
  0 < w -> Z.of_nat (length ls) = h -> ls <> [] ->
  (forall i l, nth_error ls i = Some l -> LineOK w h (Z.of_nat i) l) ->
  coverage need w h ls ->
  RectG need w h (joinlf ls).
Proof.
  intros Hw Hh Hne HL Hcov.
  assert (Hnl : forall l, In l ls -> nolf l /\ l <> []).
  { intros l Hin. apply In_nth_error in Hin. destruct Hin as [i Hi].
    split; [apply (HL i l Hi)|eapply LineOK_nonempty; [exact Hw|apply (HL i l Hi)]]. }
  unfold RectG. split; [exact Hw|]. split; [destruct ls; [congruence|cbn [length] in Hh; lia]|].
  split; [|split; [|split]].
  - intros lm t Hc Hcol Hs.
    destruct (lines_exec w h (Z.lt_le_incl _ _ Hw) ls 0%nat lm t) as (evs & E & Hin & Hsub & _); auto.
    rewrite E. constructor; cbn [row col sgr parser pending visible synced log mk];
      try apply Hc; auto; try lia.
    exists evs. split; [reflexivity|]. split.
    + replace (row t - Z.of_nat 0) with (row t) in Hin by lia. exact Hin.
    + intros r c Hr Hcc Hneed.
      destruct (Hcov (r - row t) (c - lm)) as (k & lk & Hk & Hcv); try lia; auto.
      destruct (Hsub _ _ Hk) as (t' & C1 & C2 & C3 & C4 & C5).
      apply C5. specialize (Hcv lm t' C1 C2 C3).
      replace (row t' - Z.of_nat k + (r - row t)) with r in Hcv by lia.
      replace (lm + (c - lm)) with c in Hcv by lia. exact Hcv.
  - intros lm t Hc Hcol Hs.
    destruct (lines_exec w h (Z.lt_le_incl _ _ Hw) ls 0%nat lm t) as (evs & _ & _ & _ & Hlf); auto.
  - rewrite count_lf_joinlf; [lia|exact Hne|intros l Hl; apply Hnl, Hl].
  - apply last_joinlf; assumption.
Qed.

(** ** The structural contract: a render given as its list of lines *)
Definition is_cr (x : tok) : bool := match x with TCR => true | _ => false end.
Definition nocr (ts : list tok) : Prop := Forall (fun x => is_cr x = false) ts.

Lemma nocr_app a b : nocr a -> nocr b -> nocr (a ++ b).
Proof. intros; apply Forall_app; split; assumption. Qed.

Record LinesRect (need : Z -> Z -> bool) (w h : Z) (ls : list (list tok)) : Prop := {
  lr_w : 0 < w;
  lr_len : Z.of_nat (length ls) = h;
  lr_ne : ls <> [];
  lr_ok : forall i l, nth_error ls i = Some l -> LineOK w h (Z.of_nat i) l;
  lr_nocr : forall l, In l ls -> nocr l;
  lr_cov : coverage need w h ls
}.

Theorem lines_rect' need w h ls : LinesRect need w h ls -> RectG need w h (joinlf ls).
Proof. intros [H1 H2 H3 H4 _ H6]. apply lines_rect; assumption. Qed.

(** a line without LF and CR runs the same under any left margin *)
Lemma step_lm_indep lm1 lm2 t x : is_lf x = false -> is_cr x = false -> step lm1 t x = step lm2 t x.
Proof.
  intros H1 H2. unfold step. destruct (parser t).
  - destruct x; try discriminate; reflexivity.
  - destruct (is_esc_seq x); destruct x; try discriminate; reflexivity.
  - reflexivity.
Qed.

Lemma exec_lm_indep lm1 lm2 : forall l t, nolf l -> nocr l -> exec lm1 t l = exec lm2 t l.
Proof.
  induction l as [|x l IH]; intros t H1 H2; [reflexivity|].
  inversion H1; inversion H2; subst. cbn [exec fold_left].
  rewrite (step_lm_indep lm1 lm2) by assumption. apply IH; assumption.
Qed.
