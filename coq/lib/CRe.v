(** Regular expressions over *characters* (Unicode code points, [N]) whose atoms are
    sets given by inclusive ranges — the form in which the translator emits the source's
    regexes and in which the documented grammar is written by hand — and their verified
    abstraction to the class alphabet of Re.v.

    A *class table* (list of intervals [lo, hi] with a class index) is produced by the
    translator; it is NOT trusted: [cover_ok] checks that the intervals tile
    [0 .. maxcp], [mask_of] recomputes and checks, for every character set used, that
    each interval lies inside the set or is disjoint from it ([None] otherwise), and
    [abstract_sound] proves that the abstracted expression has, on the classified
    string, exactly the language of the character-level one.

    [cequiv_check] packages table checks + abstraction + certificate check;
    [cequiv_check_sound] is the reflection theorem used by C19. *)
From Coq Require Import List Bool Arith NArith Lia.
Import ListNotations.
From TI Require Import lib.Re lib.ReSound.

Definition ranges := list (N * N).   (* inclusive [lo, hi] *)

Definition in_ranges (rs : ranges) (x : N) : bool :=
  existsb (fun p => (fst p <=? x)%N && (x <=? snd p)%N) rs.

Inductive cre : Type :=
| CEmp
| CEps
| CSet (rs : ranges)
| CCat (r s : cre)
| CAlt (r s : cre)
| CStar (r : cre)
| CAnd (r s : cre)
| CNot (r : cre).

Inductive cstar (L : list N -> Prop) : list N -> Prop :=
| cstar_nil : cstar L []
| cstar_app : forall u v, L u -> cstar L v -> cstar L (u ++ v).

(** the language of a character-level expression: the specification-level meaning *)
Fixpoint clang (r : cre) (s : list N) : Prop :=
  match r with
  | CEmp => False
  | CEps => s = []
  | CSet rs => exists x, s = [x] /\ in_ranges rs x = true
  | CCat a b => exists u v, s = u ++ v /\ clang a u /\ clang b v
  | CAlt a b => clang a s \/ clang b s
  | CStar a => cstar (clang a) s
  | CAnd a b => clang a s /\ clang b s
  | CNot a => ~ clang a s
  end.

(** highest Unicode code point: strings are lists of code points <= maxcp *)
Definition maxcp : N := 1114111.
Definition valid_str (s : list N) : Prop := Forall (fun x => (x <= maxcp)%N) s.

(** ** Class table *)
Definition interval := (N * N * nat)%type.       (* lo, hi, class *)
Definition table := list interval.

Definition ilo (i : interval) : N := fst (fst i).
Definition ihi (i : interval) : N := snd (fst i).
Definition icl (i : interval) : nat := snd i.

Definition contains (x : N) (i : interval) : bool := (ilo i <=? x)%N && (x <=? ihi i)%N.

Definition classify (t : table) (x : N) : nat :=
  match find (contains x) t with Some i => icl i | None => 0 end.

Fixpoint covers (from : N) (t : table) : bool :=
  match t with
  | [] => (from =? maxcp + 1)%N
  | i :: t' => (ilo i =? from)%N && (ilo i <=? ihi i)%N && covers (ihi i + 1)%N t'
  end.
Definition cover_ok (t : table) : bool := covers 0%N t.
Definition classes_lt (n : nat) (t : table) : bool := forallb (fun i => icl i <? n) t.

(** ** Abstraction of a character set to a class mask, re-checked against the table *)
Definition inside (rs : ranges) (i : interval) : bool :=
  existsb (fun p => (fst p <=? ilo i)%N && (ihi i <=? snd p)%N) rs.
Definition disjoint (rs : ranges) (i : interval) : bool :=
  forallb (fun p => (snd p <? ilo i)%N || (ihi i <? fst p)%N) rs.

Definition cand_mask (t : table) (rs : ranges) : N :=
  fold_left (fun m i => if inside rs i then N.lor m (N.shiftl 1 (N.of_nat (icl i))) else m) t 0%N.

Definition set_ok (t : table) (rs : ranges) (m : N) : bool :=
  forallb (fun i => if inside rs i then in_set m (icl i)
                    else disjoint rs i && negb (in_set m (icl i))) t.

Definition mask_of (t : table) (rs : ranges) : option N :=
  let m := cand_mask t rs in if set_ok t rs m then Some m else None.

Definition lift2 (f : re -> re -> re) (a b : option re) : option re :=
  match a, b with Some x, Some y => Some (f x y) | _, _ => None end.

Fixpoint abstract (t : table) (r : cre) : option re :=
  match r with
  | CEmp => Some Emp
  | CEps => Some Eps
  | CSet rs => option_map Chr (mask_of t rs)
  | CCat a b => lift2 Cat (abstract t a) (abstract t b)
  | CAlt a b => lift2 Alt (abstract t a) (abstract t b)
  | CStar a => option_map Star (abstract t a)
  | CAnd a b => lift2 And (abstract t a) (abstract t b)
  | CNot a => option_map Not (abstract t a)
  end.

(** executable matching of a string of code points *)
Definition cmatches (t : table) (a : re) (s : list N) : bool := matches a (map (classify t) s).

Definition cequiv_check (t : table) (n fuel : nat) (r s : cre) : bool :=
  cover_ok t && classes_lt n t &&
  match abstract t r, abstract t s with
  | Some a, Some b => equiv_check n fuel a b
  | _, _ => false
  end.

(** ** Proofs *)
Lemma covers_find : forall t from x, covers from t = true ->
  (from <= x)%N -> (x <= maxcp)%N ->
  exists i, find (contains x) t = Some i /\ In i t /\ contains x i = true.
Proof.
  induction t as [|i t IH]; intros from x HC Hlo Hhi; simpl in HC.
  - apply N.eqb_eq in HC. unfold maxcp in *. lia.
  - apply andb_true_iff in HC. destruct HC as [HC H3].
    apply andb_true_iff in HC. destruct HC as [H1 H2].
    apply N.eqb_eq in H1. apply N.leb_le in H2. simpl.
    destruct (contains x i) eqn:E.
    + exists i. auto.
    + destruct (IH (ihi i + 1)%N x H3) as (j & F & HIn & Hc); try assumption.
      * unfold contains in E. apply andb_false_iff in E. destruct E as [E|E].
        -- apply N.leb_gt in E. lia.
        -- apply N.leb_gt in E. lia.
      * exists j. auto.
Qed.

Lemma classify_spec : forall t x, cover_ok t = true -> (x <= maxcp)%N ->
  exists i, In i t /\ contains x i = true /\ classify t x = icl i.
Proof.
  intros t x HC Hx. unfold cover_ok in HC.
  destruct (covers_find t 0%N x HC) as (i & F & HIn & Hc); try assumption; [lia|].
  exists i. unfold classify. rewrite F. auto.
Qed.

Lemma classify_lt : forall t n x, cover_ok t = true -> classes_lt n t = true ->
  (x <= maxcp)%N -> classify t x < n.
Proof.
  intros t n x HC HL Hx. destruct (classify_spec t x HC Hx) as (i & HIn & _ & ->).
  unfold classes_lt in HL. rewrite forallb_forall in HL. specialize (HL _ HIn).
  apply Nat.ltb_lt in HL. exact HL.
Qed.

Lemma mask_of_sound : forall t rs m, cover_ok t = true -> mask_of t rs = Some m ->
  forall x, (x <= maxcp)%N -> in_ranges rs x = in_set m (classify t x).
Proof.
  intros t rs m HC HM x Hx. unfold mask_of in HM.
  destruct (set_ok t rs (cand_mask t rs)) eqn:HS; [|discriminate].
  injection HM as <-. set (m := cand_mask t rs) in *.
  destruct (classify_spec t x HC Hx) as (i & HIn & Hc & ->).
  unfold set_ok in HS. rewrite forallb_forall in HS. specialize (HS _ HIn).
  unfold contains in Hc. apply andb_true_iff in Hc. destruct Hc as [Hc1 Hc2].
  apply N.leb_le in Hc1. apply N.leb_le in Hc2.
  destruct (inside rs i) eqn:EI.
  - rewrite HS. unfold inside in EI. apply existsb_exists in EI.
    destruct EI as (p & HpIn & Hp). apply andb_true_iff in Hp. destruct Hp as [Hp1 Hp2].
    apply N.leb_le in Hp1. apply N.leb_le in Hp2.
    unfold in_ranges. apply existsb_exists. exists p. split; [assumption|].
    apply andb_true_iff. split; apply N.leb_le; lia.
  - apply andb_true_iff in HS. destruct HS as [HD HB]. apply negb_true_iff in HB.
    rewrite HB. unfold in_ranges.
    destruct (existsb _ rs) eqn:EX; [|reflexivity]. exfalso.
    apply existsb_exists in EX. destruct EX as (p & HpIn & Hp).
    apply andb_true_iff in Hp. destruct Hp as [Hp1 Hp2].
    apply N.leb_le in Hp1. apply N.leb_le in Hp2.
    unfold disjoint in HD. rewrite forallb_forall in HD. specialize (HD _ HpIn).
    apply orb_true_iff in HD. destruct HD as [HD|HD]; apply N.ltb_lt in HD; lia.
Qed.

Lemma map_eq_app_inv : forall (A B : Type) (f : A -> B) l l1 l2, map f l = l1 ++ l2 ->
  exists a b, l = a ++ b /\ map f a = l1 /\ map f b = l2.
Proof.
  intros A B f l l1. revert l. induction l1 as [|y l1 IH]; intros l l2 H.
  - exists [], l. auto.
  - destruct l as [|x l]; [discriminate|]. simpl in H. injection H as H1 H2.
    destruct (IH _ _ H2) as (a & b & -> & Ha & Hb).
    exists (x :: a), b. simpl. subst. auto.
Qed.

Lemma valid_app : forall u v, valid_str (u ++ v) -> valid_str u /\ valid_str v.
Proof. unfold valid_str. intros u v H. apply Forall_app in H. exact H. Qed.

Theorem abstract_sound : forall t, cover_ok t = true ->
  forall r a, abstract t r = Some a ->
  forall s, valid_str s -> (clang r s <-> lang a (map (classify t) s)).
Proof.
  intros t HC. induction r as [| | rs | r1 IH1 r2 IH2 | r1 IH1 r2 IH2 | r1 IH1 | r1 IH1 r2 IH2 | r1 IH1];
    intros a HA s HV; simpl in HA.
  - injection HA as <-. simpl. tauto.
  - injection HA as <-. simpl. split; [intros ->; reflexivity|].
    intro H. destruct s; [reflexivity | discriminate].
  - destruct (mask_of t rs) as [m|] eqn:HM; [|discriminate]. injection HA as <-. simpl. split.
    + intros (x & -> & Hx). exists (classify t x). split; [reflexivity|].
      rewrite <- (mask_of_sound t rs m HC HM); [assumption|].
      inversion HV; assumption.
    + intros (c & Hs & Hc). destruct s as [|x [|y s']]; try discriminate.
      simpl in Hs. injection Hs as <-. exists x. split; [reflexivity|].
      rewrite (mask_of_sound t rs m HC HM); [assumption|]. inversion HV; assumption.
  - destruct (abstract t r1) as [a1|]; [|discriminate].
    destruct (abstract t r2) as [a2|]; [|discriminate]. injection HA as <-. simpl. split.
    + intros (u & v & -> & H1 & H2). apply valid_app in HV. destruct HV as [HVu HVv].
      exists (map (classify t) u), (map (classify t) v). rewrite map_app.
      split; [reflexivity|]. split; [apply (IH1 _ eq_refl); assumption | apply (IH2 _ eq_refl); assumption].
    + intros (u' & v' & E & H1 & H2). apply map_eq_app_inv in E.
      destruct E as (u & v & -> & <- & <-). apply valid_app in HV. destruct HV as [HVu HVv].
      exists u, v. split; [reflexivity|].
      split; [apply (IH1 _ eq_refl); assumption | apply (IH2 _ eq_refl); assumption].
  - destruct (abstract t r1) as [a1|]; [|discriminate].
    destruct (abstract t r2) as [a2|]; [|discriminate]. injection HA as <-. simpl.
    rewrite (IH1 _ eq_refl s HV), (IH2 _ eq_refl s HV). tauto.
  - destruct (abstract t r1) as [a1|]; [|discriminate]. injection HA as <-. simpl. split.
    + intro H. induction H as [|u v Hu Hv IHv].
      * constructor.
      * apply valid_app in HV. destruct HV as [HVu HVv]. rewrite map_app. constructor.
        -- apply (IH1 _ eq_refl); assumption.
        -- apply IHv. assumption.
    + intro H. remember (map (classify t) s) as w eqn:Ew. revert s HV Ew.
      induction H as [|u' v' Hu Hv IHv]; intros s HV Ew.
      * destruct s; [constructor | discriminate].
      * symmetry in Ew. apply map_eq_app_inv in Ew. destruct Ew as (u & v & -> & <- & <-).
        apply valid_app in HV. destruct HV as [HVu HVv]. constructor.
        -- apply (IH1 _ eq_refl); assumption.
        -- apply IHv; [assumption | reflexivity].
  - destruct (abstract t r1) as [a1|]; [|discriminate].
    destruct (abstract t r2) as [a2|]; [|discriminate]. injection HA as <-. simpl.
    rewrite (IH1 _ eq_refl s HV), (IH2 _ eq_refl s HV). tauto.
  - destruct (abstract t r1) as [a1|]; [|discriminate]. injection HA as <-. simpl.
    rewrite (IH1 _ eq_refl s HV). tauto.
Qed.

Lemma classified_lt : forall t n s, cover_ok t = true -> classes_lt n t = true ->
  valid_str s -> Forall (fun c => c < n) (map (classify t) s).
Proof.
  intros t n s HC HL HV. induction HV; simpl; constructor.
  - apply classify_lt; assumption.
  - assumption.
Qed.

(** [cmatches] on the abstraction decides the character-level language *)
Theorem cmatches_clang : forall t r a, cover_ok t = true -> abstract t r = Some a ->
  forall s, valid_str s -> (cmatches t a s = true <-> clang r s).
Proof.
  intros t r a HC HA s HV. unfold cmatches. rewrite matches_lang.
  symmetry. apply abstract_sound; assumption.
Qed.

Theorem cequiv_check_sound : forall t n fuel r s, cequiv_check t n fuel r s = true ->
  forall str, valid_str str -> (clang r str <-> clang s str).
Proof.
  unfold cequiv_check. intros t n fuel r s H str HV.
  apply andb_true_iff in H. destruct H as [H HE].
  apply andb_true_iff in H. destruct H as [HC HL].
  destruct (abstract t r) as [a|] eqn:Ea; [|discriminate].
  destruct (abstract t s) as [b|] eqn:Eb; [|discriminate].
  rewrite (abstract_sound t HC r a Ea str HV), (abstract_sound t HC s b Eb str HV).
  apply (equiv_check_sound n fuel a b HE). apply classified_lt; assumption.
Qed.
