(** * TermPlace — which image placements are left on the screen (C06)

    [lib/Term.v] records image placements ([EImg]) and kitty delete commands ([EDel]) as
    events without saying what a delete removes.  This file adds that bookkeeping, as a
    fold over the event log, for terminals implementing the kitty graphics protocol:
    a placement stays on the screen until a delete command matches it —
    [a=d,d=A] removes every placement, [a=d,d=Z,z=N] those on z-index [N],
    [a=d,d=C] those intersecting the cell under the cursor.  Nothing else removes a
    placement: text, erasures and further placements over the same cells do not (they are
    drawn above / below it according to the z-index). *)
From Coq Require Import List ZArith Bool Lia.
Import ListNotations.
From TI Require Import lib.Term.
Open Scope Z_scope.

Record placement := { p_r : Z; p_c : Z; p_h : Z; p_w : Z; p_z : Z }.

Definition pl_covers (p : placement) (r c : Z) : bool :=
  (p_r p <=? r) && (r <? p_r p + p_h p) && (p_c p <=? c) && (c <? p_c p + p_w p).

Definition live_step (L : list placement) (e : ev) : list placement :=
  match e with
  | EImg r c h w z => L ++ [{| p_r := r; p_c := c; p_h := h; p_w := w; p_z := z |}]
  | EDel DelAll _ _ => []
  | EDel (DelZ z) _ _ => filter (fun p => negb (p_z p =? z)) L
  | EDel DelCursor r c => filter (fun p => negb (pl_covers p r c)) L
  | _ => L
  end.

Definition live_from (L : list placement) (evs : list ev) : list placement :=
  fold_left live_step evs L.
Definition live (evs : list ev) : list placement := live_from [] evs.

Lemma live_from_app L a b : live_from L (a ++ b) = live_from (live_from L a) b.
Proof. unfold live_from. apply fold_left_app. Qed.

(** events that neither place nor delete *)
Definition is_place_ev (e : ev) : bool :=
  match e with EImg _ _ _ _ _ | EDel _ _ _ => true | _ => false end.

Lemma live_from_inert L evs :
  forallb (fun e => negb (is_place_ev e)) evs = true -> live_from L evs = L.
Proof.
  revert L; induction evs as [|e evs IH]; intros L Hf; [reflexivity|].
  cbn [forallb] in Hf. apply andb_true_iff in Hf. destruct Hf as [H1 H2].
  unfold live_from in *. cbn [fold_left]. destruct e; try discriminate; cbn [live_step]; apply IH, H2.
Qed.

(** all placements of a list are on z-index [z0] *)
Definition all_z (z0 : Z) (L : list placement) : bool := forallb (fun p => p_z p =? z0) L.

(** every image event of a list is on z-index [z0] *)
Definition imgs_z (z0 : Z) (evs : list ev) : bool :=
  forallb (fun e => match e with EImg _ _ _ _ z => z =? z0 | _ => true end) evs.

Lemma all_z_filter z0 f L : all_z z0 L = true -> all_z z0 (filter f L) = true.
Proof.
  unfold all_z. induction L as [|p L IH]; [reflexivity|]. cbn [forallb filter].
  intros H. apply andb_true_iff in H. destruct H as [H1 H2].
  destruct (f p); cbn [forallb]; [rewrite H1|]; apply IH, H2.
Qed.

Lemma live_from_all_z z0 : forall evs L,
  all_z z0 L = true -> imgs_z z0 evs = true -> all_z z0 (live_from L evs) = true.
Proof.
  induction evs as [|e evs IH]; intros L HL He; [exact HL|].
  cbn [imgs_z forallb] in He. apply andb_true_iff in He. destruct He as [H1 H2].
  unfold live_from. cbn [fold_left]. apply IH; [|exact H2].
  destruct e; cbn [live_step]; try exact HL.
  - unfold all_z in *. rewrite forallb_app, HL. cbn [forallb p_z]. rewrite H1. reflexivity.
  - destruct d; [reflexivity|apply all_z_filter, HL|apply all_z_filter, HL].
Qed.

(** a delete by z-index empties a list of placements that are all on that z-index *)
Lemma delz_clears z0 L r c : all_z z0 L = true -> live_step L (EDel (DelZ z0) r c) = [].
Proof.
  cbn [live_step]. unfold all_z. induction L as [|p L IH]; [reflexivity|].
  cbn [forallb filter]. intros H. apply andb_true_iff in H. destruct H as [H1 H2].
  rewrite H1. cbn [negb]. apply IH, H2.
Qed.

Lemma imgs_z_app z0 a b : imgs_z z0 (a ++ b) = imgs_z z0 a && imgs_z z0 b.
Proof. unfold imgs_z. apply forallb_app. Qed.
