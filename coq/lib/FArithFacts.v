(** Facts about [rhe] (round-half-even on Q) and the error-analysis kit used by the C04
    proofs: what [StandardModel] gives for chains of positive multiplications and
    divisions.  Everything is over [Q]; closed under the global context. *)
From Coq Require Import ZArith QArith Qround Qabs Lqa Lia.
From TI Require Import lib.FArith.
Open Scope Q_scope.

(** ---------------------------------------------------------------- [rhe] *)
Lemma rhe_comp : forall x y, x == y -> rhe x = rhe y.
Proof.
  intros x y H. unfold rhe. rewrite (Qfloor_comp _ _ H).
  assert (E : x - inject_Z (Qfloor y) == y - inject_Z (Qfloor y)) by (rewrite H; reflexivity).
  rewrite (Qcompare_comp _ _ E _ _ (Qeq_refl (1 # 2))). reflexivity.
Qed.

Lemma inject_Z_succ : forall z, inject_Z (z + 1) == inject_Z z + 1.
Proof. intros. rewrite inject_Z_plus. reflexivity. Qed.

Lemma rhe_lo : forall x, x - (1 # 2) <= inject_Z (rhe x).
Proof.
  intros x. unfold rhe. pose proof (Qfloor_le x) as Hf. pose proof (Qlt_floor x) as Hl.
  rewrite inject_Z_succ in Hl.
  destruct (Qcompare_spec (x - inject_Z (Qfloor x)) (1 # 2)) as [E|L|G].
  - destruct (Z.even (Qfloor x)); [|rewrite inject_Z_succ]; lra.
  - lra.
  - rewrite inject_Z_succ. lra.
Qed.

Lemma rhe_hi : forall x, inject_Z (rhe x) <= x + (1 # 2).
Proof.
  intros x. unfold rhe. pose proof (Qfloor_le x) as Hf. pose proof (Qlt_floor x) as Hl.
  rewrite inject_Z_succ in Hl.
  destruct (Qcompare_spec (x - inject_Z (Qfloor x)) (1 # 2)) as [E|L|G].
  - destruct (Z.even (Qfloor x)); [|rewrite inject_Z_succ]; lra.
  - lra.
  - rewrite inject_Z_succ. lra.
Qed.

Lemma Zlt_Q : forall a b : Z, inject_Z a < inject_Z b -> (a < b)%Z.
Proof. intros a b. rewrite <- Zlt_Qlt. auto. Qed.
Lemma Zle_Q : forall a b : Z, inject_Z a <= inject_Z b -> (a <= b)%Z.
Proof. intros a b. rewrite <- Zle_Qle. auto. Qed.

(** an integer strictly within 1 of another on the right side is below it *)
Lemma rhe_le : forall x z, x < inject_Z z + (1 # 2) -> (rhe x <= z)%Z.
Proof.
  intros x z H. pose proof (rhe_hi x).
  assert (inject_Z (rhe x) < inject_Z (z + 1)) by (rewrite inject_Z_succ; lra).
  apply Zlt_Q in H1. lia.
Qed.
Lemma rhe_ge : forall x z, inject_Z z - (1 # 2) < x -> (z <= rhe x)%Z.
Proof.
  intros x z H. pose proof (rhe_lo x).
  assert (inject_Z (z - 1) < inject_Z (rhe x)).
  { replace (z - 1)%Z with (z + -1)%Z by lia. rewrite inject_Z_plus.
    change (inject_Z (-1)) with (-1 # 1). lra. }
  apply Zlt_Q in H1. lia.
Qed.
Lemma rhe_near : forall x z,
  inject_Z z - (1 # 2) < x -> x < inject_Z z + (1 # 2) -> rhe x = z.
Proof. intros. pose proof (rhe_le x z H0). pose proof (rhe_ge x z H). lia. Qed.
Lemma rhe_Z : forall z, rhe (inject_Z z) = z.
Proof. intros. apply rhe_near; lra. Qed.
Lemma rhe_nonneg : forall x, 0 <= x -> (0 <= rhe x)%Z.
Proof. intros. apply rhe_ge. change (inject_Z 0) with 0. lra. Qed.
Lemma rhe_mono : forall x y, x <= y -> (rhe x <= rhe y)%Z.
Proof.
  (* via the characterisation by floor and remainder *)
  intros x y H. unfold rhe.
  pose proof (Qfloor_resp_le _ _ H) as Hfl.
  pose proof (Qfloor_le x) as Hfx. pose proof (Qlt_floor x) as Hlx.
  pose proof (Qfloor_le y) as Hfy. pose proof (Qlt_floor y) as Hly.
  rewrite inject_Z_succ in Hlx, Hly.
  destruct (Z.eq_dec (Qfloor x) (Qfloor y)) as [E|NE].
  - rewrite E in *.
    destruct (Qcompare_spec (x - inject_Z (Qfloor y)) (1 # 2));
    destruct (Qcompare_spec (y - inject_Z (Qfloor y)) (1 # 2));
    destruct (Z.even (Qfloor y)); try lia; exfalso; lra.
  - assert (Qfloor x + 1 <= Qfloor y)%Z by lia.
    destruct (Qcompare_spec (x - inject_Z (Qfloor x)) (1 # 2));
    destruct (Qcompare_spec (y - inject_Z (Qfloor y)) (1 # 2));
    destruct (Z.even (Qfloor x)); destruct (Z.even (Qfloor y)); lia.
Qed.

(** ------------------------------------------------- closed rational side conditions *)
Definition Qleb (a b : Q) : bool := Qle_bool a b.
Definition Qltb (a b : Q) : bool := negb (Qle_bool b a).
Lemma Qleb_le : forall a b, Qleb a b = true -> a <= b.
Proof. intros. apply Qle_bool_imp_le. exact H. Qed.
Lemma Qltb_lt : forall a b, Qltb a b = true -> a < b.
Proof.
  intros a b H. unfold Qltb in H. apply Qnot_le_lt. intro L.
  apply Qle_bool_iff in L. rewrite L in H. discriminate.
Qed.
(** decide a closed inequality by computation *)
Ltac qdec := first [ apply Qleb_le; vm_compute; reflexivity
                   | apply Qltb_lt; vm_compute; reflexivity ].

Lemma u_pos : 0 < ulp_rel. Proof. qdec. Qed.
Lemma u_small : ulp_rel <= 1 # 1000000. Proof. qdec. Qed.
Lemma fsmall_pos : 0 < fsmall. Proof. qdec. Qed.

(** ------------------------------------------------------ products of positives *)
Lemma Qmul_le_mono : forall a b c d, 0 <= a -> a <= b -> 0 <= c -> c <= d -> a * c <= b * d.
Proof. intros. nra. Qed.
Lemma Qmul_pos : forall a b, 0 < a -> 0 < b -> 0 < a * b.
Proof. intros. nra. Qed.
Lemma Qdiv_pos : forall a b, 0 < a -> 0 < b -> 0 < a / b.
Proof. intros. apply Qlt_shift_div_l; lra. Qed.
Lemma Qdiv_le_mono : forall a b c d, 0 <= a -> a <= b -> 0 < c -> c <= d -> a / d <= b / c.
Proof.
  intros a b c d Ha Hab Hc Hcd. unfold Qdiv.
  assert (Pd : 0 < / d) by (apply Qinv_lt_0_compat; lra).
  assert (I : / d <= / c).
  { apply Qle_shift_inv_l; [lra|].
    assert (E : / d * c == c / d) by (unfold Qdiv; ring). rewrite E.
    apply Qle_shift_div_r; lra. }
  apply Qmul_le_mono; lra.
Qed.
Lemma Qdiv_mul_cancel : forall a b, ~ b == 0 -> a / b * b == a.
Proof. intros. field. assumption. Qed.

Section Kit.
Context {FA : FloatArith} (SM : StandardModel FA).
Local Notation fin := (finite SM).
Local Notation v := (val SM).
Local Notation u := ulp_rel.

Lemma rnd_pos_bounds : forall y, fsmall <= y -> y <= fbig ->
  y * (1 - u) <= rnd SM y /\ rnd SM y <= y * (1 + u).
Proof.
  intros y Hs Hb. pose proof fsmall_pos.
  assert (Ey : Qabs y == y) by (apply Qabs_pos; lra).
  assert (Hs' : fsmall <= Qabs y) by (rewrite Ey; exact Hs).
  assert (Hb' : Qabs y <= fbig) by (rewrite Ey; exact Hb).
  pose proof (rnd_err SM y Hs' Hb') as He. rewrite Ey in He.
  apply Qabs_Qle_condition in He. lra.
Qed.

Lemma rnd_Z : forall z, (Z.abs z <= 2 ^ 53)%Z -> rnd SM (inject_Z z) == inject_Z z.
Proof.
  intros z Hz. pose proof (rnd_repr SM z 0 Hz ltac:(lia)) as H.
  change (2 ^ 0) with 1 in H.
  assert (E : inject_Z z * 1 == inject_Z z) by ring.
  rewrite (rnd_comp SM _ _ E) in H. rewrite H. exact E.
Qed.

Lemma rnd_half : forall z, (Z.abs z <= 2 ^ 53)%Z ->
  rnd SM (inject_Z z / 2) == inject_Z z / 2.
Proof.
  intros z Hz. pose proof (rnd_repr SM z (-1) Hz ltac:(lia)) as H.
  assert (E : inject_Z z * 2 ^ (-1) == inject_Z z / 2) by (unfold Qdiv; reflexivity).
  rewrite (rnd_comp SM _ _ E) in H. rewrite H. exact E.
Qed.

(** [rnd] maps [lo, hi] into itself when the end points are integers (or their inverses
    are not needed here) *)
Lemma rnd_le_Z : forall y z, (Z.abs z <= 2 ^ 53)%Z -> y <= inject_Z z -> rnd SM y <= inject_Z z.
Proof. intros. rewrite <- (rnd_Z z) by assumption. apply rnd_mono. assumption. Qed.
Lemma rnd_ge_Z : forall y z, (Z.abs z <= 2 ^ 53)%Z -> inject_Z z <= y -> inject_Z z <= rnd SM y.
Proof. intros. rewrite <- (rnd_Z z) by assumption. apply rnd_mono. assumption. Qed.

(** [Ap a x lf hf lo hi]: the float [a] is finite and approximates the exact positive
    quantity [x] in [lo, hi] with relative factors [lf <= val a / x <= hf] *)
Record Ap (a : F FA) (x lf hf lo hi : Q) : Prop := {
  ap_fin : fin a;
  ap_lo : lo <= x;
  ap_hi : x <= hi;
  ap_l : x * lf <= v a;
  ap_h : v a <= x * hf
}.

(** the closed side conditions of one step *)
Definition factors_ok (lf hf lo : Q) : bool :=
  Qltb 0 lo && Qleb (1 # 2) lf && Qleb lf 1 && Qleb 1 hf && Qleb hf 2.

Lemma factors_ok_spec : forall lf hf lo, factors_ok lf hf lo = true ->
  0 < lo /\ 1 # 2 <= lf /\ lf <= 1 /\ 1 <= hf /\ hf <= 2.
Proof.
  unfold factors_ok. intros lf hf lo H.
  repeat (apply andb_prop in H; destruct H as [H ?]).
  repeat split; try (apply Qleb_le; assumption). apply Qltb_lt; assumption.
Qed.

Lemma Ap_pos : forall a x lf hf lo hi, Ap a x lf hf lo hi -> factors_ok lf hf lo = true ->
  0 < x /\ 0 < v a /\ x * (1 # 2) <= v a /\ v a <= x * 2.
Proof.
  intros a x lf hf lo hi [Hf Hlo Hhi Hl Hh] Hok.
  apply factors_ok_spec in Hok. destruct Hok as (L0 & L1 & L2 & L3 & L4).
  assert (0 < x) by lra. repeat split; nra.
Qed.

Lemma Ap_ofZ : forall z lo hi, (1 <= z)%Z -> (z <= 2 ^ 53)%Z ->
  lo <= inject_Z z -> inject_Z z <= hi -> Ap (ofZ z) (inject_Z z) 1 1 lo hi.
Proof.
  intros z lo hi Hz1 Hz2 Hlo Hhi.
  destruct (ofZ_ok SM z ltac:(lia)) as [Hf Hv].
  constructor; auto; rewrite Hv; lra.
Qed.

Lemma Ap_weaken : forall a x lf hf lo hi lf' hf' lo' hi',
  Ap a x lf hf lo hi -> 0 <= x -> lf' <= lf -> hf <= hf' -> lo' <= lo -> hi <= hi' ->
  Ap a x lf' hf' lo' hi'.
Proof.
  intros a x lf hf lo hi lf' hf' lo' hi' [Hf Hlo Hhi Hl Hh] Hx H1 H2 H3 H4.
  constructor; auto; try lra; nra.
Qed.

Lemma Ap_rebound : forall a x lf hf lo hi lo' hi',
  Ap a x lf hf lo hi -> lo' <= x -> x <= hi' -> Ap a x lf hf lo' hi'.
Proof. intros a x lf hf lo hi lo' hi' [Hf Hlo Hhi Hl Hh] H1 H2. constructor; auto. Qed.

Lemma Ap_exact : forall a x y lf hf lo hi, Ap a x lf hf lo hi -> x == y -> Ap a y lf hf lo hi.
Proof.
  intros a x y lf hf lo hi [Hf Hlo Hhi Hl Hh] E.
  constructor; auto; rewrite <- E; assumption.
Qed.

Definition mul_ok_b (lf1 hf1 lo1 hi1 lf2 hf2 lo2 hi2 : Q) : bool :=
  factors_ok lf1 hf1 lo1 && factors_ok lf2 hf2 lo2
  && Qleb (4 * fsmall) (lo1 * lo2) && Qleb (4 * (hi1 * hi2)) fbig.

Lemma Ap_mul : forall a b x y lf1 hf1 lo1 hi1 lf2 hf2 lo2 hi2,
  Ap a x lf1 hf1 lo1 hi1 -> Ap b y lf2 hf2 lo2 hi2 ->
  mul_ok_b lf1 hf1 lo1 hi1 lf2 hf2 lo2 hi2 = true ->
  Ap (fmul a b) (x * y) (lf1 * lf2 * (1 - u)) (hf1 * hf2 * (1 + u)) (lo1 * lo2) (hi1 * hi2).
Proof.
  intros a b x y lf1 hf1 lo1 hi1 lf2 hf2 lo2 hi2 A1 A2 Hok.
  unfold mul_ok_b in Hok.
  apply andb_prop in Hok. destruct Hok as [Hok H].
  apply andb_prop in Hok. destruct Hok as [Hok H0].
  apply andb_prop in Hok. destruct Hok as [K1 K2].
  apply Qleb_le in H0, H.
  destruct (Ap_pos _ _ _ _ _ _ A1 K1) as (Px & Pa & La & Ua).
  destruct (Ap_pos _ _ _ _ _ _ A2 K2) as (Py & Pb & Lb & Ub).
  apply factors_ok_spec in K1, K2.
  destruct K1 as (L0 & L1 & L2 & L3 & L4). destruct K2 as (M0 & M1 & M2 & M3 & M4).
  destruct A1 as [Fa Hlo1 Hhi1 Hl1 Hh1]. destruct A2 as [Fb Hlo2 Hhi2 Hl2 Hh2].
  assert (Pxy : 0 < x * y) by (apply Qmul_pos; assumption).
  assert (Blo : lo1 * lo2 <= x * y) by (apply Qmul_le_mono; lra).
  assert (Bhi : x * y <= hi1 * hi2) by (apply Qmul_le_mono; lra).
  (* the exact product of the two float values *)
  assert (Plo : (x * y) * (lf1 * lf2) <= v a * v b).
  { assert (E : x * y * (lf1 * lf2) == (x * lf1) * (y * lf2)) by ring. rewrite E.
    apply Qmul_le_mono; try assumption; nra. }
  assert (Phi : v a * v b <= (x * y) * (hf1 * hf2)).
  { assert (E : x * y * (hf1 * hf2) == (x * hf1) * (y * hf2)) by ring. rewrite E.
    apply Qmul_le_mono; lra. }
  assert (Pq : (x * y) * (1 # 4) <= v a * v b).
  { assert (E : x * y * (1 # 4) == (x * (1 # 2)) * (y * (1 # 2))) by ring. rewrite E.
    apply Qmul_le_mono; lra. }
  assert (Pq2 : v a * v b <= (x * y) * 4).
  { assert (E : x * y * 4 == (x * 2) * (y * 2)) by ring. rewrite E.
    apply Qmul_le_mono; lra. }
  assert (R1 : fsmall <= v a * v b) by lra.
  assert (R2 : v a * v b <= fbig) by lra.
  assert (R3 : Qabs (v a * v b) <= fbig) by (rewrite Qabs_pos; lra).
  destruct (mul_ok SM a b Fa Fb R3) as [Fm Vm].
  destruct (rnd_pos_bounds _ R1 R2) as [Rl Rh].
  pose proof u_pos. pose proof u_small.
  constructor; auto.
  - rewrite Vm.
    assert (E : x * y * (lf1 * lf2 * (1 - u)) == (x * y * (lf1 * lf2)) * (1 - u)) by ring.
    rewrite E. apply Qle_trans with (v a * v b * (1 - u)); [|assumption].
    apply Qmult_le_compat_r; lra.
  - rewrite Vm.
    assert (E : x * y * (hf1 * hf2 * (1 + u)) == (x * y * (hf1 * hf2)) * (1 + u)) by ring.
    rewrite E. apply Qle_trans with (v a * v b * (1 + u)); [assumption|].
    apply Qmult_le_compat_r; lra.
Qed.

Definition div_ok_b (lf1 hf1 lo1 hi1 lf2 hf2 lo2 hi2 : Q) : bool :=
  factors_ok lf1 hf1 lo1 && factors_ok lf2 hf2 lo2
  && Qleb (4 * fsmall) (lo1 / hi2) && Qleb (4 * (hi1 / lo2)) fbig && Qltb 0 hi2.

Lemma Ap_div : forall a b x y lf1 hf1 lo1 hi1 lf2 hf2 lo2 hi2,
  Ap a x lf1 hf1 lo1 hi1 -> Ap b y lf2 hf2 lo2 hi2 ->
  div_ok_b lf1 hf1 lo1 hi1 lf2 hf2 lo2 hi2 = true ->
  Ap (fdiv a b) (x / y) (lf1 / hf2 * (1 - u)) (hf1 / lf2 * (1 + u)) (lo1 / hi2) (hi1 / lo2).
Proof.
  intros a b x y lf1 hf1 lo1 hi1 lf2 hf2 lo2 hi2 A1 A2 Hok.
  unfold div_ok_b in Hok.
  apply andb_prop in Hok. destruct Hok as [Hok H].
  apply andb_prop in Hok. destruct Hok as [Hok H1].
  apply andb_prop in Hok. destruct Hok as [Hok H0].
  apply andb_prop in Hok. destruct Hok as [K1 K2].
  apply Qleb_le in H0, H1. apply Qltb_lt in H.
  destruct (Ap_pos _ _ _ _ _ _ A1 K1) as (Px & Pa & La & Ua).
  destruct (Ap_pos _ _ _ _ _ _ A2 K2) as (Py & Pb & Lb & Ub).
  apply factors_ok_spec in K1, K2.
  destruct K1 as (L0 & L1 & L2 & L3 & L4). destruct K2 as (M0 & M1 & M2 & M3 & M4).
  destruct A1 as [Fa Hlo1 Hhi1 Hl1 Hh1]. destruct A2 as [Fb Hlo2 Hhi2 Hl2 Hh2].
  assert (Pxy : 0 < x / y) by (apply Qdiv_pos; assumption).
  assert (Blo : lo1 / hi2 <= x / y) by (apply Qdiv_le_mono; lra).
  assert (Bhi : x / y <= hi1 / lo2) by (apply Qdiv_le_mono; lra).
  assert (Plo : (x / y) * (lf1 / hf2) <= v a / v b).
  { assert (E : x / y * (lf1 / hf2) == (x * lf1) / (y * hf2)) by (field; lra). rewrite E.
    apply Qdiv_le_mono; try lra. nra. }
  assert (Phi : v a / v b <= (x / y) * (hf1 / lf2)).
  { assert (E : x / y * (hf1 / lf2) == (x * hf1) / (y * lf2)) by (field; lra). rewrite E.
    apply Qdiv_le_mono; try lra. nra. }
  assert (Pq : (x / y) * (1 # 4) <= v a / v b).
  { assert (E : x / y * (1 # 4) == (x * (1 # 2)) / (y * 2)) by (field; lra). rewrite E.
    apply Qdiv_le_mono; lra. }
  assert (Pq2 : v a / v b <= (x / y) * 4).
  { assert (E : x / y * 4 == (x * 2) / (y * (1 # 2))) by (field; lra). rewrite E.
    apply Qdiv_le_mono; lra. }
  assert (R1 : fsmall <= v a / v b) by lra.
  assert (R2 : v a / v b <= fbig) by lra.
  assert (R3 : Qabs (v a / v b) <= fbig) by (rewrite Qabs_pos; lra).
  assert (Nz : ~ v b == 0) by lra.
  destruct (div_ok SM a b Fa Fb Nz R3) as [Fm Vm].
  destruct (rnd_pos_bounds _ R1 R2) as [Rl Rh].
  pose proof u_pos. pose proof u_small.
  assert (0 < lf1 / hf2) by (apply Qdiv_pos; lra).
  assert (0 < hf1 / lf2) by (apply Qdiv_pos; lra).
  constructor; auto.
  - rewrite Vm.
    assert (E : x / y * (lf1 / hf2 * (1 - u)) == (x / y * (lf1 / hf2)) * (1 - u)) by ring.
    rewrite E. apply Qle_trans with (v a / v b * (1 - u)); [|assumption].
    apply Qmult_le_compat_r; lra.
  - rewrite Vm.
    assert (E : x / y * (hf1 / lf2 * (1 + u)) == (x / y * (hf1 / lf2)) * (1 + u)) by ring.
    rewrite E. apply Qle_trans with (v a / v b * (1 + u)); [assumption|].
    apply Qmult_le_compat_r; lra.
Qed.

(** absolute error from the relative factors and an upper bound on the VALUE *)
Lemma Ap_abs_val : forall a x lf hf lo hi M d, Ap a x lf hf lo hi ->
  factors_ok lf hf lo = true -> v a <= M ->
  M * (hf / lf - 1) <= d -> M * (1 - lf / hf) <= d -> 0 <= M ->
  x - d <= v a /\ v a <= x + d.
Proof.
  intros a x lf hf lo hi M d A Hok HM D1 D2 M0.
  destruct (Ap_pos _ _ _ _ _ _ A Hok) as (Px & Pa & La & Ua).
  apply factors_ok_spec in Hok. destruct Hok as (L0 & L1 & L2 & L3 & L4).
  destruct A as [Fa Hlo Hhi Hl Hh].
  (* x <= v a / lf,  x >= v a / hf *)
  assert (X1 : x <= v a / lf) by (apply Qle_shift_div_l; lra).
  assert (X2 : v a / hf <= x) by (apply Qle_shift_div_r; lra).
  split.
  - (* x - v a <= v a / lf - v a = v a (1/lf - 1) <= v a (hf/lf - 1) <= M (...) *)
    assert (E : v a / lf - v a == v a * (1 / lf - 1)) by (field; lra).
    assert (1 / lf - 1 <= hf / lf - 1).
    { assert (1 / lf <= hf / lf) by (apply Qdiv_le_mono; lra). lra. }
    assert (0 <= 1 / lf - 1).
    { assert (1 / 1 <= 1 / lf) by (apply Qdiv_le_mono; lra).
      assert (E1 : 1 / 1 == 1) by reflexivity. lra. }
    assert (v a * (1 / lf - 1) <= M * (hf / lf - 1)) by (apply Qmul_le_mono; lra).
    lra.
  - assert (E : v a - v a / hf == v a * (1 - 1 / hf)) by (field; lra).
    assert (1 - 1 / hf <= 1 - lf / hf).
    { assert (lf / hf <= 1 / hf) by (apply Qdiv_le_mono; lra). lra. }
    assert (0 <= 1 - 1 / hf).
    { assert (1 / hf <= 1 / 1) by (apply Qdiv_le_mono; lra).
      assert (E1 : 1 / 1 == 1) by reflexivity. lra. }
    assert (v a * (1 - 1 / hf) <= M * (1 - lf / hf)) by (apply Qmul_le_mono; lra).
    lra.
Qed.

(** the same from an upper bound on the exact quantity *)
Lemma Ap_abs : forall a x lf hf lo hi d, Ap a x lf hf lo hi ->
  factors_ok lf hf lo = true -> hi * (hf - 1) <= d -> hi * (1 - lf) <= d ->
  x - d <= v a /\ v a <= x + d.
Proof.
  intros a x lf hf lo hi d A Hok D1 D2.
  destruct (Ap_pos _ _ _ _ _ _ A Hok) as (Px & Pa & La & Ua).
  apply factors_ok_spec in Hok. destruct Hok as (L0 & L1 & L2 & L3 & L4).
  destruct A as [Fa Hlo Hhi Hl Hh].
  assert (x * (hf - 1) <= hi * (hf - 1)) by (apply Qmul_le_mono; lra).
  assert (x * (1 - lf) <= hi * (1 - lf)) by (apply Qmul_le_mono; lra).
  split; lra.
Qed.

(** x / x and 1 * x are exact *)
Lemma div_self : forall a, fin a -> 0 < v a -> fin (fdiv a a) /\ v (fdiv a a) == 1.
Proof.
  intros a Fa Pa.
  assert (E : v a / v a == 1) by (field; lra).
  assert (R : Qabs (v a / v a) <= fbig).
  { rewrite E. apply Qleb_le. vm_compute. reflexivity. }
  destruct (div_ok SM a a Fa Fa ltac:(lra) R) as [Fd Vd].
  split; auto. rewrite Vd. rewrite (rnd_comp SM _ _ E).
  exact (rnd_Z 1 ltac:(vm_compute; discriminate)).
Qed.

Lemma mul_one_l : forall o b, fin o -> v o == 1 -> fin b -> Qabs (v b) <= fbig ->
  fin (fmul o b) /\ v (fmul o b) == v b.
Proof.
  intros o b Fo Vo Fb Rb.
  assert (E : v o * v b == v b) by (rewrite Vo; ring).
  assert (R : Qabs (v o * v b) <= fbig) by (rewrite E; assumption).
  destruct (mul_ok SM o b Fo Fb R) as [Fm Vm].
  split; auto. rewrite Vm. rewrite (rnd_comp SM _ _ E). apply rnd_val. assumption.
Qed.


(** the two steps with the resulting factors / bounds weakened to chosen constants,
    all side conditions in one closed boolean *)
Lemma Ap_mul_w : forall a b x y lf1 hf1 lo1 hi1 lf2 hf2 lo2 hi2 lf hf lo hi,
  Ap a x lf1 hf1 lo1 hi1 -> Ap b y lf2 hf2 lo2 hi2 ->
  mul_ok_b lf1 hf1 lo1 hi1 lf2 hf2 lo2 hi2
  && Qleb lf (lf1 * lf2 * (1 - u)) && Qleb (hf1 * hf2 * (1 + u)) hf
  && Qleb lo (lo1 * lo2) && Qleb (hi1 * hi2) hi = true ->
  Ap (fmul a b) (x * y) lf hf lo hi.
Proof.
  intros a b x y lf1 hf1 lo1 hi1 lf2 hf2 lo2 hi2 lf hf lo hi A1 A2 Hok.
  apply andb_prop in Hok. destruct Hok as [Hok C4].
  apply andb_prop in Hok. destruct Hok as [Hok C3].
  apply andb_prop in Hok. destruct Hok as [Hok C2].
  apply andb_prop in Hok. destruct Hok as [Hok C1].
  apply Qleb_le in C1, C2, C3, C4.
  pose proof (Ap_mul _ _ _ _ _ _ _ _ _ _ _ _ A1 A2 Hok) as A.
  unfold mul_ok_b in Hok.
  apply andb_prop in Hok. destruct Hok as [Hok _].
  apply andb_prop in Hok. destruct Hok as [Hok _].
  apply andb_prop in Hok. destruct Hok as [K1 K2].
  destruct (Ap_pos _ _ _ _ _ _ A1 K1) as (Px & _). destruct (Ap_pos _ _ _ _ _ _ A2 K2) as (Py & _).
  apply (Ap_weaken _ _ _ _ _ _ _ _ _ _ A); try assumption.
  apply Qlt_le_weak. apply Qmul_pos; assumption.
Qed.

Lemma Ap_div_w : forall a b x y lf1 hf1 lo1 hi1 lf2 hf2 lo2 hi2 lf hf lo hi,
  Ap a x lf1 hf1 lo1 hi1 -> Ap b y lf2 hf2 lo2 hi2 ->
  div_ok_b lf1 hf1 lo1 hi1 lf2 hf2 lo2 hi2
  && Qleb lf (lf1 / hf2 * (1 - u)) && Qleb (hf1 / lf2 * (1 + u)) hf
  && Qleb lo (lo1 / hi2) && Qleb (hi1 / lo2) hi = true ->
  Ap (fdiv a b) (x / y) lf hf lo hi.
Proof.
  intros a b x y lf1 hf1 lo1 hi1 lf2 hf2 lo2 hi2 lf hf lo hi A1 A2 Hok.
  apply andb_prop in Hok. destruct Hok as [Hok C4].
  apply andb_prop in Hok. destruct Hok as [Hok C3].
  apply andb_prop in Hok. destruct Hok as [Hok C2].
  apply andb_prop in Hok. destruct Hok as [Hok C1].
  apply Qleb_le in C1, C2, C3, C4.
  pose proof (Ap_div _ _ _ _ _ _ _ _ _ _ _ _ A1 A2 Hok) as A.
  unfold div_ok_b in Hok.
  apply andb_prop in Hok. destruct Hok as [Hok _].
  apply andb_prop in Hok. destruct Hok as [Hok _].
  apply andb_prop in Hok. destruct Hok as [Hok _].
  apply andb_prop in Hok. destruct Hok as [K1 K2].
  destruct (Ap_pos _ _ _ _ _ _ A1 K1) as (Px & _). destruct (Ap_pos _ _ _ _ _ _ A2 K2) as (Py & _).
  apply (Ap_weaken _ _ _ _ _ _ _ _ _ _ A); try assumption.
  apply Qlt_le_weak. apply Qdiv_pos; assumption.
Qed.

Lemma Ap_val_eq : forall a b x lf hf lo hi, Ap a x lf hf lo hi -> fin b -> v b == v a ->
  Ap b x lf hf lo hi.
Proof.
  intros a b x lf hf lo hi [Fa Hlo Hhi Hl Hh] Fb E. constructor; auto; rewrite E; assumption.
Qed.

(** a quotient of positives that is at most 1 stays at most 1; multiplying by a factor
    in [0,1] does not increase *)
Lemma fdiv_le_1 : forall a b, fin a -> fin b -> 0 < v a -> v a <= v b ->
  fin (fdiv a b) /\ v (fdiv a b) <= 1 /\ 0 <= v (fdiv a b).
Proof.
  intros a b Fa Fb Pa Hab.
  assert (Q1 : v a / v b <= 1) by (apply Qle_shift_div_r; lra).
  assert (Q0 : 0 < v a / v b) by (apply Qdiv_pos; lra).
  assert (R : Qabs (v a / v b) <= fbig).
  { rewrite Qabs_pos by lra. apply Qle_trans with 1; [assumption|]. qdec. }
  destruct (div_ok SM a b Fa Fb ltac:(lra) R) as [Fd Vd].
  split; auto. rewrite Vd. split.
  - change 1 with (inject_Z 1). apply rnd_le_Z; [vm_compute; discriminate|]. exact Q1.
  - change 0 with (inject_Z 0). apply rnd_ge_Z; [vm_compute; discriminate|].
    change (inject_Z 0) with 0. lra.
Qed.

Lemma fmul_le_r : forall q c, fin q -> fin c -> 0 <= v q -> v q <= 1 -> 0 <= v c -> v c <= fbig ->
  fin (fmul q c) /\ v (fmul q c) <= v c /\ 0 <= v (fmul q c).
Proof.
  intros q c Fq Fc Q0 Q1 C0 C1.
  assert (P1 : v q * v c <= v c) by nra.
  assert (P0 : 0 <= v q * v c) by nra.
  assert (R : Qabs (v q * v c) <= fbig) by (rewrite Qabs_pos; lra).
  destruct (mul_ok SM q c Fq Fc R) as [Fm Vm].
  split; auto. rewrite Vm. split.
  - rewrite <- (rnd_val SM c Fc) at 2. apply rnd_mono. exact P1.
  - change 0 with (inject_Z 0). apply rnd_ge_Z; [vm_compute; discriminate|]. exact P0.
Qed.

Lemma fround_rhe : forall a, fin a -> fround a = rhe (v a).
Proof. intros. apply (round_ok SM). assumption. Qed.

(** Python's min on finite floats *)
Lemma fmin_cases : forall a b, fin a -> fin b ->
  (fltb b a = true /\ v b < v a /\ fmin a b = b) \/
  (fltb b a = false /\ v a <= v b /\ fmin a b = a).
Proof.
  intros a b Fa Fb. unfold fmin. destruct (fltb b a) eqn:E.
  - left. repeat split; auto. apply (ltb_ok SM); assumption.
  - right. repeat split; auto. apply Qnot_lt_le. intro L.
    apply (ltb_ok SM b a Fb Fa) in L. congruence.
Qed.

End Kit.
