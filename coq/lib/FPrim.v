(** The binary64 instance of [FloatArith] used to EXECUTE the sizing model inside Coq
    (vm_compute), bit for bit like CPython's [float]: Coq's primitive floats are the
    machine's IEEE-754 binary64 with round-to-nearest-even, exactly what CPython uses.
    Only [PrimFloat] / [Uint63] are imported (kernel primitives; not [Floats], whose
    [FloatAxioms] would add axioms).  Nothing is proved about this instance: that it
    satisfies [StandardModel] is the IEEE-754 assumption of the trusted base, and its
    agreement with CPython is what the correspondence checks on every run. *)
From Coq Require Import ZArith QArith Uint63 PrimFloat.
From TI Require Import lib.FArith.

(** [x = (-1)^s * m * 2^e] exactly, for finite [x] ([m] a 53-bit integer, or 0).
    [frshiftexp] returns the fraction in [0.5,1) and the exponent biased by
    [2101 = 2*emax + prec] (FloatOps.shift); [normfr_mantissa] its 53-bit mantissa. *)
Definition decode (x : float) : option (bool * Z * Z) :=
  if is_nan x || is_infinity x then None
  else if is_zero x then Some (false, 0%Z, 0%Z)
  else let (f, se) := frshiftexp x in
       Some (ltb x zero, Uint63.to_Z (normfr_mantissa f),
             (Uint63.to_Z se - 2101 - 53)%Z).

Definition signed (s : bool) (m : Z) : Z := if s then (- m)%Z else m.

(** exact rational value (0 for nan / infinities: outside the model's domain) *)
Definition prim_val (x : float) : Q :=
  match decode x with
  | None => 0
  | Some (s, m, e) =>
      if (0 <=? e)%Z then inject_Z (signed s m * 2 ^ e)
      else Qmake (signed s m) (Z.to_pos (2 ^ (- e)))
  end.

(** Python [round(x)] for a float: nearest integer, ties to even, computed exactly *)
Definition prim_round (x : float) : Z :=
  match decode x with
  | None => 0%Z
  | Some (s, m, e) =>
      let sm := signed s m in
      if (0 <=? e)%Z then (sm * 2 ^ e)%Z
      else let d := (2 ^ (- e))%Z in
           let q := (sm / d)%Z in            (* floor *)
           let r := (sm mod d)%Z in          (* 0 <= r < d *)
           match (2 * r ?= d)%Z with
           | Lt => q
           | Gt => (q + 1)%Z
           | Eq => if Z.even q then q else (q + 1)%Z
           end
  end.

(** [math.ceil(x)] *)
Definition prim_ceil (x : float) : Z :=
  match decode x with
  | None => 0%Z
  | Some (s, m, e) =>
      let sm := signed s m in
      if (0 <=? e)%Z then (sm * 2 ^ e)%Z
      else (- ((- sm) / 2 ^ (- e)))%Z
  end.

(** int -> float (exact below 2^53, which is all the model's domain uses) *)
Definition prim_ofZ (z : Z) : float :=
  if (z <? 0)%Z then opp (of_uint63 (Uint63.of_Z (- z))) else of_uint63 (Uint63.of_Z z).

Definition PrimFA : FloatArith :=
  {| F := float; ofZ := prim_ofZ; fmul := mul; fdiv := div; fltb := ltb; fleb := leb;
     fround := prim_round; fceil := prim_ceil |}.
