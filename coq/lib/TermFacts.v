(** Facts about [lib/Term.v]: append, translation invariance, symbolic execution of the
    token patterns the library emits. *)
From Coq Require Import List ZArith Bool Lia.
Import ListNotations.
From TI Require Import lib.Term.
Open Scope Z_scope.

Lemma exec_app lm t a b : exec lm t (a ++ b) = exec lm (exec lm t a) b.
Proof. unfold exec. apply fold_left_app. Qed.

Lemma exec_cons lm t x ts : exec lm t (x :: ts) = exec lm (step lm t x) ts.
Proof. reflexivity. Qed.

Lemma exec_nil lm t : exec lm t [] = t.
Proof. reflexivity. Qed.

(** ** An explicit constructor for "the state after", to state results as equalities *)
Definition mk (r c : Z) (a : attrs) (t : term) (es : list ev) : term :=
  {| row := r; col := c; sgr := a; visible := visible t; synced := synced t;
     parser := parser t; pending := pending t; log := log t ++ es |}.

Lemma mk_id t : mk (row t) (col t) (sgr t) t [] = t.
Proof. destruct t; unfold mk; cbn. rewrite app_nil_r. reflexivity. Qed.

Lemma mk_mk r c a r' c' a' t es es' :
  mk r' c' a' (mk r c a t es) es' = mk r' c' a' t (es ++ es').
Proof. unfold mk; cbn. rewrite app_assoc. reflexivity. Qed.

Definition clean (t : term) : Prop := parser t = Ground /\ pending t = None.

Lemma clean_mk r c a t es : clean t -> clean (mk r c a t es).
Proof. intros H; exact H. Qed.

(** ** Zero-width tokens *)
Lemma step_sgr0 lm t : parser t = Ground ->
  step lm t TSgr0 = mk (row t) (col t) adefault t [].
Proof.
  intros H. unfold step; rewrite H. destruct t; unfold mk, set_sgr; cbn.
  rewrite app_nil_r. reflexivity.
Qed.
Lemma step_fg lm t c : parser t = Ground ->
  step lm t (TFg c) = mk (row t) (col t) {| fg := Some c; bg := bg (sgr t) |} t [].
Proof.
  intros H. unfold step; rewrite H. destruct t; unfold mk, set_sgr; cbn.
  rewrite app_nil_r. reflexivity.
Qed.
Lemma step_bg lm t c : parser t = Ground ->
  step lm t (TBg c) = mk (row t) (col t) {| fg := fg (sgr t); bg := Some c |} t [].
Proof.
  intros H. unfold step; rewrite H. destruct t; unfold mk, set_sgr; cbn.
  rewrite app_nil_r. reflexivity.
Qed.
Lemma step_nul lm t : parser t = Ground -> step lm t TNul = t.
Proof. intros H. unfold step; rewrite H. reflexivity. Qed.

(** ** Glyphs *)
Lemma step_char lm t g : parser t = Ground ->
  step lm t (TChar g) = mk (row t) (col t + 1) (sgr t) t [EText (row t) (col t) g (sgr t)].
Proof. intros H. unfold step; rewrite H. reflexivity. Qed.

(** [n] glyphs [g] with attributes [a] from (r, c) *)
Fixpoint text_evs (r c : Z) (g : glyph) (a : attrs) (n : nat) : list ev :=
  match n with
  | O => []
  | S k => EText r c g a :: text_evs r (c + 1) g a k
  end.

Lemma text_evs_app r c g a n m :
  text_evs r c g a (n + m) = text_evs r c g a n ++ text_evs r (c + Z.of_nat n) g a m.
Proof.
  revert c; induction n as [|n IH]; intros c; cbn [text_evs Nat.add app].
  - f_equal; lia.
  - rewrite IH. do 3 f_equal. lia.
Qed.

Lemma text_evs_length r c g a n : length (text_evs r c g a n) = n.
Proof. revert c; induction n; intros; cbn; auto. Qed.

(** glyphs optionally followed by a NUL each (split cells) *)
Definition cell_toks (split : bool) (g : glyph) : list tok :=
  if split then [TChar g; TNul] else [TChar g].
Fixpoint glyphs (split : bool) (g : glyph) (n : nat) : list tok :=
  match n with
  | O => []
  | S k => cell_toks split g ++ glyphs split g k
  end.

Lemma exec_glyphs lm split g n : forall t, parser t = Ground ->
  exec lm t (glyphs split g n) =
  mk (row t) (col t + Z.of_nat n) (sgr t) t (text_evs (row t) (col t) g (sgr t) n).
Proof.
  induction n as [|n IH]; intros t H.
  - cbn. replace (col t + 0) with (col t) by lia. symmetry; apply mk_id.
  - cbn [glyphs]. rewrite exec_app.
    assert (E : exec lm t (cell_toks split g) =
                mk (row t) (col t + 1) (sgr t) t [EText (row t) (col t) g (sgr t)]).
    { unfold cell_toks. destruct split; cbn [exec fold_left].
      - rewrite step_char by exact H. rewrite step_nul by exact H. reflexivity.
      - apply step_char, H. }
    rewrite E, IH by exact H. rewrite mk_mk. cbn [row col sgr mk text_evs].
    unfold mk; cbn. f_equal; lia.
Qed.

(** ** Cursor movement, erasure *)
Lemma step_cuf lm t n : parser t = Ground ->
  step lm t (TCuf n) = mk (row t) (col t + pos1 n) (sgr t) t [EMove (row t) (col t + pos1 n)].
Proof. intros H. unfold step; rewrite H. reflexivity. Qed.
Lemma step_cub lm t n : parser t = Ground ->
  step lm t (TCub n) = mk (row t) (col t - pos1 n) (sgr t) t [EMove (row t) (col t - pos1 n)].
Proof. intros H. unfold step; rewrite H. reflexivity. Qed.
Lemma step_cuu lm t n : parser t = Ground ->
  step lm t (TCuu n) = mk (row t - pos1 n) (col t) (sgr t) t [EMove (row t - pos1 n) (col t)].
Proof. intros H. unfold step; rewrite H. reflexivity. Qed.
Lemma step_cud lm t n : parser t = Ground ->
  step lm t (TCud n) = mk (row t + pos1 n) (col t) (sgr t) t [EMove (row t + pos1 n) (col t)].
Proof. intros H. unfold step; rewrite H. reflexivity. Qed.
Lemma step_lf lm t : parser t = Ground ->
  step lm t TLF = mk (row t + 1) lm (sgr t) t [EMove (row t + 1) lm].
Proof. intros H. unfold step; rewrite H. reflexivity. Qed.
Lemma step_cr lm t : parser t = Ground ->
  step lm t TCR = mk (row t) lm (sgr t) t [EMove (row t) lm].
Proof. intros H. unfold step; rewrite H. reflexivity. Qed.
Lemma step_ech lm t n : parser t = Ground ->
  step lm t (TEch n) =
  mk (row t) (col t) (sgr t) t (erase_evs (row t) (col t) (sgr t) (Z.to_nat (pos1 n))).
Proof. intros H. unfold step; rewrite H. reflexivity. Qed.

Ltac seq := first [reflexivity | lia | (progress f_equal; seq)].

(** ** Translation invariance *)
Definition shift_ev (dr dc : Z) (e : ev) : ev :=
  match e with
  | EText r c g a => EText (r + dr) (c + dc) g a
  | EErase r c a => EErase (r + dr) (c + dc) a
  | EImg r c h w z => EImg (r + dr) (c + dc) h w z
  | EDel d r c => EDel d (r + dr) (c + dc)
  | EMove r c => EMove (r + dr) (c + dc)
  | EGarbled => EGarbled
  end.

Definition shift (dr dc : Z) (t : term) : term :=
  {| row := row t + dr; col := col t + dc; sgr := sgr t; visible := visible t;
     synced := synced t; parser := parser t; pending := pending t;
     log := map (shift_ev dr dc) (log t) |}.

Lemma erase_evs_shift dr dc a n : forall r c,
  map (shift_ev dr dc) (erase_evs r c a n) = erase_evs (r + dr) (c + dc) a n.
Proof.
  induction n as [|n IH]; intros r c; cbn; [reflexivity|].
  rewrite IH. do 2 f_equal. lia.
Qed.

Lemma shift_emit dr dc t es :
  shift dr dc (emit t es) = emit (shift dr dc t) (map (shift_ev dr dc) es).
Proof. unfold shift, emit; cbn. rewrite map_app. reflexivity. Qed.

Lemma place_shift dr dc t k : place (shift dr dc t) k = shift dr dc (place t k).
Proof.
  unfold place. destruct (kk_stay k).
  - rewrite shift_emit. reflexivity.
  - unfold shift, emit, set_pos; cbn. rewrite !map_app; cbn. rewrite <- !app_assoc; cbn.
    seq.
Qed.

Lemma step_ground_shift dr dc lm t x :
  step_ground (lm + dc) (shift dr dc t) x = shift dr dc (step_ground lm t x).
Proof.
  destruct x; cbn [step_ground]; try reflexivity;
    try (unfold shift, emit, set_pos, set_sgr, set_visible, set_synced, set_parser; cbn;
         rewrite ?map_app; cbn; seq).
  - (* TEch *)
    rewrite shift_emit, erase_evs_shift. reflexivity.
  - (* TKittyFirst *)
    change (pending (shift dr dc t)) with (pending t).
    destruct (pending t); [rewrite shift_emit; reflexivity|].
    destruct more; [reflexivity|apply place_shift].
  - (* TKittyCont *)
    change (pending (shift dr dc t)) with (pending t).
    destruct (pending t) as [k0|]; [|rewrite shift_emit; reflexivity].
    destruct more; [reflexivity|].
    rewrite <- place_shift. reflexivity.
  - (* TIterm *)
    destruct dnmc.
    + rewrite shift_emit. reflexivity.
    + unfold shift, emit, set_pos; cbn. rewrite !map_app; cbn. rewrite <- !app_assoc; cbn.
      seq.
  - (* TCut *)
    destruct k; reflexivity.
Qed.

Lemma step_shift dr dc lm t x : step (lm + dc) (shift dr dc t) x = shift dr dc (step lm t x).
Proof.
  unfold step. change (parser (shift dr dc t)) with (parser t).
  destruct (parser t).
  - apply step_ground_shift.
  - destruct (is_esc_seq x).
    + change (set_parser (shift dr dc t) Ground) with (shift dr dc (set_parser t Ground)).
      apply step_ground_shift.
    + destruct x; try apply step_ground_shift.
      unfold shift, emit, set_parser; cbn. rewrite map_app. reflexivity.
  - destruct x; reflexivity.
Qed.

Theorem exec_shift dr dc lm ts : forall t,
  exec (lm + dc) (shift dr dc t) ts = shift dr dc (exec lm t ts).
Proof.
  induction ts as [|x ts IH]; intros t; [reflexivity|].
  cbn [exec fold_left]. rewrite step_shift. apply IH.
Qed.

(** ** The log only grows, and what is appended does not depend on what is there *)
Definition prelog (l : list ev) (t : term) : term :=
  {| row := row t; col := col t; sgr := sgr t; visible := visible t; synced := synced t;
     parser := parser t; pending := pending t; log := l ++ log t |}.

Lemma step_prelog l lm t x : step lm (prelog l t) x = prelog l (step lm t x).
Proof.
  unfold step. change (parser (prelog l t)) with (parser t).
  assert (G : forall t x, step_ground lm (prelog l t) x = prelog l (step_ground lm t x)).
  { intros t0 x0. destruct x0; cbn [step_ground]; try reflexivity;
      try (unfold prelog, emit, set_pos; cbn; rewrite ?app_assoc; reflexivity).
    - change (pending (prelog l t0)) with (pending t0). destruct (pending t0).
      + unfold prelog, emit; cbn. rewrite app_assoc. reflexivity.
      + destruct more; [reflexivity|]. unfold place. destruct (kk_stay k);
          unfold prelog, emit, set_pos; cbn; rewrite ?app_assoc; reflexivity.
    - change (pending (prelog l t0)) with (pending t0). destruct (pending t0) as [k0|].
      + destruct more; [reflexivity|]. unfold place. destruct (kk_stay k0);
          unfold prelog, emit, set_pos, set_pending; cbn; rewrite ?app_assoc; reflexivity.
      + unfold prelog, emit; cbn. rewrite app_assoc. reflexivity.
    - destruct dnmc; unfold prelog, emit, set_pos; cbn; rewrite ?app_assoc; reflexivity.
    - destruct k; reflexivity. }
  destruct (parser t).
  - apply G.
  - destruct (is_esc_seq x).
    + change (set_parser (prelog l t) Ground) with (prelog l (set_parser t Ground)). apply G.
    + destruct x; try apply G.
      unfold prelog, emit, set_parser; cbn. rewrite app_assoc. reflexivity.
  - destruct x; reflexivity.
Qed.

Theorem exec_prelog l lm ts : forall t, exec lm (prelog l t) ts = prelog l (exec lm t ts).
Proof.
  induction ts as [|x ts IH]; intros t; [reflexivity|].
  cbn [exec fold_left]. rewrite step_prelog. apply IH.
Qed.
