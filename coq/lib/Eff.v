(** Effect skeletons (DESIGN 3.2): a tiny structured language for the
    try/except/finally + effect-call skeleton of the functions that must clean up,
    a nondeterministic big-step semantics with faults, and an executable analysis
    ([exec]/[analyze]: the collecting semantics over the finite obligation vector,
    loops by a fixpoint).  Soundness is in [EffSound.v].  Definitions only. *)
From Coq Require Import List Bool Arith.
Import ListNotations.

(** * Exceptions, operations *)

(** Two kinds of exception are distinguished: [KI] (KeyboardInterrupt) and [Exc]
    (any [Exception] subclass). *)
Inductive exn := KI | Exc.

(** What a stream write carries. *)
Inductive wkind :=
| WHide    (* contains HIDE_CURSOR *)
| WShow    (* contains SHOW_CURSOR *)
| WFrame   (* render output (may contain graphics-protocol strings) *)
| WCtl.    (* anything else (newlines, cursor movement, SGR reset) *)

(** Resources whose value is saved in a local variable and put back later. *)
Inductive res := RTermios | RSize | RSeek.

(** Tracked effect calls.  [x] = index of a local snapshot variable, [i] = index of a
    PIL image variable. *)
Inductive op :=
| Snap (r : res) (x : nat)   (* x := current value of r     (tcgetattr / _size = self._size / ...) *)
| Taint (x : nat)            (* the value held by x is changed (new_attr[3] &= ~ECHO)  *)
| Put (r : res) (x : nat)    (* r := value held by x         (tcsetattr(.., x) / self.size = x / ...) *)
| Modify (r : res)           (* r is changed to something else (set_size(..), seek) *)
| TtyRead | TtyWrite | Select | Drain | Clock | More   (* os.read os.write select tcdrain monotonic more() *)
| Write (w : wkind) | Flush | Sleep
| Render                     (* _render_ / next(render_iter) / _render_image *)
| AnimNext                   (* old API: next(image_it._animator): renders and moves the seek position *)
| HandleInterrupt            (* _handle_interrupted_draw[_] *)
| NewData | Finalize         (* _get_render_data_ / render_data.finalize() *)
| OpenIter | CloseIter       (* RenderIterator / ImageIterator creation / .close() *)
| OpenImg (i : nat) | CloseImg (i : nat)
| Other.                     (* any other call: no tracked effect, may raise *)

Notation GetAttr x := (Snap RTermios x).
Notation MutAttr x := (Taint x).
Notation SetAttr x := (Put RTermios x).
Notation SaveSize x := (Snap RSize x).
Notation RestoreSize x := (Put RSize x).
Notation FixSize := (Modify RSize).
Notation SaveSeek x := (Snap RSeek x).
Notation RestoreSeek x := (Put RSeek x).
Notation MoveSeek := (Modify RSeek).
Notation HideCursor := (Write WHide).
Notation ShowCursor := (Write WShow).

(** * Programs *)

(** Catch mode of a handler slot: the exception kind is not caught / certainly caught
    (e.g. [except KeyboardInterrupt] for [KI], [except Exception] for [Exc]) / caught or
    not (a handler for a specific [Exception] subclass, seen from a generic [Exc]). *)
Inductive cmode := CNo | CYes | CMay.

Inductive prog :=
| Skip
| Op (o : op)
| Seq (a b : prog)
| Choice (a b : prog)              (* condition on untracked data *)
| Loop (b : prog)                  (* zero or more iterations *)
| TryFinally (prot : bool) (b f : prog)
    (* [prot]: the finally block is a clean-up block of the function under analysis
       (no fault is injected inside it); [false] for a callee inlined into the body *)
| TryExcept (prot : bool) (b : prog) (mk : cmode) (hk : prog) (me : cmode) (he : prog)
    (* handler [hk] for KeyboardInterrupt, [he] for Exception; a bare [raise] inside a
       handler is translated to [Raise] of that slot's kind *)
| Raise (k : exn)
| Return
| IfVar (x : nat) (a b : prog)     (* condition on a tracked boolean local *)
| SetVar (x : nat) (v : bool)
| Call (p : prog).                 (* inlined call: a [Return] inside ends the call only *)

Definition Havoc (x : nat) : prog := Choice (SetVar x true) (SetVar x false).
(** sequence of statements *)
Definition sq (l : list prog) : prog := fold_right Seq Skip l.
(** x := y / x := not y on tracked booleans *)
Definition CopyVar (x y : nat) : prog := IfVar y (SetVar x true) (SetVar x false).
Definition CopyNotVar (x y : nat) : prog := IfVar y (SetVar x false) (SetVar x true).

(** every top-level clean-up block of an inlined callee is an ordinary (faultable) part
    of the caller's body *)
Fixpoint unprotect (p : prog) : prog :=
  match p with
  | Seq a b => Seq (unprotect a) (unprotect b)
  | Choice a b => Choice (unprotect a) (unprotect b)
  | Loop b => Loop (unprotect b)
  | TryFinally _ b f => TryFinally false (unprotect b) (unprotect f)
  | TryExcept _ b mk hk me he => TryExcept false (unprotect b) mk (unprotect hk) me (unprotect he)
  | IfVar x a b => IfVar x (unprotect a) (unprotect b)
  | Call p => Call (unprotect p)
  | Skip | Op _ | Raise _ | Return | SetVar _ _ => p
  end.

(** every clean-up block, including those of inlined callees, is a clean-up block of the
    operation under analysis (used when the property is about a whole operation, e.g.
    draw(): "interrupted at any point before its own clean-up starts") *)
Fixpoint protect (p : prog) : prog :=
  match p with
  | Seq a b => Seq (protect a) (protect b)
  | Choice a b => Choice (protect a) (protect b)
  | Loop b => Loop (protect b)
  | TryFinally _ b f => TryFinally true (protect b) (protect f)
  | TryExcept _ b mk hk me he => TryExcept true (protect b) mk (protect hk) me (protect he)
  | IfVar x a b => IfVar x (protect a) (protect b)
  | Call p => Call (protect p)
  | Skip | Op _ | Raise _ | Return | SetVar _ _ => p
  end.

(** * State: the vector of obligations *)

Record st := mkst {
  vars : list bool;     (* tracked boolean locals *)
  snaps : list bool;    (* snapshot variable x holds the entry value of its resource *)
  tmod : bool;          (* terminal attributes differ from those at entry *)
  szmod : bool;         (* image size setting differs from the one at entry *)
  skmod : bool;         (* seek position differs from the one at entry *)
  hidden : bool;        (* cursor hidden *)
  unfin : bool;         (* render data created and not finalized *)
  iter_open : bool;     (* frame iterator open *)
  pend : bool;          (* frame data written and not yet flushed *)
  cut : bool;           (* a frame write was interrupted and not handled *)
  kiseen : bool;        (* ghost: a KeyboardInterrupt fault has been injected *)
  excseen : bool;       (* ghost: an Exception fault has been injected *)
  imgs : list bool      (* image i opened by the library and not closed *)
}.

Fixpoint upd (n : nat) (v : bool) (l : list bool) : list bool :=
  match n, l with
  | 0, [] => [v]
  | 0, _ :: t => v :: t
  | S m, [] => false :: upd m v []
  | S m, h :: t => h :: upd m v t
  end.
Definition get (n : nat) (l : list bool) : bool := nth n l false.

Definition rmod (r : res) (s : st) : bool :=
  match r with RTermios => tmod s | RSize => szmod s | RSeek => skmod s end.

Definition set_vars v s := mkst v (snaps s) (tmod s) (szmod s) (skmod s) (hidden s) (unfin s) (iter_open s) (pend s) (cut s) (kiseen s) (excseen s) (imgs s).
Definition set_snaps v s := mkst (vars s) v (tmod s) (szmod s) (skmod s) (hidden s) (unfin s) (iter_open s) (pend s) (cut s) (kiseen s) (excseen s) (imgs s).
Definition set_hidden v s := mkst (vars s) (snaps s) (tmod s) (szmod s) (skmod s) v (unfin s) (iter_open s) (pend s) (cut s) (kiseen s) (excseen s) (imgs s).
Definition set_unfin v s := mkst (vars s) (snaps s) (tmod s) (szmod s) (skmod s) (hidden s) v (iter_open s) (pend s) (cut s) (kiseen s) (excseen s) (imgs s).
Definition set_iter v s := mkst (vars s) (snaps s) (tmod s) (szmod s) (skmod s) (hidden s) (unfin s) v (pend s) (cut s) (kiseen s) (excseen s) (imgs s).
Definition set_pend v s := mkst (vars s) (snaps s) (tmod s) (szmod s) (skmod s) (hidden s) (unfin s) (iter_open s) v (cut s) (kiseen s) (excseen s) (imgs s).
Definition set_cut v s := mkst (vars s) (snaps s) (tmod s) (szmod s) (skmod s) (hidden s) (unfin s) (iter_open s) (pend s) v (kiseen s) (excseen s) (imgs s).
Definition set_kiseen v s := mkst (vars s) (snaps s) (tmod s) (szmod s) (skmod s) (hidden s) (unfin s) (iter_open s) (pend s) (cut s) v (excseen s) (imgs s).
Definition set_excseen v s := mkst (vars s) (snaps s) (tmod s) (szmod s) (skmod s) (hidden s) (unfin s) (iter_open s) (pend s) (cut s) (kiseen s) v (imgs s).
Definition set_imgs v s := mkst (vars s) (snaps s) (tmod s) (szmod s) (skmod s) (hidden s) (unfin s) (iter_open s) (pend s) (cut s) (kiseen s) (excseen s) v.
Definition set_rmod r v s :=
  match r with
  | RTermios => mkst (vars s) (snaps s) v (szmod s) (skmod s) (hidden s) (unfin s) (iter_open s) (pend s) (cut s) (kiseen s) (excseen s) (imgs s)
  | RSize => mkst (vars s) (snaps s) (tmod s) v (skmod s) (hidden s) (unfin s) (iter_open s) (pend s) (cut s) (kiseen s) (excseen s) (imgs s)
  | RSeek => mkst (vars s) (snaps s) (tmod s) (szmod s) v (hidden s) (unfin s) (iter_open s) (pend s) (cut s) (kiseen s) (excseen s) (imgs s)
  end.

(** effect of a call that completes *)
Definition eff (o : op) (s : st) : st :=
  match o with
  | Snap r x => set_snaps (upd x (negb (rmod r s)) (snaps s)) s
  | Taint x => set_snaps (upd x false (snaps s)) s
  | Put r x => set_rmod r (negb (get x (snaps s))) s
  | Modify r => set_rmod r true s
  | Write WHide => set_hidden true s
  | Write WShow => set_hidden false s
  | Write WFrame => set_pend true s
  | Write WCtl => s
  | Flush => set_pend false s
  | AnimNext => set_rmod RSeek true s
  | HandleInterrupt => set_cut false (set_pend false s)
  | NewData => set_unfin true s
  | Finalize => set_unfin false s
  | OpenIter => set_iter true s
  | CloseIter => set_iter false s
  | OpenImg i => set_imgs (upd i true (imgs s)) s
  | CloseImg i => set_imgs (upd i false (imgs s)) s
  | TtyRead | TtyWrite | Select | Drain | Clock | More | Sleep | Render | Other => s
  end.

(** what an exception raised by call [o] additionally leaves behind: the ghost flag, and
    a possibly half-written frame when the call was writing / flushing frame data *)
Definition fault (o : op) (k : exn) (s : st) : st :=
  let s := match k with KI => set_kiseen true s | Exc => set_excseen true s end in
  match o with
  | Write WFrame => set_cut true s
  | Flush => if pend s then set_cut true s else s
  | _ => s
  end.

(** * Semantics *)

Inductive outcome := ONorm | ORet | ORaise (k : exn).

(** which calls may raise, and with which kinds *)
Record cfg := mkcfg { mf : op -> bool; fk : exn -> bool }.

Definition is_norm (o : outcome) : bool := match o with ONorm => true | _ => false end.
Definition may_catch (m : cmode) : bool := match m with CNo => false | _ => true end.
Definition may_miss (m : cmode) : bool := match m with CYes => false | _ => true end.
Definition after_finally (o o' : outcome) : outcome := match o' with ONorm => o | _ => o' end.
Definition after_call (o : outcome) : outcome := match o with ORet => ONorm | _ => o end.

Section Sem.
Variable C : cfg.

(** [eval c p s o s']: from state [s], program [p] may end with outcome [o] in state [s'];
    [c] = we are inside a clean-up block of the function under analysis (no faults). *)
Inductive eval : bool -> prog -> st -> outcome -> st -> Prop :=
| E_Skip c s : eval c Skip s ONorm s
| E_Op c o s : eval c (Op o) s ONorm (eff o s)
| E_FaultBefore o k s : mf C o = true -> fk C k = true ->
    eval false (Op o) s (ORaise k) (fault o k s)
| E_FaultAfter o k s : mf C o = true -> fk C k = true ->
    eval false (Op o) s (ORaise k) (fault o k (eff o s))
| E_SeqN c a b s s1 o s2 : eval c a s ONorm s1 -> eval c b s1 o s2 -> eval c (Seq a b) s o s2
| E_SeqA c a b s o s1 : eval c a s o s1 -> is_norm o = false -> eval c (Seq a b) s o s1
| E_ChoiceL c a b s o s1 : eval c a s o s1 -> eval c (Choice a b) s o s1
| E_ChoiceR c a b s o s1 : eval c b s o s1 -> eval c (Choice a b) s o s1
| E_Loop0 c b s : eval c (Loop b) s ONorm s
| E_LoopS c b s s1 o s2 : eval c b s ONorm s1 -> eval c (Loop b) s1 o s2 -> eval c (Loop b) s o s2
| E_LoopA c b s o s1 : eval c b s o s1 -> is_norm o = false -> eval c (Loop b) s o s1
| E_Finally c prot b f s o s1 o' s2 :
    eval c b s o s1 -> eval (c || prot) f s1 o' s2 ->
    eval c (TryFinally prot b f) s (after_finally o o') s2
| E_ExceptPass c prot b mk hk me he s o s1 :
    eval c b s o s1 -> (forall k, o <> ORaise k) ->
    eval c (TryExcept prot b mk hk me he) s o s1
| E_ExceptKI c prot b mk hk me he s s1 o s2 :
    eval c b s (ORaise KI) s1 -> may_catch mk = true -> eval (c || prot) hk s1 o s2 ->
    eval c (TryExcept prot b mk hk me he) s o s2
| E_ExceptExc c prot b mk hk me he s s1 o s2 :
    eval c b s (ORaise Exc) s1 -> may_catch me = true -> eval (c || prot) he s1 o s2 ->
    eval c (TryExcept prot b mk hk me he) s o s2
| E_MissKI c prot b mk hk me he s s1 :
    eval c b s (ORaise KI) s1 -> may_miss mk = true ->
    eval c (TryExcept prot b mk hk me he) s (ORaise KI) s1
| E_MissExc c prot b mk hk me he s s1 :
    eval c b s (ORaise Exc) s1 -> may_miss me = true ->
    eval c (TryExcept prot b mk hk me he) s (ORaise Exc) s1
| E_Raise c k s : eval c (Raise k) s (ORaise k) s
| E_Return c s : eval c Return s ORet s
| E_IfT c x a b s o s1 : get x (vars s) = true -> eval c a s o s1 -> eval c (IfVar x a b) s o s1
| E_IfF c x a b s o s1 : get x (vars s) = false -> eval c b s o s1 -> eval c (IfVar x a b) s o s1
| E_SetVar c x v s : eval c (SetVar x v) s ONorm (set_vars (upd x v (vars s)) s)
| E_Call c p s o s1 : eval c p s o s1 -> eval c (Call p) s (after_call o) s1.

(** * Analysis: the collecting semantics, executable *)

Definition exn_eqb (a b : exn) : bool := match a, b with KI, KI | Exc, Exc => true | _, _ => false end.
Definition out_eqb (a b : outcome) : bool :=
  match a, b with
  | ONorm, ONorm | ORet, ORet => true
  | ORaise x, ORaise y => exn_eqb x y
  | _, _ => false
  end.
Fixpoint lb_eqb (a b : list bool) : bool :=
  match a, b with
  | [], [] => true
  | x :: a', y :: b' => Bool.eqb x y && lb_eqb a' b'
  | _, _ => false
  end.
Definition st_eqb (a b : st) : bool :=
  lb_eqb (vars a) (vars b) && lb_eqb (snaps a) (snaps b) && Bool.eqb (tmod a) (tmod b)
  && Bool.eqb (szmod a) (szmod b) && Bool.eqb (skmod a) (skmod b) && Bool.eqb (hidden a) (hidden b)
  && Bool.eqb (unfin a) (unfin b) && Bool.eqb (iter_open a) (iter_open b) && Bool.eqb (pend a) (pend b)
  && Bool.eqb (cut a) (cut b) && Bool.eqb (kiseen a) (kiseen b) && Bool.eqb (excseen a) (excseen b)
  && lb_eqb (imgs a) (imgs b).
Definition os_eqb (a b : outcome * st) : bool := out_eqb (fst a) (fst b) && st_eqb (snd a) (snd b).

Definition res_t := list (outcome * st).

Fixpoint mem {A} (eqb : A -> A -> bool) (x : A) (l : list A) : bool :=
  match l with [] => false | y :: t => eqb x y || mem eqb x t end.

(** Sets of configurations are lists without duplicates; duplicates are removed through a
    binary trie keyed by an encoding of the element (a hash: it need not be injective,
    elements are compared with [eqb] at the node; only efficiency depends on it). *)
Section Trie.
Context {A : Type} (eqb : A -> A -> bool) (enc : A -> list bool).
Inductive trie := TLeaf | TNode (here : list A) (t0 t1 : trie).
(** insert [x] at path [bits]; the flag tells whether it was absent *)
Fixpoint tinsert (bits : list bool) (x : A) (t : trie) : trie * bool :=
  match bits with
  | [] =>
      match t with
      | TLeaf => (TNode [x] TLeaf TLeaf, true)
      | TNode h a b => if mem eqb x h then (t, false) else (TNode (x :: h) a b, true)
      end
  | bt :: rest =>
      match t with
      | TLeaf =>
          let r := tinsert rest x TLeaf in
          ((if bt then TNode [] TLeaf (fst r) else TNode [] (fst r) TLeaf), true)
      | TNode h a b =>
          if bt then let r := tinsert rest x b in (TNode h a (fst r), snd r)
          else let r := tinsert rest x a in (TNode h (fst r) b, snd r)
      end
  end.
Fixpoint telems (t : trie) : list A :=
  match t with TLeaf => [] | TNode h a b => h ++ telems a ++ telems b end.
(** insert all of [l]; returns the trie and the elements that were new (prepended to [fr]) *)
Fixpoint tfold (l : list A) (t : trie) (fr : list A) : trie * list A :=
  match l with
  | [] => (t, fr)
  | x :: r => let i := tinsert (enc x) x t in tfold r (fst i) (if snd i then x :: fr else fr)
  end.
Definition tdedup (l : list A) : list A := snd (tfold l TLeaf []).
(** the elements of [new] that are not in [old] (no duplicates) *)
Definition tfresh (old new : list A) : list A := snd (tfold new (fst (tfold old TLeaf [])) []).
End Trie.
Arguments TLeaf {A}.

Definition enc_list (l : list bool) : list bool := flat_map (fun b => [true; b]) l ++ [false].
Definition enc_st (s : st) : list bool :=
  tmod s :: szmod s :: skmod s :: hidden s :: unfin s :: iter_open s :: pend s :: cut s :: kiseen s :: excseen s
  :: enc_list (vars s) ++ enc_list (snaps s) ++ enc_list (imgs s).
Definition enc_os (os : outcome * st) : list bool :=
  match fst os with
  | ONorm => [false; false] | ORet => [false; true] | ORaise KI => [true; false] | ORaise Exc => [true; true]
  end ++ enc_st (snd os).
Definition dedup_st : list st -> list st := tdedup st_eqb enc_st.
Definition dedup_os : list (outcome * st) -> list (outcome * st) := tdedup os_eqb enc_os.
Definition fresh_st : list st -> list st -> list st := tfresh st_eqb enc_st.

Definition norm_states (R : res_t) : list st :=
  flat_map (fun os => if is_norm (fst os) then [snd os] else []) R.
Definition abrupt (R : res_t) : res_t := filter (fun os => negb (is_norm (fst os))) R.
Definition states_with (o : outcome) (R : res_t) : list st :=
  flat_map (fun os => if out_eqb (fst os) o then [snd os] else []) R.
Definition with_out (o : outcome) (S : list st) : res_t := map (fun s => (o, s)) S.
Definition is_raise (o : outcome) : bool := match o with ORaise _ => true | _ => false end.

(** least set of loop-head states closed under the body ([done]: heads whose successors
    are accounted for, [frontier]: new heads); [None] if [fuel] rounds are not enough *)
Fixpoint loop_fix (body : list st -> option res_t) (fuel : nat) (done frontier : list st) (exits : res_t)
  : option res_t :=
  match fuel with
  | 0 => None
  | S n =>
      match frontier with
      | [] => Some (with_out ONorm done ++ exits)
      | _ =>
          match body frontier with
          | None => None
          | Some R =>
              let done' := done ++ frontier in
              let new := fresh_st done' (norm_states R) in
              loop_fix body n done' new (dedup_os (exits ++ abrupt R))
          end
      end
  end.

Definition faults_of (c : bool) (o : op) (s : st) : res_t :=
  if negb c && mf C o then
    flat_map (fun k => if fk C k then [(ORaise k, fault o k s); (ORaise k, fault o k (eff o s))] else [])
             [KI; Exc]
  else [].

(** the finally block [ex] run from the states in which the body ended with outcome [o] *)
Definition fin_run (ex : list st -> option res_t) (Rb : res_t) (o : outcome) : option res_t :=
  match ex (dedup_st (states_with o Rb)) with
  | None => None
  | Some Rf => Some (map (fun os' => (after_finally o (fst os'), snd os')) Rf)
  end.

(** [exec fuel c p S]: all (outcome, final state) pairs of [p] started in a state of [S] *)
Fixpoint exec (fuel : nat) (c : bool) (p : prog) (S : list st) {struct p} : option res_t :=
  match S with
  | [] => Some []
  | _ =>
  match p with
  | Skip => Some (with_out ONorm S)
  | Op o => Some (dedup_os (flat_map (fun s => (ONorm, eff o s) :: faults_of c o s) S))
  | Seq a b =>
      match exec fuel c a S with
      | None => None
      | Some Ra =>
          match exec fuel c b (dedup_st (norm_states Ra)) with
          | None => None
          | Some Rb => Some (dedup_os (abrupt Ra ++ Rb))
          end
      end
  | Choice a b =>
      match exec fuel c a S, exec fuel c b S with
      | Some Ra, Some Rb => Some (dedup_os (Ra ++ Rb))
      | _, _ => None
      end
  | Loop b => loop_fix (exec fuel c b) fuel [] (dedup_st S) []
  | TryFinally prot b f =>
      match exec fuel c b S with
      | None => None
      | Some Rb =>
          let run := fin_run (exec fuel (c || prot) f) Rb in
          match run ONorm, run ORet, run (ORaise KI), run (ORaise Exc) with
          | Some R1, Some R2, Some R3, Some R4 => Some (dedup_os (R1 ++ R2 ++ R3 ++ R4))
          | _, _, _, _ => None
          end
      end
  | TryExcept prot b mk hk me he =>
      match exec fuel c b S with
      | None => None
      | Some Rb =>
          let SK := dedup_st (states_with (ORaise KI) Rb) in
          let SE := dedup_st (states_with (ORaise Exc) Rb) in
          match (if may_catch mk then exec fuel (c || prot) hk SK else Some []),
                (if may_catch me then exec fuel (c || prot) he SE else Some []) with
          | Some RK, Some RE =>
              Some (dedup_os (filter (fun os => negb (is_raise (fst os))) Rb
                                  ++ (if may_miss mk then with_out (ORaise KI) SK else [])
                                  ++ (if may_miss me then with_out (ORaise Exc) SE else [])
                                  ++ RK ++ RE))
          | _, _ => None
          end
      end
  | Raise k => Some (with_out (ORaise k) S)
  | Return => Some (with_out ORet S)
  | IfVar x a b =>
      match exec fuel c a (filter (fun s => get x (vars s)) S),
            exec fuel c b (filter (fun s => negb (get x (vars s))) S) with
      | Some Ra, Some Rb => Some (dedup_os (Ra ++ Rb))
      | _, _ => None
      end
  | SetVar x v => Some (dedup_os (map (fun s => (ONorm, set_vars (upd x v (vars s)) s)) S))
  | Call p =>
      match exec fuel c p S with
      | None => None
      | Some R => Some (dedup_os (map (fun os => (after_call (fst os), snd os)) R))
      end
  end
  end.

End Sem.

(** clean state with the given valuation of the tracked booleans *)
Definition init (vs : list bool) : st :=
  mkst vs [] false false false false false false false false false false [].

Fixpoint all_vals (n : nat) : list (list bool) :=
  match n with
  | 0 => [[]]
  | S m => flat_map (fun v => [true :: v; false :: v]) (all_vals m)
  end.

Definition default_fuel := 200.

(** [analyze C nv p post]: every final (outcome, state) of [p] from a clean state, for every
    valuation of the [nv] tracked booleans at entry, satisfies [post] *)
Definition analyze (C : cfg) (nv : nat) (p : prog) (post : outcome -> st -> bool) : bool :=
  match exec C default_fuel false p (map init (all_vals nv)) with
  | Some R => forallb (fun os => post (fst os) (snd os)) R
  | None => false
  end.

(** diagnostics: the final configurations that violate [post] ([None]: out of fuel) *)
Definition counterexamples (C : cfg) (nv : nat) (p : prog) (post : outcome -> st -> bool)
  : option res_t :=
  match exec C default_fuel false p (map init (all_vals nv)) with
  | Some R => Some (filter (fun os => negb (post (fst os) (snd os))) R)
  | None => None
  end.

(** * Standard configurations and post-conditions *)

Definition all_kinds (k : exn) := true.
Definition only_ki (k : exn) := match k with KI => true | Exc => false end.

(** C13: every call may raise *)
Definition cfg_all : cfg := mkcfg (fun _ => true) all_kinds.
(** C07: write / flush / sleep / render calls may raise *)
Definition mf_draw (o : op) : bool :=
  match o with Write _ | Flush | Sleep | Render | AnimNext => true | _ => false end.
Definition cfg_draw : cfg := mkcfg mf_draw all_kinds.
Definition cfg_draw_ki : cfg := mkcfg mf_draw only_ki.
(** C10 / C11: render and conversion calls (and any untracked call) may raise *)
Definition mf_render (o : op) : bool :=
  match o with Render | AnimNext | Other => true | _ => false end.
Definition cfg_render : cfg := mkcfg mf_render all_kinds.

Definition imgs_closed (s : st) : bool := forallb negb (imgs s).

(** every obligation discharged *)
Definition all_clean (s : st) : bool :=
  negb (tmod s) && negb (szmod s) && negb (skmod s) && negb (hidden s) && negb (unfin s)
  && negb (iter_open s) && imgs_closed s.
