(** * TermScroll — events of an execution, state independence, scrolling windows (C06)

    [lib/Term.v] executes tokens on an unbounded plane of *virtual* rows.  A real screen
    is a window of [H] rows onto that plane whose top row only ever moves down: a line
    feed issued on the window's bottom row scrolls (the window moves down by one, the
    virtual cursor row still increases by one), while every other cursor movement is
    clamped by a real terminal at the window's edges.  [srun] follows the window through
    an execution and accepts it only when the plane semantics is what a real terminal
    does: every cursor movement, glyph and erasure lies inside the current window and
    below column [W]; an image must start inside the window and may hang below it (it is
    kept by the terminal and scrolls into view with the line feeds that follow: the kitty
    / konsole convention for placements that do not move the cursor; a placement that
    moves the cursor must fit, because its cursor movement must).

    Also here: the events appended by an execution as a function ([exec_evs]) of the
    "core" of the state (position, attributes, protocol state) — not of the log, the
    cursor visibility or the synchronisation flag — and [lastcov], the last event
    determining a cell. *)
From Coq Require Import List ZArith Bool Lia.
Import ListNotations.
From TI Require Import lib.Term lib.TermFacts.
Open Scope Z_scope.

(** ** the events a step appends *)
Definition place_evs (t : term) (k : kitty_keys) : list ev :=
  EImg (row t) (col t) (kk_rows k) (kk_cols k) (kk_z k)
  :: (if kk_stay k then [] else [EMove (row t + kk_rows k - 1) (col t + kk_cols k)]).

Definition ground_evs (lm : Z) (t : term) (x : tok) : list ev :=
  match x with
  | TChar g => [EText (row t) (col t) g (sgr t)]
  | TCR => [EMove (row t) lm]
  | TLF => [EMove (row t + 1) lm]
  | TCuu n => [EMove (row t - pos1 n) (col t)]
  | TCud n => [EMove (row t + pos1 n) (col t)]
  | TCuf n => [EMove (row t) (col t + pos1 n)]
  | TCub n => [EMove (row t) (col t - pos1 n)]
  | TEch n => erase_evs (row t) (col t) (sgr t) (Z.to_nat (pos1 n))
  | TKittyFirst k more _ =>
    match pending t with
    | Some _ => [EGarbled]
    | None => if more then [] else place_evs t k
    end
  | TKittyCont more _ =>
    match pending t with
    | None => [EGarbled]
    | Some k => if more then [] else place_evs t k
    end
  | TKittyDel d => [EDel d (row t) (col t)]
  | TIterm w h dnmc _ _ =>
    EImg (row t) (col t) h w 0
    :: (if dnmc then [] else [EMove (row t + h - 1) (col t + w)])
  | _ => []
  end.

Definition step_evs (lm : Z) (t : term) (x : tok) : list ev :=
  match parser t with
  | Ground => ground_evs lm t x
  | InCsi =>
    if is_esc_seq x then ground_evs lm t x
    else match x with
         | TChar _ => [EGarbled]
         | _ => ground_evs lm t x
         end
  | InStr => []
  end.

Lemma ground_log lm t x : log (step_ground lm t x) = log t ++ ground_evs lm t x.
Proof.
  destruct x; cbn [step_ground ground_evs]; try (cbn; rewrite ?app_nil_r; reflexivity).
  - destruct (pending t); [reflexivity|]. destruct more; [cbn; rewrite app_nil_r; reflexivity|].
    unfold place, place_evs. destruct (kk_stay k); cbn; [reflexivity|].
    rewrite <- app_assoc. reflexivity.
  - destruct (pending t) as [k0|]; [|reflexivity].
    destruct more; [cbn; rewrite app_nil_r; reflexivity|].
    unfold place, place_evs. destruct (kk_stay k0); cbn; [reflexivity|].
    rewrite <- app_assoc. reflexivity.
  - destruct dnmc; cbn; [reflexivity|]. rewrite <- app_assoc. reflexivity.
  - destruct k; cbn; rewrite app_nil_r; reflexivity.
Qed.

Lemma step_log lm t x : log (step lm t x) = log t ++ step_evs lm t x.
Proof.
  unfold step, step_evs. destruct (parser t).
  - apply ground_log.
  - destruct (is_esc_seq x).
    + rewrite ground_log. reflexivity.
    + destruct x; try apply ground_log. reflexivity.
  - destruct x; cbn; rewrite ?app_nil_r; reflexivity.
Qed.

Fixpoint exec_evs (lm : Z) (t : term) (ts : list tok) : list ev :=
  match ts with
  | [] => []
  | x :: rest => step_evs lm t x ++ exec_evs lm (step lm t x) rest
  end.

Lemma exec_log lm : forall ts t, log (exec lm t ts) = log t ++ exec_evs lm t ts.
Proof.
  induction ts as [|x ts IH]; intros t; cbn [exec fold_left exec_evs].
  - rewrite app_nil_r. reflexivity.
  - change (fold_left (step lm) ts (step lm t x)) with (exec lm (step lm t x) ts).
    rewrite IH, step_log, app_assoc. reflexivity.
Qed.

Lemma exec_evs_app lm : forall a b t,
  exec_evs lm t (a ++ b) = exec_evs lm t a ++ exec_evs lm (exec lm t a) b.
Proof.
  induction a as [|x a IH]; intros b t; [reflexivity|].
  cbn [app exec_evs]. rewrite IH, exec_cons, app_assoc. reflexivity.
Qed.

(** [mk] results expose the events *)
Lemma exec_mk_evs lm t ts r c a evs :
  exec lm t ts = mk r c a t evs -> exec_evs lm t ts = evs.
Proof.
  intros E. pose proof (exec_log lm ts t) as L. rewrite E in L. cbn [log mk] in L.
  apply app_inv_head in L. congruence.
Qed.

(** ** independence from the log, the visibility and the synchronisation flag *)
Definition sim (a b : term) : Prop :=
  row a = row b /\ col a = col b /\ sgr a = sgr b /\ parser a = parser b /\ pending a = pending b.

Lemma sim_refl a : sim a a.
Proof. repeat split. Qed.
Lemma sim_sym a b : sim a b -> sim b a.
Proof. intros (A & B & C & D & E). repeat split; congruence. Qed.
Lemma sim_trans a b c : sim a b -> sim b c -> sim a c.
Proof. intros (A & B & C & D & E) (A' & B' & C' & D' & E'). repeat split; congruence. Qed.

Lemma sim_mk r c a t es : sim (mk r c a t es) (mk r c a t []).
Proof. repeat split. Qed.

Lemma ground_sim lm a b x : sim a b ->
  sim (step_ground lm a x) (step_ground lm b x) /\ ground_evs lm a x = ground_evs lm b x.
Proof.
  intros (A & B & C & D & E).
  assert (Eb : pending b = pending b) by reflexivity.
  destruct x; cbn [step_ground ground_evs]; unfold sim;
    try (cbn; rewrite ?A, ?B, ?C, ?D, ?E; repeat split; reflexivity).
  - rewrite E. clear Eb. destruct (pending b) eqn:Eb.
    + cbn; rewrite ?A, ?B, ?C, ?D, ?E, ?Eb; repeat split; reflexivity.
    + destruct more; [cbn; rewrite ?A, ?B, ?C, ?D; repeat split; reflexivity|].
      unfold place, place_evs. destruct (kk_stay k); cbn; rewrite ?A, ?B, ?C, ?D, ?E, ?Eb;
        repeat split; reflexivity.
  - rewrite E. clear Eb. destruct (pending b) as [k0|] eqn:Eb.
    + destruct more; [cbn; rewrite ?A, ?B, ?C, ?D, ?E, ?Eb; repeat split; reflexivity|].
      unfold place, place_evs. destruct (kk_stay k0); cbn; rewrite ?A, ?B, ?C, ?D;
        repeat split; reflexivity.
    + cbn; rewrite ?A, ?B, ?C, ?D, ?E, ?Eb; repeat split; reflexivity.
  - destruct dnmc; cbn; rewrite ?A, ?B, ?C, ?D, ?E; repeat split; reflexivity.
  - destruct k; cbn; rewrite ?A, ?B, ?C, ?E; repeat split; reflexivity.
Qed.

Lemma sim_set_parser a b p : sim a b -> sim (set_parser a p) (set_parser b p).
Proof. intros (A & B & C & D & E). repeat split; cbn; congruence. Qed.

Lemma step_sim lm a b x : sim a b ->
  sim (step lm a x) (step lm b x) /\ step_evs lm a x = step_evs lm b x.
Proof.
  intros S. pose proof S as (A & B & C & D & E). unfold step, step_evs. rewrite D.
  destruct (parser b).
  - apply ground_sim, S.
  - destruct (is_esc_seq x).
    + destruct (ground_sim lm _ _ x (sim_set_parser a b Ground S)) as [S1 E1].
      split; [exact S1|]. exact (proj2 (ground_sim lm a b x S)).
    + destruct x; try apply ground_sim, S.
      split; [|reflexivity]. repeat split; cbn; congruence.
  - split; [|reflexivity]. destruct x; try exact S. apply sim_set_parser, S.
Qed.

Lemma exec_sim lm : forall ts a b, sim a b ->
  sim (exec lm a ts) (exec lm b ts) /\ exec_evs lm a ts = exec_evs lm b ts.
Proof.
  induction ts as [|x ts IH]; intros a b S; [split; [exact S|reflexivity]|].
  destruct (step_sim lm a b x S) as [S1 E1]. destruct (IH _ _ S1) as [S2 E2].
  cbn [exec fold_left exec_evs]. split; [exact S2|]. rewrite E1, E2. reflexivity.
Qed.

(** hiding / showing the cursor does not change the core *)
Lemma sim_set_visible a v : sim (set_visible a v) a.
Proof. repeat split. Qed.

(** [exec] of a stream without LF / CR does not depend on the left margin *)
Lemma step_evs_lm_indep lm1 lm2 t x : is_lf x = false ->
  match x with TCR => false | _ => true end = true -> step_evs lm1 t x = step_evs lm2 t x.
Proof.
  intros H1 H2. unfold step_evs. destruct (parser t); [| |reflexivity];
    destruct x; try discriminate; reflexivity.
Qed.

(** ** the last event determining a cell *)
Fixpoint lastcov_from (acc : option ev) (evs : list ev) (r c : Z) : option ev :=
  match evs with
  | [] => acc
  | e :: rest => lastcov_from (if ev_covers r c e then Some e else acc) rest r c
  end.
Definition lastcov (evs : list ev) (r c : Z) : option ev := lastcov_from None evs r c.

Lemma lastcov_from_app acc a b r c :
  lastcov_from acc (a ++ b) r c = lastcov_from (lastcov_from acc a r c) b r c.
Proof. revert acc; induction a as [|e a IH]; intros acc; [reflexivity|]. cbn. apply IH. Qed.

Lemma lastcov_from_none acc evs r c :
  covered evs r c = false -> lastcov_from acc evs r c = acc.
Proof.
  revert acc; induction evs as [|e evs IH]; intros acc Hc; [reflexivity|].
  unfold covered in *. cbn [existsb] in Hc. apply orb_false_iff in Hc. destruct Hc as [H1 H2].
  cbn [lastcov_from]. rewrite H1. apply IH, H2.
Qed.

Lemma lastcov_from_cov acc evs r c :
  covered evs r c = true -> lastcov_from acc evs r c = lastcov evs r c.
Proof.
  unfold lastcov. revert acc. generalize (@None ev) as acc0.
  induction evs as [|e evs IH]; intros acc0 acc Hc; [discriminate|].
  unfold covered in *. cbn [existsb] in Hc. cbn [lastcov_from].
  destruct (ev_covers r c e) eqn:E.
  - reflexivity.
  - cbn [orb] in Hc. apply IH, Hc.
Qed.

Lemma lastcov_app_cov a b r c : covered b r c = true -> lastcov (a ++ b) r c = lastcov b r c.
Proof. intros H. unfold lastcov at 1. rewrite lastcov_from_app. apply lastcov_from_cov, H. Qed.

Lemma lastcov_app_none a b r c : covered b r c = false -> lastcov (a ++ b) r c = lastcov a r c.
Proof. intros H. unfold lastcov at 1. rewrite lastcov_from_app. apply lastcov_from_none, H. Qed.

Lemma lastcov_none evs r c : covered evs r c = false -> lastcov evs r c = None.
Proof. apply lastcov_from_none. Qed.

(** when every covering event is the same event, that is what shows *)
Lemma lastcov_const e0 evs r c :
  covered evs r c = true -> (forall e, In e evs -> ev_covers r c e = true -> e = e0) ->
  lastcov evs r c = Some e0.
Proof.
  unfold lastcov. generalize (@None ev) as acc.
  induction evs as [|e evs IH]; intros acc Hc Hall; [discriminate|].
  unfold covered in *. cbn [existsb] in Hc. cbn [lastcov_from].
  destruct (ev_covers r c e) eqn:E.
  - rewrite (Hall e (or_introl eq_refl) E).
    destruct (existsb (ev_covers r c) evs) eqn:E2.
    + apply IH; [reflexivity|]. intros e' Hin. apply Hall. right. exact Hin.
    + apply lastcov_from_none. exact E2.
  - cbn [orb] in Hc. apply IH; [exact Hc|]. intros e' Hin. apply Hall. right. exact Hin.
Qed.

Lemma covered_false_forall evs r c :
  (forall e, In e evs -> ev_covers r c e = false) -> covered evs r c = false.
Proof.
  intros H. unfold covered. induction evs as [|e evs IH]; [reflexivity|].
  cbn [existsb]. rewrite (H e (or_introl eq_refl)). apply IH. intros e' Hin. apply H. right. exact Hin.
Qed.

(** an event inside a rectangle covers only cells of it *)
Lemma inside_covers r0 c0 h w e r c :
  ev_inside r0 c0 h w e = true -> ev_covers r c e = true ->
  r0 <= r < r0 + h /\ c0 <= c < c0 + w.
Proof.
  destruct e; cbn [ev_inside ev_covers]; try discriminate;
    rewrite ?andb_true_iff, ?Z.leb_le, ?Z.ltb_lt, ?Z.eqb_eq; lia.
Qed.

(** ** windows *)
Definition ev_win (W H top : Z) (e : ev) : bool :=
  match e with
  | EImg r c h' w' _ =>
    (top <=? r) && (r <? top + H) && (0 <=? c) && (c + w' <=? W) && (0 <? h') && (0 <? w')
  | EDel _ r c => (top <=? r) && (r <? top + H) && (0 <=? c) && (c <=? W)
  | _ => ev_inside top 0 H W e
  end.

Lemma inside_win W H top e : ev_inside top 0 H W e = true -> ev_win W H top e = true.
Proof.
  destruct e; cbn [ev_inside ev_win]; try (intros; assumption);
    rewrite ?andb_true_iff, ?Z.leb_le, ?Z.ltb_lt; lia.
Qed.

(** an event inside a rectangle that lies in the window *)
Lemma rect_win W H top r0 c0 h w e :
  ev_inside r0 c0 h w e = true -> top <= r0 -> r0 + h <= top + H -> 0 <= c0 -> c0 + w <= W ->
  ev_win W H top e = true.
Proof.
  intros Hi H1 H2 H3 H4. apply inside_win.
  destruct e; cbn [ev_inside] in *; try discriminate;
    rewrite ?andb_true_iff, ?Z.leb_le, ?Z.ltb_lt in *; lia.
Qed.

(** a line feed executed on the bottom row of the window scrolls *)
Definition scrolls (H top : Z) (t : term) (x : tok) : bool :=
  match x with
  | TLF => match parser t with InStr => false | _ => row t =? top + H - 1 end
  | _ => false
  end.

Fixpoint srun (W H lm top : Z) (t : term) (ts : list tok) : option Z :=
  match ts with
  | [] => Some top
  | x :: rest =>
    let top' := if scrolls H top t x then top + 1 else top in
    if forallb (ev_win W H top') (step_evs lm t x) then srun W H lm top' (step lm t x) rest
    else None
  end.

Lemma srun_app W H lm : forall a b top t,
  srun W H lm top t (a ++ b) =
  match srun W H lm top t a with
  | Some top1 => srun W H lm top1 (exec lm t a) b
  | None => None
  end.
Proof.
  induction a as [|x a IH]; intros b top t; [reflexivity|].
  cbn [app srun]. destruct (forallb _ _); [|reflexivity]. rewrite IH, exec_cons. reflexivity.
Qed.

(** an execution all of whose events lie in the window does not scroll *)
Lemma srun_noscroll W H lm top : forall ts t,
  forallb (ev_win W H top) (exec_evs lm t ts) = true -> srun W H lm top t ts = Some top.
Proof.
  induction ts as [|x ts IH]; intros t Hf; [reflexivity|].
  cbn [exec_evs] in Hf. rewrite forallb_app in Hf. apply andb_true_iff in Hf. destruct Hf as [H1 H2].
  cbn [srun]. destruct (scrolls H top t x) eqn:Es.
  - exfalso. unfold scrolls in Es. destruct x; try discriminate.
    unfold step_evs in H1. destruct (parser t); try discriminate;
      apply Z.eqb_eq in Es; cbn in H1; rewrite Es in H1;
      rewrite !andb_true_iff, ?Z.leb_le, ?Z.ltb_lt in H1; lia.
  - rewrite H1. apply IH, H2.
Qed.

(** [srun] depends on the core of the state only *)
Lemma srun_sim W H lm : forall ts top a b, sim a b -> srun W H lm top a ts = srun W H lm top b ts.
Proof.
  induction ts as [|x ts IH]; intros top a b S; [reflexivity|].
  destruct (step_sim lm a b x S) as [S1 E1]. cbn [srun]. rewrite E1.
  assert (Es : scrolls H top a x = scrolls H top b x).
  { unfold scrolls. destruct S as (A & _ & _ & D & _). rewrite A, D. reflexivity. }
  rewrite Es. destruct (forallb _ _); [|reflexivity]. apply IH, S1.
Qed.

(** inside a box, or the cursor movement to the start of the line below it *)
Definition ev_box_or_below (r0 lm ph pw : Z) (e : ev) : bool :=
  ev_inside r0 lm ph pw e
  || match e with EMove r c => (r =? r0 + ph) && (c =? lm) | _ => false end.
