(** Executable forms used by the correspondence checks: token equality, the boolean
    render-contract check [rect_checkb] (the property oracle of C01/C05 run on the
    implementation's own output), cell views for C02/C17. *)
From Coq Require Import List ZArith Bool Lia.
Import ListNotations.
From TI Require Import lib.Term lib.TermFacts lib.Rect.
Open Scope Z_scope.

Definition glyph_dec (a b : glyph) : {a = b} + {a <> b}.
Proof. decide equality; apply Z.eq_dec. Defined.
Definition rgb_dec (a b : rgb) : {a = b} + {a <> b}.
Proof. repeat decide equality. Defined.
Definition kk_dec (a b : kitty_keys) : {a = b} + {a <> b}.
Proof. decide equality; try apply Z.eq_dec; apply bool_dec. Defined.
Definition kdel_dec (a b : kitty_del) : {a = b} + {a <> b}.
Proof. decide equality; apply Z.eq_dec. Defined.
Definition cut_dec (a b : cut_kind) : {a = b} + {a <> b}.
Proof. decide equality. Defined.
Definition tok_dec (a b : tok) : {a = b} + {a <> b}.
Proof.
  decide equality; try apply Z.eq_dec; try apply bool_dec; try apply glyph_dec;
    try apply rgb_dec; try apply kk_dec; try apply kdel_dec; try apply cut_dec.
Defined.
Definition toks_eqb (a b : list tok) : bool := if list_eq_dec tok_dec a b then true else false.

(** index of the first difference (for reports) *)
Fixpoint first_diff (a b : list tok) (i : nat) : option nat :=
  match a, b with
  | [], [] => None
  | x :: a', y :: b' => if tok_dec x y then first_diff a' b' (S i) else Some i
  | _, _ => Some i
  end.

Definition start (r0 lm : Z) : term :=
  {| row := r0; col := lm; sgr := adefault; visible := true; synced := false;
     parser := Ground; pending := None; log := [] |}.

Definition orgb_dec (a b : option rgb) : {a = b} + {a <> b}.
Proof. decide equality; apply rgb_dec. Defined.
Definition attrs_eqb (a b : attrs) : bool :=
  (if orgb_dec (fg a) (fg b) then true else false)
  && (if orgb_dec (bg a) (bg b) then true else false).

Definition is_ground (p : pstate) : bool := match p with Ground => true | _ => false end.
Definition is_none {A} (o : option A) : bool := match o with None => true | _ => false end.

Fixpoint lf_okb (lm w : Z) (t : term) (ts : list tok) : bool :=
  match ts with
  | [] => true
  | x :: rest =>
    (match x with
     | TLF => (col t =? lm + w) && attrs_eqb (sgr t) adefault && is_ground (parser t)
     | _ => true
     end) && lf_okb lm w (step lm t x) rest
  end.

Definition zrange (a n : Z) : list Z := map (fun i => a + Z.of_nat i) (seq 0 (Z.to_nat n)).

(** the render contract, decided on one start position: bit k of the result is set when
    clause k fails (0 = all hold) *)
Definition rect_check_need (need : Z -> Z -> bool) (w h lm r0 : Z) (R : list tok) : list bool :=
  let t := start r0 lm in
  let t' := exec lm t R in
  [ forallb (ev_inside r0 lm h w) (log t');
    forallb (fun r => forallb (fun c => negb (need (r - r0) (c - lm)) || covered (log t') r c)
                              (zrange lm w)) (zrange r0 h);
    (row t' =? r0 + h - 1) && (col t' =? lm + w);
    attrs_eqb (sgr t') adefault;
    is_ground (parser t') && is_none (pending t');
    visible t' && negb (synced t');
    Nat.eqb (count_lf R) (Z.to_nat (h - 1));
    negb (is_lf (last R TNul));
    lf_okb lm w t R ].
Definition rect_check := rect_check_need all_cells.
Definition rect_checkb (w h lm r0 : Z) (R : list tok) : bool :=
  forallb (fun b => b) (rect_check w h lm r0 R).
Definition rect_checkb_need need (w h lm r0 : Z) (R : list tok) : bool :=
  forallb (fun b => b) (rect_check_need need w h lm r0 R).

(** (upper, lower) colours of the cells of an [h x w] area as integers for comparison:
    -1 = nothing there, -2 = terminal background, -3 = default foreground, else r*65536+g*256+b *)
Definition colour_code (c : colour) : Z :=
  match c with CBg0 => -2 | CFg0 => -3 | CRgb (r, g, b) => r * 65536 + g * 256 + b end.
Definition visual_code (v : cellview) : Z * Z :=
  match visual v with None => (-1, -1) | Some (u, l) => (colour_code u, colour_code l) end.
Definition area_codes (evs : list ev) (r0 c0 h w : Z) : list (list (Z * Z)) :=
  map (fun r => map (fun c => visual_code (view evs r c)) (zrange c0 w)) (zrange r0 h).
